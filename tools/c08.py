#!/usr/bin/env python3
"""C08 — the SVM decomposition solver keeps its dual state consistent and never loses objective.

proofs (Properties_C08.v) + one-step correspondence (extracted C08Model.step, float-instantiated,
applied to the implementation's previous snapshot, vs. the real QpSolver run observed through a
forwarding wrapper around the real problem object) + spec monitor evaluated on the implementation's
snapshots with an independently computed kernel matrix.

streams:  main     small-integer / dyadic data, C over several magnitudes  -> must be clean
          extreme  tiny-scale data with huge C (finding F3, repaired by /repo commit bc5f2886; a
                   recurrence carries the stable key  box2d:tiny-det-fallback)        -> must be clean
          long     hundreds of overlapping Gaussian points, Gaussian kernel, C in {10,100}, eps 1e-3: thousands of iterations,
                   SPARSE recording (state before/after every shrink / unshrink / checkKKT call).  SHRINK-EVENT MONITOR: every
                   variable removed by a shrink() call must be unable to improve the objective at that moment (true gradient
                   lin - K alpha from the independent kernel matrix, KKT bounds of all variables the decision was taken on);
                   the un-shrink-inside-shrink branch must be reached (obligation) and the extracted composite
                   C08Reshrink.reshrink must reproduce the active set of each such event exactly.
          hist     OBJECT HISTORY: the same problem object is solved, modified through its public mutators (setLinear,
                   setInitialSolution, scaleBoxConstraints, activateVariable, flipCoordinates, unshrink, setShrinking) and
                   solved again with shrinking; all invariants are monitored on the mutator events and on the second solve
                   against the modified data, the mutators are tied to C08Mutators.mstep one step at a time, and the
                   optimum is compared with a FRESH object built from the modified data.
"""
import os, sys, re, math, struct, json
sys.path.insert(0, os.path.dirname(os.path.abspath(__file__)))
from vlib import *

PID = "C08"
EPSM = 2.220446049250313e-16
SVM_SEL = ["mvp", "libsvm", "hmg"]
BOX_SEL = ["maxgain", "maxgrad", "ws2"]

# ------------------------------------------------------------------------------------------------
# generation

def fhex(x):
    return float(x).hex()

def gen_points(rng, n, d, mode):
    pts = []
    for _ in range(n):
        if mode == "int": p = [float(rng.randint(-3, 3)) for _ in range(d)]
        elif mode == "dyadic": p = [rng.randint(-8, 8) / 4.0 for _ in range(d)]
        else: p = [3e-4 * rng.gauss(0, 1) for _ in range(d)]
        pts.append(p)
    if mode != "tiny" and n >= 3 and rng.random() < 0.4:      # duplicates on purpose
        for _ in range(rng.randint(1, max(1, n // 4))):
            a, b = rng.randrange(n), rng.randrange(n); pts[a] = list(pts[b])
    return pts

def gen_run(rng, rid, big=False, extreme=False):
    if extreme:
        n, d = 8, 3
        c = {"id": rid, "kind": "box", "sel": "maxgain", "shrink": rng.randint(0, 1), "matrix": rng.choice(["cd", "pd"]),
             "kernel": "lin", "gamma": 0.0, "eps": 1e-3, "maxiter": 400, "n": n, "d": d, "warm": 0}
        c["Cneg"] = c["Cpos"] = rng.choice([1e7, 1e8, 1e9])
        c["cachesize"] = 100000
        c["x"] = gen_points(rng, n, d, "tiny")
        if rng.random() < 0.4:           # kernel diagonal below 1e-12 (finding edge1d:tiny-Q), single-variable steps
            c["n"] = n = rng.randint(1, 4); c["sel"] = rng.choice(BOX_SEL); c["Cneg"] = c["Cpos"] = rng.choice([1e9, 1e11, 1e13])
            c["x"] = [[v * 1e-3 for v in p] for p in c["x"][:n]]
        c["y"] = [i % 2 for i in range(n)]; rng.shuffle(c["y"])
        c["stream"] = "extreme"
        return c
    r = rng.random()
    n = rng.randint(4, 8) if r < 0.5 else rng.randint(9, 14) if r < 0.85 else rng.randint(15, 30 if big else 24)
    d = rng.randint(1, 3)
    kind = rng.choice(["svm", "box"])
    c = {"id": rid, "kind": kind, "sel": rng.choice(SVM_SEL if kind == "svm" else BOX_SEL),
         "shrink": 1 if rng.random() < 0.65 else 0, "matrix": rng.choice(["cf", "cd", "cd", "pd"]), "n": n, "d": d}
    c["kernel"] = rng.choice(["lin", "rbf"])
    c["gamma"] = rng.choice([0.125, 0.5, 1.0, 2.0]) if c["kernel"] == "rbf" else 0.0
    c["x"] = gen_points(rng, n, d, "int" if (c["kernel"] == "rbf" or rng.random() < 0.6) else "dyadic")
    y = [rng.randint(0, 1) for _ in range(n)]
    if n >= 2 and len(set(y)) == 1: y[rng.randrange(n)] ^= 1
    if rng.random() < 0.15: y = [1] + [0] * (n - 1)              # very unbalanced
    c["y"] = y
    C = rng.choice([0.125, 0.5, 1.0, 1.0, 10.0, 100.0, 1000.0, 10000.0])
    c["Cneg"] = C; c["Cpos"] = C * rng.choice([1, 1, 1, 0.5, 4])
    c["eps"] = rng.choice([1e-3, 1e-3, 1e-2, 1e-6])
    c["maxiter"] = rng.choice([60, 200, 400])
    c["cachesize"] = rng.choice([2 * n, 3 * n, n * n, 100000])
    c["warm"] = 1 if rng.random() < 0.3 else 0
    if c["warm"]:
        a0 = [0.0] * n
        pos = [i for i in range(n) if y[i]]; neg = [i for i in range(n) if not y[i]]
        if kind == "svm":
            for _ in range(rng.randint(1, 3)):
                if not pos or not neg: break
                p, q = rng.choice(pos), rng.choice(neg)
                if a0[p] or a0[q]: continue
                t = min(c["Cpos"], c["Cneg"]) * rng.choice([1.0, 0.5, 0.25])
                a0[p] = t; a0[q] = -t
        else:
            for i in range(n):
                u = rng.random()
                if u < 0.3: a0[i] = (c["Cpos"] if y[i] else -c["Cneg"]) * rng.choice([1.0, 0.5, 0.25])
        c["a0"] = a0
    if kind == "svm" and rng.random() < 0.15:
        # near-duplicate inputs with contradicting labels, un-normalised kernel, single-precision cache: the curvature
        # K_ii + K_jj - 2 K_ij of such a pair is ~0 and can come out slightly NEGATIVE in float (floor of updateSMO)
        c["kernel"] = "lin"; c["gamma"] = 0.0; c["matrix"] = rng.choice(["cf", "cf", "cd"]); c["warm"] = 0; c.pop("a0", None)
        c["cachesize"] = 100000
        base = [[rng.uniform(-3, 3) for _ in range(d)] for _ in range((n + 1) // 2)]
        pts = []
        for p in base: pts.append(p); pts.append([v + rng.choice([1e-6, -1e-6, 3e-7, 1e-5]) * rng.gauss(0, 1) for v in p])
        c["x"] = pts[:n]; c["y"] = [i % 2 for i in range(n)]
        c["Cneg"] = c["Cpos"] = rng.choice([1.0, 10.0, 100.0])
    if rng.random() < 0.3:
        # the same problem through GeneralQuadraticProblem (class behind weighted C-SVMs / ranking SVMs; unit weights): its own
        # flipCoordinates must keep linear term, boxes, DIAGONAL and permutation together -> un-normalised kernel (non-constant
        # diagonal), shrinking on, enough iterations for several shrink events
        c["matrix"] += "g"
        if rng.random() < 0.7:
            c["kernel"] = "lin"; c["gamma"] = 0.0; c["shrink"] = 1; c["maxiter"] = 400
            c["x"] = [[v * rng.choice([1, 1, 2, 3]) for v in p] for p in c["x"]]
    c["stream"] = "main"
    return c

def mut_tokens(m):
    k = m[0]
    if k == "L": return ["L", str(m[1]), fhex(m[2])]
    if k == "I": return ["I"] + [fhex(v) for v in m[1]]
    if k == "S": return ["S", fhex(m[1]), fhex(m[2])]
    if k in ("A", "T"): return [k, str(m[1])]
    if k == "X": return ["X", str(m[1]), str(m[2])]
    return [k]

# generators of inputs that expose LATENT defects of /repo (no library code calls the mutators this way); switched on by the
# environment variable or automatically once known_findings.json carries an entry matching the key (set in main)
LATENT = {"setinit": False, "setshr": False, "scale": False}
LATENT_KEYS = {"setinit": "latent:setinit-on-permuted-object", "setshr": "latent:setshrinking-on-after-off",
               "scale": "latent:scale-different-factors-on-shrunk-object"}

def gen_long(rng, rid, big=False):
    """long run: hundreds of overlapping points, Gaussian kernel, C in {10,100}, eps 1e-3 -> thousands of iterations, several
    periodic shrink events and (usually) the one-time un-shrink inside shrink(); recorded sparsely (tag LRUN)"""
    n = rng.randint(120, 450 if big else 300)
    kind = "svm" if rng.random() < 0.9 else "box"
    sep = rng.choice([0.5, 0.7, 0.7, 1.0])
    y = [i % 2 for i in range(n)]
    if rng.random() < 0.3: rng.shuffle(y)
    x = [[rng.gauss(0, 1) + (sep if y[i] else -sep), rng.gauss(0, 1)] for i in range(n)]
    C = rng.choice([10.0, 100.0, 100.0, 100.0, 100.0, 100.0]) if kind == "svm" else rng.choice([10.0, 10.0, 100.0])
    return {"tag": "LRUN", "id": rid, "kind": kind, "sel": rng.choice(SVM_SEL if kind == "svm" else ["maxgain", "maxgain", "ws2"]), "shrink": 1,
            "matrix": rng.choice(["pd", "cd", "cd", "cf", "pdg"]), "cachesize": rng.choice([100000000, 100000000, 40 * n]), "kernel": "rbf",
            "gamma": rng.choice([0.5, 1.0, 1.0, 2.0]), "Cneg": C, "Cpos": C * rng.choice([1, 1, 1, 0.5]), "eps": 1e-3,
            "maxiter": 60000 if big else 25000, "n": n, "d": 2, "warm": 0, "y": y, "x": x, "stream": "long"}

def feasible_alpha(rng, c):
    n = c["n"]; y = c["y"]; a0 = [0.0] * n
    pos = [i for i in range(n) if y[i]]; neg = [i for i in range(n) if not y[i]]
    if c["kind"] == "svm":          # pairs +t / -t: the sum stays 0, so a fresh object (alpha = 0) solves the same problem
        for _ in range(rng.randint(1, 4)):
            if not pos or not neg: break
            p, q = rng.choice(pos), rng.choice(neg)
            if a0[p] or a0[q]: continue
            t = min(c["Cpos"], c["Cneg"]) * rng.choice([1.0, 0.5, 0.25])
            a0[p] = t; a0[q] = -t
    else:
        for i in range(n):
            if rng.random() < 0.3: a0[i] = (c["Cpos"] if y[i] else -c["Cneg"]) * rng.choice([1.0, 0.5, 0.25])
    return a0

def gen_hist(rng, rid, big=False):
    """object history (tag HIST): solve, apply public mutators to the SAME object, solve again with shrinking"""
    c = gen_run(rng, rid, big)
    c["tag"] = "HIST"; c["stream"] = "hist"; c["shrink"] = 1
    c["maxiter"] = rng.choice([400, 2000, 2000]); c["eps"] = rng.choice([1e-3, 1e-3, 1e-2])
    n = c["n"]; muts = []
    if rng.random() < 0.2:
        # the mutators meet a freshly constructed object (first solve skipped): identity permutation, so setInitialSolution(alpha)
        # - which indexes the matrix rows by position - is well defined
        muts = [("Z",), ("I", feasible_alpha(rng, c))]
    elif LATENT["setshr"] and rng.random() < 0.15:
        c["shrink"] = 0; late_on = True
    scal_ok = c["kind"] == "svm" and not c["matrix"].endswith("g")      # the only instantiation with scaleBoxConstraints(f, v)
    for _ in range(rng.randint(1, 4)):
        r = rng.random()
        if r < 0.45:       # adapt the linear term of a subset of the variables (every k-th, or a few random ones)
            if rng.random() < 0.5:
                k = rng.randint(2, 5); sub = [p for p in range(n) if p % k == 0]
            else:
                sub = rng.sample(range(n), rng.randint(1, max(1, n // 2)))
            f = rng.choice([0.75, 0.5, 1.5, 2.0, 0.0, -1.0])
            for p in sub:
                base = 1.0 if c["y"][p] else -1.0
                muts.append(("L", p, base * f if rng.random() < 0.8 else rng.randint(-8, 8) / 4.0))
        elif r < 0.6 and (LATENT["setinit"] or (muts and muts[0] == ("Z",) and all(m[0] in ("Z", "I", "L", "A") for m in muts))):
            muts.append(("I", feasible_alpha(rng, c)))
        elif r < 0.75 and scal_ok:
            f, v = rng.choice([(2.0, 2.0), (0.5, 0.5), (4.0, 4.0), (2.0, 1.0), (4.0, 1.0), (2.0, 0.5), (1.0, 0.5), (1.0, 1.0)])
            # different factors: the code resets the edge gradient to the linear term and leaves m_active alone, which is only right
            # when nothing is shrunk (a solve that stops at the iteration limit leaves the problem shrunk) -> unshrink() first
            if f != v and not LATENT["scale"]: muts.append(("U",))
            muts.append(("S", f, v)); c["_scaled"] = True
        elif r < 0.82: muts.append(("A", rng.randrange(n)))
        elif r < 0.9: muts += [("U",), ("X", rng.randrange(n), rng.randrange(n))]      # flipCoordinates needs both positions active
        elif r < 0.95: muts.append(("U",))
        else: muts.append(("T", rng.choice([1, 1, 0]) if c["shrink"] else 0))
    c.pop("_scaled", None)
    if not c["shrink"]: muts.append(("T", 1))     # latent: shrinking switched on after a solve without it
    c["muts"] = muts
    return c

def run_line(c):
    t = [c.get("tag", "RUN"), c["id"], c["kind"], c["sel"], str(c["shrink"]), c["matrix"], str(c["cachesize"]), c["kernel"],
         fhex(c["gamma"]), fhex(c["Cneg"]), fhex(c["Cpos"]), fhex(c["eps"]), str(c["maxiter"]), str(c["n"]), str(c["d"]), str(c["warm"])]
    t += [str(v) for v in c["y"]]
    t += [fhex(v) for p in c["x"] for v in p]
    if c["warm"]: t += [fhex(v) for v in c["a0"]]
    if c.get("tag") == "HIST":
        t.append(str(len(c["muts"])))
        for m in c["muts"]: t += mut_tokens(m)
    return " ".join(t)

def parse_run_line(l):
    t = l.split()
    c = {"id": t[1], "kind": t[2], "sel": t[3], "shrink": int(t[4]), "matrix": t[5], "cachesize": int(t[6]), "kernel": t[7]}
    pf = lambda s: float.fromhex(s) if "x" in s.lower() else float(s)
    c["gamma"], c["Cneg"], c["Cpos"], c["eps"] = pf(t[8]), pf(t[9]), pf(t[10]), pf(t[11])
    c["maxiter"], c["n"], c["d"], c["warm"] = int(t[12]), int(t[13]), int(t[14]), int(t[15])
    n, d = c["n"], c["d"]; p = 16
    c["y"] = [int(v) for v in t[p:p + n]]; p += n
    c["x"] = [[pf(t[p + i * d + k]) for k in range(d)] for i in range(n)]; p += n * d
    if c["warm"]: c["a0"] = [pf(v) for v in t[p:p + n]]; p += n
    c["tag"] = t[0]
    if t[0] == "HIST":
        nm = int(t[p]); p += 1; c["muts"] = []
        for _ in range(nm):
            k = t[p]; p += 1
            if k == "L": c["muts"].append(("L", int(t[p]), pf(t[p + 1]))); p += 2
            elif k == "I": c["muts"].append(("I", [pf(v) for v in t[p:p + n]])); p += n
            elif k == "S": c["muts"].append(("S", pf(t[p]), pf(t[p + 1]))); p += 2
            elif k in ("A", "T"): c["muts"].append((k, int(t[p]))); p += 1
            elif k == "X": c["muts"].append(("X", int(t[p]), int(t[p + 1]))); p += 2
            else: c["muts"].append((k,))
    if t[0] == "LRUN": c["stream"] = "long"; return c
    if t[0] == "HIST": c["stream"] = "hist"; return c
    c["stream"] = "extreme" if (c["kind"] == "box" and max(abs(v) for q in c["x"] for v in q) < 0.01 and c["Cneg"] >= 1e6) else "main"
    return c

# ------------------------------------------------------------------------------------------------
# trace parsing

def pfl(s):
    if "x" in s: return float.fromhex(s)
    return float(s)

class Snap:
    __slots__ = ("active", "unshr", "fval", "perm", "alpha", "grad", "gedge", "lin", "lo", "hi", "fl", "fu")

def parse_snap(t, p, n):
    s = Snap()
    s.active = int(t[p]); s.unshr = int(t[p + 1]); s.fval = pfl(t[p + 2]); q = p + 3
    s.perm = [int(v) for v in t[q:q + n]]; q += n
    arrs = []
    for _ in range(6):
        arrs.append([pfl(v) for v in t[q:q + n]]); q += n
    s.alpha, s.grad, s.gedge, s.lin, s.lo, s.hi = arrs
    s.fl = [int(v) for v in t[q:q + n]]; q += n
    s.fu = [int(v) for v in t[q:q + n]]
    return s

NARGS = {"smo": 2, "shrink": 2, "unshrink": 0, "kkt": 1, "setlin": 2, "scale": 4, "activate": 1, "flip": 2, "setshr": 1}
MUTATORS = ("setlin", "setinit", "scale", "activate", "flip", "setshr")

def nargs(name, n):
    return n if name == "setinit" else NARGS[name]

def parse_trace(text):
    """-> list of runs: dict(id,n,kind,shrink,K,s0,events=[(name,args,snap,rawline)],pre={event index: (nsmo, snap)},
    order=[("E",k)|("F",snap)|("MUT",)|("SOLVE2",)], final (last F), end (first END), ends, fresh, exc)"""
    runs = []; cur = None; pend = None
    for l in text.split("\n"):
        if not l: continue
        t = l.split()
        h = t[0]
        if h == "RUN":
            cur = {"id": t[1], "n": int(t[2]), "kind": t[3], "shrink": int(t[4]), "events": [], "pre": {}, "order": [], "K": None, "s0": None,
                   "final": None, "end": None, "ends": [], "fresh": None, "exc": None, "stage": 0}
            runs.append(cur); pend = None
        elif cur is None: continue
        elif h == "K": cur["K"] = [pfl(v) for v in t[1:]]
        elif h == "S0": cur["s0"] = parse_snap(t, 1, cur["n"])
        elif h == "P": pend = (int(t[1]), parse_snap(t, 2, cur["n"]))
        elif h == "E":
            k = nargs(t[1], cur["n"])
            if pend is not None: cur["pre"][len(cur["events"])] = pend; pend = None
            cur["order"].append(("E", len(cur["events"])))
            cur["events"].append((t[1], t[2:2 + k], parse_snap(t, 2 + k, cur["n"]), l))
        elif h == "F": cur["final"] = parse_snap(t, 1, cur["n"]); cur["order"].append(("F", cur["final"]))
        elif h == "END":
            e = (int(t[1]), int(t[2]), pfl(t[3]), pfl(t[4])); cur["ends"].append(e)
            if cur["end"] is None: cur["end"] = e
        elif h in ("MUT", "SOLVE2"): cur["order"].append((h,))
        elif h == "FRESH": cur["fresh"] = (int(t[1]), int(t[2]), pfl(t[3]), pfl(t[4]), int(t[5]), [pfl(v) for v in t[6:]])
        elif h in ("EXC", "STDEXC"): cur["exc"] = l
    return runs

def f32(x):
    return struct.unpack("f", struct.pack("f", x))[0]

def indep_kernel(c):
    """kernel matrix computed here from the data, independent of Shark's kernel classes"""
    n = c["n"]; x = c["x"]; K = [[0.0] * n for _ in range(n)]
    for i in range(n):
        for j in range(n):
            if c["kernel"] == "lin": v = math.fsum(a * b for a, b in zip(x[i], x[j]))
            else: v = math.exp(-c["gamma"] * math.fsum((a - b) * (a - b) for a, b in zip(x[i], x[j])))
            K[i][j] = f32(v) if c["matrix"].startswith("cf") else v
    return K

# ------------------------------------------------------------------------------------------------
# spec monitor: the property's predicates evaluated on the implementation's snapshots

def recompute(c, K, s):
    """independent gradient lin - K alpha (position order), objective, edge gradient, scale"""
    n = c["n"]; perm = s.perm
    ao = [0.0] * n; bo = [0.0] * n
    for b in range(n):
        ao[perm[b]] = s.alpha[b]
        bo[perm[b]] = s.alpha[b] if (s.alpha[b] == s.lo[b] or s.alpha[b] == s.hi[b]) else 0.0
    nz = [q for q in range(n) if ao[q] != 0.0]
    nzb = [q for q in range(n) if bo[q] != 0.0]
    g = [0.0] * n; ge = [0.0] * n; scale = 1.0; obj = 0.0
    for a in range(n):
        p = perm[a]; row = K[p]
        ka = math.fsum(row[q] * ao[q] for q in nz)
        kb = math.fsum(row[q] * bo[q] for q in nzb)
        g[a] = s.lin[a] - ka; ge[a] = s.lin[a] - kb
        sc = sum(abs(row[q] * ao[q]) for q in nz) + abs(s.lin[a])
        if sc > scale: scale = sc
        obj += s.alpha[a] * (s.lin[a] - 0.5 * ka)
    return g, ge, obj, scale

def shrink_event_check(c, K, prev, s, tol, info=None):
    """SHRINK-EVENT MONITOR.  prev / s: state before / after one call of shrink().  Every variable removed by the call must be
    unable to improve the objective at that moment: it sits at a bound and, with the TRUE gradient g = lin - K alpha (independent
    kernel matrix, all variables), no feasible first-order ascent direction contains it.  The decision of the call is taken on the
    variables that are active when the shrink loop runs: the previously active ones, or ALL variables when shrink() un-shrank the
    problem first.  Equality-constrained problem (feasible directions e_u - e_d, u below its upper bound, d above its lower bound):
        removed at its lower bound:  g_v <= smallestDown = min{ g_d : d can move down }      (code: gradient(v) < smallestDown)
        removed at its upper bound:  g_v >= largestUp    = max{ g_u : u can move up }        (code: gradient(v) > largestUp)
    box-only problem (directions +-e_v):  at the lower bound g_v <= 0, at the upper bound g_v >= 0.   Slack tol ~ rounding of the
    maintained gradient (proportional to the gradient scale).  -> list of (key, message)"""
    n = c["n"]
    gp = recompute(c, K, prev)[0]
    inside = prev.active < n and bool(s.unshr) and not prev.unshr
    npos = n if inside else prev.active
    G = {}
    for b in range(n): G[prev.perm[b]] = (gp[b], prev.alpha[b], prev.lo[b], prev.hi[b], b)
    dec = set(prev.perm[:npos])
    def bounds(vs):
        up = [(G[u][0], u) for u in vs if G[u][1] < G[u][3]]
        dn = [(G[u][0], u) for u in vs if G[u][1] > G[u][2]]
        return (max(up) if up else None), (min(dn) if dn else None)
    lu, sd = bounds(dec)
    removed = 0; msgs = []
    for a in range(s.active, n):
        v = s.perm[a]
        if v not in dec: continue                      # removed by an earlier event
        removed += 1
        gv, av, lv, hv, _ = G[v]
        at_lo, at_hi = av == lv, av == hv
        how = " (shrink() un-shrank the problem first: decision on all %d variables)" % n if inside else " (decision on the %d active variables)" % npos
        if not (at_lo or at_hi):
            msgs.append(("shrink-unsound", "shrink() removed the FREE variable %d (alpha=%r in (%r,%r))%s" % (v, av, lv, hv, how))); break
        if at_lo and at_hi: continue                   # cannot move at all
        if c["kind"] == "svm":
            if at_lo and sd is not None and gv - sd[0] > tol:
                msgs.append(("shrink-unsound", "shrink() removed variable %d (at its lower bound, alpha=%r, true gradient %r) although the feasible direction e_%d - e_%d "
                             "(variable %d can move down, true gradient %r) has first-order gain %.6g > tol %.3g%s" % (v, av, gv, v, sd[1], sd[1], sd[0], gv - sd[0], tol, how))); break
            if at_hi and lu is not None and lu[0] - gv > tol:
                msgs.append(("shrink-unsound", "shrink() removed variable %d (at its upper bound, alpha=%r, true gradient %r) although the feasible direction e_%d - e_%d "
                             "(variable %d can move up, true gradient %r) has first-order gain %.6g > tol %.3g%s" % (v, av, gv, lu[1], v, lu[1], lu[0], lu[0] - gv, tol, how))); break
        else:
            if (at_lo and gv > tol) or (at_hi and -gv > tol):
                msgs.append(("shrink-unsound", "shrink() removed variable %d (at its %s bound, alpha=%r) although its true gradient %r allows a first-order gain %.6g > tol %.3g%s"
                             % (v, "lower" if at_lo else "upper", av, gv, abs(gv), tol, how))); break
    if info is not None:
        info["inside"] = inside; info["removed"] = removed
        if inside:
            lu0, sd0 = bounds(set(prev.perm[:prev.active]))
            info["bounds_moved"] = (lu0 != lu) or (sd0 != sd)
    return msgs

def true_kkt(c, s, g):
    """largest KKT violation of the state with the gradient g (position order)"""
    n = c["n"]
    if c["kind"] == "svm":
        up = [g[a] for a in range(n) if s.alpha[a] < s.hi[a]]
        dn = [g[a] for a in range(n) if s.alpha[a] > s.lo[a]]
        return (max(up) if up else -1e100) - (min(dn) if dn else 1e100)
    v = 0.0
    for a in range(n):
        if s.alpha[a] < s.hi[a]: v = max(v, g[a])
        if s.alpha[a] > s.lo[a]: v = max(v, -g[a])
    return v

def monitor(c, run, K, stop_first=True, stats=None):
    """returns list of (event_index, key, message); event_index -1 = initial state"""
    n = c["n"]; bad = []
    if stats is None: stats = {}
    if run["exc"]: return [(-1, "exception", "solver threw: " + run["exc"])]
    if run["s0"] is None or run["K"] is None: return [(-1, "crash", "no initial snapshot (crash?)")]
    # the solver's matrix entries against the independently computed kernel matrix
    kd = 0.0
    for i in range(n):
        for j in range(n):
            a, b = run["K"][i * n + j], K[i][j]
            rel = 3e-7 if c["matrix"].startswith("cf") else 1e-12
            # an inner product with cancellation is only accurate relative to |x||z| = sqrt(K_ii K_jj), not to its own size
            cs = math.sqrt(abs(K[i][i] * K[j][j])) if c["kernel"] == "lin" else 0.0
            if abs(a - b) > rel * max(abs(a), abs(b)) + 16 * c["d"] * EPSM * cs + 1e-300:
                return [(-1, "kernel-entry", "quadratic().entry(%d,%d)=%r differs from independently computed %r" % (i, j, a, b))]
            kd = max(kd, abs(a - b))
    # data of the problem by ORIGINAL index; the mutators of an object history change them
    lin0 = [1.0 if y else -1.0 for y in c["y"]]
    lo0 = [0.0 if y else -c["Cneg"] for y in c["y"]]
    hi0 = [c["Cpos"] if y else 0.0 for y in c["y"]]
    states = [("init", [], run["s0"], -1)]
    for it in run["order"]:
        if it[0] == "E":
            k = it[1]; name, args, snap, raw = run["events"][k]
            if k in run["pre"]: states.append(("pre", [str(run["pre"][k][0])], run["pre"][k][1], k))
            states.append((name, args, snap, k))
        elif it[0] == "F": states.append(("final", [], it[1], len(run["events"]) - 1))
    prev = None; prevobj = None; sum0 = None; nsmo = 0; amax = 1.0; hscale = 1.0; shrink_on = bool(run["shrink"]); edge_ok = shrink_on
    nfinal = 0; finals = []; toggled_on = False
    has_setinit = any(m[0] == "I" for m in c.get("muts", []))
    for idx, (name, args, s, ev) in enumerate(states):
        msgs = []
        if name == "pre": nsmo = max(nsmo, int(args[0]))
        if name == "smo": nsmo += 1
        sparse_final = name == "final" and c.get("tag") == "LRUN"      # unrecorded updateSMO calls may precede the end of a sparse run
        if sparse_final and run["ends"]: nsmo = max(nsmo, run["ends"][0][1])
        # ---- what a mutator of the object history does to the DATA of the problem (by original index)
        if name == "setlin" and prev is not None: lin0[prev.perm[int(args[0])]] = pfl(args[1])
        if name == "scale":
            f = pfl(args[0]); lo0 = [v * f for v in lo0]; hi0 = [v * f for v in hi0]
        if name in ("setinit", "scale"): sum0 = None
        if name == "setshr":
            if args[0] == "1" and not shrink_on and not edge_ok: toggled_on = True
            shrink_on = args[0] == "1"
            if not shrink_on: edge_ok = False        # m_gradientEdge is not maintained while m_shrink is false
        # permutation and consistently permuted per-variable data
        if sorted(s.perm) != list(range(n)): msgs.append(("perm", "permutation %s is not a permutation" % s.perm))
        else:
            for a in range(n):
                p = s.perm[a]
                if s.lin[a] != lin0[p] or s.lo[a] != lo0[p] or s.hi[a] != hi0[p]:
                    msgs.append(("perm-data", "position %d holds variable %d but linear/box (%r,%r,%r) are not that variable's (%r,%r,%r)" % (a, p, s.lin[a], s.lo[a], s.hi[a], lin0[p], lo0[p], hi0[p]))); break
        if not (0 <= s.active <= n): msgs.append(("active", "active=%d out of range" % s.active))
        if not msgs:
            for a in range(n):
                if not (s.lo[a] <= s.alpha[a] <= s.hi[a]): msgs.append(("box", "alpha[%d]=%r outside [%r,%r]" % (a, s.alpha[a], s.lo[a], s.hi[a]))); break
                if s.fl[a] != int(s.alpha[a] == s.lo[a]) or s.fu[a] != int(s.alpha[a] == s.hi[a]):
                    msgs.append(("flags", "bound flags (%d,%d) of position %d do not match alpha=%r box [%r,%r]" % (s.fl[a], s.fu[a], a, s.alpha[a], s.lo[a], s.hi[a]))); break
        if not msgs:
            g, ge, obj, scale = recompute(c, K, s)
            hscale = max(hscale, scale); scale = hscale      # rounding errors of earlier, larger states persist in the maintained gradient
            amax = max(amax, max(abs(v) for v in s.alpha))
            asum = sum(abs(v) for v in s.alpha)
            tol = 32 * EPSM * (nsmo + 8) * scale + 2 * kd * asum
            if c["matrix"].startswith("cf") and (c["warm"] or has_setinit): tol += 2.0 ** -22 * scale   # setInitialSolution multiplies in float for a float cache
            for a in range(s.active):
                if not abs(s.grad[a] - g[a]) <= tol:
                    msgs.append(("grad", "gradient[%d]=%r but linear - K alpha = %r (|diff| %.3g > tol %.3g), active=%d" % (a, s.grad[a], g[a], abs(s.grad[a] - g[a]), tol, s.active))); break
            if edge_ok and not msgs:
                for a in range(n):
                    if not abs(s.gedge[a] - ge[a]) <= tol:
                        gk = "gedge:double-update-i-eq-j" if (name == "smo" and args[0] == args[1]) else "gedge"
                        msgs.append((gk, "gradientEdge[%d]=%r but linear - K alpha_bounded = %r (|diff| %.3g > tol %.3g)" % (a, s.gedge[a], ge[a], abs(s.gedge[a] - ge[a]), tol))); break
            for a in range(s.active, n):
                if not (s.fl[a] or s.fu[a]): msgs.append(("shrunk-free", "shrunk position %d holds a free variable" % a)); break
            sm = math.fsum(s.alpha)
            if sum0 is None: sum0 = sm
            if c["kind"] == "svm" and not abs(sm - sum0) <= 8 * EPSM * (nsmo + 4) * n * amax:
                msgs.append(("sum", "sum(alpha)=%r differs from the initial %r" % (sm, sum0)))
            otol = 64 * EPSM * (nsmo + 8) * max(1.0, scale * asum) + 4 * kd * asum * asum
            if c["matrix"].startswith("cf") and (c["warm"] or has_setinit): otol += 2.0 ** -22 * scale * asum
            if s.active == n and not abs(s.fval - obj) <= otol:
                msgs.append(("fval", "functionValue()=%r but recomputed objective %r" % (s.fval, obj)))
            if prev is not None:
                po = dict(zip(prev.perm, prev.alpha)); so = dict(zip(s.perm, s.alpha))
                if name == "smo":
                    i, j = int(args[0]), int(args[1])
                    if not (i < prev.active and j < prev.active): msgs.append(("ws", "working set (%d,%d) not inside the active set %d" % (i, j, prev.active)))
                    for a in range(n):
                        if a != i and a != j and s.alpha[a] != prev.alpha[a]:
                            msgs.append(("alpha-other", "alpha[%d] changed in an SMO step on (%d,%d)" % (a, i, j))); break
                    if not (obj >= prevobj - otol):
                        key = "objective-decrease"
                        if c["kind"] == "box" and i != j:
                            pi, pj = prev.perm[i], prev.perm[j]
                            det = K[pi][pi] * K[pj][pj] - K[pi][pj] * K[pi][pj]
                            if det <= 1e-12 and (K[pi][pi] > 0 or K[pj][pj] > 0): key = "box2d:tiny-det-fallback"
                        elif c["kind"] == "box" and 0 < K[prev.perm[i]][prev.perm[i]] < 1e-12: key = "edge1d:tiny-Q"
                        msgs.append((key, "dual objective decreased in SMO step (%d,%d): %r -> %r (drop %.6g, tol %.3g)" % (i, j, prevobj, obj, prevobj - obj, otol)))
                elif name == "pre" or sparse_final:
                    # sparse recording: only updateSMO calls lie between the previous recorded state and this one
                    if prevobj is not None and not (obj >= prevobj - otol):
                        msgs.append(("objective-decrease", "dual objective decreased between two recorded states (updateSMO calls only): %r -> %r (drop %.6g, tol %.3g)" % (prevobj, obj, prevobj - obj, otol)))
                elif name == "setinit":
                    want = {p: pfl(args[p]) for p in range(n)}
                    if so != want: msgs.append(("setinit-alpha", "setInitialSolution(alpha) did not store the given coefficients (by original index)"))
                elif name == "scale":
                    v = pfl(args[1])
                    for q in range(n):
                        if not abs(so[q] - po[q] * v) <= 4 * EPSM * abs(po[q] * v):
                            msgs.append(("scale-alpha", "scaleBoxConstraints: variable %d went from %r to %r, expected %r" % (q, po[q], so[q], po[q] * v))); break
                else:
                    # shrink / unshrink / checkKKT / final / setLinear / activateVariable / flipCoordinates / setShrinking:
                    # the variables (as a map original index -> value) must not change
                    if po != so: msgs.append(("alpha-moved", "%s changed coefficient values" % name))
                    if name == "shrink":
                        info = {}
                        msgs += shrink_event_check(c, K, prev, s, tol, info)
                        stats["shrink_calls"] = stats.get("shrink_calls", 0) + 1
                        if info.get("removed"): stats["shrink_removing"] = stats.get("shrink_removing", 0) + 1; stats["removed"] = stats.get("removed", 0) + info["removed"]
                        if info.get("inside"):
                            stats["inside"] = stats.get("inside", 0) + 1
                            if info.get("bounds_moved"): stats["inside_moved"] = stats.get("inside_moved", 0) + 1
                    if name == "kkt":
                        # reported value = largest KKT violation, recomputed from the snapshot's own gradient
                        if c["kind"] == "svm":
                            up = [s.grad[a] for a in range(s.active) if s.alpha[a] != s.hi[a]]
                            dn = [s.grad[a] for a in range(s.active) if s.alpha[a] != s.lo[a]]
                            want = (max(up) if up else -1e100) - (min(dn) if dn else 1e100)
                        else:
                            want = 0.0
                            for a in range(n):
                                if s.alpha[a] == s.hi[a] and s.alpha[a] == s.lo[a]: continue
                                if s.alpha[a] != s.hi[a]: want = max(want, s.grad[a])
                                if s.alpha[a] != s.lo[a]: want = max(want, -s.grad[a])
                        if pfl(args[0]) != want: msgs.append(("kkt-value", "checkKKT()=%r but the largest KKT violation of the state is %r" % (pfl(args[0]), want)))
            if name == "final" and not msgs:
                # end of a solve: reported value, and - when the solver reports the accuracy - un-shrunk state with the TRUE KKT violation below eps
                e = run["ends"][nfinal] if nfinal < len(run["ends"]) else None; nfinal += 1
                finals.append((s, obj, e))
                if e is not None:
                    if e[2] != s.fval: msgs.append(("end-value", "reported objective %r differs from functionValue() %r of the final state" % (e[2], s.fval)))
                    if e[0] == 1:
                        if s.active != n: msgs.append(("end-shrunk", "solver reports QpAccuracyReached but %d variables are still shrunk" % (n - s.active)))
                        else:
                            kv = true_kkt(c, s, g)
                            if not kv <= c["eps"] + 2 * tol:
                                msgs.append(("end-kkt", "solver reports accuracy %r < eps but the KKT violation with the true gradient lin - K alpha is %r" % (e[3], kv)))
            prevobj = obj
        if msgs and msgs[0][0] in ("grad", "gedge", "fval", "end-kkt", "shrunk-free"):
            # known-latent shapes get their own stable keys (see LATENT_KEYS)
            if name == "setinit" and prev is not None and prev.perm != list(range(n)):
                msgs = [(LATENT_KEYS["setinit"], "setInitialSolution(alpha) on an object whose variables are permuted (%s): %s" % (prev.perm[:8], msgs[0][1]))]
            elif name == "scale" and prev is not None and prev.active < n and args[0] != args[1]:
                msgs = [(LATENT_KEYS["scale"], "scaleBoxConstraints(f, v) with f != v on an object with %d shrunk variables: %s" % (n - prev.active, msgs[0][1]))]
            elif toggled_on:
                msgs = [(LATENT_KEYS["setshr"], "setShrinking(true) after steps taken with m_shrink = false (edge gradient not maintained): %s" % msgs[0][1])]
        for k, m in msgs: bad.append((ev, k, "%s [event %d: %s %s]" % (m, ev, name, " ".join(args[:6]))))
        if bad and stop_first: break
        if msgs: break          # later states are not meaningful once an invariant is broken
        prev = s
    # ---- object history: the optimum of the reused object against a FRESH object built from the modified data
    if not bad and run["fresh"] is not None and finals and finals[-1][2] is not None:
        ft, fit, fv, facc, fact, fal = run["fresh"]
        s2, obj2, e2 = finals[-1]
        stats["fresh_compared"] = stats.get("fresh_compared", 0)
        if len(fal) == n and all(lo0[p] <= fal[p] <= hi0[p] for p in range(n)):
            nzf = [q for q in range(n) if fal[q] != 0.0]
            objf = math.fsum(fal[p] * (lin0[p] - 0.5 * math.fsum(K[p][q] * fal[q] for q in nzf)) for p in range(n))
            sum2 = math.fsum(s2.alpha); sumf = math.fsum(fal)
            same_problem = c["kind"] != "svm" or abs(sum2 - sumf) <= 64 * EPSM * n * max(1.0, max(abs(v) for v in s2.alpha))
            if e2[0] == 1 and ft == 1 and same_problem:
                # both runs report an eps-KKT point of the same concave problem: f* - f(alpha) <= eps * sum(box widths)
                gap = c["eps"] * math.fsum(hi0[p] - lo0[p] for p in range(n))
                asum = sum(abs(v) for v in fal) + sum(abs(v) for v in s2.alpha)
                slack = 1e-9 * max(1.0, abs(objf), abs(obj2)) + 4 * kd * asum * asum + (2.0 ** -20 * asum * asum if c["matrix"].startswith("cf") else 0.0)
                stats["fresh_compared"] += 1
                if not abs(objf - obj2) <= gap + slack:
                    bad.append((len(run["events"]) - 1, "fresh-object", "after the mutators the reused object converges to objective %r, a fresh object built from the modified data to %r "
                                "(difference %.6g > eps*sum(box widths) %.6g) [second solve]" % (obj2, objf, abs(objf - obj2), gap + slack)))
        else:
            bad.append((len(run["events"]) - 1, "fresh-object", "fresh object returned coefficients outside the (modified) box [second solve]"))
    return bad

# ------------------------------------------------------------------------------------------------
# model vs implementation (one step each)

def compare_run(run, mlines, n, cf=False):
    """-> list of (event_index, message); cf: single-precision kernel cache"""
    dis = []
    if len(mlines) != len(run["events"]):
        return [(-1, "model produced %d lines for %d events" % (len(mlines), len(run["events"])))]
    for ev, ((name, args, s, raw), ml) in enumerate(zip(run["events"], mlines)):
        if raw[2:] == ml[2:]: continue
        a = raw.split(); b = ml.split()
        if len(a) != len(b) or a[1] != b[1]: dis.append((ev, "line shapes differ")); continue
        k = nargs(name, n); base = 2 + k
        if name == "kkt" and a[2] != b[2] and pfl(a[2]) != pfl(b[2]):
            dis.append((ev, "checkKKT value: implementation %s model %s" % (a[2], b[2])))
        if name == "smo" and a[2:4] != b[2:4]: dis.append((ev, "indices differ"))
        names = ["active", "unshr", "fval"] + ["perm"] * n + ["alpha"] * n + ["grad"] * n + ["gedge"] * n + ["lin"] * n + ["lo"] * n + ["hi"] * n + ["fl"] * n + ["fu"] * n
        vs = {}
        for f in ("alpha", "grad", "gedge"):
            arr = getattr(s, f); vs[f] = max([abs(v) for v in arr if v == v and abs(v) != float("inf")] + [0.0])
        for p, nm in enumerate(names):
            x, y = a[base + p], b[base + p]
            if x == y: continue
            if nm in ("active", "unshr", "perm", "fl", "fu"):
                dis.append((ev, "%s[%d]: implementation %s model %s" % (nm, (p - 3) % n if p >= 3 else 0, x, y))); break
            fx, fy = pfl(x), pfl(y)
            if fx == fy or (fx != fx and fy != fy): continue
            sc = vs.get(nm, max(abs(s.fval), 1.0) if nm == "fval" else 0.0)
            # setInitialSolution over a float cache forms alpha_i * row_i in SINGLE precision (remora: double scalar times float vector)
            rel = 2.0 ** -20 * n if (cf and name == "setinit" and nm in ("grad", "gedge", "fval")) else 1e-9
            if not abs(fx - fy) <= rel * max(abs(fx), abs(fy), sc):
                dis.append((ev, "%s[%d]: implementation %s model %s" % (nm, (p - 3) % n if p >= 3 else 0, x, y))); break
    return dis

# ------------------------------------------------------------------------------------------------

def execute(ck, exe, model, cfgs, tmpd, tag):
    """run harness + model on the configurations; returns list of (cfg, run, disagreements, monitor failures)"""
    cf = os.path.join(tmpd, tag + "_cases.txt")
    open(cf, "w").write("\n".join(run_line(c) for c in cfgs) + "\n")
    tf = os.path.join(tmpd, tag + "_trace.txt")
    rc, out, err = sh([exe, cf], timeout=1500, env={"OMP_NUM_THREADS": "1", "OPENBLAS_NUM_THREADS": "1"})
    open(tf, "w").write(out)
    runs = parse_trace(out)
    byid = {r["id"]: r for r in runs}
    rc2, mout, merr = sh([model, tf], timeout=1500)
    if rc2 != 0: raise RuntimeError("model driver failed: " + merr[-2000:])
    mruns = {}; rruns = {}; cur = None; curr = None
    for l in mout.split("\n"):
        if l.startswith("RUN "): cur = []; curr = []; mruns[l.split()[1]] = cur; rruns[l.split()[1]] = curr
        elif l.startswith("M ") and cur is not None: cur.append(l)
        elif l.startswith("R ") and curr is not None: curr.append(l)
    res = []
    for c in cfgs:
        r = byid.get(c["id"])
        if r is None or (r["end"] is None and r["exc"] is None):
            res.append((c, r, [], [(-1, "crash", "implementation crashed/stopped (rc=%s) in run %s: %s" % (rc, c["id"], err.strip()[-300:]))])); continue
        K = indep_kernel(c)
        r["stats"] = {}
        mon = monitor(c, r, K, stats=r["stats"])
        dis = compare_run(r, mruns.get(c["id"], []), c["n"], c["matrix"].startswith("cf")) if not r["exc"] else []
        if not r["exc"]: dis += reshrink_tie(r, rruns.get(c["id"], []), c["n"])
        res.append((c, r, dis, mon))
    return res

def reshrink_tie(run, rlines, n):
    """the extracted composite C08Reshrink.reshrink (unshrink; recompute the KKT bounds; shrink again) next to the recorded
    shrink events: whenever the branch is due in the state before the call, the active-set size and the permutation after the
    call must be exactly the composite's.  Also counts the events at which the composite WITHOUT the recomputation
    (reshrink_stale) would remove a different set of variables."""
    dis = []; st = run["stats"]
    sh_ev = [k for k, e in enumerate(run["events"]) if e[0] == "shrink"]
    if len(rlines) != len(sh_ev): return [(-1, "model produced %d reshrink lines for %d shrink events" % (len(rlines), len(sh_ev)))]
    for k, rl in zip(sh_ev, rlines):
        t = rl.split()
        if t[1] != "1": continue
        s = run["events"][k][2]
        act = int(t[2]); perm = [int(v) for v in t[3:3 + n]]
        sact = int(t[4 + n]); sperm = [int(v) for v in t[5 + n:5 + 2 * n]]
        st["reshrink_tied"] = st.get("reshrink_tied", 0) + 1
        if set(perm[:act]) != set(sperm[:sact]): st["stale_differs"] = st.get("stale_differs", 0) + 1
        if act != s.active or perm != s.perm:
            dis.append((k, "reshrink composite (unshrink; recompute bounds; shrink): implementation leaves %d active variables %s.., model %d %s.." % (s.active, s.perm[:8], act, perm[:8])))
    return dis

def first_failure(ck, exe, model, c, tmpd, want_key=None):
    res = execute(ck, exe, model, [c], tmpd, "shrink")
    _, r, dis, mon = res[0]
    if mon and (want_key is None or mon[0][1] == want_key): return ("mon", mon[0], r)
    if want_key is None and dis: return ("dis", dis[0], r)
    return None

def minimise(ck, exe, model, c, tmpd, is_mon, key):
    """shorten the run (iteration budget) and drop points while the same failure persists"""
    def fails(c2):
        f = first_failure(ck, exe, model, c2, tmpd, key if is_mon else None)
        return f is not None and (f[0] == "mon") == is_mon
    f = first_failure(ck, exe, model, c, tmpd, key if is_mon else None)
    if f is None: return c
    ev = f[1][0]
    if ev >= 0:
        nsmo = sum(1 for e in f[2]["events"][:ev + 1] if e[0] == "smo")
        if ev in f[2]["pre"]: nsmo = f[2]["pre"][ev][0]         # sparse recording: the count is carried by the pre-state line
        c2 = dict(c); c2["maxiter"] = max(1, nsmo)
        if fails(c2): c = c2
    if c.get("tag") == "HIST" and len(c["muts"]) > 1:           # fewer mutator calls
        km = ddmin(list(range(len(c["muts"]))), lambda k: len(k) >= 1 and fails(dict(c, muts=[c["muts"][i] for i in k])), max_runs=24)
        c2 = dict(c, muts=[c["muts"][i] for i in km])
        if len(km) < len(c["muts"]) and fails(c2): c = c2
    idx = list(range(c["n"]))
    def sub(keep):
        c2 = dict(c); c2["n"] = len(keep); c2["x"] = [c["x"][i] for i in keep]; c2["y"] = [c["y"][i] for i in keep]
        if c.get("warm"): c2["a0"] = [c["a0"][i] for i in keep]
        c2["cachesize"] = max(c["cachesize"], 2 * len(keep))
        if c.get("tag") == "HIST":                               # mutators address variables by their original index
            new = {p: k for k, p in enumerate(keep)}; ms = []
            for m in c["muts"]:
                if m[0] in ("L", "A"):
                    if m[1] in new: ms.append((m[0], new[m[1]]) + tuple(m[2:]))
                elif m[0] == "X":
                    if m[1] in new and m[2] in new: ms.append(("X", new[m[1]], new[m[2]]))
                elif m[0] == "I": ms.append(("I", [m[1][i] for i in keep]))
                else: ms.append(m)
            c2["muts"] = ms
        return c2
    keep = ddmin(idx, lambda k: len(k) >= 2 and fails(sub(k)), max_runs=12 if c["stream"] == "long" else 40)
    if len(keep) < c["n"] and fails(sub(keep)): c = sub(keep)
    return c

def report(ck, exe, model, c, tmpd, is_mon, key, msg, no_input=False):
    small = minimise(ck, exe, model, c, tmpd, is_mon, key)
    f = first_failure(ck, exe, model, small, tmpd, key if is_mon else None)
    detail = f[1][-1] if f else msg
    cf = ck.write_replay("case_%s.txt" % re.sub(r"\W", "_", c["id"]), "# C08 replay (%s)\n%s\n" % (detail, run_line(small)))
    rp = {"case_file": cf, "case": run_line(small), "config": {k: v for k, v in small.items()}, "observed": detail,
          "expected": "invariant of Properties_C08.v / one-step agreement with C08Model.step",
          "replay_cmd": "python3 tools/c08.py --replay %s" % cf}
    if no_input:
        rp["broken"] = "correspondence C08Model.step vs shark QpSolver step"
        ck.violation("correspondence", rp, "correspondence C08Model.step vs the real solver step no longer checks: %s; the spec monitor passes on every explored input" % detail, no_input=True)
    else:
        ck.violation("%s:%s:%s:%s" % (key, small["kind"], small["sel"], small["stream"]), rp, "spec monitor fails on the implementation: " + detail)

def main():
    ck = Check(PID)
    ck.trusted = DEFAULT_TRUSTED + ["harness/c08_smo.cpp: forwarding wrapper around the real problem object (QpSolver is templated on it); private members read through '#define private public' in that TU only",
                                   "modelled, not verified: float drift of the incrementally maintained gradient (monitored with a tolerance proportional to iterations*eps*scale); kernel cache (C09); selection strategies (any pair is allowed by the theorems, the gain theorem needs g_i >= g_j)"]
    ck.assumptions = ["kernel matrix symmetric; objective monotonicity additionally needs K_ii+K_jj-2K_ij >= 0 and g_i >= g_j for the selected pair (SvmProblem) resp. the determinant/edge hypotheses of box2d_gain_nonneg_partial (BoxConstrainedProblem)",
                      "main stream: data with small-integer/dyadic coordinates, so every threshold comparison of the sub-solvers is far from its boundary; the extreme stream (tiny data, C>=1e7) is reported separately",
                      "object-history stream: mutators are generated inside the preconditions of C08_every_history_with_mutators (setInitialSolution only on an object with identity permutation; "
                      "scaleBoxConstraints with different factors and flipCoordinates only after unshrink(); setShrinking(true) only on an object built with shrinking). Outside them /repo has LATENT defects "
                      "(no library caller): generators behind C08_HIST_SETINIT / C08_HIST_SETSHRINKING / C08_HIST_SCALE_SHRUNK or a known_findings entry matching tools/c08.py LATENT_KEYS",
                      "shrink-event monitor: 'cannot improve' is first order (no feasible ascent direction w.r.t. the true gradient among the variables the shrink decision was taken on), slack proportional to the gradient scale"]
    ck.proofs()
    model = extract_model(PID, "C08Extract.v", "c08_driver.ml")
    exe, err = cxx_build("c08_smo", [os.path.join(ROOT, "harness", "c08_smo.cpp")])
    if exe is None:
        ck.oblige("harness builds against /repo", False, err); ck.finish()
    tmpd = os.path.join(BUILD, "tmp", PID); os.makedirs(tmpd, exist_ok=True)
    big = ck.tier == "thorough"
    LATENT["setinit"] = bool(os.environ.get("C08_HIST_SETINIT")) or ck.match_known(LATENT_KEYS["setinit"]) is not None
    LATENT["setshr"] = bool(os.environ.get("C08_HIST_SETSHRINKING")) or ck.match_known(LATENT_KEYS["setshr"]) is not None
    LATENT["scale"] = bool(os.environ.get("C08_HIST_SCALE_SHRUNK")) or ck.match_known(LATENT_KEYS["scale"]) is not None
    ck.notes["latent_defect_generators"] = dict(LATENT)
    cfgs = []
    if ck.replay:
        for l in open(ck.replay).read().split("\n"):
            if l.split(" ", 1)[0] in ("RUN", "LRUN", "HIST"): cfgs.append(parse_run_line(l))
    else:
        cdir = os.path.join(ROOT, "corpus", PID)
        if os.path.isdir(cdir):
            for f in sorted(os.listdir(cdir)):
                for l in open(os.path.join(cdir, f)).read().split("\n"):
                    if l.startswith("RUN "):
                        c = parse_run_line(l); c["id"] = "corpus_" + c["id"]; cfgs.append(c)
        for k in range(4000 if big else 600): cfgs.append(gen_run(ck.rng, "m%d" % k, big))
        for k in range(200 if big else 20): cfgs.append(gen_run(ck.rng, "x%d" % k, big, extreme=True))
        for k in range(1200 if big else 160): cfgs.append(gen_hist(ck.rng, "h%d" % k, big))
        for k in range(150 if big else 36): cfgs.append(gen_long(ck.rng, "l%d" % k, big))
    res = []
    short = [c for c in cfgs if c["stream"] != "long"]; longs = [c for c in cfgs if c["stream"] == "long"]
    for p in range(0, len(short), 100):
        res += execute(ck, exe, model, short[p:p + 100], tmpd, "b%d" % (p // 100))
    for p in range(0, len(longs), 6):
        res += execute(ck, exe, model, longs[p:p + 6], tmpd, "l%d" % (p // 6))
    nev = 0; nmon = 0; ndis = 0; evk = {}; branch = {"clip": 0, "free": 0, "noop": 0}; hyp_bad = 0; shrunk_events = 0; unshr = 0
    reported = set(); dis_runs = []; allkeys = {}
    agg = {}            # per stream: counters of the shrink-event monitor / reshrink tie / object history
    for c, r, dis, mon in res:
        if r is not None:
            a = agg.setdefault(c["stream"], {})
            for k, v in r.get("stats", {}).items(): a[k] = a.get(k, 0) + v
            a["runs"] = a.get("runs", 0) + 1; a["smo_steps"] = a.get("smo_steps", 0) + sum(e[1] for e in r["ends"])
            if c["stream"] == "hist":
                a["mutator_events"] = a.get("mutator_events", 0) + sum(1 for e in r["events"] if e[0] in MUTATORS)
                if any(o[0] == "SOLVE2" for o in r["order"]): a["second_solves"] = a.get("second_solves", 0) + 1
            nev += len(r["events"])
            prev = r["s0"]
            for name, args, s, raw in r["events"]:
                evk[name] = evk.get(name, 0) + 1
                if name == "smo" and prev is not None:
                    i, j = int(args[0]), int(args[1])
                    if s.alpha == prev.alpha: branch["noop"] += 1
                    elif s.fl[i] or s.fu[i] or s.fl[j] or s.fu[j]: branch["clip"] += 1
                    else: branch["free"] += 1
                    if c["kind"] == "svm" and prev.grad[i] < prev.grad[j]: hyp_bad += 1
                if name == "shrink" and prev is not None and s.active < prev.active: shrunk_events += 1
                if name == "unshrink" and prev is not None and s.active > prev.active: unshr += 1
                prev = s
        if mon:
            nmon += 1
            ev, key, msg = mon[0]
            k2 = (key, c["kind"], c["sel"], c["stream"])
            allkeys[k2] = allkeys.get(k2, 0) + 1
            if k2 not in reported and len(reported) < 6:
                reported.add(k2); report(ck, exe, model, c, tmpd, True, key, msg)
        elif dis:
            ndis += 1; dis_runs.append((c, dis))
    if dis_runs and not nmon:
        # correspondence broken, monitor silent: search around the disagreeing configurations
        found = False; extra = []
        for c, dis in dis_runs[:4]:
            for k in range(40):
                g = gen_run(ck.rng, "s%d_%d" % (len(extra), k), big)
                for f in ("kind", "sel", "shrink", "matrix", "kernel", "gamma"): g[f] = c[f]
                if g["kernel"] == "rbf" and g["gamma"] == 0.0: g["gamma"] = 0.5
                extra.append(g)
        for c, r, dis, mon in execute(ck, exe, model, extra, tmpd, "search"):
            if mon:
                report(ck, exe, model, c, tmpd, True, mon[0][1], mon[0][2]); found = True; break
        ck.notes["search_cases"] = len(extra)
        if not found:
            c, dis = dis_runs[0]
            report(ck, exe, model, c, tmpd, False, None, dis[0][1], no_input=True)
    ck.oblige("one-step correspondence C08Model.step / C08Mutators.mstep / C08Reshrink.reshrink (float-instantiated) vs real solver on %d events of %d runs" % (nev, len(res)), ndis == 0 and True,
              "" if not ndis else "%d runs with disagreements" % ndis)
    tot = lambda k: sum(a.get(k, 0) for a in agg.values())
    unsound = sum(v for k, v in allkeys.items() if k[0] == "shrink-unsound")
    ck.oblige("shrink-event monitor: %d shrink() calls observed, %d of them removed variables (%d removals); every removed variable is at a bound and has no feasible "
              "first-order ascent direction with the true gradient" % (tot("shrink_calls"), tot("shrink_removing"), tot("removed")), unsound == 0, "" if not unsound else "%d runs with an improvable removal" % unsound)
    if not ck.replay:
        lg = agg.get("long", {})
        ck.oblige("long stream reaches the un-shrink-inside-shrink branch of shrink(): %d events in %d runs (%d SMO steps); at %d of them the re-activated variables move the KKT bounds, "
                  "at %d the composite WITHOUT the recomputation (reshrink_stale) would remove a different set; reshrink composite tied on %d events (all streams)"
                  % (lg.get("inside", 0), lg.get("runs", 0), lg.get("smo_steps", 0), lg.get("inside_moved", 0), lg.get("stale_differs", 0), tot("reshrink_tied")),
                  lg.get("inside", 0) > 0 and lg.get("stale_differs", 0) > 0, "the generated long runs no longer reach the branch" if not lg.get("inside", 0) else "")
        hs = agg.get("hist", {})
        ck.oblige("object-history stage: %d reused problem objects, %d mutator calls, %d second solves (%d shrink() calls removing variables in hist runs), %d optima compared with a fresh object"
                  % (hs.get("runs", 0), hs.get("mutator_events", 0), hs.get("second_solves", 0), hs.get("shrink_removing", 0), hs.get("fresh_compared", 0)),
                  hs.get("mutator_events", 0) > 0 and hs.get("second_solves", 0) > 0 and hs.get("fresh_compared", 0) > 0)
    ck.notes["stream_counters"] = agg
    ck.cov["evaluations"] = nev
    ck.cov["distinct_nontrivial"] = len(set(run_line(c).split(" ", 2)[2] for c, r, _, _ in res if r is not None and len(r["events"]) >= 3))
    ck.cov["rule"] = ("real QpSolver runs (SvmShrinkingProblem / BoxConstrainedShrinkingProblem over CSVMProblem; selection MVP/LibSVM/HMG resp. MaximumGain/MaximumGradient/WS2; "
                      "shrinking on/off; cached float/double with capacities 2n..default, precomputed; linear/Gaussian kernel; n=4..30 points with integer or dyadic coordinates, duplicates; "
                      "C in 0.125..1e4, class-specific C; cold and warm starts); every recorded event (updateSMO, shrink, unshrink, checkKKT) is one evaluation: model step on the "
                      "implementation's previous snapshot compared with its next snapshot + invariants recomputed from an independent kernel matrix; non-trivial = run with >= 3 events. "
                      "long stream: n=120..300 (thorough ..450) overlapping Gaussian points, Gaussian kernel, C in {10,100}, eps 1e-3, up to 25000 iterations, sparse recording (state before/after "
                      "every shrink/unshrink/checkKKT call; updateSMO calls in between are covered by the objective/invariant checks of the recorded states). "
                      "hist stream: main-stream problems with shrinking, solved, then 1..10 calls of setLinear / setInitialSolution (fresh object) / scaleBoxConstraints (equality-constrained kind over "
                      "CSVMProblem) / activateVariable / flipCoordinates / unshrink / setShrinking on the SAME object, each one event of the one-step correspondence, then solved again and compared with a fresh object")
    ck.cov["samples"] = [run_line(c)[:300] for c, _, _, _ in res[:2]]
    ck.cov["traces_validated_against_impl"] = len(res)
    ck.cov["disagreements_checked"] = ndis + nmon
    ck.notes["monitor_failures_by_key"] = {":".join(k): v for k, v in allkeys.items()}; log("monitor failures by key: %s" % ck.notes["monitor_failures_by_key"]); ck.notes["event_mix"] = evk; ck.notes["smo_branches"] = branch
    ck.notes["svm_steps_with_gi_lt_gj(hypothesis of smo_gain_nonneg not met)"] = hyp_bad
    ck.notes["shrink_events_that_removed_variables"] = shrunk_events; ck.notes["unshrink_events_that_restored_variables"] = unshr
    ck.notes["streams"] = {k: sum(1 for c in cfgs if c["stream"] == k) for k in ("main", "extreme", "hist", "long")}
    ck.finish()

if __name__ == "__main__":
    main()
