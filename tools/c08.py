#!/usr/bin/env python3
"""C08 — the SVM decomposition solver keeps its dual state consistent and never loses objective.

proofs (Properties_C08.v) + one-step correspondence (extracted C08Model.step, float-instantiated,
applied to the implementation's previous snapshot, vs. the real QpSolver run observed through a
forwarding wrapper around the real problem object) + spec monitor evaluated on the implementation's
snapshots with an independently computed kernel matrix.

streams:  main     small-integer / dyadic data, C over several magnitudes  -> must be clean
          extreme  tiny-scale data with huge C (finding F3, repaired by /repo commit bc5f2886; a
                   recurrence carries the stable key  box2d:tiny-det-fallback)        -> must be clean
"""
import os, sys, re, math, struct, json
sys.path.insert(0, os.path.dirname(os.path.abspath(__file__)))
from vlib import *

PID = "C08"
EPSM = 2.220446049250313e-16
SVM_SEL = ["mvp", "libsvm", "hmg"]
BOX_SEL = ["maxgain", "maxgrad", "ws2"]

# ------------------------------------------------------------------------------------------------
# generation

def fhex(x):
    return float(x).hex()

def gen_points(rng, n, d, mode):
    pts = []
    for _ in range(n):
        if mode == "int": p = [float(rng.randint(-3, 3)) for _ in range(d)]
        elif mode == "dyadic": p = [rng.randint(-8, 8) / 4.0 for _ in range(d)]
        else: p = [3e-4 * rng.gauss(0, 1) for _ in range(d)]
        pts.append(p)
    if mode != "tiny" and n >= 3 and rng.random() < 0.4:      # duplicates on purpose
        for _ in range(rng.randint(1, max(1, n // 4))):
            a, b = rng.randrange(n), rng.randrange(n); pts[a] = list(pts[b])
    return pts

def gen_run(rng, rid, big=False, extreme=False):
    if extreme:
        n, d = 8, 3
        c = {"id": rid, "kind": "box", "sel": "maxgain", "shrink": rng.randint(0, 1), "matrix": rng.choice(["cd", "pd"]),
             "kernel": "lin", "gamma": 0.0, "eps": 1e-3, "maxiter": 400, "n": n, "d": d, "warm": 0}
        c["Cneg"] = c["Cpos"] = rng.choice([1e7, 1e8, 1e9])
        c["cachesize"] = 100000
        c["x"] = gen_points(rng, n, d, "tiny")
        if rng.random() < 0.4:           # kernel diagonal below 1e-12 (finding edge1d:tiny-Q), single-variable steps
            c["n"] = n = rng.randint(1, 4); c["sel"] = rng.choice(BOX_SEL); c["Cneg"] = c["Cpos"] = rng.choice([1e9, 1e11, 1e13])
            c["x"] = [[v * 1e-3 for v in p] for p in c["x"][:n]]
        c["y"] = [i % 2 for i in range(n)]; rng.shuffle(c["y"])
        c["stream"] = "extreme"
        return c
    r = rng.random()
    n = rng.randint(4, 8) if r < 0.5 else rng.randint(9, 14) if r < 0.85 else rng.randint(15, 30 if big else 24)
    d = rng.randint(1, 3)
    kind = rng.choice(["svm", "box"])
    c = {"id": rid, "kind": kind, "sel": rng.choice(SVM_SEL if kind == "svm" else BOX_SEL),
         "shrink": 1 if rng.random() < 0.65 else 0, "matrix": rng.choice(["cf", "cd", "cd", "pd"]), "n": n, "d": d}
    c["kernel"] = rng.choice(["lin", "rbf"])
    c["gamma"] = rng.choice([0.125, 0.5, 1.0, 2.0]) if c["kernel"] == "rbf" else 0.0
    c["x"] = gen_points(rng, n, d, "int" if (c["kernel"] == "rbf" or rng.random() < 0.6) else "dyadic")
    y = [rng.randint(0, 1) for _ in range(n)]
    if n >= 2 and len(set(y)) == 1: y[rng.randrange(n)] ^= 1
    if rng.random() < 0.15: y = [1] + [0] * (n - 1)              # very unbalanced
    c["y"] = y
    C = rng.choice([0.125, 0.5, 1.0, 1.0, 10.0, 100.0, 1000.0, 10000.0])
    c["Cneg"] = C; c["Cpos"] = C * rng.choice([1, 1, 1, 0.5, 4])
    c["eps"] = rng.choice([1e-3, 1e-3, 1e-2, 1e-6])
    c["maxiter"] = rng.choice([60, 200, 400])
    c["cachesize"] = rng.choice([2 * n, 3 * n, n * n, 100000])
    c["warm"] = 1 if rng.random() < 0.3 else 0
    if c["warm"]:
        a0 = [0.0] * n
        pos = [i for i in range(n) if y[i]]; neg = [i for i in range(n) if not y[i]]
        if kind == "svm":
            for _ in range(rng.randint(1, 3)):
                if not pos or not neg: break
                p, q = rng.choice(pos), rng.choice(neg)
                if a0[p] or a0[q]: continue
                t = min(c["Cpos"], c["Cneg"]) * rng.choice([1.0, 0.5, 0.25])
                a0[p] = t; a0[q] = -t
        else:
            for i in range(n):
                u = rng.random()
                if u < 0.3: a0[i] = (c["Cpos"] if y[i] else -c["Cneg"]) * rng.choice([1.0, 0.5, 0.25])
        c["a0"] = a0
    if kind == "svm" and rng.random() < 0.15:
        # near-duplicate inputs with contradicting labels, un-normalised kernel, single-precision cache: the curvature
        # K_ii + K_jj - 2 K_ij of such a pair is ~0 and can come out slightly NEGATIVE in float (floor of updateSMO)
        c["kernel"] = "lin"; c["gamma"] = 0.0; c["matrix"] = rng.choice(["cf", "cf", "cd"]); c["warm"] = 0; c.pop("a0", None)
        c["cachesize"] = 100000
        base = [[rng.uniform(-3, 3) for _ in range(d)] for _ in range((n + 1) // 2)]
        pts = []
        for p in base: pts.append(p); pts.append([v + rng.choice([1e-6, -1e-6, 3e-7, 1e-5]) * rng.gauss(0, 1) for v in p])
        c["x"] = pts[:n]; c["y"] = [i % 2 for i in range(n)]
        c["Cneg"] = c["Cpos"] = rng.choice([1.0, 10.0, 100.0])
    if rng.random() < 0.3:
        # the same problem through GeneralQuadraticProblem (class behind weighted C-SVMs / ranking SVMs; unit weights): its own
        # flipCoordinates must keep linear term, boxes, DIAGONAL and permutation together -> un-normalised kernel (non-constant
        # diagonal), shrinking on, enough iterations for several shrink events
        c["matrix"] += "g"
        if rng.random() < 0.7:
            c["kernel"] = "lin"; c["gamma"] = 0.0; c["shrink"] = 1; c["maxiter"] = 400
            c["x"] = [[v * rng.choice([1, 1, 2, 3]) for v in p] for p in c["x"]]
    c["stream"] = "main"
    return c

def run_line(c):
    t = ["RUN", c["id"], c["kind"], c["sel"], str(c["shrink"]), c["matrix"], str(c["cachesize"]), c["kernel"],
         fhex(c["gamma"]), fhex(c["Cneg"]), fhex(c["Cpos"]), fhex(c["eps"]), str(c["maxiter"]), str(c["n"]), str(c["d"]), str(c["warm"])]
    t += [str(v) for v in c["y"]]
    t += [fhex(v) for p in c["x"] for v in p]
    if c["warm"]: t += [fhex(v) for v in c["a0"]]
    return " ".join(t)

def parse_run_line(l):
    t = l.split()
    c = {"id": t[1], "kind": t[2], "sel": t[3], "shrink": int(t[4]), "matrix": t[5], "cachesize": int(t[6]), "kernel": t[7]}
    pf = lambda s: float.fromhex(s) if "x" in s.lower() else float(s)
    c["gamma"], c["Cneg"], c["Cpos"], c["eps"] = pf(t[8]), pf(t[9]), pf(t[10]), pf(t[11])
    c["maxiter"], c["n"], c["d"], c["warm"] = int(t[12]), int(t[13]), int(t[14]), int(t[15])
    n, d = c["n"], c["d"]; p = 16
    c["y"] = [int(v) for v in t[p:p + n]]; p += n
    c["x"] = [[pf(t[p + i * d + k]) for k in range(d)] for i in range(n)]; p += n * d
    if c["warm"]: c["a0"] = [pf(v) for v in t[p:p + n]]
    c["stream"] = "extreme" if (c["kind"] == "box" and max(abs(v) for q in c["x"] for v in q) < 0.01 and c["Cneg"] >= 1e6) else "main"
    return c

# ------------------------------------------------------------------------------------------------
# trace parsing

def pfl(s):
    if "x" in s: return float.fromhex(s)
    return float(s)

class Snap:
    __slots__ = ("active", "unshr", "fval", "perm", "alpha", "grad", "gedge", "lin", "lo", "hi", "fl", "fu")

def parse_snap(t, p, n):
    s = Snap()
    s.active = int(t[p]); s.unshr = int(t[p + 1]); s.fval = pfl(t[p + 2]); q = p + 3
    s.perm = [int(v) for v in t[q:q + n]]; q += n
    arrs = []
    for _ in range(6):
        arrs.append([pfl(v) for v in t[q:q + n]]); q += n
    s.alpha, s.grad, s.gedge, s.lin, s.lo, s.hi = arrs
    s.fl = [int(v) for v in t[q:q + n]]; q += n
    s.fu = [int(v) for v in t[q:q + n]]
    return s

NARGS = {"smo": 2, "shrink": 2, "unshrink": 0, "kkt": 1}

def parse_trace(text):
    """-> list of runs: dict(id,n,kind,shrink,K,s0,events=[(name,args,snap,rawline)],final,end,exc)"""
    runs = []; cur = None
    for l in text.split("\n"):
        if not l: continue
        t = l.split()
        h = t[0]
        if h == "RUN":
            cur = {"id": t[1], "n": int(t[2]), "kind": t[3], "shrink": int(t[4]), "events": [], "K": None, "s0": None, "final": None, "end": None, "exc": None}
            runs.append(cur)
        elif cur is None: continue
        elif h == "K": cur["K"] = [pfl(v) for v in t[1:]]
        elif h == "S0": cur["s0"] = parse_snap(t, 1, cur["n"])
        elif h == "E":
            k = NARGS[t[1]]
            cur["events"].append((t[1], t[2:2 + k], parse_snap(t, 2 + k, cur["n"]), l))
        elif h == "F": cur["final"] = parse_snap(t, 1, cur["n"])
        elif h == "END": cur["end"] = (int(t[1]), int(t[2]), pfl(t[3]), pfl(t[4]))
        elif h in ("EXC", "STDEXC"): cur["exc"] = l
    return runs

def f32(x):
    return struct.unpack("f", struct.pack("f", x))[0]

def indep_kernel(c):
    """kernel matrix computed here from the data, independent of Shark's kernel classes"""
    n = c["n"]; x = c["x"]; K = [[0.0] * n for _ in range(n)]
    for i in range(n):
        for j in range(n):
            if c["kernel"] == "lin": v = math.fsum(a * b for a, b in zip(x[i], x[j]))
            else: v = math.exp(-c["gamma"] * math.fsum((a - b) * (a - b) for a, b in zip(x[i], x[j])))
            K[i][j] = f32(v) if c["matrix"].startswith("cf") else v
    return K

# ------------------------------------------------------------------------------------------------
# spec monitor: the property's predicates evaluated on the implementation's snapshots

def recompute(c, K, s):
    """independent gradient lin - K alpha (position order), objective, edge gradient, scale"""
    n = c["n"]; perm = s.perm
    ao = [0.0] * n; bo = [0.0] * n
    for b in range(n):
        ao[perm[b]] = s.alpha[b]
        bo[perm[b]] = s.alpha[b] if (s.alpha[b] == s.lo[b] or s.alpha[b] == s.hi[b]) else 0.0
    nz = [q for q in range(n) if ao[q] != 0.0]
    nzb = [q for q in range(n) if bo[q] != 0.0]
    g = [0.0] * n; ge = [0.0] * n; scale = 1.0; obj = 0.0
    for a in range(n):
        p = perm[a]; row = K[p]
        ka = math.fsum(row[q] * ao[q] for q in nz)
        kb = math.fsum(row[q] * bo[q] for q in nzb)
        g[a] = s.lin[a] - ka; ge[a] = s.lin[a] - kb
        sc = sum(abs(row[q] * ao[q]) for q in nz) + abs(s.lin[a])
        if sc > scale: scale = sc
        obj += s.alpha[a] * (s.lin[a] - 0.5 * ka)
    return g, ge, obj, scale

def monitor(c, run, K, stop_first=True):
    """returns list of (event_index, key, message); event_index -1 = initial state"""
    n = c["n"]; bad = []
    if run["exc"]: return [(-1, "exception", "solver threw: " + run["exc"])]
    if run["s0"] is None or run["K"] is None: return [(-1, "crash", "no initial snapshot (crash?)")]
    # the solver's matrix entries against the independently computed kernel matrix
    kd = 0.0
    for i in range(n):
        for j in range(n):
            a, b = run["K"][i * n + j], K[i][j]
            rel = 3e-7 if c["matrix"].startswith("cf") else 1e-12
            # an inner product with cancellation is only accurate relative to |x||z| = sqrt(K_ii K_jj), not to its own size
            cs = math.sqrt(abs(K[i][i] * K[j][j])) if c["kernel"] == "lin" else 0.0
            if abs(a - b) > rel * max(abs(a), abs(b)) + 16 * c["d"] * EPSM * cs + 1e-300:
                return [(-1, "kernel-entry", "quadratic().entry(%d,%d)=%r differs from independently computed %r" % (i, j, a, b))]
            kd = max(kd, abs(a - b))
    lin0 = [1.0 if y else -1.0 for y in c["y"]]
    lo0 = [0.0 if y else -c["Cneg"] for y in c["y"]]
    hi0 = [c["Cpos"] if y else 0.0 for y in c["y"]]
    states = [("init", [], run["s0"])] + [(e[0], e[1], e[2]) for e in run["events"]]
    if run["final"] is not None: states.append(("final", [], run["final"]))
    prev = None; prevobj = None; sum0 = None; nsmo = 0; amax = 1.0; hscale = 1.0
    for idx, (name, args, s) in enumerate(states):
        ev = idx - 1
        msgs = []
        # permutation and consistently permuted per-variable data
        if sorted(s.perm) != list(range(n)): msgs.append(("perm", "permutation %s is not a permutation" % s.perm))
        else:
            for a in range(n):
                p = s.perm[a]
                if s.lin[a] != lin0[p] or s.lo[a] != lo0[p] or s.hi[a] != hi0[p]:
                    msgs.append(("perm-data", "position %d holds variable %d but linear/box (%r,%r,%r) are not that variable's (%r,%r,%r)" % (a, p, s.lin[a], s.lo[a], s.hi[a], lin0[p], lo0[p], hi0[p]))); break
        if not (0 <= s.active <= n): msgs.append(("active", "active=%d out of range" % s.active))
        if not msgs:
            for a in range(n):
                if not (s.lo[a] <= s.alpha[a] <= s.hi[a]): msgs.append(("box", "alpha[%d]=%r outside [%r,%r]" % (a, s.alpha[a], s.lo[a], s.hi[a]))); break
                if s.fl[a] != int(s.alpha[a] == s.lo[a]) or s.fu[a] != int(s.alpha[a] == s.hi[a]):
                    msgs.append(("flags", "bound flags (%d,%d) of position %d do not match alpha=%r box [%r,%r]" % (s.fl[a], s.fu[a], a, s.alpha[a], s.lo[a], s.hi[a]))); break
        if not msgs:
            g, ge, obj, scale = recompute(c, K, s)
            hscale = max(hscale, scale); scale = hscale      # rounding errors of earlier, larger states persist in the maintained gradient
            amax = max(amax, max(abs(v) for v in s.alpha))
            asum = sum(abs(v) for v in s.alpha)
            tol = 32 * EPSM * (nsmo + 8) * scale + 2 * kd * asum
            if c["matrix"].startswith("cf") and c["warm"]: tol += 2.0 ** -22 * scale   # setInitialSolution multiplies in float for a float cache
            for a in range(s.active):
                if not abs(s.grad[a] - g[a]) <= tol:
                    msgs.append(("grad", "gradient[%d]=%r but linear - K alpha = %r (|diff| %.3g > tol %.3g), active=%d" % (a, s.grad[a], g[a], abs(s.grad[a] - g[a]), tol, s.active))); break
            if run["shrink"] and not msgs:
                for a in range(n):
                    if not abs(s.gedge[a] - ge[a]) <= tol:
                        gk = "gedge:double-update-i-eq-j" if (name == "smo" and args[0] == args[1]) else "gedge"
                        msgs.append((gk, "gradientEdge[%d]=%r but linear - K alpha_bounded = %r (|diff| %.3g > tol %.3g)" % (a, s.gedge[a], ge[a], abs(s.gedge[a] - ge[a]), tol))); break
            for a in range(s.active, n):
                if not (s.fl[a] or s.fu[a]): msgs.append(("shrunk-free", "shrunk position %d holds a free variable" % a)); break
            sm = math.fsum(s.alpha)
            if sum0 is None: sum0 = sm
            if c["kind"] == "svm" and not abs(sm - sum0) <= 8 * EPSM * (nsmo + 4) * n * amax:
                msgs.append(("sum", "sum(alpha)=%r differs from the initial %r" % (sm, sum0)))
            otol = 64 * EPSM * (nsmo + 8) * max(1.0, scale * asum) + 4 * kd * asum * asum
            if c["matrix"].startswith("cf") and c["warm"]: otol += 2.0 ** -22 * scale * asum
            if s.active == n and not abs(s.fval - obj) <= otol:
                msgs.append(("fval", "functionValue()=%r but recomputed objective %r" % (s.fval, obj)))
            if prev is not None:
                if name == "smo":
                    i, j = int(args[0]), int(args[1])
                    if not (i < prev.active and j < prev.active): msgs.append(("ws", "working set (%d,%d) not inside the active set %d" % (i, j, prev.active)))
                    for a in range(n):
                        if a != i and a != j and s.alpha[a] != prev.alpha[a]:
                            msgs.append(("alpha-other", "alpha[%d] changed in an SMO step on (%d,%d)" % (a, i, j))); break
                    if not (obj >= prevobj - otol):
                        key = "objective-decrease"
                        if c["kind"] == "box" and i != j:
                            pi, pj = prev.perm[i], prev.perm[j]
                            det = K[pi][pi] * K[pj][pj] - K[pi][pj] * K[pi][pj]
                            if det <= 1e-12 and (K[pi][pi] > 0 or K[pj][pj] > 0): key = "box2d:tiny-det-fallback"
                        elif c["kind"] == "box" and 0 < K[prev.perm[i]][prev.perm[i]] < 1e-12: key = "edge1d:tiny-Q"
                        msgs.append((key, "dual objective decreased in SMO step (%d,%d): %r -> %r (drop %.6g, tol %.3g)" % (i, j, prevobj, obj, prevobj - obj, otol)))
                else:
                    # shrink / unshrink / checkKKT / final: the variables (as a map original index -> value) must not change
                    po = dict(zip(prev.perm, prev.alpha)); so = dict(zip(s.perm, s.alpha))
                    if po != so: msgs.append(("alpha-moved", "%s changed coefficient values" % name))
                    if name == "shrink":
                        gp, _, _, _ = recompute(c, K, prev)
                        orig_g = dict(zip(prev.perm, gp)); was_active = set(prev.perm[:prev.active]) if not (prev.active < n and s.unshr and not prev.unshr) else set(prev.perm)
                        now_active = set(s.perm[:s.active])
                        pool = was_active
                        for a in range(s.active, n):
                            v = s.perm[a]
                            if v not in was_active: continue         # was shrunk before
                            gv = orig_g[v]
                            for b in range(n):
                                u = prev.perm[b]
                                if u == v or u not in pool: continue
                                if c["kind"] == "svm":
                                    # v at lower bound may only increase: needs a partner u that may decrease (not at lower) with g_v > g_u
                                    if s.fl[a] and not s.fu[a] and not prev.fl[b] and gv - orig_g[u] > tol:
                                        msgs.append(("shrink-unsound", "shrunk variable %d (lower bound, g=%r) could still improve with variable %d (g=%r)" % (v, gv, u, orig_g[u]))); break
                                    if s.fu[a] and not s.fl[a] and not prev.fu[b] and orig_g[u] - gv > tol:
                                        msgs.append(("shrink-unsound", "shrunk variable %d (upper bound, g=%r) could still improve with variable %d (g=%r)" % (v, gv, u, orig_g[u]))); break
                            if c["kind"] == "box":
                                if (s.fl[a] and not s.fu[a] and gv > tol) or (s.fu[a] and not s.fl[a] and gv < -tol):
                                    msgs.append(("shrink-unsound", "shrunk variable %d at a bound has an improving gradient %r" % (v, gv)))
                            if msgs: break
                    if name == "kkt":
                        # reported value = largest KKT violation, recomputed from the snapshot's own gradient
                        if c["kind"] == "svm":
                            up = [s.grad[a] for a in range(s.active) if s.alpha[a] != s.hi[a]]
                            dn = [s.grad[a] for a in range(s.active) if s.alpha[a] != s.lo[a]]
                            want = (max(up) if up else -1e100) - (min(dn) if dn else 1e100)
                        else:
                            want = 0.0
                            for a in range(n):
                                if s.alpha[a] == s.hi[a] and s.alpha[a] == s.lo[a]: continue
                                if s.alpha[a] != s.hi[a]: want = max(want, s.grad[a])
                                if s.alpha[a] != s.lo[a]: want = max(want, -s.grad[a])
                        if pfl(args[0]) != want: msgs.append(("kkt-value", "checkKKT()=%r but the largest KKT violation of the state is %r" % (pfl(args[0]), want)))
            prevobj = obj
        if name == "smo": nsmo += 1
        for k, m in msgs: bad.append((ev, k, "%s [event %d: %s %s]" % (m, ev, name, " ".join(args))))
        if bad and stop_first: break
        if msgs: break          # later states are not meaningful once an invariant is broken
        prev = s
    return bad

# ------------------------------------------------------------------------------------------------
# model vs implementation (one step each)

def compare_run(run, mlines, n):
    """-> list of (event_index, message)"""
    dis = []
    if len(mlines) != len(run["events"]):
        return [(-1, "model produced %d lines for %d events" % (len(mlines), len(run["events"])))]
    for ev, ((name, args, s, raw), ml) in enumerate(zip(run["events"], mlines)):
        if raw[2:] == ml[2:]: continue
        a = raw.split(); b = ml.split()
        if len(a) != len(b) or a[1] != b[1]: dis.append((ev, "line shapes differ")); continue
        k = NARGS[name]; base = 2 + k
        if name == "kkt" and a[2] != b[2] and pfl(a[2]) != pfl(b[2]):
            dis.append((ev, "checkKKT value: implementation %s model %s" % (a[2], b[2])))
        if name == "smo" and a[2:4] != b[2:4]: dis.append((ev, "indices differ"))
        names = ["active", "unshr", "fval"] + ["perm"] * n + ["alpha"] * n + ["grad"] * n + ["gedge"] * n + ["lin"] * n + ["lo"] * n + ["hi"] * n + ["fl"] * n + ["fu"] * n
        vs = {}
        for f in ("alpha", "grad", "gedge"):
            arr = getattr(s, f); vs[f] = max([abs(v) for v in arr if v == v and abs(v) != float("inf")] + [0.0])
        for p, nm in enumerate(names):
            x, y = a[base + p], b[base + p]
            if x == y: continue
            if nm in ("active", "unshr", "perm", "fl", "fu"):
                dis.append((ev, "%s[%d]: implementation %s model %s" % (nm, (p - 3) % n if p >= 3 else 0, x, y))); break
            fx, fy = pfl(x), pfl(y)
            if fx == fy or (fx != fx and fy != fy): continue
            sc = vs.get(nm, max(abs(s.fval), 1.0) if nm == "fval" else 0.0)
            if not abs(fx - fy) <= 1e-9 * max(abs(fx), abs(fy), sc):
                dis.append((ev, "%s[%d]: implementation %s model %s" % (nm, (p - 3) % n if p >= 3 else 0, x, y))); break
    return dis

# ------------------------------------------------------------------------------------------------

def execute(ck, exe, model, cfgs, tmpd, tag):
    """run harness + model on the configurations; returns list of (cfg, run, disagreements, monitor failures)"""
    cf = os.path.join(tmpd, tag + "_cases.txt")
    open(cf, "w").write("\n".join(run_line(c) for c in cfgs) + "\n")
    tf = os.path.join(tmpd, tag + "_trace.txt")
    rc, out, err = sh([exe, cf], timeout=1500, env={"OMP_NUM_THREADS": "1", "OPENBLAS_NUM_THREADS": "1"})
    open(tf, "w").write(out)
    runs = parse_trace(out)
    byid = {r["id"]: r for r in runs}
    rc2, mout, merr = sh([model, tf], timeout=1500)
    if rc2 != 0: raise RuntimeError("model driver failed: " + merr[-2000:])
    mruns = {}; cur = None
    for l in mout.split("\n"):
        if l.startswith("RUN "): cur = []; mruns[l.split()[1]] = cur
        elif l.startswith("M ") and cur is not None: cur.append(l)
    res = []
    for c in cfgs:
        r = byid.get(c["id"])
        if r is None or (r["end"] is None and r["exc"] is None):
            res.append((c, r, [], [(-1, "crash", "implementation crashed/stopped (rc=%s) in run %s: %s" % (rc, c["id"], err.strip()[-300:]))])); continue
        K = indep_kernel(c)
        mon = monitor(c, r, K)
        dis = compare_run(r, mruns.get(c["id"], []), c["n"]) if not r["exc"] else []
        res.append((c, r, dis, mon))
    return res

def first_failure(ck, exe, model, c, tmpd, want_key=None):
    res = execute(ck, exe, model, [c], tmpd, "shrink")
    _, r, dis, mon = res[0]
    if mon and (want_key is None or mon[0][1] == want_key): return ("mon", mon[0], r)
    if want_key is None and dis: return ("dis", dis[0], r)
    return None

def minimise(ck, exe, model, c, tmpd, is_mon, key):
    """shorten the run (iteration budget) and drop points while the same failure persists"""
    def fails(c2):
        f = first_failure(ck, exe, model, c2, tmpd, key if is_mon else None)
        return f is not None and (f[0] == "mon") == is_mon
    f = first_failure(ck, exe, model, c, tmpd, key if is_mon else None)
    if f is None: return c
    ev = f[1][0]
    if ev >= 0:
        nsmo = sum(1 for e in f[2]["events"][:ev + 1] if e[0] == "smo")
        c2 = dict(c); c2["maxiter"] = max(1, nsmo)
        if fails(c2): c = c2
    idx = list(range(c["n"]))
    def sub(keep):
        c2 = dict(c); c2["n"] = len(keep); c2["x"] = [c["x"][i] for i in keep]; c2["y"] = [c["y"][i] for i in keep]
        if c.get("warm"): c2["a0"] = [c["a0"][i] for i in keep]
        c2["cachesize"] = max(c["cachesize"], 2 * len(keep))
        return c2
    keep = ddmin(idx, lambda k: len(k) >= 2 and fails(sub(k)), max_runs=40)
    if len(keep) < c["n"] and fails(sub(keep)): c = sub(keep)
    return c

def report(ck, exe, model, c, tmpd, is_mon, key, msg, no_input=False):
    small = minimise(ck, exe, model, c, tmpd, is_mon, key)
    f = first_failure(ck, exe, model, small, tmpd, key if is_mon else None)
    detail = f[1][-1] if f else msg
    cf = ck.write_replay("case_%s.txt" % re.sub(r"\W", "_", c["id"]), "# C08 replay (%s)\n%s\n" % (detail, run_line(small)))
    rp = {"case_file": cf, "case": run_line(small), "config": {k: v for k, v in small.items()}, "observed": detail,
          "expected": "invariant of Properties_C08.v / one-step agreement with C08Model.step",
          "replay_cmd": "python3 tools/c08.py --replay %s" % cf}
    if no_input:
        rp["broken"] = "correspondence C08Model.step vs shark QpSolver step"
        ck.violation("correspondence", rp, "correspondence C08Model.step vs the real solver step no longer checks: %s; the spec monitor passes on every explored input" % detail, no_input=True)
    else:
        ck.violation("%s:%s:%s:%s" % (key, small["kind"], small["sel"], small["stream"]), rp, "spec monitor fails on the implementation: " + detail)

def main():
    ck = Check(PID)
    ck.trusted = DEFAULT_TRUSTED + ["harness/c08_smo.cpp: forwarding wrapper around the real problem object (QpSolver is templated on it); private members read through '#define private public' in that TU only",
                                   "modelled, not verified: float drift of the incrementally maintained gradient (monitored with a tolerance proportional to iterations*eps*scale); kernel cache (C09); selection strategies (any pair is allowed by the theorems, the gain theorem needs g_i >= g_j)"]
    ck.assumptions = ["kernel matrix symmetric; objective monotonicity additionally needs K_ii+K_jj-2K_ij >= 0 and g_i >= g_j for the selected pair (SvmProblem) resp. the determinant/edge hypotheses of box2d_gain_nonneg_partial (BoxConstrainedProblem)",
                      "main stream: data with small-integer/dyadic coordinates, so every threshold comparison of the sub-solvers is far from its boundary; the extreme stream (tiny data, C>=1e7) is reported separately"]
    ck.proofs()
    model = extract_model(PID, "C08Extract.v", "c08_driver.ml")
    exe, err = cxx_build("c08_smo", [os.path.join(ROOT, "harness", "c08_smo.cpp")])
    if exe is None:
        ck.oblige("harness builds against /repo", False, err); ck.finish()
    tmpd = os.path.join(BUILD, "tmp", PID); os.makedirs(tmpd, exist_ok=True)
    big = ck.tier == "thorough"
    cfgs = []
    if ck.replay:
        for l in open(ck.replay).read().split("\n"):
            if l.startswith("RUN "): cfgs.append(parse_run_line(l))
    else:
        cdir = os.path.join(ROOT, "corpus", PID)
        if os.path.isdir(cdir):
            for f in sorted(os.listdir(cdir)):
                for l in open(os.path.join(cdir, f)).read().split("\n"):
                    if l.startswith("RUN "):
                        c = parse_run_line(l); c["id"] = "corpus_" + c["id"]; cfgs.append(c)
        for k in range(4000 if big else 600): cfgs.append(gen_run(ck.rng, "m%d" % k, big))
        for k in range(200 if big else 20): cfgs.append(gen_run(ck.rng, "x%d" % k, big, extreme=True))
    res = []
    for p in range(0, len(cfgs), 100):
        res += execute(ck, exe, model, cfgs[p:p + 100], tmpd, "b%d" % (p // 100))
    nev = 0; nmon = 0; ndis = 0; evk = {}; branch = {"clip": 0, "free": 0, "noop": 0}; hyp_bad = 0; shrunk_events = 0; unshr = 0
    reported = set(); dis_runs = []; allkeys = {}
    for c, r, dis, mon in res:
        if r is not None:
            nev += len(r["events"])
            prev = r["s0"]
            for name, args, s, raw in r["events"]:
                evk[name] = evk.get(name, 0) + 1
                if name == "smo" and prev is not None:
                    i, j = int(args[0]), int(args[1])
                    if s.alpha == prev.alpha: branch["noop"] += 1
                    elif s.fl[i] or s.fu[i] or s.fl[j] or s.fu[j]: branch["clip"] += 1
                    else: branch["free"] += 1
                    if c["kind"] == "svm" and prev.grad[i] < prev.grad[j]: hyp_bad += 1
                if name == "shrink" and prev is not None and s.active < prev.active: shrunk_events += 1
                if name == "unshrink" and prev is not None and s.active > prev.active: unshr += 1
                prev = s
        if mon:
            nmon += 1
            ev, key, msg = mon[0]
            k2 = (key, c["kind"], c["sel"], c["stream"])
            allkeys[k2] = allkeys.get(k2, 0) + 1
            if k2 not in reported and len(reported) < 6:
                reported.add(k2); report(ck, exe, model, c, tmpd, True, key, msg)
        elif dis:
            ndis += 1; dis_runs.append((c, dis))
    if dis_runs and not nmon:
        # correspondence broken, monitor silent: search around the disagreeing configurations
        found = False; extra = []
        for c, dis in dis_runs[:4]:
            for k in range(40):
                g = gen_run(ck.rng, "s%d_%d" % (len(extra), k), big)
                for f in ("kind", "sel", "shrink", "matrix", "kernel", "gamma"): g[f] = c[f]
                if g["kernel"] == "rbf" and g["gamma"] == 0.0: g["gamma"] = 0.5
                extra.append(g)
        for c, r, dis, mon in execute(ck, exe, model, extra, tmpd, "search"):
            if mon:
                report(ck, exe, model, c, tmpd, True, mon[0][1], mon[0][2]); found = True; break
        ck.notes["search_cases"] = len(extra)
        if not found:
            c, dis = dis_runs[0]
            report(ck, exe, model, c, tmpd, False, None, dis[0][1], no_input=True)
    ck.oblige("one-step correspondence C08Model.step (float-instantiated) vs real solver on %d events of %d runs" % (nev, len(res)), ndis == 0 and True,
              "" if not ndis else "%d runs with disagreements" % ndis)
    ck.cov["evaluations"] = nev
    ck.cov["distinct_nontrivial"] = len(set(run_line(c).split(" ", 2)[2] for c, r, _, _ in res if r is not None and len(r["events"]) >= 3))
    ck.cov["rule"] = ("real QpSolver runs (SvmShrinkingProblem / BoxConstrainedShrinkingProblem over CSVMProblem; selection MVP/LibSVM/HMG resp. MaximumGain/MaximumGradient/WS2; "
                      "shrinking on/off; cached float/double with capacities 2n..default, precomputed; linear/Gaussian kernel; n=4..30 points with integer or dyadic coordinates, duplicates; "
                      "C in 0.125..1e4, class-specific C; cold and warm starts); every recorded event (updateSMO, shrink, unshrink, checkKKT) is one evaluation: model step on the "
                      "implementation's previous snapshot compared with its next snapshot + invariants recomputed from an independent kernel matrix; non-trivial = run with >= 3 events")
    ck.cov["samples"] = [run_line(c)[:300] for c, _, _, _ in res[:2]]
    ck.cov["traces_validated_against_impl"] = len(res)
    ck.cov["disagreements_checked"] = ndis + nmon
    ck.notes["monitor_failures_by_key"] = {":".join(k): v for k, v in allkeys.items()}; log("monitor failures by key: %s" % ck.notes["monitor_failures_by_key"]); ck.notes["event_mix"] = evk; ck.notes["smo_branches"] = branch
    ck.notes["svm_steps_with_gi_lt_gj(hypothesis of smo_gain_nonneg not met)"] = hyp_bad
    ck.notes["shrink_events_that_removed_variables"] = shrunk_events; ck.notes["unshrink_events_that_restored_variables"] = unshr
    ck.notes["streams"] = {"main": sum(1 for c in cfgs if c["stream"] == "main"), "extreme": sum(1 for c in cfgs if c["stream"] == "extreme")}
    ck.finish()

if __name__ == "__main__":
    main()
