#!/usr/bin/env python3
"""C18 translator: regenerate, from the CURRENT source tree, the read/write field sequences and the
data members of every serializable Shark class, as Coq definitions + obligations.

What is read (source-level parse, comments and string literals blanked, brace/paren matching):
  * every `class`/`struct` definition in include/shark/**/*.{h,hpp,inl,tpp} (files whose name starts
    with '.' are junk and skipped; LinAlg/BLAS/gpu is not built and skipped): name, base classes, the
    declarations at class-body depth (data members with type; member function definitions);
  * its `void read(InArchive&)`, `void write(OutArchive&) const`, `template<class Archive> void
    serialize(Archive&, ...)` bodies, inline or out-of-line (`X<..>::read(` in src/**/*.cpp and the
    headers);
  * inside a body, in order: `ar >> e`, `ar << e`, `ar & e` (chained too), `B::read(ar)` /
    `base_object<B>(*this)` (base-class call), `e.read(ar)` / `e.write(ar)` (member call), local
    declarations (a local initialised from exactly one data member is an alias of that member),
    `for`/`if`/`else` (kept as guards of the fields inside), anything else is recorded as ignored.
What is ignored / trusted: macro-generated classes (BatchInterfaceAdaptStruct), the meaning of
conditions, statements that do not mention the archive, Boost's own record structure.
The same function computes names and kinds for both sides, so `read_fields_X = write_fields_X`
compares the *normalised expressions, their order, their kinds and their guards*.
"""
import os, re, sys, json, hashlib

SKIP_DIRS = ("LinAlg/BLAS/gpu", "LinAlg/BLAS/kernels")

# ------------------------------------------------------------------------------------------------
# hand-kept tables (justified entries only)

# members that are legitimately NOT streamed.  key: declaring class, member -> reason
TRANSIENT = {
    # --- interface bases: state fixed by the constructor of the concrete class
    ("AbstractModel", "m_features"): "feature flags set by the concrete class's constructor, not object state",
    ("AbstractKernelFunction", "m_features"): "feature flags set by the constructor",
    ("AbstractClustering", "m_features"): "feature flags set by the constructor",
    ("AbstractOptimizer", "m_features"): "feature flags set by the constructor",
    # --- raw pointers to objects the instance does not own (user supplies them on construction)
    ("LineSearch", "m_function"): "pointer to the external objective function (set by init)",
    ("CMA", "mpe_rng"): "pointer to the external random generator",
    ("ElitistCMA", "mpe_rng"): "pointer to the external random generator",
    ("CMSA", "mpe_rng"): "pointer to the external random generator",
    ("IndicatorBasedSteadyStateMOCMA", "mpe_rng"): "pointer to the external random generator",
    ("IndicatorBasedMOCMA", "mpe_rng"): "pointer to the external random generator",
    ("IndicatorBasedRealCodedNSGAII", "mpe_rng"): "pointer to the external random generator",
    ("SMSEMOA", "mpe_rng"): "pointer to the external random generator",
    ("DropoutLayer", "mep_rng"): "pointer to the external random generator",
    ("BaseNearestNeighbor", "m_algorithm"): "pointer to the external nearest-neighbour algorithm object",
    ("GaussianTaskKernel", "m_data"): "reference to the external task data set",
    ("GaussianTaskKernel", "mpe_inputKernel"): "pointer to the external input kernel",
    ("CrossEntropyMethod", "m_noise"): "user-supplied polymorphic strategy object (setNoiseType), held by pointer like an external object",
    # --- stateless functor members (type-level configuration)
    ("LinearModel", "m_activation"): "activation functor of the template parameter type; every activation in NeuronLayers.h is an empty struct",
    ("Conv2DModel", "m_activation"): "activation functor (empty struct)",
    ("NeuronLayer", "m_neuron"): "activation functor (empty struct)",
    # --- caches / scratch recomputed from streamed members, init-only configuration
    ("Conv2DModel", "m_backpropFilters"): "cache; read() recomputes it with updateBackpropFilters()",
    ("CMA", "m_userSetMu"): "configuration flag consulted only by init()",
    ("CMA", "m_userSetLambda"): "configuration flag consulted only by init()",
    ("CMA", "m_initSigma"): "configuration consulted only by init()",
    ("CMSA", "m_userSetMu"): "configuration flag consulted only by init()",
    ("CMSA", "m_userSetLambda"): "configuration flag consulted only by init()",
    ("CMSA", "m_initSigma"): "configuration consulted only by init()",
    ("LBFGS", "m_updThres"): "constant 1e-10 assigned by init(); no setter",
    ("compressed_matrix_impl", "m_storage"): "raw view of m_manager's buffers; serialize() re-points it after loading",
    # --- synthetic classes of the translator self-test (harness/c18_selftest/helper_rebuild.cpp)
    ("StCacheOk", "m_cache"): "self-test: cache rebuilt by read()", ("StCacheDropped", "m_cache"): "self-test: cache, rebuild dropped",
    ("StCacheEarly", "m_cache"): "self-test: cache rebuilt before streaming", ("StCacheConst", "m_cache"): "self-test: cache only inspected",
    ("StCacheView", "m_cache"): "self-test: view re-pointed on loading",
}

# Transient members that read() legitimately does NOT touch (obligation rebuild_X: every transient member is either
# referenced by read()/serialize() -- directly or through a non-const member function it calls -- at or after the last
# streaming statement, or listed here).  key: (declaring OR concrete class, member) -> one line of reason.
# An entry keyed by the DECLARING class does not cover a derived class that has a member function of its own (other than
# a constructor) writing the member: such a class makes the member depend on its state and needs an entry of its own.
REBUILD_NOT_REQUIRED = {
    # --- feature flags: assigned by the constructors from the class's type and the user-supplied structure; the classes
    #     whose setters change them (PolynomialKernel, ConcatenatedModel, Rprop) rebuild them in read(), and the harness
    #     compares the flags of every model / kernel (observable flags.*)
    ("AbstractModel", "m_features"): "feature flags, assigned by the constructors only (no setter of the class writes them)",
    ("AbstractKernelFunction", "m_features"): "feature flags, assigned by the constructors only (no setter of the class writes them)",
    ("AbstractClustering", "m_features"): "feature flags, assigned by the constructors only",
    ("AbstractOptimizer", "m_features"): "feature flags, assigned by the constructors only (no setter of the class writes them)",
    ("ProductKernel", "m_features"): "addKernel() (structure building by the user, not state) clears IS_NORMALIZED, a property of the sub-kernel TYPES",
    # --- raw pointers / references to objects the instance does not own: nothing to rebuild, the user re-supplies them
    ("LineSearch", "m_function"): "pointer to the external objective function; init() of the owning optimizer sets it again",
    ("CMA", "mpe_rng"): "pointer to the external random generator (constructor argument)",
    ("ElitistCMA", "mpe_rng"): "pointer to the external random generator (constructor argument)",
    ("CMSA", "mpe_rng"): "pointer to the external random generator (constructor argument)",
    ("IndicatorBasedSteadyStateMOCMA", "mpe_rng"): "pointer to the external random generator (constructor argument)",
    ("IndicatorBasedMOCMA", "mpe_rng"): "pointer to the external random generator (constructor argument)",
    ("IndicatorBasedRealCodedNSGAII", "mpe_rng"): "pointer to the external random generator (constructor argument)",
    ("SMSEMOA", "mpe_rng"): "pointer to the external random generator (constructor argument)",
    ("DropoutLayer", "mep_rng"): "pointer to the external random generator (constructor argument)",
    ("BaseNearestNeighbor", "m_algorithm"): "pointer to the external nearest-neighbour algorithm object (constructor argument)",
    ("GaussianTaskKernel", "m_data"): "reference to the external task data set (constructor argument)",
    ("GaussianTaskKernel", "mpe_inputKernel"): "pointer to the external input kernel (constructor argument)",
    ("CrossEntropyMethod", "m_noise"): "user-supplied strategy object (setNoiseType), not derived from streamed members",
    # --- stateless functor members: nothing to rebuild
    ("LinearModel", "m_activation"): "empty activation functor of the template parameter type",
    ("Conv2DModel", "m_activation"): "empty activation functor of the template parameter type",
    ("NeuronLayer", "m_neuron"): "empty activation functor of the template parameter type",
    # --- configuration consulted only by init(), which overwrites all streamed state anyway
    ("CMA", "m_userSetMu"): "user configuration consulted only by init(); not derived from streamed members",
    ("CMA", "m_userSetLambda"): "user configuration consulted only by init(); not derived from streamed members",
    ("CMA", "m_initSigma"): "user configuration consulted only by init(); not derived from streamed members",
    ("CMSA", "m_userSetMu"): "user configuration consulted only by init(); not derived from streamed members",
    ("CMSA", "m_userSetLambda"): "user configuration consulted only by init(); not derived from streamed members",
    ("CMSA", "m_initSigma"): "user configuration consulted only by init(); not derived from streamed members",
    ("LBFGS", "m_updThres"): "constant 1e-10 assigned by init(); not derived from streamed members",
}

# accessor functions used in stream statements instead of the member: (class, accessor) -> member
ACCESSORS = {
    ("EnsembleImpl", "model"): "m_models",
    ("Ensemble", "model"): "m_models",
}

# macros that declare data members (include/shark/Core/Flags.h): macro -> [(member, type)]
MACRO_MEMBERS = {"SHARK_FEATURE_INTERFACE": [("m_features", "Features")]}

# locals that carry a member through an intermediate object: (class, local) -> member
LOCAL_ALIASES = {
    ("RBM", "str"): "mpe_rng",     # std::stringstream stream; stream << *mpe_rng; str = stream.str(); archive << str
}

# classes that are NOT given obligations, with the reason (they are listed in the evidence file)
EXCLUDED = {
    "ISerializable": "the interface itself (empty default read/write)",
    "AbstractClustering": "interface with empty read/write and no data members",
    "CSvmDerivative": "declares empty read/write on purpose (helper object rebuilt from a KernelExpansion and a trainer)",
    "OptimizationTrainer": "declares empty read/write; holds only raw pointers to external loss/optimizer/stopping criterion",
    "SubrangeKernelWrapper": "empty read/write by design (source comment: serialization is done by the implementing kernel)",
    "MklKernelWrapper": "empty read/write by design (serialization is done by the implementing kernel)",
    "RVEA": "declares template serialize(Archive&) with ONE parameter: never called by Boost nor by ISerializable::read/write; the class is not serializable in this tree (reported as an observation)",
    "MOEAD": "same as RVEA: one-parameter serialize(Archive&) that nothing calls",
    "ReferenceVectorAdaptation": "one-parameter serialize(Archive&) that nothing calls",
    "ReferenceVectorGuidedSelection": "one-parameter serialize(Archive&) that nothing calls",
}

# classes that must be translated (the check fails if one disappears from the source)
REQUIRED = ["LinearModel", "ConcatenatedModel", "Normalizer", "KernelExpansion", "GaussianRbfKernel",
            "PolynomialKernel", "Data", "LabeledData", "Shape", "AbstractLineSearchOptimizer",
            "SteepestDescent", "Rprop", "Adam", "BFGS", "LBFGS", "CG", "CMA", "LineSearch"]

# ------------------------------------------------------------------------------------------------
# lexing helpers

def blank_comments(t):
    """replace comments and string/char literals by spaces (same length, newlines kept)"""
    out = list(t); i = 0; n = len(t)
    while i < n:
        c = t[i]
        if c == '/' and i + 1 < n and t[i + 1] == '/':
            j = t.find('\n', i)
            j = n if j < 0 else j
            # line continuation inside // comment is rare; ignore
            for k in range(i, j): out[k] = ' '
            i = j
        elif c == '/' and i + 1 < n and t[i + 1] == '*':
            j = t.find('*/', i + 2); j = n if j < 0 else j + 2
            for k in range(i, j):
                if out[k] != '\n': out[k] = ' '
            i = j
        elif c == '"':
            j = i + 1
            while j < n and t[j] != '"':
                j += 2 if t[j] == '\\' else 1
            for k in range(i + 1, min(j, n)):
                if out[k] != '\n': out[k] = ' '
            i = j + 1
        elif c == "'":
            j = i + 1
            while j < n and t[j] != "'" and j - i < 6:
                j += 2 if t[j] == '\\' else 1
            if j < n and t[j] == "'":
                for k in range(i + 1, j): out[k] = ' '
                i = j + 1
            else:
                i += 1
        else:
            i += 1
    return "".join(out)


def match_close(t, i, op='{', cl='}'):
    """t[i] == op; return index of the matching cl (or -1)"""
    d = 0
    for j in range(i, len(t)):
        if t[j] == op: d += 1
        elif t[j] == cl:
            d -= 1
            if d == 0: return j
    return -1


def match_angle(t, i):
    """t[i] == '<' of a template argument list; return index of matching '>' (parens respected)"""
    d = 0; p = 0
    for j in range(i, len(t)):
        c = t[j]
        if c == '(': p += 1
        elif c == ')': p -= 1
        elif c == '<' and p == 0: d += 1
        elif c == '>' and p == 0:
            d -= 1
            if d == 0: return j
        elif c in ';{}' : return -1
    return -1


def split_top(s, sep, angle=True):
    """split s at top-level occurrences of the string sep (paren/bracket/brace depth 0, and outside <> if angle)"""
    res = []; d = 0; a = 0; cur = []; i = 0
    while i < len(s):
        c = s[i]
        if c in '([{': d += 1
        elif c in ')]}': d -= 1
        if d == 0 and (a == 0 or not angle) and s.startswith(sep, i):
            res.append("".join(cur)); cur = []; i += len(sep); continue
        if angle and d == 0:
            if c == '<' and sep not in ('<<',) and re.search(r"[\w>]\s*$", "".join(cur)) and not s.startswith('<<', i) and (i == 0 or s[i-1] != '<'):
                a += 1
            elif c == '>' and a > 0:
                a -= 1
        cur.append(c); i += 1
    res.append("".join(cur))
    return res


def strip_casts(e):
    """remove xxx_cast<...> prefixes (keeps the parenthesised operand)"""
    while True:
        m = re.search(r"\b\w+_cast\s*<", e)
        if not m: return e
        j = match_angle(e, m.end() - 1)
        if j < 0: return e
        e = e[:m.start()] + e[j + 1:]


# ------------------------------------------------------------------------------------------------
# class discovery

class Cls:
    def __init__(self, name, bases, body, file, line, start):
        self.name, self.bases, self.body, self.file, self.line, self.start = name, bases, body, file, line, start
        self.members = []      # (name, type)
        self.funcs = {}        # 'read'/'write'/'serialize' -> dict(params, body or None, const, line)
        self.typedefs = {}
        self.tparams = []      # names of the template parameters of the class template
        self.methods = {}      # every member function at class-body depth: name -> [dict(params, body or None, const, line, file)]
        self.outer = None

CLASS_RE = re.compile(r"\b(class|struct)\s+(?:SHARK_EXPORT_SYMBOL\s+)?([A-Za-z_]\w*)\s*(?:<[^;{}()]*?>\s*)?(?:final\s*)?(:[^;{()]*?)?\{")


def parse_bases(s):
    if not s: return []
    s = s.strip()[1:]
    out = []
    for part in split_top(s, ','):
        p = re.sub(r"\b(public|protected|private|virtual|typename)\b", " ", part).strip()
        p = re.sub(r"<.*$", "", p, flags=re.S).strip()
        p = p.split("::")[-1].strip()
        if re.match(r"^[A-Za-z_]\w*$", p): out.append(p)
    return out


def top_level_decls(body):
    """yield (head_text, block_text or None, offset) for each declaration at depth 0 of a class body"""
    i = 0; n = len(body); start = 0; p = 0
    while i < n:
        c = body[i]
        if c == '(': p += 1
        elif c == ')': p -= 1
        if c == '{' and p >= 0:
            j = match_close(body, i)
            if j < 0: return
            head = body[start:i]
            blk = body[i + 1:j]
            k = j + 1
            # function definition (head has parens) ends at '}', others at the next ';'
            hd = re.sub(r"\b(public|private|protected)\s*:", " ", head)
            if '(' in hd and not re.match(r"\s*(class|struct|union|enum)\b", hd.strip()):
                # constructor with initializer list etc.
                yield (hd, blk, start)
                m = re.match(r"\s*;", body[k:])
                if m: k += m.end()
                start = k; i = k; p = 0; continue
            else:
                # nested type or brace initialiser: runs to ';'
                m = body.find(';', k)
                tail = body[k:m] if m >= 0 else ""
                yield (hd + "{}" + tail, None if re.match(r"\s*(class|struct|union|enum)\b", hd.strip()) else None, start)
                k = (m + 1) if m >= 0 else n
                start = k; i = k; p = 0; continue
        if c == ';' and p == 0:
            hd = re.sub(r"\b(public|private|protected)\s*:", " ", body[start:i])
            yield (hd, None, start)
            start = i + 1
        i += 1


def parse_member_decl(hd):
    """data-member names+types from a declaration head without block; [] if it is not a data member"""
    s = " ".join(hd.split())
    if not s: return []
    if re.match(r"^(typedef|using|friend|static|template|enum|class|struct|union|virtual|explicit|inline|operator|SHARK_EXPORT_SYMBOL|BOOST_\w+|SHARK_\w+)\b", s):
        return []
    if "{}" in s and re.match(r"^(class|struct|union|enum)\b", s): return []
    s = s.replace("{}", "")
    s = split_top(s, '=')[0] if '=' in s and 'operator' not in s else s
    if 'operator' in s: return []
    if '(' in s: return []
    parts = split_top(s, ',')
    first = parts[0].strip()
    m = re.match(r"^(.*?)([A-Za-z_]\w*)\s*(\[[^\]]*\])?\s*(:\s*\d+)?$", first, re.S)
    if not m: return []
    ty = m.group(1).strip()
    if not ty or ty in ("return", "public", "private", "protected", "typename", "const", "mutable"): return []
    if not re.search(r"[\w>]$|[*&]$", ty): return []
    ty = re.sub(r"^\s*mutable\s+", "", ty)
    res = [(m.group(2), ty)]
    for q in parts[1:]:
        mm = re.match(r"^\s*[*&]?\s*([A-Za-z_]\w*)\s*(\[[^\]]*\])?\s*$", q)
        if mm: res.append((mm.group(1), ty))
    return res


FUNC_RE = re.compile(r"\bvoid\s+(read|write|serialize)\s*\(")


def method_head(hd):
    """(name, params, const) of a member-function declaration/definition head, else None"""
    h = hd
    # drop a leading template<...> clause
    while True:
        m = re.match(r"\s*template\s*<", h)
        if not m: break
        j = match_angle(h, m.end() - 1)
        if j < 0: return None
        h = h[j + 1:]
    pi = h.find('(')
    if pi < 0: return None
    m = re.search(r"([A-Za-z_~]\w*)\s*$", h[:pi])
    if not m or m.group(1) in ("if", "for", "while", "switch", "return", "sizeof", "operator", "decltype", "noexcept", "throw"): return None
    if re.search(r"\boperator\b", h[:pi]): return None
    if re.match(r"\s*(typedef|using|friend)\b", h): return None
    pj = match_close(h, pi, '(', ')')
    if pj < 0: return None
    after = h[pj + 1:]
    return m.group(1), h[pi + 1:pj], bool(re.match(r"\s*const\b", after))


def parse_class(c):
    for hd, blk, off in top_level_decls(c.body):
        mf = method_head(hd)
        if mf is not None:
            nm_, params_, const_ = mf
            c.methods.setdefault(nm_, []).append(dict(params=params_, body=blk, const=const_,
                                                      line=c.line + c.body[:off].count("\n"), file=c.file))
        m = FUNC_RE.search(hd)
        if m and '(' in hd:
            pi = hd.index('(', m.start()); pj = match_close(hd, pi, '(', ')')
            params = hd[pi + 1:pj] if pj > 0 else ""
            after = hd[pj + 1:] if pj > 0 else ""
            f = dict(params=params, body=blk, const=bool(re.search(r"\bconst\b", after)),
                     line=c.line + c.body[:off].count("\n"), file=c.file)
            # keep the first definition with a matching archive type
            c.funcs.setdefault(m.group(1), []).append(f)
            continue
        if blk is not None:
            continue
        for mac, mems in MACRO_MEMBERS.items():
            if re.search(r"\b" + mac + r"\b", hd):
                c.members += [x for x in mems if x not in c.members]
        tm = re.match(r"\s*typedef\s+(.*?)\s+(\w+)\s*$", " ".join(hd.split()), re.S)
        if tm:
            c.typedefs[tm.group(2)] = tm.group(1); continue
        for nm, ty in parse_member_decl(hd):
            c.members.append((nm, ty))


def scan_repo(repo):
    files = []
    for root in ("include/shark", "src"):
        for d, _, fs in os.walk(os.path.join(repo, root)):
            rel = os.path.relpath(d, repo)
            if any(sd in rel.replace(os.sep, "/") for sd in SKIP_DIRS): continue
            for f in sorted(fs):
                if f.startswith('.'): continue
                if f.endswith((".h", ".hpp", ".inl", ".tpp", ".cpp")):
                    files.append(os.path.join(d, f))
    return scan_files(files)


def scan_files(files, classes_in_cpp=False):
    """texts and class table of the given files (classes defined in .cpp files are skipped unless classes_in_cpp)"""
    texts = {}
    classes = {}
    for p in sorted(files):
        try:
            raw = open(p, errors="replace").read()
        except OSError:
            continue
        if "Archive" not in raw and "class" not in raw and "struct" not in raw: continue
        t = blank_comments(raw)
        texts[p] = t
        if p.endswith(".cpp") and not classes_in_cpp: continue
        for m in CLASS_RE.finditer(t):
            pre = t[max(0, m.start() - 12):m.start()]
            if re.search(r"\benum\s*$", pre): continue
            if re.search(r"[<,]\s*$", pre): continue      # template parameter "class T"
            ob = m.end() - 1
            cb = match_close(t, ob)
            if cb < 0: continue
            # skip macro bodies (line continuation backslashes)
            seg = t[ob:cb]
            if seg.count("\\\n") > 3: continue
            c = Cls(m.group(2), parse_bases(m.group(3)), t[ob + 1:cb], p, t[:ob].count("\n") + 1, ob + 1)
            c.end = cb
            tm = re.search(r"template\s*<([^{};]*)>\s*$", t[max(0, m.start() - 400):m.start()], re.S)
            c.tparams = [x for x in re.findall(r"(?:class|typename)\s*(?:\.\.\.)?\s*([A-Za-z_]\w*)", tm.group(1))] if tm else []
            classes.setdefault(c.name, []).append(c)
    # nesting: qualify nested classes and cut them out of nothing (top_level_decls skips their blocks)
    allc = [c for cs in classes.values() for c in cs]
    for c in allc:
        parse_class(c)
    return texts, classes


def find_out_of_line(texts, cname, fname):
    """definition `cname<...>::fname(params) [const] {body}` anywhere in the scanned files"""
    rx = re.compile(r"\b" + re.escape(cname) + r"\s*(?:<[^;{}()]*?>)?\s*::\s*" + fname + r"\s*\(")
    res = []
    for p, t in texts.items():
        for m in rx.finditer(t):
            pi = m.end() - 1; pj = match_close(t, pi, '(', ')')
            if pj < 0: continue
            k = pj + 1
            mm = re.match(r"\s*(const)?\s*\{", t[k:])
            if not mm: continue
            ob = k + mm.end() - 1; cb = match_close(t, ob)
            if cb < 0: continue
            res.append(dict(params=t[pi + 1:pj], body=t[ob + 1:cb], const=bool(mm.group(1)),
                            line=t[:m.start()].count("\n") + 1, file=p))
    return res


# ------------------------------------------------------------------------------------------------
# body parsing

def parse_stmts(t):
    """list of ('s', text) | ('for', header, [stmts]) | ('if', cond, [then], [else])"""
    res = []; i = 0; n = len(t)
    def one(i):
        while i < n and t[i].isspace(): i += 1
        if i >= n: return None, n
        if t[i] == '{':
            j = match_close(t, i)
            j = n - 1 if j < 0 else j
            return ('blk', parse_stmts(t[i + 1:j])), j + 1
        m = re.match(r"(for|while|if|switch)\s*\(", t[i:])
        if m and (i == 0 or not (t[i - 1].isalnum() or t[i - 1] == '_')):
            pi = i + m.end() - 1; pj = match_close(t, pi, '(', ')')
            hdr = t[pi + 1:pj]
            body, k = one(pj + 1)
            bl = body[1] if body and body[0] == 'blk' else ([body] if body else [])
            if m.group(1) == 'if':
                mm = re.match(r"\s*else\b", t[k:])
                el = []
                if mm:
                    eb, k = one(k + mm.end())
                    el = eb[1] if eb and eb[0] == 'blk' else ([eb] if eb else [])
                return ('if', hdr, bl, el), k
            return ('for', m.group(1) + "(" + hdr + ")", bl), k
        m = re.match(r"(do|else)\b", t[i:])
        if m:
            body, k = one(i + m.end())
            return body, k
        # simple statement up to ';' at depth 0
        d = 0; j = i
        while j < n:
            c = t[j]
            if c in '([{': d += 1
            elif c in ')]}': d -= 1
            elif c == ';' and d == 0: break
            j += 1
        return ('s', t[i:j].strip()), j + 1
    while i < n:
        st, i = one(i)
        if st is None: break
        if st[0] == 'blk': res.extend(st[1])
        elif st[0] == 's' and not st[1]: continue
        else: res.append(st)
    return res


def nows(s):
    return re.sub(r"\s+", "", s)


class Ctx:
    def __init__(self, cls, ar, side, member_types):
        self.cls, self.ar, self.side = cls, ar, side
        self.mt = member_types              # member -> type (own + inherited)
        self.locals = {}                    # local -> (type, alias member or None)
        self.loopvars = {}                  # var -> (container expr, byvalue)
        self.fields = []                    # dict(name, root, type, guard, note)
        self.bases = []
        self.ignored = []
        self.loops = []
        self.default_alias = {}             # read side: a local of the same name as on the write side stands for the same member
        self.stack = []                     # helper functions being inlined (recursion guard)
        self.inlined = []                   # notes: helper bodies inlined at their call sites
        self.problems = []                  # statements that hand the archive to code the translator cannot follow


def norm_expr(e, ctx):
    """normalise a streamed expression; returns (name, root, flags)"""
    e = strip_casts(e.strip())
    flags = set()
    # unwrap helper wrappers
    while True:
        e0 = e
        e = e.strip()
        m = re.match(r"^(?:BOOST_SERIALIZATION_NVP|boost\s*::\s*serialization\s*::\s*make_nvp|make_nvp|boost\s*::\s*serialization\s*::\s*make_array|make_array)\s*\(", e)
        if m:
            j = match_close(e, m.end() - 1, '(', ')')
            args = split_top(e[m.end():j], ',')
            if 'make_nvp' in m.group(0): e = args[-1]
            elif 'make_array' in m.group(0): e = args[0]; flags.add("array")
            else: e = args[0]
            continue
        m = re.match(r"^\(\s*(?:const\s+)?[\w:]+(?:\s*<[^()]*>)?\s*(?:const\s*)?[&*]?\s*\)\s*(?=[\w(*])", e)   # C cast
        if m and not re.match(r"^\(\s*\*", e):
            e = e[m.end():]; flags.add("ccast"); continue
        if e.startswith('(') and match_close(e, 0, '(', ')') == len(e) - 1:
            e = e[1:-1]; continue
        if e.startswith('*'):
            e = e[1:]; flags.add("deref"); continue
        if e.startswith('&'):
            e = e[1:]; continue
        if e.startswith("this->"):
            e = e[6:]; continue
        if e0 == e: break
    e = nows(e)
    e = e.replace("this->", "").replace("->", ".")
    e = re.sub(r"\.data\(\)$", "", e)
    e = re.sub(r"\.get\(\)$", "", e)
    e = re.sub(r"\[[^\]]*\]", "[*]", e)
    e = re.sub(r"\(\*?([^()]*)\)\.", r"\1.", e)          # (m_base[*].kernel).x
    m = re.match(r"^([A-Za-z_]\w*)", e)
    root = m.group(1) if m else e
    # accessor call such as model(i)
    am = re.match(r"^([A-Za-z_]\w*)\(([^()]*)\)(.*)$", e)
    if am:
        tgt = ACCESSORS.get((ctx.cls.name, am.group(1)))
        e = am.group(1) + "(*)" + am.group(3)
        root = tgt if tgt else am.group(1) + "()"
    if root in ctx.loopvars:
        cont, byval = ctx.loopvars[root]
        rest = e[len(root):]
        e = cont + "[*]" + rest
        cm = re.match(r"^([A-Za-z_]\w*)", cont)
        root = cm.group(1) if cm else cont
        if byval and ctx.side == "read" and "deref" not in flags:
            e = "LOST-INTO-COPY(" + e + ")"; flags.add("copy")
    elif root in ctx.locals:
        ty, alias = ctx.locals[root]
        flags.add("local")
        if alias:
            e = e + "@" + alias; root = alias
        else:
            root = "<local " + root + ">"
    return e, root, flags


def type_of(name, root, flags, ctx):
    base = None
    r0 = re.match(r"^([A-Za-z_]\w*)", name)
    r0 = r0.group(1) if r0 else None
    if "local" in flags and r0 in ctx.locals:
        return ctx.locals[r0][0], name[len(r0):].split("@")[0]
    if root in ctx.mt:
        nm = name
        if nm.startswith("LOST-INTO-COPY("): nm = nm[len("LOST-INTO-COPY("):-1]
        return ctx.mt[root], nm[len(root):] if nm.startswith(root) else ""
    return None, ""


def analyse(stmts, ctx, guard=""):
    ar = re.escape(ctx.ar)
    for st in stmts:
        if st[0] == 'for':
            hdr = st[1]
            g = nows(hdr)
            inner = hdr[hdr.index('(') + 1:-1]
            rm = re.match(r"^\s*(?:const\s+)?([\w:<>\s]+?)\s*(&{0,2})\s*([A-Za-z_]\w*)\s*:\s*(.+)$", inner, re.S)
            saved = dict(ctx.loopvars)
            if rm and ';' not in inner:
                cont = nows(rm.group(4)).replace("this->", "")
                ctx.loopvars[rm.group(3)] = (cont, rm.group(2) == "")
                g = "for(each:" + cont + ")"
            else:
                # canonical index loop: keep the bound
                parts = inner.split(';')
                if len(parts) == 3:
                    g = "for(" + nows(parts[1]) + ")"
            analyse(st[2], ctx, guard + g)
            ctx.loopvars = saved
            continue
        if st[0] == 'if':
            c = nows(st[1])
            if ctx.ar in st[1] or any(ctx.ar in json.dumps(x) for x in (st[2], st[3])):
                analyse(st[2], ctx, guard + "if(" + c + ")")
                analyse(st[3], ctx, guard + "else(" + c + ")")
            else:
                ctx.ignored.append("if(" + c + "){...}")
            continue
        s = st[1]
        # stream statement
        m = re.match(r"^" + ar + r"\s*(>>|<<|&)(?!&)", s)
        if m:
            op = m.group(1)
            body = s[m.end():]
            while True:     # static_cast<Base<..>&>(*this) is a base-class call
                cm = re.search(r"static_cast\s*<", body)
                if not cm: break
                j = match_angle(body, cm.end() - 1)
                if j < 0: break
                tail = re.match(r"\s*\(\s*\*\s*this\s*\)", body[j + 1:])
                if not tail: break
                bn = re.sub(r"<.*$", "", body[cm.end():j], flags=re.S).strip().split("::")[-1].strip()
                body = body[:cm.start()] + "base_object<" + bn + ">(*this)" + body[j + 1 + tail.end():]
            body = strip_casts(body)
            ops = [body]
            for sep in ((">>", "<<") if op != "&" else ("&",)):
                ops = [y for x in ops for y in split_top(x, sep, angle=False)]
            if op == "&":
                # also allow mixing
                pass
            for o in ops:
                if not o.strip(): continue
                bm = re.search(r"base_object\s*<\s*([\w:]+)", o)
                if bm:
                    b = bm.group(1).split("::")[-1]
                    b = ctx.cls.typedefs.get(b, b)
                    b = re.sub(r"<.*$", "", b, flags=re.S).split("::")[-1].strip()
                    if b in ("base_type", "super", "Base", "base") and ctx.cls.bases: b = ctx.cls.bases[0]
                    ctx.fields.append(dict(name="<base " + b + ">", root="<base>", type=None, sub="", guard=guard, flags=["base"]))
                    ctx.bases.append(b); continue
                name, root, flags = norm_expr(o, ctx)
                ty, sub = type_of(name, root, flags, ctx)
                ctx.fields.append(dict(name=name, root=root, type=ty, sub=sub, guard=guard, flags=sorted(flags)))
            continue
        # base-class call  B<..>::read(ar)
        m = re.match(r"^(?:this\s*->\s*)?((?:[A-Za-z_]\w*\s*(?:<[^;]*?>)?\s*::\s*)+)(read|write|serialize|load|save)\s*\(\s*" + ar + r"\b", s)
        if m and [x for x in nows(re.sub(r"<.*?>", "", m.group(1), flags=re.S)).split("::") if x][-1] == ctx.cls.name:
            m = None        # qualified call of an own member function: a helper, see below
        if m:
            b = re.sub(r"<.*?>", "", m.group(1), flags=re.S)
            b = [x for x in nows(b).split("::") if x][-1]
            b = ctx.cls.typedefs.get(b, b)
            b = re.sub(r"<.*$", "", b, flags=re.S).split("::")[-1].strip()
            if b in ("base_type", "super", "Base", "base") and ctx.cls.bases: b = ctx.cls.bases[0]
            ctx.fields.append(dict(name="<base " + b + ">", root="<base>", type=None, sub="", guard=guard, flags=["base"]))
            ctx.bases.append(b); continue
        # member call  e.read(ar)
        m = re.match(r"^(.+?)\s*(?:\.|->)\s*(read|write|serialize|load|save)\s*\(\s*" + ar + r"\b", s)
        if m and helper_call(s, ctx) is not None:
            m = None        # the receiver is this object: a helper, see below
        if m:
            name, root, flags = norm_expr(m.group(1), ctx)
            ty, sub = type_of(name, root, flags, ctx)
            ctx.fields.append(dict(name=name, root=root, type=ty, sub=sub, guard=guard, flags=sorted(flags | {"call"})))
            continue
        # helper call: [this->]name(..., ar, ...) where name is a member function of this class or of an ancestor.
        # The helper's field sequence is inlined at the call site (for read and for write alike), so a
        # read()/write() pair that delegates to one private `serializeState(Archive&)` is translated like the
        # hand-expanded pair.
        hc = helper_call(s, ctx)
        if hc is not None:
            hname, pos, nargs = hc
            hf, howner, why = find_helper(ctx.cls, hname, pos, nargs)
            if hf is None:
                ctx.problems.append("%s hands the archive to %s(...) which the translator cannot follow (%s)" % (ctx.side, hname, why))
                ctx.ignored.append(nows(s)[:80]); continue
            key = (howner.name, hname, hf["line"])
            if key in ctx.stack or len(ctx.stack) >= 6:
                ctx.problems.append("%s: recursive helper %s::%s" % (ctx.side, howner.name, hname)); continue
            par = split_top(hf["params"], ',')[pos]
            pm = re.search(r"([A-Za-z_]\w*)\s*$", par.strip())
            sub_ar = pm.group(1) if pm else ctx.ar
            saved = (ctx.ar, ctx.locals, ctx.loopvars, ctx.cls)
            ctx.ar, ctx.locals, ctx.loopvars, ctx.cls = sub_ar, {}, {}, howner
            ctx.stack.append(key)
            ctx.inlined.append("%s::%s (%s:%d)" % (howner.name, hname, os.path.relpath(hf["file"], REPO_FOR_REL[0]), hf["line"]))
            try:
                analyse(parse_stmts(hf["body"]), ctx, guard)
            finally:
                ctx.stack.pop()
                ctx.ar, ctx.locals, ctx.loopvars, ctx.cls = saved
            continue
        # local declaration
        m = re.match(r"^((?:const\s+)?(?:typename\s+)?[A-Za-z_][\w:]*(?:\s*<.*>)?(?:\s*::\s*\w+)*(?:\s+(?:int|long|char))?\s*[&*]?)\s+([A-Za-z_]\w*)\s*(?:(=|\(|\{)(.*))?$", s, re.S)
        if m and m.group(1).strip() not in ("return", "delete", "throw", "else", "using", "typedef", "new"):
            ty = m.group(1).strip(); nm = m.group(2); init = m.group(4) or ""
            mems = sorted(set(x for x in re.findall(r"\b[A-Za-z_]\w*\b", init) if x in ctx.mt))
            ctx.locals[nm] = (ty, mems[0] if len(mems) == 1 else ctx.default_alias.get(nm, LOCAL_ALIASES.get((ctx.cls.name, nm))))
            continue
        ctx.ignored.append(nows(s)[:80])


def helper_call(s, ctx):
    """if statement s is `[this->|const_cast<..>(this)->|(*this).|Cls::]name[<..>](args)` with the archive variable among
    the args: (name, position of the archive argument, number of args); else None"""
    t = s.strip()
    t = re.sub(r"^return\b", "", t).strip()
    t = re.sub(r"^\(\s*void\s*\)", "", t).strip()
    # receiver spelled out
    for rx in (r"^this\s*->\s*", r"^\(\s*\*\s*this\s*\)\s*\.\s*",
               r"^const_cast\s*<[^;()]*>\s*\(\s*this\s*\)\s*->\s*",
               r"^const_cast\s*<[^;()]*>\s*\(\s*\*\s*this\s*\)\s*\.\s*",
               r"^\(\s*const_cast\s*<[^;()]*>\s*\(\s*\*?\s*this\s*\)\s*\)\s*(?:->|\.)\s*"):
        t = re.sub(rx, "", t)
    m = re.match(r"^(?:([A-Za-z_]\w*)\s*(?:<[^;()]*>)?\s*::\s*)?(?:template\s+)?([A-Za-z_]\w*)\s*(?:<[^;()]*>)?\s*\(", t)
    if not m: return None
    pj = match_close(t, m.end() - 1, '(', ')')
    if pj < 0 or t[pj + 1:].strip() not in ("",): return None
    args = [a.strip() for a in split_top(t[m.end():pj], ',')] if t[m.end():pj].strip() else []
    pos = [i for i, a in enumerate(args) if re.sub(r"^\*|^\(|\)$", "", a).strip() == ctx.ar]
    if not pos: return None
    q = m.group(1)
    if q is not None:
        # qualified by a class name: own class only (a base-class qualifier was handled as a base call before)
        names = [ctx.cls.name] + [a.name for a in ancestors(ALL_CLASSES[0], ctx.cls)] if ALL_CLASSES[0] else [ctx.cls.name]
        if q not in names: return None
    return m.group(2), pos[0], len(args)


def find_helper(cls, name, pos, nargs):
    """definition (with body) of member function `name` in cls or an ancestor, taking at least pos+1 parameters;
    returns (func, owner, None) or (None, None, reason)"""
    classes = ALL_CLASSES[0] or {}
    declared = False
    for k in [cls] + ancestors(classes, cls):
        cands = list(k.methods.get(name, []))
        if cands: declared = True
        if any(f["body"] is None for f in cands):
            cands += find_out_of_line(ALL_TEXTS[0] or {}, k.name, name)
        for f in cands:
            if f["body"] is None: continue
            ps = split_top(f["params"], ',') if f["params"].strip() else []
            if len(ps) > pos and len(ps) >= nargs - 0 and len([p for p in ps if '=' not in p]) <= nargs:
                return f, k, None
    return None, None, ("declared but no matching definition found" if declared else "not a member function of %s or its bases" % cls.name)


# ------------------------------------------------------------------------------------------------
# kinds

def coq_str(s):
    return '"' + s.replace('"', '""') + '"'


def split_targs(t):
    i = t.find('<')
    if i < 0: return t, []
    j = match_angle(t, i)
    if j < 0: return t[:i], []
    return t[:i], [x.strip() for x in split_top(t[i + 1:j], ',')]


CUR_OWNER = [None]      # class whose fields are being emitted (its typedefs name member types)


def kind_of_type(ty, classes_fields, depth=0):
    if ty is None: return 'KAtom "?"'
    t = " ".join(ty.split())
    if CUR_OWNER[0] is not None and depth < 3 and t in CUR_OWNER[0].typedefs and CUR_OWNER[0].typedefs[t].strip() != t:
        return kind_of_type(CUR_OWNER[0].typedefs[t], classes_fields, depth + 1)
    t = re.sub(r"\b(const|typename|mutable|volatile|struct|class)\b", " ", t)
    t = t.replace("&", " ").strip()
    ptr = t.endswith("*")
    t = t.rstrip("* ").strip()
    t = re.sub(r"\b(std|shark|blas|remora|boost|detail|serialization)\s*::\s*", "", t)
    t = " ".join(t.split())
    if t in ("double", "float", "long double", "value_type", "T", "scalar_type", "ValueType"): return "KDbl"
    if t == "bool": return "KBool"
    if t in ("size_t", "unsigned", "unsigned int", "unsigned long", "unsigned long long", "uint64_t", "uint32_t",
             "collection_size_type", "size_type", "unsigned char", "uint8_t", "unsigned short"): return "KNat"
    if t in ("int", "long", "short", "char", "long long", "int64_t", "int32_t", "ptrdiff_t"): return "KInt"
    if t == "string": return "KStr"
    if t == "Shape": return "KShape"
    if re.match(r"^(Real|Float)Vector$", t) or re.match(r"^(\w*VectorType|SearchPointType|PointType|ResultType)$", t): return "KVec KDbl"
    if t in ("UIntVector",): return "KVec KNat"
    if t in ("IntVector",): return "KVec KInt"
    if re.match(r"^(Real|Float)Matrix$", t) or re.match(r"^\w*MatrixType$", t): return "KMat KDbl"
    if t in ("UIntMatrix",): return "KMat KNat"
    if t in ("IntMatrix",): return "KMat KInt"
    head, args = split_targs(t)
    head = head.strip()
    if head in ("vector", "deque", "list") and args:
        if len(args) >= 2 and head == "vector" and args[1].strip() in ("cpu_tag",):
            return "KVec (%s)" % kind_of_type(args[0], classes_fields, depth + 1)
        return "KVec (%s)" % kind_of_type(args[0], classes_fields, depth + 1)
    if head in ("matrix",) and args:
        return "KMat (%s)" % kind_of_type(args[0], classes_fields, depth + 1)
    if head == "pair" and len(args) == 2:
        return "KPair (%s) (%s)" % (kind_of_type(args[0], classes_fields, depth + 1), kind_of_type(args[1], classes_fields, depth + 1))
    if head in ("shared_ptr", "scoped_ptr", "unique_ptr") and args:
        return "KOpt (%s)" % kind_of_type(args[0], classes_fields, depth + 1)
    if head in classes_fields and depth < 2:
        ks = classes_fields[head]
        if ks is not None:
            return "KObj [" + "; ".join(ks) + "]"
    return "KAtom " + coq_str(re.sub(r"[^\w<>,:* ]", "", t)[:60])


def nested_of_type(ty, owner, nestable, depth=0):
    """description skeleton of a member type that contains a TRANSLATED class: (expr with {side}_<uid> placeholders,
    [uids]) or None.  nestable: class name -> uid of the translated classes that may be referenced."""
    if ty is None or depth > 4: return None
    t = " ".join(ty.split())
    t = re.sub(r"\b(const|typename|mutable|volatile|struct|class)\b", " ", t).replace("&", " ").strip()
    if t.endswith("*"): return None                       # raw pointers are never streamed as objects here
    t = re.sub(r"\b(std|shark|blas|remora|boost|detail|serialization)\s*::\s*", "", t)
    t = " ".join(t.split())
    head, args = split_targs(t)
    head = head.strip()
    if "::" in head: return None                          # dependent / nested name: not resolved
    if owner is not None and head in getattr(owner, "tparams", []): return None     # a template parameter shadows any class of that name
    if owner is not None and head in owner.typedefs and not args:
        return nested_of_type(owner.typedefs[head], owner, nestable, depth + 1)
    if head in ("vector", "deque", "list") and args and not (len(args) >= 2 and args[1].strip() == "cpu_tag"):
        inner = nested_of_type(args[0], owner, nestable, depth + 1)
        return ("DVec (%s)" % inner[0], inner[1]) if inner else None
    if head in ("shared_ptr", "scoped_ptr", "unique_ptr") and args:
        inner = nested_of_type(args[0], owner, nestable, depth + 1)
        return ("DOpt (%s)" % inner[0], inner[1]) if inner else None
    if head in nestable:
        return ("{side}_%s" % ident(nestable[head]), [nestable[head]])
    # a class without serialization code of its own inherits that of a translated ancestor (CMAIndividual -> Individual)
    classes = ALL_CLASSES[0] or {}
    c = resolve(classes, head)
    if c is not None and not is_serializable(classes, c):
        for a in ancestors(classes, c):
            if a.name in nestable:
                return ("{side}_%s" % ident(nestable[a.name]), [nestable[a.name]])
            if is_serializable(classes, a): break
    return None


def nested_of_field(f, owner, nestable):
    if "base" in f["flags"]:
        b = f["name"][6:-1]
        return ("{side}_%s" % ident(nestable[b]), [nestable[b]]) if b in nestable else None
    if (f.get("sub") or "") != "" or set(f["flags"]) & {"local", "copy", "array", "ccast"}: return None
    return nested_of_type(f["type"], owner, nestable)


def kind_of_field(f, classes_fields):
    if "base" in f["flags"]:
        b = f["name"][6:-1]
        ks = classes_fields.get(b)
        return ("KObj [" + "; ".join(ks) + "]") if ks is not None else "KAtom " + coq_str("base " + b)
    sub = f.get("sub") or ""
    ty = f["type"]
    if ty is None:
        return "KAtom " + coq_str("typeof " + f["name"])[:80]
    t = ty
    # peel [*] and known sub-members
    while sub:
        if sub.startswith("[*]"):
            head, args = split_targs(re.sub(r"\b(std|shark|blas|boost)\s*::\s*", "", " ".join(t.split())))
            if args: t = args[0]
            elif re.search(r"Vector\w*$", t): t = "double"
            else: return "KAtom " + coq_str("elem of " + nows(ty))[:80]
            sub = sub[3:]
        elif sub.startswith("(*)"):
            sub = sub[3:]
        elif sub == ".value": return "KDbl"
        elif sub == ".point": return "KVec KDbl"
        elif re.match(r"^\.([A-Za-z_]\w*)", sub) and ALL_CLASSES[0] is not None:
            # member of a nested struct (e.g. WeightedSumKernel::tBase::weight)
            mm = re.match(r"^\.([A-Za-z_]\w*)", sub)
            tn = re.sub(r"<.*$", "", re.sub(r"\b(const|typename)\b|[&*]", " ", t), flags=re.S).strip().split("::")[-1].strip()
            sc = resolve(ALL_CLASSES[0], tn)
            mty = dict(sc.members).get(mm.group(1)) if sc is not None else None
            if mty is None:
                return "KAtom " + coq_str("typeof " + f["name"])[:80]
            t = mty; sub = sub[mm.end():]
    return kind_of_type(t, classes_fields)


# ------------------------------------------------------------------------------------------------
# per class translation

def pick_func(fs, want):
    """choose the definition whose first parameter is the wanted archive type; returns (f, problem)"""
    if not fs: return None, "absent"
    for f in fs:
        p0 = split_top(f["params"], ',')[0]
        if want == "read" and re.search(r"\bInArchive\b", p0): return f, None
        if want == "write" and re.search(r"\bOutArchive\b", p0) and f["const"]: return f, None
        if want == "serialize" and re.search(r"\bArchive\b", p0): return f, None
    return None, "signature (%s)%s does not match" % (" ".join(fs[0]["params"].split()), " const" if fs[0]["const"] else "")


def archive_name(f):
    p0 = split_top(f["params"], ',')[0]
    m = re.search(r"([A-Za-z_]\w*)\s*$", p0.strip())
    nm = m.group(1) if m else "archive"
    if nm in ("InArchive", "OutArchive", "Archive"): nm = "archive"
    return nm


def resolve(classes, name, prefer_file=None):
    cs = classes.get(name)
    if not cs: return None
    if prefer_file:
        for c in cs:
            if c.file == prefer_file: return c
    # prefer the definition with most content
    return max(cs, key=lambda c: len(c.body))


def ancestors(classes, c, seen=None):
    seen = seen or set()
    out = []
    for b in c.bases:
        bc = resolve(classes, b)
        if bc is None or bc.name in seen or bc is c: continue
        seen.add(bc.name)
        out.append(bc)
        out += ancestors(classes, bc, seen)
    return out


def effective_func(classes, texts, c, which):
    """read/write of class c: own inline, own out-of-line, else inherited; returns (func, owner, problem)"""
    prob = None
    f, p = pick_func(c.funcs.get(which, []), which)
    if f is not None and f["body"] is None:
        ools = find_out_of_line(texts, c.name, which)
        g, p2 = pick_func(ools, which)
        if g is None:
            return None, c, "declared but no definition found"
        return g, c, None
    if f is not None:
        return f, c, None
    if p != "absent": prob = p
    for a in ancestors(classes, c):
        g, q = pick_func(a.funcs.get(which, []), which)
        if g is not None:
            if g["body"] is None:
                ools = find_out_of_line(texts, a.name, which)
                g, _ = pick_func(ools, which)
                if g is None: continue
            return g, a, prob
    return None, None, prob


def translate_class(classes, texts, c):
    """returns dict with read/write field lists, members, transient, notes"""
    res = dict(name=c.name, file=c.file, line=c.line, problems=[], ignored=[])
    anc = ancestors(classes, c)
    own_rw = any(pick_func(c.funcs.get(w, []), w)[0] is not None for w in ("read", "write", "serialize")) or \
             any(c.funcs.get(w) for w in ("read", "write"))
    ser, _ = pick_func(c.funcs.get("serialize", []), "serialize")
    sides = {}
    if ser is not None and not c.funcs.get("read") and not c.funcs.get("write"):
        if ser["body"] is None:
            res["problems"].append("serialize declared without body"); ser = dict(ser); ser["body"] = ""
        sides = {"read": (ser, c, None), "write": (ser, c, None)}
        res["mode"] = "serialize"
    else:
        sides = {w: effective_func(classes, texts, c, w) for w in ("read", "write")}
        res["mode"] = "read/write"
    mt = {}
    for k in [c] + anc:
        for nm, ty in k.members:
            mt.setdefault(nm, ty)
    out = {}
    called_bases = set()
    wlocals = {}
    for side in ("write", "read"):
        f, owner, prob = sides[side]
        if prob:
            res["problems"].append("%s: %s; using %s" % (side, prob, (owner.name + "::" + side) if owner is not None and f is not None else "nothing"))
        if f is None:
            out[side] = []; res[side + "_src"] = "none (ISerializable default: streams nothing)"
            continue
        ctx = Ctx(c, archive_name(f), side, mt)
        ctx.cls = owner if owner is not None else c
        if side == "read": ctx.default_alias = wlocals
        octx_cls = ctx.cls
        # members visible in the owner's body
        try:
            analyse(parse_stmts(f["body"]), ctx)
        except Exception as ex:     # translator failure is a failed obligation, not a crash
            res["problems"].append("%s: translator could not parse the body (%r)" % (side, ex))
        out[side] = ctx.fields
        if side == "write": wlocals = {k: v[1] for k, v in ctx.locals.items() if v[1]}
        called_bases |= set(ctx.bases) if side == "write" else set()
        res["ignored"] += [side + ": " + x for x in ctx.ignored]
        res["problems"] += ctx.problems
        res.setdefault("inlined", [])
        res["inlined"] += [side + ": " + x for x in ctx.inlined]
        res[side + "_src"] = "%s:%d (%s::%s)" % (os.path.relpath(f["file"], REPO_FOR_REL[0]), f["line"], octx_cls.name, side if res["mode"] != "serialize" else "serialize")
        res[side + "_owner"] = octx_cls.name
    res["fields"] = out
    # members: own + inherited, except bases whose write is called (they have their own obligation)
    skip = set()
    for b in called_bases:
        bc = resolve(classes, b)
        if bc is not None:
            skip.add(bc.name)
            for a in ancestors(classes, bc): skip.add(a.name)
    members = []; decl = {}
    for k in [c] + anc:
        if k.name in skip: continue
        for nm, ty in k.members:
            if nm not in decl:
                decl[nm] = k.name; members.append(nm)
    res["members"] = members
    res["member_decl"] = decl
    res["member_types"] = {m: " ".join(mt[m].split()) for m in members}
    tr = []
    streamed = set(f["root"] for f in out.get("write", []))
    for m in members:
        if m in streamed: continue          # e.g. AbstractModel itself streams m_features
        key = (decl[m], m)
        if key in TRANSIENT: tr.append((m, TRANSIENT[key]))
        elif (c.name, m) in TRANSIENT: tr.append((m, TRANSIENT[(c.name, m)]))
    res["transient"] = tr
    for m, _ in tr:
        USED_TRANSIENT.add((decl[m], m)); USED_TRANSIENT.add((c.name, m))
    rf = sides["read"][0]
    try:
        res["rebuild"] = rebuild_status(classes, texts, c, res, rf)
    except Exception as ex:
        res["rebuild"] = {m: dict(status="untouched", how="translator could not analyse read() (%r)" % ex) for m, _ in tr}
    return res


REPO_FOR_REL = ["/repo"]
ALL_CLASSES = [None]
ALL_TEXTS = [None]
USED_TRANSIENT = set()


def dead_transient_entries(classes):
    """table entries that name a class present in the tree but match no member of any translated class"""
    return sorted("%s::%s" % k for k in TRANSIENT if k not in USED_TRANSIENT and k[0] in classes)


def is_serializable(classes, c):
    if any(c.funcs.get(w) for w in ("read", "write", "serialize")): return True
    return False


# ------------------------------------------------------------------------------------------------
# rebuild obligation: derived state (transient members) must be re-established by read()

USED_REBUILD_EXEMPT = set()


def mentions(body, m):
    """body refers to the data member m of THIS object (other objects' members `x.m` / `p->m` do not count)"""
    t = re.sub(r"\bthis\s*->\s*", "", body)
    t = re.sub(r"\b[A-Za-z_]\w*(?:\s*<[^;{}()]*?>)?\s*::\s*(?=" + re.escape(m) + r"\b)", "", t)     # base_type::m_x
    return re.search(r"(?<![\w.>])" + re.escape(m) + r"\b", t) is not None


def method_defs(classes, texts, c, name):
    """all definitions with a body of member function `name` in c or an ancestor: [(owner class, dict)]"""
    out = []
    for k in [c] + ancestors(classes, c):
        cands = list(k.methods.get(name, []))
        if any(f["body"] is None for f in cands):
            cands += find_out_of_line(texts or {}, k.name, name)
        out += [(k, f) for f in cands if f["body"] is not None]
    return out


def setter_writers(classes, texts, c, m, below=None):
    """non-constructor, non-const member functions (other than read/serialize) of c and of its ancestors strictly below
    the class `below` whose body refers to m"""
    out = []
    for k in [c] + ancestors(classes, c):
        if below is not None and k.name == below: break
        for nm, fs in sorted(k.methods.items()):
            if nm in (k.name, "~" + k.name, "read", "write", "serialize", "swap") or nm.startswith("operator"): continue
            for owner, f in method_defs(classes, texts, k, nm):
                if owner is k and not f["const"] and mentions(f["body"], m):
                    out.append("%s::%s" % (k.name, nm)); break
    return sorted(set(out))


def read_touches(classes, texts, c, f, members):
    """source-level reading: which of `members` does the read()/serialize() body f refer to -- directly, or through a
    non-const member function it calls (followed 4 levels deep) -- at or after the LAST streaming statement?
    returns {member: how}"""
    ar = archive_name(f)
    stmts = parse_stmts(f["body"])
    txt = [json.dumps(st) for st in stmts]
    idx = [i for i, t in enumerate(txt) if re.search(r"\b" + re.escape(ar) + r"\b", t)]
    if idx:
        L = idx[-1]
        after = txt[L:] if stmts[L][0] in ("for", "if") else txt[L + 1:]      # a compound statement may stream AND rebuild
    else:
        after = txt
    after = " ".join(after)
    res = {}
    def follow(text, depth, seen, via):
        for m in members:
            if m not in res and mentions(text, m):
                res[m] = ("referenced after the last streaming statement" if not via else "written by %s, called after the last streaming statement" % " -> ".join(via))
        if depth >= 4: return
        for nm in sorted(set(re.findall(r"(?<![\w.>])([A-Za-z_]\w*)\s*(?:<[^;{}()]*?>\s*)?\(", re.sub(r"\bthis\s*->\s*", "", text)))):
            if nm in seen or nm in ("if", "for", "while", "switch", "return", "sizeof"): continue
            defs = [(k, g) for k, g in method_defs(classes, texts, c, nm) if not g["const"]]
            if not defs: continue
            for k, g in defs:
                follow(g["body"], depth + 1, seen | {nm}, via + ["%s::%s()" % (k.name, nm)])
    follow(after, 0, frozenset(), [])
    return res


def rebuild_status(classes, texts, c, r, f):
    """r["rebuild"]: member -> dict(status = rebuilt | exempt | untouched, how)"""
    decl = r["member_decl"]
    tr = [m for m, _ in r["transient"]]
    touched = read_touches(classes, texts, c, f, tr) if (f is not None and tr) else {}
    out = {}
    for m in tr:
        if m in touched:
            out[m] = dict(status="rebuilt", how=touched[m]); continue
        own = REBUILD_NOT_REQUIRED.get((c.name, m))
        if own is not None:
            USED_REBUILD_EXEMPT.add((c.name, m))
            out[m] = dict(status="exempt", how=own); continue
        gen = REBUILD_NOT_REQUIRED.get((decl.get(m), m))
        if gen is not None:
            w = setter_writers(classes, texts, c, m, below=decl.get(m))
            if not w:
                USED_REBUILD_EXEMPT.add((decl.get(m), m))
                out[m] = dict(status="exempt", how=gen); continue
            out[m] = dict(status="untouched", how="%s writes it outside the constructors (state-dependent), read() does not re-establish it; the allow-list entry of %s does not cover this class" % (", ".join(w), decl.get(m)))
            continue
        out[m] = dict(status="untouched", how="read() never refers to it at or after the last streaming statement, nor does a non-const member function it calls")
    return out


def dead_rebuild_entries(classes):
    """allow-list entries that name a class present in the tree but exempt no transient member of any translated class"""
    return sorted("%s::%s" % k for k in REBUILD_NOT_REQUIRED if k not in USED_REBUILD_EXEMPT and k[0] in classes)


def ident(name):
    return re.sub(r"\W", "_", name)


def emit_coq(r, classes_fields, nestable=None, owner=None):
    X = ident(r["uid"])
    loops = []
    CUR_OWNER[0] = owner
    nestable = dict(nestable or {})
    nestable.pop(r["name"], None)            # a class never nests itself (recursive types are cut)
    nested = {"write": [], "read": []}       # uids of the member classes referenced, in order of first use
    def fld(f):
        k = kind_of_field(f, classes_fields)
        g = f["guard"]
        for m in re.finditer(r"for\([^)]*(?:\([^)]*\)[^)]*)*\)", g):
            if m.group(0) not in loops: loops.append(m.group(0))
        lp = re.findall(r"for\([^)]*(?:\([^)]*\)[^)]*)*\)", g)
        for l in reversed(lp):
            k = "KFix n_loop%d (%s)" % (loops.index(l), k)
        return "F %s %s (%s) %s" % (coq_str(f["name"]), coq_str(f["root"]), k, coq_str(g))
    def dfld(f, side, used_loops):
        """nested description of one field: a member of a translated class type refers to that class's description"""
        nd = nested_of_field(f, owner, nestable)
        if nd is not None:
            for u in nd[1]:
                if u not in nested[side]: nested[side].append(u)
            d = nd[0].replace("{side}", "w" if side == "write" else "r")
        else:
            d = "DPrim (%s)" % kind_of_field(f, classes_fields)
        lp = re.findall(r"for\([^)]*(?:\([^)]*\)[^)]*)*\)", f["guard"])
        for l in reversed(lp):
            i = loops.index(l)
            if i not in used_loops: used_loops.append(i)
            d = "DFix n_loop%d (%s)" % (i, d)
        return (coq_str(f["name"]), coq_str(f["root"]), coq_str(f["guard"]), d)
    w = [fld(f) for f in r["fields"]["write"]]
    rd = [fld(f) for f in r["fields"]["read"]]
    L = []
    L.append("(* GENERATED by tools/translate_serial.py -- do not edit.  class %s, %s:%d" % (r["name"], os.path.relpath(r["file"], REPO_FOR_REL[0]), r["line"]))
    L.append("   write: %s" % r.get("write_src"))
    L.append("   read : %s" % r.get("read_src"))
    for p in r["problems"]: L.append("   PROBLEM: " + p.replace("*)", "* )"))
    for p in r.get("inlined", []): L.append("   inlined helper  " + p.replace("*)", "* )"))
    for p in r["ignored"][:12]: L.append("   ignored statement  " + p.replace("*)", "* )").replace("(*", "( *"))
    L.append("*)")
    L.append("From Coq Require Import List String.")
    L.append("From SharkV Require Import C18Model C18Nested.")
    L.append("Import ListNotations.")
    L.append("Open Scope string_scope.")
    L.append("Section C18_%s." % X)
    for i, l in enumerate(loops):
        L.append("Variable n_loop%d : nat.  (* iterations of %s -- structure fixed by construction *)" % (i, l.replace("*)", "* )")))
    def lst(xs):
        return "[" + (";\n   ".join(xs)) + "]"
    L.append("Definition write_fields_%s : list field :=\n  %s." % (X, lst(w)))
    L.append("Definition read_fields_%s : list field :=\n  %s." % (X, lst(rd)))
    L.append("Definition members_%s : list string :=\n  %s." % (X, lst([coq_str(m) for m in r["members"]])))
    L.append("(* transient members (hand-kept table in tools/translate_serial.py):")
    for m, why in r["transient"]: L.append("     %s : %s" % (m, why))
    L.append("*)")
    L.append("Definition transient_%s : list string :=\n  %s." % (X, lst([coq_str(m) for m, _ in r["transient"]])))
    names = {}
    names["rw"] = "rw_" + X; names["cover"] = "cover_" + X; names["stale"] = "stale_" + X
    L.append("Theorem rw_%s : read_fields_%s = write_fields_%s.\nProof. reflexivity. Qed." % (X, X, X))
    L.append("Theorem cover_%s : covers members_%s write_fields_%s transient_%s = true.\nProof. vm_compute. reflexivity. Qed." % (X, X, X, X))
    L.append("Theorem stale_%s : transient_ok members_%s write_fields_%s transient_%s = true.\nProof. vm_compute. reflexivity. Qed." % (X, X, X, X))
    rb = r.get("rebuild", {})
    L.append("(* derived state: every transient member is re-established by read() (referenced, or written by a non-const member")
    L.append("   function read() calls, at or after the last streaming statement) or exempt (tools/translate_serial.py REBUILD_NOT_REQUIRED):")
    for m, _ in r["transient"]: L.append("     %s : %s -- %s" % (m, rb.get(m, {}).get("status", "?"), rb.get(m, {}).get("how", "").replace("*)", "* )").replace("(*", "( *")))
    L.append("*)")
    L.append("Definition rebuilt_%s : list string :=\n  %s." % (X, lst([coq_str(m) for m, _ in r["transient"] if rb.get(m, {}).get("status") == "rebuilt"])))
    L.append("Definition rebuild_exempt_%s : list string :=\n  %s." % (X, lst([coq_str(m) for m, _ in r["transient"] if rb.get(m, {}).get("status") == "exempt"])))
    L.append("Theorem rebuild_%s : forallb (fun m => orb (mem m rebuilt_%s) (mem m rebuild_exempt_%s)) transient_%s = true.\nProof. vm_compute. reflexivity. Qed." % (X, X, X, X))
    if r["problems"]:
        L.append("(* the translator reported a problem with this class: an obligation that cannot be discharged *)")
        L.append("Theorem translator_ok_%s : %s = \"\".\nProof. reflexivity. Qed." % (X, coq_str("; ".join(r["problems"]))[:400].rstrip('"') + '"'))
    L.append("End C18_%s." % X)
    # ---- nested description: the descriptions of member classes are PARAMETERS (their obligations live in their own
    # files); coq/gen/C18NestedAll.v (tools/c18.py) plugs them together and instantiates the nested round-trip theorem
    ul = {"write": [], "read": []}
    dw = [dfld(f, "write", ul["write"]) for f in r["fields"]["write"]]
    dr = [dfld(f, "read", ul["read"]) for f in r["fields"]["read"]]
    def dl(xs):
        return "".join("\n   (FCons %s %s %s (%s)" % x for x in xs) + " FNil" + ")" * len(xs)
    L.append("Section C18N_%s." % X)
    for i in sorted(set(ul["write"] + ul["read"])): L.append("Variable n_loop%d : nat." % i)
    for u in nested["write"]: L.append("Variable w_%s : desc.  (* write description of member class %s *)" % (ident(u), u))
    for u in nested["read"]: L.append("Variable r_%s : desc.  (* read description of member class %s *)" % (ident(u), u))
    lw = " ".join("n_loop%d" % i for i in sorted(ul["write"])); lr = " ".join("n_loop%d" % i for i in sorted(ul["read"]))
    L.append("Definition wdesc_%s : desc := DObj members_%s transient_%s (%s)." % (X, X, X, dl(dw).strip() if dw else "FNil"))
    L.append("Definition rdesc_%s : desc := DObj members_%s transient_%s (%s)." % (X, X, X, dl(dr).strip() if dr else "FNil"))
    L.append("End C18N_%s." % X)
    allu = []
    for u in nested["write"] + nested["read"]:
        if u not in allu: allu.append(u)
    binders = "".join(" (n_loop%d : nat)" % i for i in sorted(set(ul["write"] + ul["read"]))) + "".join(" (d_%s : desc)" % ident(u) for u in allu)
    aw = " ".join(["n_loop%d" % i for i in sorted(ul["write"])] + ["d_%s" % ident(u) for u in nested["write"]])
    ar = " ".join(["n_loop%d" % i for i in sorted(ul["read"])] + ["d_%s" % ident(u) for u in nested["read"]])
    L.append("(* the read description equals the write description when the member classes' descriptions are the same on both sides *)")
    L.append("Theorem nrw_%s : %srdesc_%s %s = wdesc_%s %s.\nProof. reflexivity. Qed." % (X, ("forall" + binders + ", ") if binders else "", X, ar, X, aw))
    r["nested"] = {"write": list(nested["write"]), "read": list(nested["read"]), "loops": sorted(set(ul["write"] + ul["read"]))}
    return "\n".join(L) + "\n"


def translate(repo, files=None):
    """translate every serializable class of the tree `repo` (or, with files=[...], of exactly these files: self-test)"""
    REPO_FOR_REL[0] = repo
    texts, classes = scan_repo(repo) if files is None else scan_files(files, classes_in_cpp=True)
    ALL_CLASSES[0] = classes
    ALL_TEXTS[0] = texts
    todo = []
    for name, cs in sorted(classes.items()):
        for c in cs:
            if is_serializable(classes, c) and c.name not in ("type",):
                todo.append(c)
    # unique ids
    seen = {}
    results = []
    for c in todo:
        n = seen.get(c.name, 0); seen[c.name] = n + 1
        r = translate_class(classes, texts, c)
        r["uid"] = c.name if n == 0 else "%s_%d" % (c.name, n + 1)
        results.append(r)
    # kinds of nested classes: first pass with atoms only
    cf = {}
    for r in results:
        if r["name"] in cf: continue
        cf[r["name"]] = None
    kinds1 = {}
    for r in results:
        if r["name"] not in kinds1:
            kinds1[r["name"]] = [kind_of_field(f, {}) for f in r["fields"]["write"]]
    nestable = {}
    for r in results:
        if r["name"] not in EXCLUDED: nestable.setdefault(r["name"], r["uid"])
    for r, c in zip(results, todo):
        r["coq"] = emit_coq(r, kinds1, nestable, c)
    return results, classes


def summary_line(r):
    return "%s: write=[%s] read=[%s] members=[%s] transient=[%s]%s" % (
        r["uid"], ", ".join(f["name"] for f in r["fields"]["write"]), ", ".join(f["name"] for f in r["fields"]["read"]),
        ", ".join(r["members"]), ", ".join(m for m, _ in r["transient"]),
        (" PROBLEMS=" + "; ".join(r["problems"])) if r["problems"] else "")


if __name__ == "__main__":
    repo = sys.argv[1] if len(sys.argv) > 1 else os.environ.get("VERIF_REPO", "/repo")
    rs, _ = translate(repo)
    only = sys.argv[2:]
    for r in rs:
        if only and r["name"] not in only: continue
        print(summary_line(r))
        if only:
            print(r["coq"])


# ------------------------------------------------------------------------------------------------
# cross-check of the source-level reading against clang's AST (independent second reading)

AST_TUS = {
    "LinearModel": "include/shark/Models/LinearModel.h",
    "Normalizer": "include/shark/Models/Normalizer.h",
    "ConcatenatedModel": "include/shark/Models/ConcatenatedModel.h",
    "KernelExpansion": "include/shark/Models/Kernels/KernelExpansion.h",
    "GaussianRbfKernel": "include/shark/Models/Kernels/GaussianRbfKernel.h",
    "PolynomialKernel": "include/shark/Models/Kernels/PolynomialKernel.h",
    "Data": "include/shark/Data/Dataset.h",
    "LabeledData": "include/shark/Data/Dataset.h",
    "Shape": "include/shark/Core/Shape.h",
    "SteepestDescent": "include/shark/Algorithms/GradientDescent/SteepestDescent.h",
    "Adam": "include/shark/Algorithms/GradientDescent/Adam.h",
    "LineSearch": "include/shark/Algorithms/GradientDescent/LineSearch.h",
    "AbstractLineSearchOptimizer": "src/Algorithms/GradientDescent/AbstractLineSearchOptimizer.cpp",
    "BFGS": "src/Algorithms/GradientDescent/BFGS.cpp",
    "LBFGS": "src/Algorithms/GradientDescent/LBFGS.cpp",
    "CG": "src/Algorithms/GradientDescent/CG.cpp",
    "Rprop": "src/Algorithms/GradientDescent/Rprop.cpp",
    "CMA": "src/Algorithms/DirectSearch/CMA.cpp",
}


def _json_stream(t):
    dec = json.JSONDecoder(); i = 0; n = len(t)
    while i < n:
        while i < n and t[i].isspace(): i += 1
        if i >= n: break
        try:
            o, j = dec.raw_decode(t, i)
        except ValueError:
            break
        yield o; i = j


def _walk(n, f):
    if n.get("kind") == "DoStmt": return        # SHARK_ASSERT / SIZE_CHECK / SHARK_RUNTIME_CHECK expansions (the translator ignores them too)
    f(n)
    for c in n.get("inner", []) or []:
        if isinstance(c, dict): _walk(c, f)


def _this_root(n):
    """name of a member expression whose object is `this` (explicit or implicit), else None"""
    if n.get("kind") in ("UnresolvedLookupExpr", "UnresolvedMemberExpr"):   # member of a dependent base named by a using-declaration
        return n.get("name")
    if n.get("kind") not in ("MemberExpr", "CXXDependentScopeMemberExpr"): return None
    inner = [c for c in (n.get("inner") or []) if isinstance(c, dict)]
    if not inner:
        return n.get("name") or n.get("member")      # implicit this in a dependent context
    c = inner[0]
    while c.get("kind") in ("ImplicitCastExpr", "ParenExpr", "CXXConstCastExpr", "CXXStaticCastExpr", "UnaryOperator") and c.get("inner"): c = c["inner"][0]
    if c.get("kind") == "CXXThisExpr": return n.get("name") or n.get("member")
    return None


def ast_class(repo, cname, rel, includes, tmpdir):
    """(fields, read_roots, write_roots) of class cname according to clang, or (None, reason)"""
    objs, why = _clang_dump(repo, cname, rel, includes, tmpdir, tag="ast")
    if objs is None:
        return None, why
    fields = []; rw = {"read": [], "write": []}
    methods = {}          # member functions of the class with a body: name -> [decl]  (helpers that read/write delegate to)
    def has_body(c):
        return any(x.get("kind") == "CompoundStmt" for x in c.get("inner", []) or [])
    def add_method(md):
        if md.get("kind") == "CXXMethodDecl" and has_body(md) and md.get("name"):
            methods.setdefault(md["name"], []).append(md)
    def roots_of(md, stack=()):
        roots = []
        # parameters of this function that can carry the archive (everything but plain scalars, e.g. `unsigned version`)
        params = set(x.get("id") for x in md.get("inner", []) or [] if x.get("kind") == "ParmVarDecl" and
                     not re.match(r"^(const )?(unsigned |signed )?(int|long|char|bool|double|float|short|unsigned|std::size_t|size_t)( const)?$",
                                  x.get("type", {}).get("qualType", "")))
        def unwrap(c):
            while c.get("kind") in ("ImplicitCastExpr", "ParenExpr", "CXXConstCastExpr", "CXXStaticCastExpr", "UnaryOperator") and c.get("inner"):
                c = c["inner"][0]
            return c
        def visit(n):
            if n.get("kind") in ("CallExpr", "CXXMemberCallExpr") and n.get("inner"):
                inner = [c for c in n["inner"] if isinstance(c, dict)]
                r = _this_root(unwrap(inner[0]))
                hands_archive = any(unwrap(a).get("kind") == "DeclRefExpr" and unwrap(a).get("referencedDecl", {}).get("id") in params
                                    for a in inner[1:])
                if r and hands_archive and r in methods and r not in fields and r not in ("read", "write") and len(stack) < 6 and r not in stack:
                    # call of a member function of the same class that is handed the archive: follow it (the
                    # helper's members, in place)
                    roots.extend(max((roots_of(h, stack + (r,)) for h in methods[r]), key=len))
            r = _this_root(n)
            if r: roots.append(r)
        _walk(md, visit)
        return roots
    records = []
    def scan_record(rec):
        nonlocal fields
        if not fields:
            fields = [c["name"] for c in rec.get("inner", []) or [] if c.get("kind") == "FieldDecl" and "name" in c]
        for c in rec.get("inner", []) or []:
            if c.get("kind") == "FunctionTemplateDecl":
                for md in c.get("inner", []) or []: add_method(md)
            add_method(c)
        records.append(rec)
    def collect(rec):
        for c in rec.get("inner", []) or []:
            if c.get("kind") == "FunctionTemplateDecl" and c.get("name") == "serialize" and "read" not in methods and "write" not in methods:
                for md in c.get("inner", []) or []:
                    if md.get("kind") == "CXXMethodDecl" and has_body(md):
                        r = roots_of(md); rw["read"].append(r); rw["write"].append(list(r))
            if c.get("kind") == "CXXMethodDecl" and c.get("name") in rw and has_body(c):
                ptypes = " ".join(x.get("type", {}).get("qualType", "") for x in c.get("inner", []) if x.get("kind") == "ParmVarDecl")
                want = "InArchive" if c["name"] == "read" else "OutArchive"
                if want not in ptypes: continue
                rw[c["name"]].append(roots_of(c))
    ool = []; ool_helpers = []
    for o in objs:
        k = o.get("kind"); nm = o.get("name")
        if k == "ClassTemplateDecl" and nm == cname:
            for rec in o.get("inner", []) or []:
                if rec.get("kind") in ("CXXRecordDecl", "ClassTemplateSpecializationDecl"): scan_record(rec)
        elif k in ("CXXRecordDecl", "ClassTemplateSpecializationDecl") and nm == cname:
            scan_record(o)
        elif k == "CXXMethodDecl" and has_body(o):          # out-of-line definition
            if nm in rw: ool.append(o)
            else: ool_helpers.append(o)
        elif k == "FunctionTemplateDecl":                   # out-of-line member template
            ool_helpers += [md for md in o.get("inner", []) or [] if md.get("kind") == "CXXMethodDecl"]
    ids = set(r.get("id") for r in records)
    for md in ool_helpers:                                  # helpers of THIS class only (the dump filter matches substrings)
        if md.get("parentDeclContextId") in ids: add_method(md)
    for rec in records: collect(rec)
    for o in ool: rw[o["name"]].append(roots_of(o))
    for k in rw:
        rw[k] = rw[k] or None          # list of candidate root sequences (template pattern, instantiations)
    return (fields, rw["read"], rw["write"]), None


def dedupe(xs):
    out = []
    for x in xs:
        if not out or out[-1] != x: out.append(x)
    return out


def ast_crosscheck(repo, results, includes, tmpdir, only=None, jobs=4, tus=None):
    """compare translator vs clang for the classes of AST_TUS (or of tus: class -> file relative to repo);
    returns list of (class, ok, message)"""
    AST_TUS = tus if tus is not None else globals()["AST_TUS"]
    import shutil
    from concurrent.futures import ThreadPoolExecutor
    if shutil.which("clang++") is None:
        return [("*", None, "clang++ not available: cross-check skipped")]
    byname = {}
    for r in results: byname.setdefault(r["name"], r)
    todo = [c for c in AST_TUS if c in byname and (only is None or c in only) and os.path.exists(os.path.join(repo, AST_TUS[c]))]
    with ThreadPoolExecutor(max_workers=jobs) as ex:
        outs = list(ex.map(lambda c: ast_class(repo, c, AST_TUS[c], includes, tmpdir), todo))
    rep = []
    for c, (res, why) in zip(todo, outs):
        r = byname[c]
        if res is None:
            rep.append((c, None, why)); continue
        fields, rd, wr = res
        allmem = set(r["member_types"]) | set(fields) | set(f["root"] for s in ("read", "write") for f in r["fields"][s])
        msgs = []
        own = [m for m in r["members"] if r["member_decl"].get(m) == c]
        if fields and sorted(fields) != sorted(own):
            msgs.append("data members: clang %s, translator %s" % (sorted(fields), sorted(own)))
        for side, ast in (("read", rd), ("write", wr)):
            if r.get(side + "_owner") != c:      # inherited implementation: nothing of this class to compare
                continue
            if ast is None:
                msgs.append("%s: clang found no definition" % side); continue
            # the most complete reading: an instantiation resolves members of dependent bases
            a = max((dedupe([x for x in cand if x in allmem]) for cand in ast), key=len)
            t = dedupe([f["root"] for f in r["fields"][side] if not f["root"].startswith("<")])
            if a != t:
                msgs.append("%s roots: clang %s, translator %s" % (side, a, t))
        rep.append((c, not msgs, "; ".join(msgs)))
    return rep


# ------------------------------------------------------------------------------------------------
# rebuild obligation, read from clang's AST (the authoritative reading; the source-level one above feeds the Coq file)

# translation unit to parse for a class whose defining header is not self-contained
REBUILD_TUS = {"compressed_matrix_impl": "include/shark/LinAlg/Base.h"}


_DUMP_CACHE = {}


def _clang_dump(repo, cname, rel, includes, tmpdir, tag="rb"):
    """clang's JSON AST of the declarations whose name contains cname in a TU that includes repo/rel (cached per process:
    the member cross-check and the rebuild check read the same dump)"""
    import subprocess
    key = (os.path.realpath(repo), cname, rel, tuple(includes))
    if key in _DUMP_CACHE: return _DUMP_CACHE[key]
    os.makedirs(tmpdir, exist_ok=True)
    tu = os.path.join(tmpdir, "%s_%s.cpp" % (tag, cname))
    open(tu, "w").write('#include "%s"\n' % os.path.join(repo, rel))
    cmd = ["clang++", "-std=gnu++11", "-fopenmp", "-DNDEBUG", "-w", "-fsyntax-only"] + includes + \
          ["-Xclang", "-ast-dump=json", "-Xclang", "-ast-dump-filter=" + cname, tu]
    try:
        p = subprocess.run(cmd, capture_output=True, text=True, timeout=300)
    except Exception as ex:
        return None, "clang failed: %r" % ex
    if not p.stdout.strip():
        return None, "clang produced no AST (%s)" % p.stderr[-300:]
    _DUMP_CACHE[key] = (list(_json_stream(p.stdout)), None)
    return _DUMP_CACHE[key]


def ast_rebuild(repo, cname, rel, includes, tmpdir, members):
    """({member: how} for the members of `members` that read()/serialize() of class cname refers to -- directly or through a
    non-const member function of the class it calls -- at or after the last statement that uses the archive), reason"""
    objs, why = _clang_dump(repo, cname, rel, includes, tmpdir)
    if objs is None: return None, why
    def has_body(c):
        return any(x.get("kind") == "CompoundStmt" for x in c.get("inner", []) or [])
    records = []; methods = {}; readers = []
    def add_method(md):
        if md.get("kind") == "CXXMethodDecl" and has_body(md) and md.get("name"):
            methods.setdefault(md["name"], []).append(md)
    def scan_record(rec):
        records.append(rec)
        for c in rec.get("inner", []) or []:
            if c.get("kind") == "FunctionTemplateDecl":
                for md in c.get("inner", []) or []: add_method(md)
            add_method(c)
    ool = []
    for o in objs:
        k = o.get("kind"); nm = o.get("name")
        if k == "ClassTemplateDecl" and nm == cname:
            for rec in o.get("inner", []) or []:
                if rec.get("kind") == "CXXRecordDecl": scan_record(rec)       # the template pattern (not its instantiations)
        elif k == "CXXRecordDecl" and nm == cname:
            scan_record(o)
        elif k == "CXXMethodDecl" and has_body(o):
            ool.append(o)
        elif k == "FunctionTemplateDecl":
            ool += [md for md in o.get("inner", []) or [] if md.get("kind") == "CXXMethodDecl" and has_body(md)]
    ids = set(r.get("id") for r in records)
    for md in ool:
        if md.get("parentDeclContextId") in ids: add_method(md)
    def is_const(md):
        return md.get("type", {}).get("qualType", "").rstrip().endswith("const")
    def is_reader(md):
        ps = [x for x in md.get("inner", []) or [] if x.get("kind") == "ParmVarDecl"]
        if not ps: return False
        t0 = ps[0].get("type", {}).get("qualType", "")
        if md["name"] == "read": return "InArchive" in t0 or "iarchive" in t0
        if md["name"] == "serialize": return len(ps) == 2 and "Archive" in t0
        return False
    readers = [md for nm in ("read", "serialize") for md in methods.get(nm, []) if is_reader(md)]
    if not readers:
        return None, "clang found no read()/serialize() definition of %s" % cname
    def refs_of(node, depth, seen, via, out):
        """member names referred to through `this` in node, following calls of non-const member functions of the class"""
        def visit(n):
            r = _this_root(n)
            if r:
                out.setdefault(r, "referenced" + (" in " + " -> ".join(via) if via else ""))
                if depth < 4 and r in methods and r not in seen:
                    for md in methods[r]:
                        if not is_const(md):
                            refs_of(md, depth + 1, seen | {r}, via + [r + "()"], out)
        _walk(node, visit)
    best = {}
    for md in readers:
        ar_ids = set(x.get("id") for x in md.get("inner", []) or [] if x.get("kind") == "ParmVarDecl")
        body = [x for x in md.get("inner", []) or [] if x.get("kind") == "CompoundStmt"][0]
        stmts = [x for x in body.get("inner", []) or [] if isinstance(x, dict)]
        def uses_archive(n):
            hit = [False]
            def v(x):
                if x.get("kind") == "DeclRefExpr" and x.get("referencedDecl", {}).get("id") in ar_ids: hit[0] = True
            _walk(n, v)
            return hit[0]
        idx = [i for i, st in enumerate(stmts) if uses_archive(st)]
        if idx:
            L = idx[-1]
            compound = stmts[L].get("kind") in ("ForStmt", "CXXForRangeStmt", "IfStmt", "WhileStmt", "CompoundStmt", "DoStmt", "SwitchStmt")
            after = stmts[L:] if compound else stmts[L + 1:]
        else:
            after = stmts
        out = {}
        for st in after: refs_of(st, 0, frozenset(), [], out)
        got = {m: out[m] + " at or after the last statement that uses the archive" for m in members if m in out}
        if len(got) >= len(best): best = got
    return best, None


def ast_rebuild_check(repo, results, includes, tmpdir, jobs=4, tus=None):
    """for every class with a transient member that is not merely exempt: does clang's AST confirm the source-level reading
    (rebuilt / untouched)?  returns list of (class, member, source status, ast touched or None, message)"""
    import shutil
    from concurrent.futures import ThreadPoolExecutor
    todo = []
    for r in results:
        ms = [m for m, d in r.get("rebuild", {}).items() if d["status"] != "exempt"]
        if ms: todo.append((r, ms))
    if not todo: return []
    if shutil.which("clang++") is None:
        return [(r["name"], m, r["rebuild"][m]["status"], None, "clang++ not available") for r, ms in todo for m in ms]
    def rel_of(r):
        if tus and r["name"] in tus: return tus[r["name"]]
        if r["name"] in REBUILD_TUS: return REBUILD_TUS[r["name"]]
        src = r.get("read_src", "")
        f = src.split(":")[0] if src and not src.startswith("none") else os.path.relpath(r["file"], repo)
        return f if f.endswith(".cpp") else os.path.relpath(r["file"], repo)
    with ThreadPoolExecutor(max_workers=jobs) as ex:
        outs = list(ex.map(lambda t: ast_rebuild(repo, t[0]["name"], rel_of(t[0]), includes, tmpdir, t[1]), todo))
    rep = []
    for (r, ms), (got, why) in zip(todo, outs):
        for m in ms:
            st = r["rebuild"][m]["status"]
            if got is None: rep.append((r["name"], m, st, None, why))
            else: rep.append((r["name"], m, st, m in got, got.get(m, "clang: read()/serialize() of %s never refers to %s at or after the last statement that uses the archive, nor does a non-const member function it calls" % (r["name"], m))))
    return rep
