#!/usr/bin/env python3
"""C11 — evolution strategies keep a valid search distribution and are rank-invariant.

  proofs           Properties_C11.v (rank invariance of selection/recombination, covariance update symmetric / positive
                   definite, sigma > 0, elitist acceptance, penalised evaluation), axiom-free over Q
  correspondence   extracted model (float instantiation) vs the real code compiled from /repo:
                     COR   CMA::updatePopulation on the offspring read back from the implementation (1e-10 relative),
                           step() == generateOffspring + PenalizingEvaluator + updatePopulation (exact),
                     ECOR  ElitistCMA acceptance / ancestral window (exact),   P  PenalizingEvaluator (exact, dyadic inputs)
  spec monitors    every step of CMA, CMSA, ElitistCMA, VDCMA, CrossEntropyMethod, SimplexDownhill: sigma > 0 finite,
                   covariance symmetric positive definite, value = objective at the (closest feasible) reported point,
                   same seed => identical run, f vs 4*f => identical iterates, elitist never worse, sphere budget table,
                   update invariant under permuting the offspring array (ranks only).
"""
import os, sys, re, math
from fractions import Fraction
sys.path.insert(0, os.path.dirname(os.path.abspath(__file__)))
from vlib import *

PID = "C11"
SRC = ["src/Algorithms/DirectSearch/CMA.cpp", "src/Algorithms/DirectSearch/CMSA.cpp", "src/Algorithms/DirectSearch/ElitistCMA.cpp",
       "src/Algorithms/DirectSearch/CrossEntropyMethod.cpp", "src/Core/Random.cpp"]
TOL = 1e-10

# sphere convergence: target value and evaluation budget (evaluations = objective calls counted by the objective itself).
# Budgets are >= 4x the largest count observed over seeds 1..3 on the unchanged tree (see evidence "sphere_table").
SPHERE = {  # alg: (target, budget(n))
    "CMA": (1e-10, lambda n: 800 * n), "CMSA": (1e-10, lambda n: 1500 * n), "ECMA": (1e-10, lambda n: 500 * n),
    "VDCMA": (1e-10, lambda n: 1000 * n), "SIMPLEX": (1e-10, lambda n: 400 * n),
    # cross entropy: default settings (no noise) stall (observed final values up to 0.3 on the 10-dim sphere); the documented
    # linearly decreasing noise z_t = max(5 - t/10, 0) (CrossEntropyMethod::LinearNoise(5, -0.1), Thiery & Scherrer) reaches
    # 1e-3 after <= 5801 evaluations in all 60 probes (n in 2,3,4,5,7,10 x seeds 1..10; finals range 1e-198 .. 4.3e-4, the tighter
    # 1e-5 is missed by 3 of the 60: n=7 seed 5, n=10 seeds 4 and 9); target 1e-3 within 20000 evaluations.
    "CEMN": (1e-3, lambda n: 20000)}
EVALS_PER_STEP = {"CMA": lambda n: max(5, min(int(4 + math.floor(3 * math.log(n))), n)), "CMSA": lambda n: 4 * n, "ECMA": lambda n: 1,
                  "VDCMA": lambda n: int(4 + math.floor(3 * math.log(n))), "SIMPLEX": lambda n: 1, "CEMN": lambda n: 100}


def fh(s):
    if s in ("nan", "-nan"): return float("nan")
    if s == "inf": return float("inf")
    if s == "-inf": return float("-inf")
    return float.fromhex(s)

def fhl(s):
    return [fh(x) for x in s.split(",")] if s else []

def finite(x):
    return not (math.isnan(x) or math.isinf(x))

def chol_pd(C, n):
    """Cholesky of the symmetrised matrix; returns None if positive definite, else a message"""
    A = [[0.5 * (C[i * n + j] + C[j * n + i]) for j in range(n)] for i in range(n)]
    L = [[0.0] * n for _ in range(n)]
    for i in range(n):
        for j in range(i + 1):
            s = A[i][j] - sum(L[i][k] * L[j][k] for k in range(j))
            if i == j:
                if not (s > 0) or not finite(s):
                    return "pivot %d of the Cholesky factorisation is %r" % (i, s)
                L[i][i] = math.sqrt(s)
            else:
                L[i][j] = s / L[j][j]
    return None

def sym_err(C, n):
    m = max([abs(x) for x in C] + [1e-300])
    return max([abs(C[i * n + j] - C[j * n + i]) for i in range(n) for j in range(n)] + [0.0]) / m

def close(a, b, scale):
    if a == b: return True
    if not (finite(a) and finite(b)): return False
    return abs(a - b) <= TOL * max(scale, 1e-300)

def vclose(a, b):
    if len(a) != len(b): return False
    sc = max([abs(x) for x in a + b if finite(x)] + [0.0])
    return all(close(x, y, sc) for x, y in zip(a, b))


# ------------------------------------------------------------------------------------------------ running the harness
def run_harness(exe, lines, tmp):
    open(tmp, "w").write("\n".join(lines) + "\n")
    rc, out, err = sh([exe, tmp], timeout=1500)
    return rc, out.split("\n"), err

def split_blocks(out):
    """harness output -> list of blocks (one per command), each a list of lines, split at END / P lines"""
    blocks, cur = [], []
    for l in out:
        if not l: continue
        if l.startswith("P "):
            blocks.append([l]); continue
        if l == "END":
            blocks.append(cur); cur = []
        else:
            cur.append(l)
    if cur: blocks.append(cur + ["<truncated>"])
    return blocks

def parse_step(l):
    d = dict(x.split("=", 1) for x in l.split()[1:])
    return d


# ------------------------------------------------------------------------------------------------ RUN monitors
def monitor_run(cmd, block):
    """the property's per-step predicates on one run; returns list of (key, message)"""
    t = cmd.split(); alg, n, fid = t[1], int(t[2]), int(t[8]); scale = float(t[9])
    bad = []
    if block and block[-1] == "<truncated>":
        return [("monitor:%s:crash" % alg, "implementation crashed / stopped in `%s`" % cmd)]
    if fid == 7:
        # announced constraint handler: every single-objective optimizer refuses it in checkFeatures (VDCMA's 5-argument init does not check)
        if any(l.startswith("EXC") and "Can not solve constrained" in l for l in block): return []
        if alg != "VDCMA": return [("monitor:%s:constrained-accepted" % alg, "`%s`: constrained objective neither rejected nor handled: %s" % (cmd, block[:2]))]
    prev_val = None
    for l in block:
        if l == "RUN": continue
        if l.startswith("EXC") or l.startswith("ERR"):
            bad.append(("monitor:%s:exception" % alg, "`%s`: %s" % (cmd, l))); break
        d = parse_step(l); st = d["t"]
        val, fchk = fh(d["val"]), fh(d["fchk"])
        lowdim = "dim<5" if (alg == "VDCMA" and n < 5) else "dim%d" % n
        sig = fhl(d["sig"])
        for s in sig:
            if not (finite(s) and s > 0):
                bad.append(("monitor:%s:%s:nonfinite-or-no-convergence" % (alg, lowdim) if alg == "VDCMA" else ("monitor:CEM:variance-zero" if (alg.startswith("CEM") and s == 0.0) else "monitor:%s:sigma" % alg),
                            "`%s` step %s: step size / variance %r is not positive and finite" % (cmd, st, s))); break
        if bad: break
        if d["C"]:
            C = fhl(d["C"])
            if len(C) != n * n or not all(finite(x) for x in C):
                bad.append(("monitor:%s:%s:nonfinite-or-no-convergence" % (alg, lowdim) if alg == "VDCMA" else "monitor:%s:cov-nonfinite" % alg,
                            "`%s` step %s: covariance has non-finite entries" % (cmd, st))); break
            if sym_err(C, n) > 1e-12:
                bad.append(("monitor:%s:cov-asymmetric" % alg, "`%s` step %s: covariance not symmetric (relative asymmetry %g)" % (cmd, st, sym_err(C, n)))); break
            m = chol_pd(C, n)
            if m:
                bad.append(("monitor:%s:cov-not-pd" % alg, "`%s` step %s: covariance not positive definite: %s" % (cmd, st, m))); break
        if not (val == fchk):
            bad.append(("monitor:%s:%s" % (alg, "%s:nonfinite-or-no-convergence" % lowdim if (alg == "VDCMA" and n < 5) else "value"),
                        "`%s` step %s: reported value %r != objective at the (closest feasible) reported point %r" % (cmd, st, val, fchk))); break
        if alg in ("ECMA", "SIMPLEX") and prev_val is not None and val > prev_val and fid not in (3, 5, 7):
            bad.append(("monitor:%s:elitist-worse" % alg, "`%s` step %s: reported value got worse: %r -> %r" % (cmd, st, prev_val, val))); break
        prev_val = val
    if alg == "VDCMA" and n < 5:
        bad = [("monitor:VDCMA:dim<5:nonfinite-or-no-convergence", m) for _, m in bad]
    return bad

def first_hit(block, target):
    for l in block:
        if l.startswith("S "):
            d = parse_step(l); v = fh(d["val"])
            if v < target: return int(d["ev"])
    return None

def strip_vals(block, scale):
    """iterates of a run (everything except the objective values); values divided by the exact scale"""
    out = []
    for l in block:
        if not l.startswith("S "): out.append(l); continue
        d = parse_step(l)
        out.append((d["t"], fh(d["val"]) / scale if d["val"] not in ("nan", "-nan") else "nan", d["pt"], d["mean"], d["sig"], d["C"], d["ev"]))
    return out


def gen_runs(rng, nbase):
    """returns list of (cmd, role) ; roles: base / same (same seed again) / scaled (4*f)"""
    cmds = []
    algs = ["CMA", "CMSA", "ECMA", "VDCMA", "CEM", "CEMN", "SIMPLEX"]
    for i in range(nbase):
        alg = algs[i % len(algs)]
        n = rng.randint(2, 10)
        if alg == "VDCMA" and rng.random() < 0.7: n = rng.randint(5, 10)
        fid = rng.choice([0, 1, 2, 4, 6, 0, 1, 3, 5])
        if alg == "SIMPLEX" and fid in (3, 5): fid = 2    # SimplexDownhill has no constraint handling at all (never calls isFeasible/closestFeasible)
        if alg == "ECMA" and fid in (3, 5) and rng.random() < 0.5: fid = 2
        seed = rng.randint(1, 10 ** 6)
        steps = rng.randint(5, 40)
        lam = mu = 0; rec = 2; sig = 0
        if alg == "CMA":
            rec = rng.choice([0, 1, 2])
            if rng.random() < 0.6:
                lam = rng.choice([n + 3, 2 * n, 4 * n + 1, 5, 40, 120]); mu = rng.choice([0, 1, max(1, lam // 4), max(1, lam // 2), lam - 1])
            sig = rng.choice([0, 0, 0.125, 1, 5])
        elif alg == "CMSA":
            r = rng.random()
            if r < 0.25:          # population large relative to the dimension (2*mu > n*(n+1)): learning constants at their corner
                n = rng.choice([2, 2, 3, 4]); lam = rng.choice([24, 40, 80]); mu = rng.choice([lam // 4, lam // 2])
            elif r < 0.7:
                lam = rng.choice([2 * n, 4 * n, 8 * n + 1]); mu = rng.choice([0, 1, max(1, lam // 4), lam // 2])
            sig = rng.choice([0, 0.125, 1, 5])
        elif alg == "ECMA":
            rec = rng.choice([0, 1]); sig = rng.choice([0, 0.125, 1, 5]); steps = rng.randint(20, 150)
        elif alg == "VDCMA":
            if rng.random() < 0.5:
                lam = rng.choice([n + 3, 2 * n + 2, 4 * n]); mu = max(1, lam // 2)
            sig = rng.choice([0, 0.125, 1, 5])
        elif alg in ("CEM", "CEMN"):
            if rng.random() < 0.6:
                lam = rng.choice([20, 50, 100]); mu = rng.choice([lam // 10, lam // 4]); rec = rng.choice([1, 25, 100])
            else: rec = 0
            sig = 5 if alg == "CEMN" else 0
            steps = rng.randint(5, 25)
        else:
            steps = rng.randint(20, 200)
        mk = lambda scale: "RUN %s %d %d %d %d %s %d %d %s %d" % (alg, n, lam, mu, rec, repr(sig), seed, fid, scale, steps)
        cmds.append((mk("1"), "base")); cmds.append((mk("1"), "same")); cmds.append((mk("4"), "scaled"))
        # the same optimizer OBJECT first completes another run (other objective, other seed) and is initialised again:
        # "runs with the same seed are identical" must not depend on the object's history
        cmds.append((mk("1") + " %d %d" % (rng.choice([f for f in (0, 1, 2, 4, 6) if f != fid]), rng.randint(3, 12)), "reinit"))
    # the announced-constraint objective: documented refusal
    for alg in algs:
        cmds.append(("RUN %s 3 0 0 2 0 1 7 1 3" % alg, "base"))
    return cmds

def sphere_runs(seeds, dims):
    cmds = []
    for alg, (target, budget) in SPHERE.items():
        for n in dims:
            steps = int(math.ceil(budget(n) / EVALS_PER_STEP[alg](n))) + 1
            for s in seeds:
                sig = "5" if alg == "CEMN" else "0"
                cmds.append("RUN %s %d 0 0 2 %s %d 0 1 %d" % (alg, n, sig, s, steps))
    return cmds


# ------------------------------------------------------------------------------------------------ COR
def gen_cor(rng, k):
    out = []
    for i in range(k):
        n = rng.randint(2, 10); rec = rng.choice([0, 1, 2])
        lam = mu = 0
        r = rng.random()
        if r < 0.5:
            lam = rng.choice([n + 3, 2 * n, 4 * n + 1, 5, 17]); mu = rng.choice([0, 1, max(1, lam // 4), max(1, lam // 2), lam - 1])
        elif r < 0.6:
            n = rng.choice([2, 3]); lam = rng.choice([120, 200]); mu = lam // 2; rec = rng.choice([0, 2])   # corner 1 - c1 - cMu = 0
        sig = rng.choice([0, 0, 0.125, 1, 5]); fid = rng.choice([0, 1, 2, 4, 6, 3, 5])
        out.append("COR %d %d %d %d %s %d %d %d" % (n, lam, mu, rec, repr(sig), rng.randint(1, 10 ** 6), fid, rng.randint(3, 25)))
    return out

def parse_u(l):
    parts = [p.strip() for p in l.split("|")]
    hd = dict(x.split("=") for x in parts[0].split()[1:])
    n, lam, mu = map(int, parts[1].split())
    consts = parts[2].split(); counter, sigma = parts[3].split()
    rec = {"same": hd["same"] == "1", "perm": hd["perm"] == "1", "n": n, "lam": lam, "mu": mu, "consts": consts, "counter": counter, "sigma": sigma,
           "mean": parts[4].split(","), "C": parts[5].split(","), "pc": parts[6].split(","), "ps": parts[7].split(","), "B": parts[8].split(","),
           "ws": parts[9].split(","), "off": [o.split(";") for o in parts[10].split()],
           "post": {"sigma": parts[11], "mean": parts[12].split(","), "C": parts[13].split(","), "pc": parts[14].split(","), "ps": parts[15].split(","),
                    "best": parts[16], "bestpt": parts[17].split(",")}}
    return rec

def model_line_u(r):
    tok = ["U", str(r["n"]), str(r["lam"]), str(r["mu"])] + r["consts"] + [r["counter"], r["sigma"]] + r["mean"] + r["C"] + r["pc"] + r["ps"] + r["B"] + r["ws"]
    for o in r["off"]:
        tok += [o[0]] + o[1].split(",") + o[2].split(",")
    return " ".join(tok)

def monitor_u(cmd, step, r):
    """spec predicates on one update, independent of the model"""
    n = r["n"]; bad = []
    post = r["post"]
    s = fh(post["sigma"]); C = [fh(x) for x in post["C"]]
    if not (finite(s) and s > 0): bad.append(("cor:sigma", "`%s` step %d: sigma' = %r not positive finite" % (cmd, step, s)))
    if not all(finite(x) for x in C): bad.append(("cor:cov-nonfinite", "`%s` step %d: covariance non-finite" % (cmd, step)))
    else:
        if sym_err(C, n) > 1e-12: bad.append(("cor:cov-asymmetric", "`%s` step %d: updated covariance not symmetric (relative asymmetry %g)" % (cmd, step, sym_err(C, n))))
        m = chol_pd(C, n)
        if m: bad.append(("cor:cov-not-pd", "`%s` step %d: updated covariance not positive definite (%s); 1-c1-cMu = %g" % (cmd, step, m, 1 - fh(r["consts"][1]) - fh(r["consts"][2]))))
    fit_list = [fh(o[0]) for o in r["off"]]
    r["ties"] = len(set(fit_list)) != len(fit_list)
    if not r["perm"] and not r["ties"]:
        bad.append(("cor:order-dependent", "`%s` step %d: CMA::updatePopulation gives a different state for the reversed offspring array (the update must depend on fitness ranks only)" % (cmd, step)))
    # reported best = best-ranked offspring; new mean = weighted recombination of the mu best (python sort, independent of the model)
    offs = sorted([(fh(o[0]), [fh(x) for x in o[1].split(",")]) for o in r["off"]], key=lambda z: z[0])
    fits = [o[0] for o in offs]
    if len(set(fits)) == len(fits):
        if fh(post["best"]) != offs[0][0] or [fh(x) for x in post["bestpt"]] != offs[0][1]:
            bad.append(("cor:best", "`%s` step %d: reported solution is not the best-ranked offspring" % (cmd, step)))
        ws = [fh(w) for w in r["ws"]]
        m = [sum(w * o[1][i] for w, o in zip(ws, offs)) for i in range(n)]
        if not vclose(m, [fh(x) for x in post["mean"]]):
            bad.append(("cor:mean", "`%s` step %d: new mean is not the weighted recombination of the mu best offspring" % (cmd, step)))
    return bad


# ------------------------------------------------------------------------------------------------ ECOR / P
def gen_ecor(rng, k):
    return ["ECOR %d %d %d %d %d %s" % (rng.randint(2, 10), rng.randint(1, 10 ** 6), rng.choice([0, 1, 2, 4, 6, 3, 5]), rng.randint(20, 200),
                                         rng.choice([0, 1]), repr(rng.choice([0, 0.125, 1, 30]))) for _ in range(k)]

def dy(rng, lo=-64, hi=64):
    return rng.randint(lo, hi) / 8.0

def gen_pen(rng, k):
    out = []
    for _ in range(k):
        n = rng.randint(1, 8); lo = dy(rng, -32, 16); hi = lo + rng.randint(0, 40) / 8.0
        pen = rng.choice([2.0 ** -20, 2.0 ** -10, 1.0, 0.0]); c = dy(rng, -16, 16)
        x = [rng.choice([dy(rng), lo, hi, lo - 0.125, hi + 0.125, rng.uniform(lo, hi) if False else dy(rng)]) for _ in range(n)]
        out.append("P %d %s" % (n, " ".join(float(v).hex() for v in [lo, hi, pen, c] + x)))
    return out

def spec_pen(line):
    t = line.split(); n = int(t[1]); v = [Fraction(float.fromhex(x)) for x in t[2:]]
    lo, hi, pen, c = v[:4]; x = v[4:]
    feas = not any(xi + Fraction(1e-13) < lo or xi - Fraction(1e-13) > hi for xi in x)
    tt = x if feas else [min(max(xi, lo), hi) for xi in x]
    unp = sum((ti - c) ** 2 for ti in tt)
    return unp, unp + pen * sum((ti - xi) ** 2 for ti, xi in zip(tt, x))


# ------------------------------------------------------------------------------------------------ main
def main():
    ck = Check(PID)
    ck.trusted = DEFAULT_TRUSTED + [
        "harness/c11_es.cpp reads private/protected members of the optimizers through '#define private public' in that TU only (no source change)",
        "modelled not verified: symmetric eigendecomposition (its eigenvectors are an explicit input of the model), Cholesky rank-one updates of CMSA/ElitistCMA, std::sort (proved: any sorted permutation of a tie-free list is the model's list), libm exp/sqrt/pow, the Mersenne twister",
        "float instantiation of the model uses OCaml's IEEE double operations; comparison at 1e-10 relative to the largest entry of each vector/matrix"]
    ck.assumptions = [
        "objectives from the generated family: sphere, ellipsoid, Rosenbrock, cigar, sqrt(sqrt(sphere)), box-restricted shifted sphere and linear function (feasibility by overriding isFeasible/closestFeasible; announced constraint handlers are refused by all six optimizers in checkFeatures)",
        "exactly order-preserving rescaling = multiplication by 4 (exact in binary floating point)",
        "random::globalRng is seeded after proposeStartingPoint; deterministic (non-noisy) objectives, PenalizingEvaluator::m_numEvaluations = 1",
        "sphere-budget runs are monitored up to the step that reaches the target (afterwards variances may underflow to 0, e.g. cross entropy at values ~1e-300)",
        "cov_update_pd is proved for c1 + cMu < 1; the corner c1 + cMu = 1 (large populations, low dimension) is sampled by the monitor only"]
    ck.proofs()
    model = extract_model(PID, "C11Extract.v", "c11_driver.ml")
    exe, err = cxx_build("c11_es", [os.path.join(ROOT, "harness", "c11_es.cpp")] + repo_src(*SRC))
    if exe is None:
        ck.oblige("harness builds against /repo", False, err); ck.finish()
    tmpd = os.path.join(BUILD, "tmp", PID); os.makedirs(tmpd, exist_ok=True)
    big = ck.tier == "thorough"
    rng = ck.rng
    evals = 0; nontrivial = set()

    if ck.replay:
        cmds = [l for l in open(ck.replay).read().split("\n") if l.strip() and not l.startswith("#")]
        runs = [(c, "base") for c in cmds if c.startswith("RUN")]
        cors = [c for c in cmds if c.startswith("COR")]; ecors = [c for c in cmds if c.startswith("ECOR")]; pens = [c for c in cmds if c.startswith("P ")]
        allsph = set(sphere_runs(range(1, 7), range(2, 11)))
        sph = [c for c, _ in runs if c in allsph]      # a replayed sphere-budget run is judged against the budget table again
        runs = [(c, r) for c, r in runs if c not in allsph]
        # a pair (base, same-seed/4f run) written by a determinism / rank-invariance failure
        for i in range(1, len(runs)):
            a, b = runs[i - 1][0].split(), runs[i][0].split()
            if len(b) == len(a) + 2 and b[:len(a)] == a:
                runs[i] = (runs[i][0], "reinit")
            elif a[:9] == b[:9] and a[10:] == b[10:]:
                runs[i] = (runs[i][0], "same" if a[9] == b[9] else "scaled")
    else:
        runs = gen_runs(rng, 70 if not big else 1500)
        cors = gen_cor(rng, 60 if not big else 1200)
        ecors = gen_ecor(rng, 30 if not big else 500)
        pens = gen_pen(rng, 300 if not big else 5000)
        sph = sphere_runs([1, 2] if not big else [1, 2, 3, 4, 5, 6], [2, 5, 10] if not big else [2, 3, 4, 5, 7, 10])
        cdir = os.path.join(ROOT, "corpus", PID)
        if os.path.isdir(cdir):
            for f in sorted(os.listdir(cdir)):
                for c in open(os.path.join(cdir, f)).read().split("\n"):
                    if c.startswith("RUN"): runs.append((c, "base"))
                    elif c.startswith("COR"): cors.append(c)
                    elif c.startswith("ECOR"): ecors.append(c)
                    elif c.startswith("P "): pens.append(c)

    def report(key, msg, cmdlines, extra=None):
        cf = ck.write_replay("case_%d.txt" % len(ck.violations), "\n".join(cmdlines) + "\n")
        rp = {"case_file": cf, "case": cmdlines, "monitor": msg, "replay_cmd": "python3 tools/c11.py --replay %s" % cf}
        if extra: rp.update(extra)
        ck.violation(key, rp, "spec monitor fails on the implementation: " + msg)

    # ---------------- whole-run monitors
    rc, out, err = run_harness(exe, [c for c, _ in runs], os.path.join(tmpd, "runs.txt"))
    blocks = split_blocks(out)
    nmon = 0; seen_keys = set(); nknown = [0]
    if len(blocks) != len(runs):
        report("monitor:crash", "harness produced %d blocks for %d runs (rc=%s) %s" % (len(blocks), len(runs), rc, err[-300:]), [runs[min(len(blocks), len(runs) - 1)][0]])
        blocks += [["<truncated>"]] * (len(runs) - len(blocks))
    base = None
    for (cmd, role), blk in zip(runs, blocks):
        evals += sum(1 for l in blk if l.startswith("S "))
        if len(blk) > 3: nontrivial.add(cmd)
        bad = monitor_run(cmd, blk)
        if role == "base": base = (cmd, blk)
        elif role == "same" and not bad and blk != base[1]:
            bad.append(("monitor:%s:seed-determinism" % cmd.split()[1], "`%s`: two runs with the same seed differ" % cmd))
        elif role == "reinit" and not bad and blk != base[1]:
            k = next((i for i, (x, y) in enumerate(zip(blk, base[1])) if x != y), min(len(blk), len(base[1])))
            bad.append(("monitor:%s:reinit-determinism" % cmd.split()[1], "`%s`: an optimizer object that completed an earlier run and was initialised again does not repeat the run of a fresh object with the same seed (first difference at output line %d)" % (cmd, k)))
        elif role == "scaled" and not bad and strip_vals(blk, 4.0) != strip_vals(base[1], 1.0):
            a, b = strip_vals(blk, 4.0), strip_vals(base[1], 1.0)
            k = next((i for i, (x, y) in enumerate(zip(a, b)) if x != y), min(len(a), len(b)))
            bad.append(("monitor:%s:rank-invariance" % cmd.split()[1], "`%s` vs the same run on f instead of 4*f: iterates differ from step index %d on" % (cmd, k - 1)))
        for key, msg in bad[:1]:
            if ck.match_known(key) is None: nmon += 1
            else: nknown[0] += 1
            if key not in seen_keys and len(seen_keys) < 4:
                seen_keys.add(key); report(key, msg, [base[0], cmd] if role != "base" else [cmd])
    ck.oblige("spec monitors on %d optimizer runs (%d steps): sigma, covariance SPD, value = objective, seed determinism, f vs 4f" % (len(runs), evals), nmon == 0,
              "" if nmon == 0 else "%d runs fail" % nmon)

    # ---------------- sphere convergence table
    table = []
    if sph:
        rc, out, err = run_harness(exe, sph, os.path.join(tmpd, "sphere.txt"))
        sblocks = split_blocks(out); nfail = 0
        for cmd, blk in zip(sph, sblocks + [["<truncated>"]] * (len(sph) - len(sblocks))):
            t = cmd.split(); alg, n = t[1], int(t[2]); target, budget = SPHERE[alg]
            evals += sum(1 for l in blk if l.startswith("S "))
            hit = first_hit(blk, target)
            if hit is not None:      # the run is judged up to (and including) the step that reaches the target; the rest of the budget is not part of the claim
                k = next(i for i, l in enumerate(blk) if l.startswith("S ") and int(parse_step(l)["ev"]) >= hit)
                blk = blk[:k + 1]
            bad = monitor_run(cmd, blk)
            table.append({"alg": alg, "n": n, "seed": int(t[7]), "target": target, "budget_evals": budget(n), "evals_to_target": hit})
            if not bad and (hit is None or hit > budget(n)):
                key = "monitor:VDCMA:dim<5:nonfinite-or-no-convergence" if (alg == "VDCMA" and n < 5) else "monitor:%s:sphere-convergence" % alg
                bad = [(key, "`%s`: sphere value %g not reached within %d evaluations (reached after %s)" % (cmd, target, budget(n), hit))]
            for key, msg in bad[:1]:
                if ck.match_known(key) is None: nfail += 1
                else: nknown[0] += 1
                if key not in seen_keys and len(seen_keys) < 6:
                    seen_keys.add(key); report(key, msg, [cmd])
        ck.oblige("sphere convergence within the budget table on %d runs" % len(sph), nfail == 0, "" if nfail == 0 else "%d runs fail" % nfail)
    ck.notes["sphere_table"] = table
    ck.notes["sphere_budget_rule"] = {a: "target %g within %s evaluations" % (SPHERE[a][0], {"CMA": "800 n", "CMSA": "1500 n", "ECMA": "500 n", "VDCMA": "1000 n", "SIMPLEX": "400 n", "CEMN": "20000"}[a]) for a in SPHERE}
    ck.notes["cross_entropy_note"] = "default CrossEntropyMethod (no noise) is monitored per step but has no convergence target: it stalls (observed finals 1e-5 .. 0.3 on the 10-dim sphere after 20000 evaluations); convergence is checked with the documented LinearNoise(5, -0.1) schedule, target 1e-3 (1e-5 is missed by 3 of 60 probe seeds)"

    # ---------------- correspondence CMA::updatePopulation
    rc, out, err = run_harness(exe, cors, os.path.join(tmpd, "cor.txt"))
    cblocks = split_blocks(out)
    recs = []   # (cmd, step, rec)
    for cmd, blk in zip(cors, cblocks + [["<truncated>"]] * (len(cors) - len(cblocks))):
        st = 0
        for l in blk:
            if l.startswith("U "):
                recs.append((cmd, st, parse_u(l))); st += 1
            elif l.startswith("EXC") or l == "<truncated>":
                report("cor:exception", "`%s`: %s" % (cmd, l), [cmd])
    mlines = [model_line_u(r) for _, _, r in recs]
    rcm, mout, merr = run_lines(model, mlines, os.path.join(tmpd, "cor_model.txt")) if mlines else (0, [], "")
    if rcm != 0 or len(mout) != len(mlines):
        raise RuntimeError("model driver failed: rc=%s %s" % (rcm, merr[-500:]))
    ndis = nmonc = 0; first_dis = None; corner = 0; ties = 0
    for (cmd, st, r), mo in zip(recs, mout):
        evals += 1
        n = r["n"]; mt = [fh(x) for x in mo.split()[1:]]
        if 1 - fh(r["consts"][1]) - fh(r["consts"][2]) <= 0: corner += 1
        bad = monitor_u(cmd, st, r)
        if bad:
            key, msg = bad[0]
            if ck.match_known(key) is None: nmonc += 1
            else: nknown[0] += 1
            if key not in seen_keys and len(seen_keys) < 8:
                seen_keys.add(key); report(key, msg, [cmd], {"step": st, "record": r})
            continue
        post = r["post"]
        impl = {"sigma": [fh(post["sigma"])], "mean": [fh(x) for x in post["mean"]], "C": [fh(x) for x in post["C"]], "pc": [fh(x) for x in post["pc"]], "ps": [fh(x) for x in post["ps"]]}
        p = 0; mod = {}
        for k, ln in (("sigma", 1), ("mean", n), ("C", n * n), ("pc", n), ("ps", n)):
            mod[k] = mt[p:p + ln]; p += ln
        diff = [k for k in impl if not vclose(impl[k], mod[k])]
        if r["ties"]:
            ties += 1; diff = []      # std::sort leaves the order of tied offspring unspecified; the model's tie rule (stable) need not match
        if not r["same"]: diff.append("step()!=generate+evaluate+update")
        if diff:
            ndis += 1
            if first_dis is None: first_dis = (cmd, st, diff, r, {k: mod[k] for k in mod}, impl)
    if ndis and not nmonc and not ck.violations:
        cmd, st, diff, r, mod, impl = first_dis
        cf = ck.write_replay("cor_case.txt", cmd + "\n")
        ck.violation("correspondence", {"case_file": cf, "case": [cmd], "step": st, "differs_in": diff, "model_output": mod, "implementation_output": impl,
                                        "replay_cmd": "python3 tools/c11.py --replay %s" % cf, "broken": "correspondence C11Model.cma_update vs CMA::updatePopulation"},
                     "correspondence C11Model.cma_update vs CMA::updatePopulation no longer checks (%s differ on %d updates); the spec monitors pass on every explored input" % (",".join(diff), ndis), no_input=True)
    ck.oblige("correspondence C11Model.cma_update (float) = CMA::updatePopulation at 1e-10 on %d updates of %d runs; step() = generate+evaluate+update exactly" % (len(recs), len(cors)),
              ndis == 0 and nmonc == 0, "" if not (ndis or nmonc) else "%d monitor failures, %d disagreements" % (nmonc, ndis))
    ck.notes["cor_updates"] = len(recs); ck.notes["cor_updates_in_corner_c1+cMu=1"] = corner; ck.notes["cor_updates_with_tied_fitness_skipped"] = ties

    # ---------------- correspondence ElitistCMA acceptance
    rc, out, err = run_harness(exe, ecors, os.path.join(tmpd, "ecor.txt"))
    eblocks = split_blocks(out); ndis = nmone = 0; mlines = []; meta = []
    for cmd, blk in zip(ecors, eblocks + [["<truncated>"]] * (len(ecors) - len(eblocks))):
        if not blk or not blk[0].startswith("E0"):
            report("ecor:exception", "`%s`: %s" % (cmd, blk[:1]), [cmd]); continue
        e0 = blk[0].split()[1:]; steps = [l.split()[1:] for l in blk[1:] if l.startswith("E ")]
        active = cmd.split()[5]; fid = int(cmd.split()[3])
        mlines.append("E %s %s %d %s %s" % (active, e0[0], len(e0) - 1, " ".join(e0[1:]), " ".join(s[0] + " " + s[1] for s in steps)))
        meta.append((cmd, e0, steps, fid))
    rcm, mout, merr = run_lines(model, mlines, os.path.join(tmpd, "ecor_model.txt")) if mlines else (0, [], "")
    if rcm != 0 or len(mout) != len(mlines): raise RuntimeError("model driver failed on E lines: " + merr[-500:])
    for (cmd, e0, steps, fid), mo in zip(meta, mout):
        na = len(e0) - 1; mt = mo.split()[1:]
        prev_val = fh(e0[0]); prev_back = fh(e0[-1]); bad = None
        for i, s in enumerate(steps):
            evals += 1
            val, anc, spec = fh(s[2]), [fh(x) for x in s[3:3 + na]], fh(s[-1])
            if anc[-1] > prev_back: bad = ("ecor:elitist-worse", "`%s` step %d: penalised fitness of the kept individual increased %r -> %r" % (cmd, i, prev_back, anc[-1]))
            elif fid not in (3, 5) and val > prev_val: bad = ("ecor:elitist-worse", "`%s` step %d: reported value got worse %r -> %r" % (cmd, i, prev_val, val))
            elif val != spec: bad = ("ecor:value", "`%s` step %d: reported value %r != objective at the reported point %r" % (cmd, i, val, spec))
            if bad: break
            prev_val, prev_back = val, anc[-1]
            got = [val] + anc; want = [fh(x) for x in mt[i * (na + 1):(i + 1) * (na + 1)]]
            if got != want:
                ndis += 1
                if ndis == 1: first_e = (cmd, i, got, want)
                break
        if bad:
            if ck.match_known(bad[0]) is None: nmone += 1
            else: nknown[0] += 1
            if bad[0] not in seen_keys: seen_keys.add(bad[0]); report(bad[0], bad[1], [cmd])
    if ndis and not nmone and not ck.violations:
        cmd, i, got, want = first_e
        cf = ck.write_replay("ecor_case.txt", cmd + "\n")
        ck.violation("correspondence-elitist", {"case_file": cf, "case": [cmd], "step": i, "implementation_output": got, "model_output": want},
                     "correspondence C11Model.elitist_step vs ElitistCMA::step no longer checks; monitors pass", no_input=True)
    ck.oblige("correspondence C11Model.elitist_step = ElitistCMA acceptance/ancestral window exactly on %d runs" % len(ecors), ndis == 0 and nmone == 0)

    # ---------------- PenalizingEvaluator
    rc, out, err = run_harness(exe, pens, os.path.join(tmpd, "pen.txt"))
    pout = [l for l in out if l.startswith("P ")]
    rcm, mout, merr = run_lines(model, pens, os.path.join(tmpd, "pen_model.txt")) if pens else (0, [], "")
    npen = ndis = 0
    if len(pout) != len(pens):
        report("pen:crash", "harness stopped after %d of %d P lines" % (len(pout), len(pens)), pens[len(pout):len(pout) + 1]); npen += 1
    for line, io, mo in zip(pens, pout, mout):
        evals += 1
        unp, pz = spec_pen(line)
        got = [Fraction(fh(x)) for x in io.split()[1:]]
        if got != [unp, pz]:
            if ck.match_known("pen:value") is None: npen += 1
            else: nknown[0] += 1
            if "pen:value" not in seen_keys:
                seen_keys.add("pen:value")
                report("pen:value", "`%s`: PenalizingEvaluator gives (unpenalized, penalized) = %s, exact value at the closest feasible point + penalty*distance^2 = %s" % (line, [float(g) for g in got], [float(unp), float(pz)]), [line])
        elif io != mo: ndis += 1
    if ndis and not npen and not ck.violations:
        ck.violation("correspondence-penalized", {"note": "model and implementation differ on %d P lines" % ndis}, "correspondence penalized_eval no longer checks", no_input=True)
    ck.oblige("PenalizingEvaluator = exact spec = C11Model.penalized_eval on %d dyadic inputs" % len(pens), npen == 0 and ndis == 0)

    ck.cov["evaluations"] = evals
    ck.cov["distinct_nontrivial"] = len(nontrivial) + len(set(cors)) + len(set(ecors)) + len(set(pens))
    ck.cov["rule"] = ("optimizer steps (RUN: 7 optimizer configurations x dimension 2..10 x population sizes / recombination types / initial sigmas / seeds / 7 objectives, each run four times (fresh, fresh again with the same seed, on 4*f, and on an object re-initialised after an earlier run): "
                      "twice with the same seed and once on 4*f), CMA updates replayed through the model (COR), ElitistCMA steps (ECOR), PenalizingEvaluator calls (P); non-trivial = more than 2 steps; distinct = distinct command lines")
    ck.cov["samples"] = [runs[0][0] if runs else "", cors[0] if cors else "", ecors[0] if ecors else "", pens[0] if pens else ""]
    ck.notes["failures_matching_known_findings"] = nknown[0]
    ck.notes["runs"] = len(runs); ck.notes["monitor_keys_reported"] = sorted(seen_keys)
    ck.finish()

if __name__ == "__main__":
    main()
