#!/usr/bin/env python3
"""C11 — evolution strategies keep a valid search distribution and are rank-invariant.

  proofs           Properties_C11.v: over Q, axiom-free (rank invariance of selection/recombination, CMA covariance update symmetric /
                   positive definite incl. the corner c1 + cMu = 1, sigma > 0, elitist acceptance, penalised evaluation, VDCMA's
                   D(I+vv^T)D positive definite iff no D_i is zero, D-update positive iff meanS > -1); over R, real-number axioms
                   only (cholesky_decomposition::update represents alpha LL^T + beta vv^T, success conditions, determinant factor;
                   CMSA::updatePopulation and every branch of the CMAChromosome update keep sigma > 0 and the factor non-singular;
                   VDCMA::createSample realises the covariance I + vv^T)
  correspondence   extracted model (float instantiation) vs the real code compiled from /repo:
                     COR   CMA::updatePopulation on the offspring read back from the implementation (1e-10 relative),
                           step() == generateOffspring + PenalizingEvaluator + updatePopulation (exact),
                     ECOR  ElitistCMA acceptance / ancestral window (exact),   P  PenalizingEvaluator (exact, dyadic inputs)
                     SCOR  CMSA::updatePopulation incl. the Cholesky rank-one updates (remora cholesky_decomposition::update)
                           = C11Model.cmsa_update on the offspring read back (1e-10), step() == generate+evaluate+update (exact),
                     CCOR  CMAChromosome::updateAsOffspring / updateAsParent / roundUpdate as driven by ElitistCMA::step
                           = C11Model.ecma_chrom_step on the mutation read back from an identical twin (1e-10),
                     VCOR  VDCMA::updateStrategyParameters (+ selection, counter) = C11Model.vd_update (1e-10),
                           step() == createSample + evaluate + select + update by hand (exact),
                           VDCMA::createSample on the normal draws read back = C11Model.vd_sample, D(I+vv^T)D = C11Model.vd_cov (1e-10),
                     NM    SimplexDownhill::init / step replayed record by record from the implementation's own previous simplex
                           = C11DirectModel.sd_init / sd_step with the table of the implementation's own evaluations as oracle, EXACTLY
                           (simplex, reported solution, set of evaluated points); every branch, ties, dimension 1..15, f and 4*f,
                     XCOR  CrossEntropyMethod::step = C11DirectModel.cem_sample on the draws read back (exactly), cem_select_update on the
                           recorded samples and cem_step on the draws (1e-12, reported solution exactly, exception iff lambda <= mu);
                           step() == sample + evaluate + select + counter++ + updateStrategyParameters + m_best by hand (exact),
                     COR/SCOR also: C11DirectModel.cma_step / cmsa_step (offspring sampled by the model from the draws read back) = whole step (1e-10),
                     CH    cholesky_decomposition::update on exact inputs (small integers, dyadic) = exact rational spec
                           (throws iff alpha LL^T + beta vv^T is not positive definite) = C11Model.chol_update (None iff throws)
  spec monitors    every step of CMA, CMSA, ElitistCMA, VDCMA, CrossEntropyMethod, SimplexDownhill: sigma > 0 finite,
                   covariance symmetric positive definite, value = objective at the (closest feasible) reported point,
                   same seed => identical run, f vs 4*f => identical iterates, elitist never worse, sphere budget table,
                   update invariant under permuting the offspring array (ranks only);
                   SCOR: sigma' > 0, factor lower triangular with positive diagonal, mean' = average of the mu best,
                         L'L'^T = (1-1/cC) LL^T + 1/(mu cC) sum step step^T (computed here), best = best-ranked offspring;
                   CCOR: sigma' > 0, factor diagonal > 0, lastStep = L lastZ, L'L'^T = alpha LL^T + beta v v^T with
                         (alpha, beta, v) of the branch recomputed here (success class, psucc', threshold, guard), no exception;
                   VCOR: sigma' > 0, every D_i > 0, |v| > 0, |vn| = 1, mean' = weighted recombination of the mu best;
                   NM:   value = objective at the reported point, vertex values = objective at the vertices, best vertex value and reported value
                         never increase, reported solution is a best vertex, run on 4*f visits exactly the same simplices;
                   XCOR: value = objective at the closest feasible reported point, mean' = average of the elite, variance' = mean squared
                         deviation + noise >= noise, variance'_j = 0 only if noise = 0 and the elite agrees in coordinate j, same elite on 4*fitness.
"""
import os, sys, re, math
from fractions import Fraction
sys.path.insert(0, os.path.dirname(os.path.abspath(__file__)))
from vlib import *

PID = "C11"
SRC = ["src/Algorithms/DirectSearch/CMA.cpp", "src/Algorithms/DirectSearch/CMSA.cpp", "src/Algorithms/DirectSearch/ElitistCMA.cpp",
       "src/Algorithms/DirectSearch/CrossEntropyMethod.cpp", "src/Core/Random.cpp"]
TOL = 1e-10

# sphere convergence: target value and evaluation budget (evaluations = objective calls counted by the objective itself).
# Budgets are >= 4x the largest count observed over seeds 1..3 on the unchanged tree (see evidence "sphere_table").
SPHERE = {  # alg: (target, budget(n))
    "CMA": (1e-10, lambda n: 800 * n), "CMSA": (1e-10, lambda n: 1500 * n), "ECMA": (1e-10, lambda n: 500 * n),
    "VDCMA": (1e-10, lambda n: 1000 * n), "SIMPLEX": (1e-10, lambda n: 400 * n),
    # cross entropy: default settings (no noise) stall (observed final values up to 0.3 on the 10-dim sphere); the documented
    # linearly decreasing noise z_t = max(5 - t/10, 0) (CrossEntropyMethod::LinearNoise(5, -0.1), Thiery & Scherrer) reaches
    # 1e-3 after <= 5801 evaluations in all 60 probes (n in 2,3,4,5,7,10 x seeds 1..10; finals range 1e-198 .. 4.3e-4, the tighter
    # 1e-5 is missed by 3 of the 60: n=7 seed 5, n=10 seeds 4 and 9); target 1e-3 within 20000 evaluations.
    "CEMN": (1e-3, lambda n: 20000)}
EVALS_PER_STEP = {"CMA": lambda n: max(5, min(int(4 + math.floor(3 * math.log(n))), n)), "CMSA": lambda n: 4 * n, "ECMA": lambda n: 1,
                  "VDCMA": lambda n: int(4 + math.floor(3 * math.log(n))), "SIMPLEX": lambda n: 1, "CEMN": lambda n: 100}


def fh(s):
    if s in ("nan", "-nan"): return float("nan")
    if s == "inf": return float("inf")
    if s == "-inf": return float("-inf")
    return float.fromhex(s)

def fhl(s):
    return [fh(x) for x in s.split(",")] if s else []

def finite(x):
    return not (math.isnan(x) or math.isinf(x))

def chol_pd(C, n):
    """Cholesky of the symmetrised matrix; returns None if positive definite, else a message"""
    A = [[0.5 * (C[i * n + j] + C[j * n + i]) for j in range(n)] for i in range(n)]
    L = [[0.0] * n for _ in range(n)]
    for i in range(n):
        for j in range(i + 1):
            s = A[i][j] - sum(L[i][k] * L[j][k] for k in range(j))
            if i == j:
                if not (s > 0) or not finite(s):
                    return "pivot %d of the Cholesky factorisation is %r" % (i, s)
                L[i][i] = math.sqrt(s)
            else:
                L[i][j] = s / L[j][j]
    return None

def sym_err(C, n):
    m = max([abs(x) for x in C] + [1e-300])
    return max([abs(C[i * n + j] - C[j * n + i]) for i in range(n) for j in range(n)] + [0.0]) / m

def close(a, b, scale):
    if a == b: return True
    if not (finite(a) and finite(b)): return False
    return abs(a - b) <= TOL * max(scale, 1e-300)

def vclose(a, b):
    if len(a) != len(b): return False
    sc = max([abs(x) for x in a + b if finite(x)] + [0.0])
    return all(close(x, y, sc) for x, y in zip(a, b))


# ------------------------------------------------------------------------------------------------ running the harness
def run_harness(exe, lines, tmp):
    open(tmp, "w").write("\n".join(lines) + "\n")
    rc, out, err = sh([exe, tmp], timeout=1500)
    return rc, out.split("\n"), err

def split_blocks(out):
    """harness output -> list of blocks (one per command), each a list of lines, split at END / P lines"""
    blocks, cur = [], []
    for l in out:
        if not l: continue
        if l.startswith("P "):
            blocks.append([l]); continue
        if l == "END":
            blocks.append(cur); cur = []
        else:
            cur.append(l)
    if cur: blocks.append(cur + ["<truncated>"])
    return blocks

def parse_step(l):
    d = dict(x.split("=", 1) for x in l.split()[1:])
    return d


# ------------------------------------------------------------------------------------------------ RUN monitors
def monitor_run(cmd, block):
    """the property's per-step predicates on one run; returns list of (key, message)"""
    t = cmd.split(); alg, n, fid = t[1], int(t[2]), int(t[8]); scale = float(t[9])
    bad = []
    if block and block[-1] == "<truncated>":
        return [("monitor:%s:crash" % alg, "implementation crashed / stopped in `%s`" % cmd)]
    if fid == 7:
        # announced constraint handler: every single-objective optimizer refuses it in checkFeatures (VDCMA's 5-argument init does not check)
        if any(l.startswith("EXC") and "Can not solve constrained" in l for l in block): return []
        if alg != "VDCMA": return [("monitor:%s:constrained-accepted" % alg, "`%s`: constrained objective neither rejected nor handled: %s" % (cmd, block[:2]))]
    prev_val = None
    for l in block:
        if l == "RUN" or l.startswith("GRNG"): continue
        if l.startswith("EXC") or l.startswith("ERR"):
            bad.append(("monitor:%s:exception" % alg, "`%s`: %s" % (cmd, l))); break
        d = parse_step(l); st = d["t"]
        val, fchk = fh(d["val"]), fh(d["fchk"])
        lowdim = "dim<5" if (alg == "VDCMA" and n < 5) else "dim%d" % n
        sig = fhl(d["sig"])
        for s in sig:
            if not (finite(s) and s > 0):
                bad.append(("monitor:%s:%s:nonfinite-or-no-convergence" % (alg, lowdim) if alg == "VDCMA" else ("monitor:CEM:variance-zero" if (alg.startswith("CEM") and s == 0.0) else "monitor:%s:sigma" % alg),
                            "`%s` step %s: step size / variance %r is not positive and finite" % (cmd, st, s))); break
        if bad: break
        if d["C"]:
            C = fhl(d["C"])
            if len(C) != n * n or not all(finite(x) for x in C):
                bad.append(("monitor:%s:%s:nonfinite-or-no-convergence" % (alg, lowdim) if alg == "VDCMA" else "monitor:%s:cov-nonfinite" % alg,
                            "`%s` step %s: covariance has non-finite entries" % (cmd, st))); break
            if sym_err(C, n) > 1e-12:
                bad.append(("monitor:%s:cov-asymmetric" % alg, "`%s` step %s: covariance not symmetric (relative asymmetry %g)" % (cmd, st, sym_err(C, n)))); break
            m = chol_pd(C, n)
            if m:
                bad.append(("monitor:%s:cov-not-pd" % alg, "`%s` step %s: covariance not positive definite: %s" % (cmd, st, m))); break
        if not (val == fchk):
            bad.append(("monitor:%s:%s" % (alg, "%s:nonfinite-or-no-convergence" % lowdim if (alg == "VDCMA" and n < 5) else "value"),
                        "`%s` step %s: reported value %r != objective at the (closest feasible) reported point %r" % (cmd, st, val, fchk))); break
        if alg in ("ECMA", "SIMPLEX") and prev_val is not None and val > prev_val and fid not in (3, 5, 7, 13, 14):
            bad.append(("monitor:%s:elitist-worse" % alg, "`%s` step %s: reported value got worse: %r -> %r" % (cmd, st, prev_val, val))); break
        prev_val = val
    if alg == "VDCMA" and n < 5:
        bad = [("monitor:VDCMA:dim<5:nonfinite-or-no-convergence", m) for _, m in bad]
    return bad

def first_hit(block, target):
    for l in block:
        if l.startswith("S "):
            d = parse_step(l); v = fh(d["val"])
            if v < target: return int(d["ev"])
    return None

def strip_vals(block, scale):
    """iterates of a run (everything except the objective values); values divided by the exact scale"""
    out = []
    for l in block:
        if not l.startswith("S "): out.append(l); continue
        d = parse_step(l)
        out.append((d["t"], fh(d["val"]) / scale if d["val"] not in ("nan", "-nan") else "nan", d["pt"], d["mean"], d["sig"], d["C"], d["ev"]))
    return out


def gen_runs(rng, nbase):
    """returns list of (cmd, role) ; roles: base / same (same seed again) / scaled (4*f)"""
    cmds = []
    algs = ["CMA", "CMSA", "ECMA", "VDCMA", "CEM", "CEMN", "SIMPLEX"]
    for i in range(nbase):
        alg = algs[i % len(algs)]
        n = rng.randint(2, 10)
        if alg == "VDCMA" and rng.random() < 0.7: n = rng.randint(5, 10)
        fid = rng.choice([0, 1, 2, 4, 6, 0, 1, 3, 5, 13, 14])   # 13 / 14: boxed objectives started from an infeasible point
        if alg == "SIMPLEX" and fid in (3, 5, 13, 14): fid = 2    # SimplexDownhill has no constraint handling at all (never calls isFeasible/closestFeasible)
        if alg == "ECMA" and fid in (3, 5) and rng.random() < 0.5: fid = 2
        seed = rng.randint(1, 10 ** 6)
        steps = rng.randint(5, 40)
        lam = mu = 0; rec = 2; sig = 0
        if alg == "CMA":
            rec = rng.choice([0, 1, 2])
            if rng.random() < 0.6:
                lam = rng.choice([n + 3, 2 * n, 4 * n + 1, 5, 40, 120]); mu = rng.choice([0, 1, max(1, lam // 4), max(1, lam // 2), lam - 1])
            sig = rng.choice([0, 0, 0.125, 1, 5])
        elif alg == "CMSA":
            r = rng.random()
            if r < 0.25:          # population large relative to the dimension (2*mu > n*(n+1)): learning constants at their corner
                n = rng.choice([2, 2, 3, 4]); lam = rng.choice([24, 40, 80]); mu = rng.choice([lam // 4, lam // 2])
            elif r < 0.7:
                lam = rng.choice([2 * n, 4 * n, 8 * n + 1]); mu = rng.choice([0, 1, max(1, lam // 4), lam // 2])
            sig = rng.choice([0, 0.125, 1, 5])
        elif alg == "ECMA":
            rec = rng.choice([0, 1]); sig = rng.choice([0, 0.125, 1, 5]); steps = rng.randint(20, 150)
        elif alg == "VDCMA":
            if rng.random() < 0.5:
                lam = rng.choice([n + 3, 2 * n + 2, 4 * n]); mu = max(1, lam // 2)
            sig = rng.choice([0, 0.125, 1, 5])
        elif alg in ("CEM", "CEMN"):
            if rng.random() < 0.6:
                lam = rng.choice([20, 50, 100]); mu = rng.choice([lam // 10, lam // 4]); rec = rng.choice([1, 25, 100])
            else: rec = 0
            sig = 5 if alg == "CEMN" else 0
            steps = rng.randint(5, 25)
        else:
            steps = rng.randint(20, 200)
        mk = lambda scale: "RUN %s %d %d %d %d %s %d %d %s %d" % (alg, n, lam, mu, rec, repr(sig), seed, fid, scale, steps)
        cmds.append((mk("1"), "base")); cmds.append((mk("1"), "same")); cmds.append((mk("4"), "scaled"))
        # the same optimizer OBJECT first completes another run (other objective, other seed) and is initialised again:
        # "runs with the same seed are identical" must not depend on the object's history
        cmds.append((mk("1") + " %d %d" % (rng.choice([f for f in (0, 1, 2, 4, 6) if f != fid]), rng.randint(3, 12)), "reinit"))
        # an optimizer constructed with a CALLER-OWNED generator (same seed) while the global generator holds unrelated
        # state: must repeat the base run exactly and leave the global generator untouched (two different global states)
        if alg in ("CMA", "CMSA", "ECMA", "VDCMA"):
            cmds.append((mk("1") + " 0 0 1", "own")); cmds.append((mk("1") + " 0 0 %d" % rng.randint(2, 9), "own"))
    # the announced-constraint objective: documented refusal
    for alg in algs:
        cmds.append(("RUN %s 3 0 0 2 0 1 7 1 3" % alg, "base"))
    return cmds

def sphere_runs(seeds, dims):
    cmds = []
    for alg, (target, budget) in SPHERE.items():
        for n in dims:
            steps = int(math.ceil(budget(n) / EVALS_PER_STEP[alg](n))) + 1
            for s in seeds:
                sig = "5" if alg == "CEMN" else "0"
                cmds.append("RUN %s %d 0 0 2 %s %d 0 1 %d" % (alg, n, sig, s, steps))
    return cmds


# ------------------------------------------------------------------------------------------------ COR
def gen_cor(rng, k):
    out = []
    for i in range(k):
        n = rng.randint(2, 10); rec = rng.choice([0, 1, 2])
        lam = mu = 0
        r = rng.random()
        if r < 0.5:
            lam = rng.choice([n + 3, 2 * n, 4 * n + 1, 5, 17]); mu = rng.choice([0, 1, max(1, lam // 4), max(1, lam // 2), lam - 1])
        elif r < 0.6:
            n = rng.choice([2, 3]); lam = rng.choice([120, 200]); mu = lam // 2; rec = rng.choice([0, 2])   # corner 1 - c1 - cMu = 0
        sig = rng.choice([0, 0, 0.125, 1, 5]); fid = rng.choice([0, 1, 2, 4, 6, 3, 5])
        out.append("COR %d %d %d %d %s %d %d %d" % (n, lam, mu, rec, repr(sig), rng.randint(1, 10 ** 6), fid, rng.randint(3, 25)))
    return out

def parse_u(l):
    parts = [p.strip() for p in l.split("|")]
    hd = dict(x.split("=") for x in parts[0].split()[1:])
    n, lam, mu = map(int, parts[1].split())
    consts = parts[2].split(); counter, sigma = parts[3].split()
    rec = {"same": hd["same"] == "1", "perm": hd["perm"] == "1", "n": n, "lam": lam, "mu": mu, "consts": consts, "counter": counter, "sigma": sigma,
           "mean": parts[4].split(","), "C": parts[5].split(","), "pc": parts[6].split(","), "ps": parts[7].split(","), "B": parts[8].split(","),
           "ws": parts[9].split(","), "off": [o.split(";") for o in parts[10].split()],
           "post": {"sigma": parts[11], "mean": parts[12].split(","), "C": parts[13].split(","), "pc": parts[14].split(","), "ps": parts[15].split(","),
                    "best": parts[16], "bestpt": parts[17].split(",")},
           "eig": parts[18].split(",") if len(parts) > 18 else None}
    return rec

def model_line_u(r):
    tok = ["U", str(r["n"]), str(r["lam"]), str(r["mu"])] + r["consts"] + [r["counter"], r["sigma"]] + r["mean"] + r["C"] + r["pc"] + r["ps"] + r["B"] + r["ws"]
    for o in r["off"]:
        tok += [o[0]] + o[1].split(",") + o[2].split(",")
    return " ".join(tok)

def monitor_u(cmd, step, r):
    """spec predicates on one update, independent of the model"""
    n = r["n"]; bad = []
    post = r["post"]
    s = fh(post["sigma"]); C = [fh(x) for x in post["C"]]
    if not (finite(s) and s > 0): bad.append(("cor:sigma", "`%s` step %d: sigma' = %r not positive finite" % (cmd, step, s)))
    if not all(finite(x) for x in C): bad.append(("cor:cov-nonfinite", "`%s` step %d: covariance non-finite" % (cmd, step)))
    else:
        if sym_err(C, n) > 1e-12: bad.append(("cor:cov-asymmetric", "`%s` step %d: updated covariance not symmetric (relative asymmetry %g)" % (cmd, step, sym_err(C, n))))
        m = chol_pd(C, n)
        if m: bad.append(("cor:cov-not-pd", "`%s` step %d: updated covariance not positive definite (%s); 1-c1-cMu = %g" % (cmd, step, m, 1 - fh(r["consts"][1]) - fh(r["consts"][2]))))
    fit_list = [fh(o[0]) for o in r["off"]]
    r["ties"] = len(set(fit_list)) != len(fit_list)
    if not r["perm"] and not r["ties"]:
        bad.append(("cor:order-dependent", "`%s` step %d: CMA::updatePopulation gives a different state for the reversed offspring array (the update must depend on fitness ranks only)" % (cmd, step)))
    # reported best = best-ranked offspring; new mean = weighted recombination of the mu best (python sort, independent of the model)
    offs = sorted([(fh(o[0]), [fh(x) for x in o[1].split(",")]) for o in r["off"]], key=lambda z: z[0])
    fits = [o[0] for o in offs]
    if len(set(fits)) == len(fits):
        if fh(post["best"]) != offs[0][0] or [fh(x) for x in post["bestpt"]] != offs[0][1]:
            bad.append(("cor:best", "`%s` step %d: reported solution is not the best-ranked offspring" % (cmd, step)))
        ws = [fh(w) for w in r["ws"]]
        m = [sum(w * o[1][i] for w, o in zip(ws, offs)) for i in range(n)]
        if not vclose(m, [fh(x) for x in post["mean"]]):
            bad.append(("cor:mean", "`%s` step %d: new mean is not the weighted recombination of the mu best offspring" % (cmd, step)))
    return bad


# ------------------------------------------------------------------------------------------------ SCOR / CCOR / VCOR
RTOL_ID = 1e-9      # covariance identities (python recomputation)

def gen_scor(rng, k):
    out = []
    for _ in range(k):
        n = rng.randint(2, 8); lam = mu = 0
        r = rng.random()
        if r < 0.2:           # population large relative to the dimension: cC close to 1, 1 - 1/cC small
            n = rng.choice([2, 2, 3, 4]); lam = rng.choice([24, 40]); mu = rng.choice([lam // 4, lam // 2])
        elif r < 0.7:
            lam = rng.choice([2 * n, 4 * n, 8 * n + 1]); mu = rng.choice([0, 1, max(1, lam // 4), lam // 2])
        sig = rng.choice([0, 0.125, 1, 5]); fid = rng.choice([0, 1, 2, 4, 6, 3, 5])
        out.append("SCOR %d %d %d %s %d %d %d" % (n, lam, mu, repr(sig), rng.randint(1, 10 ** 6), fid, rng.randint(3, 20)))
    return out

def gen_ccor(rng, k):
    out = []
    for _ in range(k):
        n = rng.choice([2, 2, 2, 3, 3, 4, 5, 6, 8, 10])      # the guard of the active update needs |z|^2 > (1/cu + 1)/2: frequent only in low dimension
        out.append("CCOR %d %d %d %d %d %s" % (n, rng.randint(1, 10 ** 6), rng.choice([0, 0, 1, 2, 4, 6, 3, 5]), rng.randint(60, 300),
                                                rng.choice([1, 1, 1, 0]), repr(rng.choice([0.125, 0.125, 0, 1, 30]))))
    return out

def gen_vcor(rng, k):
    out = []
    for _ in range(k):
        n = rng.randint(2, 10); lam = mu = 0
        if rng.random() < 0.5:
            lam = rng.choice([n + 3, 2 * n + 2, 4 * n]); mu = rng.choice([max(1, lam // 2), max(1, lam // 4), 1])
        sig = rng.choice([0, 0.125, 1, 5]); fid = rng.choice([0, 1, 2, 4, 6, 3, 5])
        out.append("VCOR %d %d %d %s %d %d %d" % (n, lam, mu, repr(sig), rng.randint(1, 10 ** 6), fid, rng.randint(3, 25)))
    return out

def hdr(part):
    return dict(x.split("=") for x in part.split()[1:])

def fmat(xs, n):
    return [[xs[i * n + j] for j in range(n)] for i in range(n)]

def llt(L, n):
    return [[sum(L[i][k] * L[j][k] for k in range(n)) for j in range(n)] for i in range(n)]

def mrel(A, B):
    """largest entrywise difference relative to the largest entry"""
    fa = [x for r in A for x in r]; fb = [x for r in B for x in r]
    if not all(finite(x) for x in fa + fb): return float("inf")
    return max([abs(x - y) for x, y in zip(fa, fb)] + [0.0]) / max([abs(x) for x in fa + fb] + [1e-300])

def vrel(a, b):
    if not all(finite(x) for x in a + b): return float("inf")
    return max([abs(x - y) for x, y in zip(a, b)] + [0.0]) / max([abs(x) for x in a + b] + [1e-300])

def factor_bad(Ls, n):
    """None if the n*n row-major list is a lower triangular matrix with finite entries and positive diagonal"""
    if len(Ls) != n * n or not all(finite(x) for x in Ls): return "factor has non-finite entries"
    for i in range(n):
        if not Ls[i * n + i] > 0: return "diagonal entry %d of the Cholesky factor is %r (factor singular)" % (i, Ls[i * n + i])
        for j in range(i + 1, n):
            if Ls[i * n + j] != 0: return "entry (%d,%d) above the diagonal of the Cholesky factor is %r" % (i, j, Ls[i * n + j])
    return None

# ---- cholesky_decomposition::update directly (including its exception exit)
def gen_chol(rng, k):
    out = []
    for _ in range(k):
        n = rng.randint(1, 5)
        L = [[(rng.choice([1.0, 2.0, 4.0, 0.5]) if i == j else (float(rng.randint(-3, 3)) if j < i else 0.0)) for j in range(n)] for i in range(n)]
        alpha = rng.choice([1.0, 0.25, 2.25, 4.0, 0.8125, 1.5])
        beta = rng.choice([0.0, 0.5, 1.0, 0.3125, -0.25, -0.5, -1.0, -3.0, -0.0625])
        if rng.random() < 0.5:
            z = [rng.randint(-4, 4) / 2.0 for _ in range(n)]
            v = [sum(L[i][j] * z[j] for j in range(n)) for i in range(n)]
        else:
            v = [float(rng.randint(-3, 3)) for _ in range(n)]
        if rng.random() < 0.15: v = [0.0] * n
        if rng.random() < 0.12:      # exactly singular downdate: alpha + beta |z|^2 = 0 (the pivot x is exactly 0: boundary of the exception test)
            alpha, beta, zz = rng.choice([(1.0, -0.25, [2.0]), (1.0, -1.0, [1.0]), (4.0, -1.0, [2.0]), (0.25, -0.25, [1.0]), (2.25, -0.25, [3.0]), (1.0, -0.25, [1.0, 1.0, 1.0, 1.0]), (2.25, -0.25, [2.0, 2.0, 1.0])])
            if len(zz) <= n:
                z = zz + [0.0] * (n - len(zz)); rng.shuffle(z)
                v = [sum(L[i][j] * z[j] for j in range(n)) for i in range(n)]
        out.append("CH %d %s" % (n, " ".join(float(x).hex() for x in [alpha, beta] + [L[i][j] for i in range(n) for j in range(n)] + v)))
    return out

def spec_chol(line, got):
    """independent predicate on the implementation's answer: exact rational arithmetic.
    A = alpha L L^T + beta v v^T; no exception <=> A positive definite (exact LDL^T pivots), and then L'L'^T == A (1e-9);
    on an exactly singular A both answers are accepted as long as a returned factor is proper (see below)"""
    t = line.split(); n = int(t[1]); x = [Fraction(float.fromhex(a)) for a in t[2:]]
    alpha, beta = x[0], x[1]; L = [x[2 + i * n:2 + (i + 1) * n] for i in range(n)]; v = x[2 + n * n:]
    A = [[alpha * sum(L[i][k] * L[j][k] for k in range(n)) + beta * v[i] * v[j] for j in range(n)] for i in range(n)]
    M = [row[:] for row in A]; pd = True; singular = False
    for k in range(n):
        if M[k][k] <= 0:
            pd = False; singular = (M[k][k] == 0); break
        for i in range(k + 1, n):
            f = M[i][k] / M[k][k]
            for j in range(k, n): M[i][j] -= f * M[k][j]
    if got[:1] == ["EXC"]:
        return None if not pd else "update(alpha=%s, beta=%s) throws although alpha L L^T + beta v v^T is positive definite" % (float(alpha), float(beta))
    if got[:1] in (["BADL"], ["STDEXC"]): return "harness: " + " ".join(got)
    R = [fh(a) for a in got[0].split(",")] if len(got) == 1 else [fh(a) for a in got]
    if singular:
        # exactly singular target (first non-positive pivot is 0): the floating-point pivot may round to a tiny positive number, so a returned
        # factor is accepted iff it is a proper factor (finite, diagonal > 0); a zero / NaN diagonal (pivot exactly 0 let through) is not
        m = factor_bad(R, n)
        return None if m is None else "update(alpha=%s, beta=%s) on an exactly singular target returns an improper factor: %s" % (float(alpha), float(beta), m)
    if not pd: return "update(alpha=%s, beta=%s) returns a factor although alpha L L^T + beta v v^T is not positive definite" % (float(alpha), float(beta))
    m = factor_bad(R, n)
    if m: return m
    Rm = fmat(R, n); e = mrel(llt(Rm, n), [[float(a) for a in row] for row in A])
    if e > RTOL_ID: return "L'L'^T differs from alpha L L^T + beta v v^T (relative %g)" % e
    return None

# ---- CMSA
def parse_su(l):
    parts = [p.strip() for p in l.split("|")]
    hd = hdr(parts[0]); n, lam, mu = map(int, parts[1].split())
    r = {"same": hd["same"] == "1", "perm": hd["perm"] == "1", "n": n, "lam": lam, "mu": mu, "cC": parts[2], "sigma": parts[3],
         "mean": parts[4].split(","), "L": parts[5].split(","), "off": [o.split(";") for o in parts[6].split()], "post": None}
    if parts[7] != "EXC":
        r["post"] = {"sigma": parts[7], "mean": parts[8].split(","), "L": parts[9].split(","), "best": parts[10], "bestpt": parts[11].split(",")}
        if len(parts) > 13:
            r["cSigma"] = parts[12]; r["draws"] = [d.split(";") for d in parts[13].split()]
    return r

def model_line_sw(r):
    tok = ["SW", str(r["n"]), str(r["lam"]), str(r["mu"]), r["cC"], r["cSigma"], r["sigma"]] + r["mean"] + r["L"]
    for o in r["off"]:
        tok += [o[0]] + o[1].split(",") + o[2].split(",") + [o[3]]
    for d in r["draws"]:
        tok += d[0].split(",") + [d[1]]
    return " ".join(tok)

def model_line_su(r):
    tok = ["S", str(r["n"]), str(r["lam"]), str(r["mu"]), r["cC"]] + r["L"]
    for o in r["off"]:
        tok += [o[0]] + o[1].split(",") + o[2].split(",") + [o[3]]
    return " ".join(tok)

def monitor_su(cmd, step, r):
    n, mu = r["n"], r["mu"]; w = "`%s` step %d: " % (cmd, step)
    fit_list = [fh(o[0]) for o in r["off"]]
    r["ties"] = len(set(fit_list)) != len(fit_list)
    if r["post"] is None:
        return [("scor:exception", w + "CMSA::updatePopulation throws (Cholesky update reports an indefinite matrix)")]
    post = r["post"]; bad = []
    s = fh(post["sigma"]); Lp = [fh(x) for x in post["L"]]
    if not (finite(s) and s > 0): bad.append(("scor:sigma", w + "sigma' = %r not positive finite" % s))
    m = factor_bad(Lp, n)
    if m: bad.append(("scor:factor", w + m + " (covariance L L^T no longer positive definite)"))
    if not r["same"]: bad.append(("scor:step-differs", w + "CMSA::step differs from generateOffspring + PenalizingEvaluator + updatePopulation with the same random numbers"))
    if r["ties"] or bad: return bad
    if not r["perm"]:
        bad.append(("scor:order-dependent", w + "CMSA::updatePopulation gives a different state for the reversed offspring array (the update must depend on fitness ranks only)"))
    offs = sorted([(fh(o[0]), [fh(x) for x in o[1].split(",")], [fh(x) for x in o[2].split(",")], fh(o[3])) for o in r["off"]], key=lambda z: z[0])[:mu]
    if fh(post["best"]) != offs[0][0] or [fh(x) for x in post["bestpt"]] != offs[0][1]:
        bad.append(("scor:best", w + "reported solution is not the best-ranked offspring"))
    mean = [sum(o[1][i] for o in offs) / mu for i in range(n)]
    if not vclose(mean, [fh(x) for x in post["mean"]]):
        bad.append(("scor:mean", w + "new mean is not the average of the mu best offspring"))
    if not vclose([sum(o[3] for o in offs) / mu], [s]):
        bad.append(("scor:sigma-mean", w + "sigma' = %r is not the average %r of the step sizes of the mu best offspring" % (s, sum(o[3] for o in offs) / mu)))
    cC = fh(r["cC"]); C = llt(fmat([fh(x) for x in r["L"]], n), n)
    want = [[(1 - 1 / cC) * C[i][j] + sum(o[2][i] * o[2][j] for o in offs) / (mu * cC) for j in range(n)] for i in range(n)]
    e = mrel(llt(fmat(Lp, n), n), want)
    if not e <= RTOL_ID:
        bad.append(("scor:cov-identity", w + "L'L'^T differs from (1-1/cC) L L^T + 1/(mu cC) sum_i step_i step_i^T (the mu best steps) by %g relative to the largest entry" % e))
    return bad

# ---- CMAChromosome
def parse_cu(l):
    parts = [p.strip() for p in l.split("|")]
    r = {"same": hdr(parts[0])["same"] == "1", "n": int(parts[1]), "consts": parts[2].split(), "active": parts[3], "anc": parts[4].split(), "pen": parts[5],
         "L": parts[6].split(","), "pc": parts[7].split(","), "step": parts[8].split(","), "z": parts[9].split(","), "ss": parts[10].split(), "post": None}
    if parts[11] != "EXC":
        r["post"] = {"L": parts[11].split(","), "pc": parts[12].split(","), "ss": parts[13].split()}
    return r

def model_line_cu(r):
    return " ".join(["C", str(r["n"])] + r["consts"] + [r["active"], str(len(r["anc"]))] + r["anc"] + [r["pen"]] + r["L"] + r["pc"] + r["step"] + r["z"] + r["ss"])

def branch_cu(r):
    """the branch of ElitistCMA::step / CMAChromosome recomputed from the record: (name, alpha, beta, v)"""
    n = r["n"]; cp, d, pt, cc, ccov, cu, thr = [fh(x) for x in r["consts"]]
    anc = [fh(x) for x in r["anc"]]; pen = fh(r["pen"]); psucc = fh(r["ss"][1])
    pc = [fh(x) for x in r["pc"]]; step = [fh(x) for x in r["step"]]; z = [fh(x) for x in r["z"]]
    succ = "S"
    if pen >= anc[-1]: succ = "U"
    if r["active"] == "1" and pen > anc[0]: succ = "F"
    ps1 = (1 - cp) * psucc + cp * (1.0 if succ == "S" else 0.0)
    wgt = cc * (2. - cc)
    rnd = ("round", 1 - ccov + wgt, ccov, [(1 - cc) * x for x in pc])
    if succ == "S":
        if ps1 < thr: return ("offspring", 1 - ccov, ccov, [(1 - cc) * x + math.sqrt(wgt) * y for x, y in zip(pc, step)])
        return ("offspring-" + rnd[0],) + rnd[1:]
    if succ == "U": return ("unsuccessful", 1.0, 0.0, [0.0] * n)
    if ps1 < thr:
        zz = sum(x * x for x in z); rate = cu; name = "failure-active"
        if zz > 1 and 1 < cu * (2 * zz - 1):
            rate = 1.0 / (2 * zz - 1); name = "failure-active-guard"
        return (name, 1 + rate, -rate, step)
    return ("failure-" + rnd[0],) + rnd[1:]

def monitor_cu(cmd, step, r):
    n = r["n"]; w = "`%s` step %d: " % (cmd, step)
    if not r["same"]:
        return [("ccor:twin", w + "a copy of the optimizer with the same generator state does not draw the same mutation as ElitistCMA::step")]
    L = fmat([fh(x) for x in r["L"]], n); z = [fh(x) for x in r["z"]]; st = [fh(x) for x in r["step"]]
    bad = []
    e = vrel([sum(L[i][k] * z[k] for k in range(n)) for i in range(n)], st)
    if not e <= 1e-12: bad.append(("ccor:step", w + "m_lastStep differs from L * m_lastZ by %g (relative)" % e))
    br = branch_cu(r); r["branch"] = br[0]
    if r["post"] is None:
        return bad + [("ccor:exception", w + "ElitistCMA::step throws in branch %s (Cholesky update reports an indefinite matrix)" % br[0])]
    post = r["post"]; s = fh(post["ss"][0]); Lp = [fh(x) for x in post["L"]]
    if not (finite(s) and s > 0): bad.append(("ccor:sigma", w + "step size after the update = %r not positive finite" % s))
    m = factor_bad(Lp, n)
    if m: bad.append(("ccor:factor", w + m + " (branch %s)" % br[0]))
    if bad: return bad
    C = llt(L, n); _, alpha, beta, v = br
    want = [[alpha * C[i][j] + beta * v[i] * v[j] for j in range(n)] for i in range(n)]
    e = mrel(llt(fmat(Lp, n), n), want)
    if not e <= RTOL_ID:
        bad.append(("ccor:cov-identity", w + "branch %s: L'L'^T differs from alpha L L^T + beta v v^T (alpha = %r, beta = %r) by %g relative to the largest entry" % (br[0], alpha, beta, e)))
    return bad

# ---- VDCMA
def parse_vu(l):
    parts = [p.strip() for p in l.split("|")]
    n, lam, mu = map(int, parts[1].split()); counter, sigma = parts[3].split()
    return {"same": hdr(parts[0])["same"] == "1", "n": n, "lam": lam, "mu": mu, "consts": parts[2].split(), "counter": counter, "sigma": sigma,
            "mean": parts[4].split(","), "D": parts[5].split(","), "vn": parts[6].split(","), "normv": parts[7], "pc": parts[8].split(","), "ps": parts[9].split(","),
            "ws": parts[10].split(","), "off": [o.split(";") for o in parts[11].split()],
            "post": {"sigma": parts[12], "mean": parts[13].split(","), "D": parts[14].split(","), "vn": parts[15].split(","), "normv": parts[16],
                     "pc": parts[17].split(","), "ps": parts[18].split(","), "best": parts[19], "bestpt": parts[20].split(",")},
            "sz": parts[21].split(","), "sx": parts[22].split(","), "sy": parts[23].split(","), "sreplay": parts[24] == "1"}

def model_line_vu(r):
    tok = ["V", str(r["n"]), str(r["lam"]), str(r["mu"])] + r["consts"] + [r["counter"], r["sigma"]] + r["mean"] + r["D"] + r["vn"] + [r["normv"]] + r["pc"] + r["ps"] + r["ws"]
    for o in r["off"]:
        tok += [o[0]] + o[1].split(",") + o[2].split(",")
    return " ".join(tok + r["sz"])

def vd_cov_py(D, vn, nv):
    """C = D (I + v v^T) D, v = nv * vn, as a flat row-major list"""
    n = len(D); v = [nv * a for a in vn]
    return [D[i] * ((1.0 if i == j else 0.0) + v[i] * v[j]) * D[j] for i in range(n) for j in range(n)]

def monitor_vu(cmd, step, r):
    n, mu = r["n"], r["mu"]; w = "`%s` step %d: " % (cmd, step); post = r["post"]; bad = []
    fit_list = [fh(o[0]) for o in r["off"]]
    r["ties"] = len(set(fit_list)) != len(fit_list)
    s = fh(post["sigma"]); D = [fh(x) for x in post["D"]]; nv = fh(post["normv"]); vn = [fh(x) for x in post["vn"]]
    if not (finite(s) and s > 0): bad.append(("vcor:sigma", w + "sigma' = %r not positive finite" % s))
    if not all(finite(x) and x > 0 for x in D):
        i = next(i for i, x in enumerate(D) if not (finite(x) and x > 0))
        bad.append(("vcor:D-not-positive", w + "D'[%d] = %r is not positive and finite (pre D[%d] = %r): the sampling matrix D (I + v v^T) D degenerates / changes sign" % (i, D[i], i, fh(r["D"][i]))))
    if not (finite(nv) and nv > 0): bad.append(("vcor:normv", w + "|v|' = %r not positive finite" % nv))
    elif not (all(finite(x) for x in vn) and abs(math.sqrt(sum(x * x for x in vn)) - 1) <= 1e-12):
        bad.append(("vcor:vn-not-unit", w + "the stored direction vn' is not a unit vector (norm %r)" % math.sqrt(sum(x * x for x in vn if finite(x)))))
    if not r["sreplay"]: bad.append(("vcor:sample-replay", w + "createSample called again with the same generator state does not return offspring 0"))
    if not bad:
        m = chol_pd(vd_cov_py(D, vn, nv), n)
        if m: bad.append(("vcor:cov-not-pd", w + "D (I + v v^T) D of the post state is not positive definite: " + m))
    if not r["same"]: bad.append(("vcor:step-differs", w + "VDCMA::step differs from createSample + PenalizingEvaluator + ElitistSelection + counter++ + updateStrategyParameters with the same random numbers"))
    if r["ties"] or bad: return bad
    offs = sorted([(fh(o[0]), [fh(x) for x in o[1].split(",")]) for o in r["off"]], key=lambda z: z[0])
    if fh(post["best"]) != offs[0][0] or [fh(x) for x in post["bestpt"]] != offs[0][1]:
        bad.append(("vcor:best", w + "reported solution is not the best-ranked offspring"))
    ws = [fh(x) for x in r["ws"]]
    m = [sum(wt * o[1][i] for wt, o in zip(ws, offs)) for i in range(n)]
    if not vclose(m, [fh(x) for x in post["mean"]]):
        bad.append(("vcor:mean", w + "new mean is not the weighted recombination of the mu best offspring"))
    return bad


# ------------------------------------------------------------------------------------------------ ECOR / P
def gen_ecor(rng, k):
    return ["ECOR %d %d %d %d %d %s" % (rng.randint(2, 10), rng.randint(1, 10 ** 6), rng.choice([0, 1, 2, 4, 6, 3, 5]), rng.randint(20, 200),
                                         rng.choice([0, 1]), repr(rng.choice([0, 0.125, 1, 30]))) for _ in range(k)]

def dy(rng, lo=-64, hi=64):
    return rng.randint(lo, hi) / 8.0

def gen_pen(rng, k):
    out = []
    for _ in range(k):
        n = rng.randint(1, 8); lo = dy(rng, -32, 16); hi = lo + rng.randint(0, 40) / 8.0
        pen = rng.choice([2.0 ** -20, 2.0 ** -10, 1.0, 0.0]); c = dy(rng, -16, 16)
        x = [rng.choice([dy(rng), lo, hi, lo - 0.125, hi + 0.125, rng.uniform(lo, hi) if False else dy(rng)]) for _ in range(n)]
        out.append("P %d %s" % (n, " ".join(float(v).hex() for v in [lo, hi, pen, c] + x)))
    return out

def spec_pen(line):
    t = line.split(); n = int(t[1]); v = [Fraction(float.fromhex(x)) for x in t[2:]]
    lo, hi, pen, c = v[:4]; x = v[4:]
    feas = not any(xi + Fraction(1e-13) < lo or xi - Fraction(1e-13) > hi for xi in x)
    tt = x if feas else [min(max(xi, lo), hi) for xi in x]
    unp = sum((ti - c) ** 2 for ti in tt)
    return unp, unp + pen * sum((ti - xi) ** 2 for ti, xi in zip(tt, x))


# ------------------------------------------------------------------------------------------------ NM (SimplexDownhill) / XCOR (CrossEntropyMethod)
BIG = 1e100          # the literal SimplexDownhill::init assigns to m_best.value
XTOL = 1e-12

def gen_nm(rng, k):
    """SimplexDownhill replayed step by step from dyadic start points (arithmetic of a step: +, -, * by 2, 3, 0.5 and / dim).
    objectives: smooth (0,1,2,4,6), plateaus / ties (8 floor(sphere), 11 max-norm, 12 l1 distance), constant (9: every value tied)"""
    out = []
    for i in range(k):
        n = rng.choice([1, 1, 2, 2, 2, 3, 4, 5, 8, 15])
        fid = rng.choice([0, 1, 2, 4, 6, 8, 8, 11, 12, 9] if n > 1 else [0, 8, 12, 9, 11, 6])
        steps = rng.randint(8, 50) if fid != 9 else rng.randint(2, 6)
        start = [rng.randint(-32, 32) / 8.0 for _ in range(n)]
        out.append("NM %d %d 1 %d %d %s" % (n, fid, steps, rng.choice([0, 0, 1]), " ".join(float(x).hex() for x in start)))
    return out

def nm_scaled(cmd, factor):
    t = cmd.split(); t[3] = repr(float(t[3]) * factor); return " ".join(t)

def psol(tok):
    v, p = tok.split(";")
    return (fh(v), [] if p == "-" else fhl(p))

def psols(part):
    return [psol(x) for x in part.split()] if part.strip() else []

def parse_nm(l):
    parts = [x.strip() for x in l.split("|")]
    if parts[0] == "NI":
        return {"kind": "NI", "p0": [] if parts[1] == "-" else fhl(parts[1]), "start": fhl(parts[2]), "post": psols(parts[3]), "best": psol(parts[4]),
                "evals": psols(parts[5]), "fchk": parts[6], "vc": parts[7] == "1"}
    return {"kind": "NS", "pre": psols(parts[1]), "prebest": psol(parts[2]), "evals": psols(parts[3]), "post": psols(parts[4]), "best": psol(parts[5]),
            "fchk": parts[6], "vc": parts[7] == "1"}

def hxl(xs):
    return " ".join(float(x).hex() if finite(x) else ("nan" if x != x else ("inf" if x > 0 else "-inf")) for x in xs)

def sol_tok(s):
    return hxl([s[0]] + s[1])

def model_line_nm(r, n):
    ev = "%d %s" % (len(r["evals"]), " ".join(sol_tok(e) for e in r["evals"]))
    if r["kind"] == "NI":
        return "NI %d %s %d %s %s %s" % (n, float(BIG).hex(), len(r["p0"]), hxl(r["p0"]), hxl(r["start"]), ev)
    return "NS %d %s %s %d %s %s" % (n, " ".join(sol_tok(v) for v in r["pre"]), hxl([r["prebest"][0]]), len(r["prebest"][1]), hxl(r["prebest"][1]), ev)

def parse_nm_model(mo, n):
    t = mo.split(); p = 1; simplex = []
    for _ in range(n + 1):
        simplex.append((fh(t[p]), [fh(x) for x in t[p + 1:p + 1 + n]])); p += n + 1
    assert t[p] == "B"; bv = fh(t[p + 1]); bl = int(t[p + 2]); bp = [fh(x) for x in t[p + 3:p + 3 + bl]]; p += 3 + bl
    assert t[p] == "L"; nl = int(t[p + 1]); miss = t[p + 2] == "1"; p += 3
    looked = [[fh(x) for x in t[p + i * n:p + (i + 1) * n]] for i in range(nl)]
    return simplex, (bv, bp), looked, miss

def nm_branch(r, n):
    """the branch a step took, recomputed from the implementation's record alone"""
    k = len(r["evals"])
    if k == 1: return "reflection"
    if k == 2 + n: return "shrink"
    best = min(v for v, _ in r["pre"])
    if r["evals"][0][0] < best:
        return "expansion:expanded-kept" if r["evals"][1][0] < r["evals"][0][0] else "expansion:reflected-kept"
    return "contraction"

def monitor_nm(cmd, step, r, n, seen_small):
    """property predicates on one init / step of SimplexDownhill, independent of the model.
    seen_small: whether some objective value < 1e100 has been evaluated since init (only selects the key of a value failure: before the
    repair d2acfe00 m_best kept the literal 1e100 in that case)"""
    w = "`%s` %s: " % (cmd, "init" if r["kind"] == "NI" else "step %d" % step); bad = []
    bv, bp = r["best"]
    if not r["vc"]: bad.append(("nm:vertex-value", w + "a simplex vertex carries a value that is not the objective at the vertex"))
    if r["fchk"] == "nopoint" or fh(r["fchk"]) != bv:
        key = "nm:value:all-values>=1e100" if not seen_small else "nm:value"
        bad.append((key, w + "reported value %r != objective at the reported point %s (%s)%s" % (bv, bp, r["fchk"],
                    "; every objective value so far is >= 1e100, the literal SimplexDownhill::init stores in m_best.value: m_best was never assigned (its point is the one the object held before init) — the defect repaired by d2acfe00 (vertex 0 must be taken unconditionally)" if not seen_small else "")))
    if len(r["post"]) != n + 1 or any(len(p) != n for _, p in r["post"]):
        bad.append(("nm:shape", w + "simplex does not consist of n+1 points of dimension n"))
    if r["kind"] == "NS" and not bad:
        if min(v for v, _ in r["post"]) > min(v for v, _ in r["pre"]):
            bad.append(("nm:simplex-best-worse", w + "best value of the simplex increased %r -> %r" % (min(v for v, _ in r["pre"]), min(v for v, _ in r["post"]))))
        if bv > r["prebest"][0]:
            bad.append(("nm:reported-worse", w + "reported value increased %r -> %r" % (r["prebest"][0], bv)))
    if not bad:
        if bv != min(v for v, _ in r["post"]) or r["best"] not in r["post"]:
            bad.append(("nm:reported-not-simplex-best", w + "reported solution %r is not a best vertex of the simplex" % (r["best"],)))
    return bad

def gen_xcor(rng, k):
    """CrossEntropyMethod: elite of size 1, identical samples (variance 0), noise 0 / constant / clipped negative / linear schedules
    that reach 0, populations <= 16 (ElitistSelection's std::sort is then the stable insertion sort: ties are compared too) and larger"""
    out = []
    for i in range(k):
        n = rng.choice([1, 2, 2, 3, 4, 6])
        lam = rng.choice([2, 3, 5, 8, 10, 16, 16, 20, 50])
        mu = rng.choice([1, 1, 2, max(1, lam // 4), lam - 1, lam - 1 if rng.random() < 0.7 else lam])
        mu = max(1, min(mu, lam))
        var0 = rng.choice([0.0, 0.0625, 1.0, 1.0, 25.0, 100.0])
        kind, a, b = rng.choice([(0, 0.0, 0.0), (1, 0.0, 0.0), (1, 0.5, 0.0), (1, -1.0, 0.0), (2, 2.0, -0.5), (2, 0.0, 0.25), (2, 5.0, -0.1), (0, 0.0, 0.0)])
        fid = rng.choice([0, 1, 2, 4, 6, 3, 5, 8, 9, 11])
        out.append("XCOR %d %d %d %s %d %s %s %d %d %d" % (n, lam, mu, repr(var0), kind, repr(a), repr(b), rng.randint(1, 10 ** 6), fid, rng.randint(3, 14)))
    return out

def parse_xu(l):
    parts = [x.strip() for x in l.split("|")]
    hd = hdr(parts[0]); n, lam, mu = map(int, parts[1].split()); kd = parts[2].split()
    r = {"same": hd["same"] == "1", "rinv": hd["rinv"] == "1", "n": n, "lam": lam, "mu": mu, "kind": int(kd[0]), "a": fh(kd[1]), "b": fh(kd[2]),
         "counter": int(parts[3]), "mean": fhl(parts[4]), "var": fhl(parts[5]), "z": [fhl(z) for z in parts[6].split()],
         "off": [psol(o) for o in parts[7].split()], "post": None}
    if parts[8] != "EXC":
        r["post"] = {"mean": fhl(parts[8]), "var": fhl(parts[9]), "best": fh(parts[10]), "bestpt": fhl(parts[11]), "fchk": fh(parts[12])}
    return r

def model_line_xu(r):
    return "X %d %d %d %d %s %d %s %s %s %s" % (r["n"], r["lam"], r["mu"], r["kind"], hxl([r["a"], r["b"]]), r["counter"], hxl(r["mean"]), hxl(r["var"]),
                                              " ".join(hxl(z) for z in r["z"]), " ".join(sol_tok(o) for o in r["off"]))

def parse_xu_model(mo, n, lam):
    t = mo.split(); assert t[1] == "S"
    def res(p):
        if t[p] == "EXC": return None, p + 1
        m = [fh(x) for x in t[p:p + n]]; v = [fh(x) for x in t[p + n:p + 2 * n]]; bv = fh(t[p + 2 * n]); bp = [fh(x) for x in t[p + 2 * n + 1:p + 3 * n + 1]]
        return {"mean": m, "var": v, "best": bv, "bestpt": bp, "miss": t[p + 3 * n + 1] == "1"}, p + 3 * n + 2
    rs, p = res(2); assert t[p] == "U"; ru, p = res(p + 1); assert t[p] == "Z"
    zs = [[fh(x) for x in t[p + 1 + i * n:p + 1 + (i + 1) * n]] for i in range(lam)]
    return rs, ru, zs

def xclose(a, b, tol=XTOL):
    if len(a) != len(b): return False
    sc = max([abs(x) for x in a + b if finite(x)] + [0.0])
    return all(x == y or (finite(x) and finite(y) and abs(x - y) <= tol * max(sc, 1e-300)) for x, y in zip(a, b))

def cem_noise_py(r):
    t = r["counter"] + 1
    if r["kind"] == 0: return 0.0
    if r["kind"] == 1: return max(r["a"], 0.0)
    return max(r["a"] + t * r["b"], 0.0)

def monitor_xu(cmd, step, r):
    """spec predicates on one CrossEntropyMethod step (the post state is the one of the real step()), independent of the model"""
    n, lam, mu = r["n"], r["lam"], r["mu"]; w = "`%s` step %d: " % (cmd, step); bad = []
    srt = sorted(r["off"], key=lambda o: o[0])
    # ties matter only if they can change the elite or its order: a tie inside the first mu+1 ranks between different points
    r["ties"] = any(srt[i][0] == srt[i + 1][0] and srt[i][1] != srt[i + 1][1] for i in range(min(mu, lam - 1)))
    twin = [] if r["same"] else [("xcor:step-differs", w + "CrossEntropyMethod::step differs from sampling + PenalizingEvaluator + ElitistSelection + counter++ + updateStrategyParameters + m_best = parents[0] with the same random numbers")]
    if r["post"] is None:
        if lam > mu: bad.append(("xcor:exception", w + "step throws although population size %d > selection size %d" % (lam, mu)))
        return bad + twin
    if lam <= mu: bad.append(("xcor:no-exception", w + "ElitistSelection accepted population size %d <= selection size %d" % (lam, mu)))
    if not r["rinv"]: bad.append(("xcor:elite-not-rank-invariant", w + "ElitistSelection selects different individuals on 4*fitness"))
    post = r["post"]; noise = cem_noise_py(r)
    if post["best"] != post["fchk"]:
        bad.append(("xcor:value", w + "reported value %r != objective at the (closest feasible) reported point %r" % (post["best"], post["fchk"])))
    if not all(finite(v) and v >= noise for v in post["var"]):
        bad.append(("xcor:variance-below-noise", w + "updated variance %r has a component below the noise term %r" % (post["var"], noise)))
    if bad or r["ties"]: return bad + twin
    elite = srt[:mu]
    if (post["best"], post["bestpt"]) != (elite[0][0], elite[0][1]):
        bad.append(("xcor:best", w + "reported solution (%r at %r) is not the best-ranked sample (%r at %r)" % (post["best"], post["bestpt"], elite[0][0], elite[0][1])))
    m = [sum(e[1][j] for e in elite) / mu for j in range(n)]
    if not xclose(m, post["mean"], 1e-11): bad.append(("xcor:mean", w + "new mean %r is not the average %r of the %d best samples" % (post["mean"], m, mu)))
    v = [sum((e[1][j] - m[j]) ** 2 for e in elite) / mu + noise for j in range(n)]
    if not xclose(v, post["var"], 1e-9): bad.append(("xcor:variance", w + "new variance %r is not the mean squared deviation of the elite + noise %r" % (post["var"], v)))
    for j in range(n):
        spread = max(e[1][j] for e in elite) - min(e[1][j] for e in elite)
        sc = max(abs(e[1][j]) for e in elite)
        if post["var"][j] == 0.0 and (noise != 0.0 or spread > 1e-150):
            bad.append(("xcor:variance-zero-uncharacterised", w + "variance[%d] = 0 although noise = %r and the elite spreads over %r in that coordinate" % (j, noise, spread))); break
        if spread == 0.0 and noise == 0.0 and post["var"][j] > 1e-28 * max(sc * sc, 1e-300):
            bad.append(("xcor:variance-positive-on-identical-elite", w + "variance[%d] = %r although the elite agrees in that coordinate and the noise is 0" % (j, post["var"][j]))); break
    return bad + twin


# ------------------------------------------------------------------------------------------------ main
def main():
    ck = Check(PID)
    ck.trusted = DEFAULT_TRUSTED + [
        "harness/c11_es.cpp reads private/protected members of the optimizers through '#define private public' in that TU only (no source change)",
        "modelled not verified: symmetric eigendecomposition (its eigenvectors are an explicit input of the model), std::sort (proved: any sorted permutation of a tie-free list is the model's list), libm exp/sqrt/pow, the Mersenne twister",
        "the Cholesky rank-one update (remora cholesky_decomposition::update) used by CMSA and CMAChromosome is modelled (C11Model.chol_update), proved (over R) and compared on every SCOR/CCOR record and on exact CH inputs; its std::invalid_argument exit (update makes the matrix indefinite) = None of the model is reached by the CH inputs only (proved unreachable from CMSA / CMAChromosome under their constants); NaN inputs are outside the comparison (x <= 0 and gamma == 0 are modelled with the strict order only)",
        "float instantiation of the model uses OCaml's IEEE double operations; comparison at 1e-10 relative to the largest entry of each vector/matrix",
        "NM / XCOR: the objective handed to the model is the table of the implementation's own evaluations (a point the model asks for that the implementation did not evaluate is a disagreement); std::sort on <= 16 elements is libstdc++'s insertion sort, which is stable like the model's sort, so tied values are compared too (SimplexDownhill up to dimension 15, cross-entropy populations up to 16; larger populations with ties inside the elite are counted and skipped)",
        "XCOR / SCOR / COR whole steps: the standard normal draws are read back by replaying the generator (random::gauss(rng,0,1) returns the raw draw); normal_distribution(mean, stddev) = draw * stddev + mean (libstdc++)"]
    ck.assumptions = [
        "objectives from the generated family: sphere, ellipsoid, Rosenbrock, cigar, sqrt(sqrt(sphere)), box-restricted shifted sphere and linear function (feasibility by overriding isFeasible/closestFeasible; announced constraint handlers are refused by all six optimizers in checkFeatures)",
        "exactly order-preserving rescaling = multiplication by 4 (exact in binary floating point)",
        "random::globalRng is seeded after proposeStartingPoint; deterministic (non-noisy) objectives, PenalizingEvaluator::m_numEvaluations = 1",
        "sphere-budget runs are monitored up to the step that reaches the target (afterwards variances may underflow to 0, e.g. cross entropy at values ~1e-300)",
        "in the corner c1 + cMu = 1 of CMA (large populations, low dimension) positive definiteness is proved equivalent to full rank of evolution path + selected steps (hsig = 1); that rank condition itself is a property of the sample: monitored",
        "VDCMA: D stays positive iff every component of meanS exceeds -1 (proved); the code does not enforce it: monitored on every recorded update (vcor:D-not-positive)",
        "theorems about the Cholesky-factor models are over the real numbers (exact square roots); floating-point rounding is covered by the 1e-10 comparison only",
        "SimplexDownhill: the model follows init() as repaired by d2acfe00 (vertex 0 taken unconditionally); the defect before it (all objective values >= the literal 1e100 => solution() = (1e100, stale point)) is kept as the regression theorem C11_simplex_literal_witness about old_sd_init, as NM probes with objective 1e150 (1 + |x|^2) (key nm:value:all-values>=1e100) and in corpus/C11",
        "CrossEntropyMethod: variance_j = 0 iff noise = 0 and the elite agrees in coordinate j is exact over Q; in floating point the monitor allows a squared deviation below 1e-300 to underflow and a mean of identical values to differ from them by rounding",
        "NaN objective values and dimension 0 are outside the SimplexDownhill / CrossEntropyMethod models (comparisons are modelled with the strict order only; step() divides by the dimension)"]
    ck.proofs()
    model = extract_model(PID, "C11Extract.v", "c11_driver.ml")
    exe, err = cxx_build("c11_es", [os.path.join(ROOT, "harness", "c11_es.cpp")] + repo_src(*SRC))
    if exe is None:
        ck.oblige("harness builds against /repo", False, err); ck.finish()
    tmpd = os.path.join(BUILD, "tmp", PID); os.makedirs(tmpd, exist_ok=True)
    big = ck.tier == "thorough"
    rng = ck.rng
    evals = 0; nontrivial = set()

    if ck.replay:
        cmds = [l for l in open(ck.replay).read().split("\n") if l.strip() and not l.startswith("#")]
        runs = [(c, "base") for c in cmds if c.startswith("RUN")]
        cors = [c for c in cmds if c.startswith("COR")]; ecors = [c for c in cmds if c.startswith("ECOR")]; pens = [c for c in cmds if c.startswith("P ")]
        scors = [c for c in cmds if c.startswith("SCOR")]; ccors = [c for c in cmds if c.startswith("CCOR")]; vcors = [c for c in cmds if c.startswith("VCOR")]
        chols = [c for c in cmds if c.startswith("CH ")]
        nms = [c for c in cmds if c.startswith("NM ")]; xcors = [c for c in cmds if c.startswith("XCOR ")]
        allsph = set(sphere_runs(range(1, 7), range(2, 11)))
        sph = [c for c, _ in runs if c in allsph]      # a replayed sphere-budget run is judged against the budget table again
        runs = [(c, r) for c, r in runs if c not in allsph]
        # a pair (base, same-seed/4f run) written by a determinism / rank-invariance failure
        for i in range(1, len(runs)):
            a, b = runs[i - 1][0].split(), runs[i][0].split()
            if len(b) == len(a) + 3 and b[:len(a)] == a:
                runs[i] = (runs[i][0], "own")
            elif len(b) == len(a) + 2 and b[:len(a)] == a:
                runs[i] = (runs[i][0], "reinit")
            elif a[:9] == b[:9] and a[10:] == b[10:]:
                runs[i] = (runs[i][0], "same" if a[9] == b[9] else "scaled")
    else:
        runs = gen_runs(rng, 70 if not big else 1500)
        cors = gen_cor(rng, 60 if not big else 1200)
        ecors = gen_ecor(rng, 30 if not big else 500)
        pens = gen_pen(rng, 300 if not big else 5000)
        scors = gen_scor(rng, 60 if not big else 800)
        ccors = gen_ccor(rng, 80 if not big else 600)
        vcors = gen_vcor(rng, 60 if not big else 800)
        chols = gen_chol(rng, 400 if not big else 6000)
        sph = sphere_runs([1, 2] if not big else [1, 2, 3, 4, 5, 6], [2, 5, 10] if not big else [2, 3, 4, 5, 7, 10])
        nms = gen_nm(rng, 120 if not big else 2000)          # generated AFTER the older streams: those keep their inputs
        xcors = gen_xcor(rng, 150 if not big else 2500)
        cdir = os.path.join(ROOT, "corpus", PID)
        if os.path.isdir(cdir):
            for f in sorted(os.listdir(cdir)):
                for c in open(os.path.join(cdir, f)).read().split("\n"):
                    if c.startswith("RUN"): runs.append((c, "base"))
                    elif c.startswith("COR"): cors.append(c)
                    elif c.startswith("ECOR"): ecors.append(c)
                    elif c.startswith("P "): pens.append(c)
                    elif c.startswith("SCOR"): scors.append(c)
                    elif c.startswith("CCOR"): ccors.append(c)
                    elif c.startswith("VCOR"): vcors.append(c)
                    elif c.startswith("CH "): chols.append(c)
                    elif c.startswith("NM "): nms.append(c)
                    elif c.startswith("XCOR "): xcors.append(c)

    def report(key, msg, cmdlines, extra=None):
        cf = ck.write_replay("case_%d.txt" % len(ck.violations), "\n".join(cmdlines) + "\n")
        rp = {"case_file": cf, "case": cmdlines, "monitor": msg, "replay_cmd": "python3 tools/c11.py --replay %s" % cf}
        if extra: rp.update(extra)
        ck.violation(key, rp, "spec monitor fails on the implementation: " + msg)

    # ---------------- whole-run monitors
    rc, out, err = run_harness(exe, [c for c, _ in runs], os.path.join(tmpd, "runs.txt"))
    blocks = split_blocks(out)
    nmon = 0; seen_keys = set(); nknown = [0]
    if len(blocks) != len(runs):
        report("monitor:crash", "harness produced %d blocks for %d runs (rc=%s) %s" % (len(blocks), len(runs), rc, err[-300:]), [runs[min(len(blocks), len(runs) - 1)][0]])
        blocks += [["<truncated>"]] * (len(runs) - len(blocks))
    base = None
    for (cmd, role), blk in zip(runs, blocks):
        evals += sum(1 for l in blk if l.startswith("S "))
        if len(blk) > 3: nontrivial.add(cmd)
        bad = monitor_run(cmd, blk)
        if role == "base": base = (cmd, blk)
        elif role == "same" and not bad and blk != base[1]:
            bad.append(("monitor:%s:seed-determinism" % cmd.split()[1], "`%s`: two runs with the same seed differ" % cmd))
        elif role == "own" and not bad and ([l for l in blk if not l.startswith("GRNG")] != base[1] or "GRNG 1" not in blk):
            core = [l for l in blk if not l.startswith("GRNG")]
            k = next((i for i, (x, y) in enumerate(zip(core, base[1])) if x != y), min(len(core), len(base[1])))
            why = ("the global generator random::globalRng was used (its state changed)" if "GRNG 0" in blk and core == base[1] else
                   "the run differs from the run with the default generator and the same seed (first difference at output line %d)%s" % (k, "; the global generator was used as well" if "GRNG 0" in blk else ""))
            bad.append(("monitor:%s:own-generator-determinism" % cmd.split()[1], "`%s`: optimizer constructed with a caller-owned generator: %s" % (cmd, why)))
        elif role == "reinit" and not bad and blk != base[1]:
            k = next((i for i, (x, y) in enumerate(zip(blk, base[1])) if x != y), min(len(blk), len(base[1])))
            bad.append(("monitor:%s:reinit-determinism" % cmd.split()[1], "`%s`: an optimizer object that completed an earlier run and was initialised again does not repeat the run of a fresh object with the same seed (first difference at output line %d)" % (cmd, k)))
        elif role == "scaled" and not bad and strip_vals(blk, 4.0) != strip_vals(base[1], 1.0):
            a, b = strip_vals(blk, 4.0), strip_vals(base[1], 1.0)
            k = next((i for i, (x, y) in enumerate(zip(a, b)) if x != y), min(len(a), len(b)))
            bad.append(("monitor:%s:rank-invariance" % cmd.split()[1], "`%s` vs the same run on f instead of 4*f: iterates differ from step index %d on" % (cmd, k - 1)))
        for key, msg in bad[:1]:
            if ck.match_known(key) is None: nmon += 1
            else: nknown[0] += 1
            if key not in seen_keys and len(seen_keys) < 4:
                seen_keys.add(key); report(key, msg, [base[0], cmd] if role != "base" else [cmd])
    ck.oblige("spec monitors on %d optimizer runs (%d steps): sigma, covariance SPD, value = objective, seed determinism, f vs 4f" % (len(runs), evals), nmon == 0,
              "" if nmon == 0 else "%d runs fail" % nmon)

    # ---------------- sphere convergence table
    table = []
    if sph:
        rc, out, err = run_harness(exe, sph, os.path.join(tmpd, "sphere.txt"))
        sblocks = split_blocks(out); nfail = 0
        for cmd, blk in zip(sph, sblocks + [["<truncated>"]] * (len(sph) - len(sblocks))):
            t = cmd.split(); alg, n = t[1], int(t[2]); target, budget = SPHERE[alg]
            evals += sum(1 for l in blk if l.startswith("S "))
            hit = first_hit(blk, target)
            if hit is not None:      # the run is judged up to (and including) the step that reaches the target; the rest of the budget is not part of the claim
                k = next(i for i, l in enumerate(blk) if l.startswith("S ") and int(parse_step(l)["ev"]) >= hit)
                blk = blk[:k + 1]
            bad = monitor_run(cmd, blk)
            table.append({"alg": alg, "n": n, "seed": int(t[7]), "target": target, "budget_evals": budget(n), "evals_to_target": hit})
            if not bad and (hit is None or hit > budget(n)):
                key = "monitor:VDCMA:dim<5:nonfinite-or-no-convergence" if (alg == "VDCMA" and n < 5) else "monitor:%s:sphere-convergence" % alg
                bad = [(key, "`%s`: sphere value %g not reached within %d evaluations (reached after %s)" % (cmd, target, budget(n), hit))]
            for key, msg in bad[:1]:
                if ck.match_known(key) is None: nfail += 1
                else: nknown[0] += 1
                if key not in seen_keys and len(seen_keys) < 6:
                    seen_keys.add(key); report(key, msg, [cmd])
        ck.oblige("sphere convergence within the budget table on %d runs" % len(sph), nfail == 0, "" if nfail == 0 else "%d runs fail" % nfail)
    ck.notes["sphere_table"] = table
    ck.notes["sphere_budget_rule"] = {a: "target %g within %s evaluations" % (SPHERE[a][0], {"CMA": "800 n", "CMSA": "1500 n", "ECMA": "500 n", "VDCMA": "1000 n", "SIMPLEX": "400 n", "CEMN": "20000"}[a]) for a in SPHERE}
    ck.notes["cross_entropy_note"] = "default CrossEntropyMethod (no noise) is monitored per step but has no convergence target: it stalls (observed finals 1e-5 .. 0.3 on the 10-dim sphere after 20000 evaluations); convergence is checked with the documented LinearNoise(5, -0.1) schedule, target 1e-3 (1e-5 is missed by 3 of 60 probe seeds)"

    # ---------------- correspondence CMA::updatePopulation
    rc, out, err = run_harness(exe, cors, os.path.join(tmpd, "cor.txt"))
    cblocks = split_blocks(out)
    recs = []   # (cmd, step, rec)
    for cmd, blk in zip(cors, cblocks + [["<truncated>"]] * (len(cors) - len(cblocks))):
        st = 0
        for l in blk:
            if l.startswith("U "):
                recs.append((cmd, st, parse_u(l))); st += 1
            elif l.startswith("EXC") or l == "<truncated>":
                report("cor:exception", "`%s`: %s" % (cmd, l), [cmd])
    mlines = [model_line_u(r) for _, _, r in recs]
    rcm, mout, merr = run_lines(model, mlines, os.path.join(tmpd, "cor_model.txt")) if mlines else (0, [], "")
    if rcm != 0 or len(mout) != len(mlines):
        raise RuntimeError("model driver failed: rc=%s %s" % (rcm, merr[-500:]))
    # the whole step on the model: C11DirectModel.cma_step samples the offspring itself from the recorded draws
    wlines = ["UW" + l[1:] + " " + " ".join(r["eig"]) for l, (_, _, r) in zip(mlines, recs)]
    rcw, wout, werr = run_lines(model, wlines, os.path.join(tmpd, "cor_step_model.txt")) if wlines else (0, [], "")
    if rcw != 0 or len(wout) != len(wlines):
        raise RuntimeError("model driver failed on UW lines: rc=%s %s" % (rcw, werr[-500:]))
    ndis = nmonc = 0; first_dis = None; corner = 0; ties = 0; nwhole = 0
    for (cmd, st, r), mo, wo in zip(recs, mout, wout):
        evals += 1
        n = r["n"]; mt = [fh(x) for x in mo.split()[1:]]
        if 1 - fh(r["consts"][1]) - fh(r["consts"][2]) <= 0: corner += 1
        bad = monitor_u(cmd, st, r)
        if bad:
            key, msg = bad[0]
            if ck.match_known(key) is None: nmonc += 1
            else: nknown[0] += 1
            if key not in seen_keys and len(seen_keys) < 8:
                seen_keys.add(key); report(key, msg, [cmd], {"step": st, "record": r})
            continue
        post = r["post"]
        impl = {"sigma": [fh(post["sigma"])], "mean": [fh(x) for x in post["mean"]], "C": [fh(x) for x in post["C"]], "pc": [fh(x) for x in post["pc"]], "ps": [fh(x) for x in post["ps"]]}
        p = 0; mod = {}
        for k, ln in (("sigma", 1), ("mean", n), ("C", n * n), ("pc", n), ("ps", n)):
            mod[k] = mt[p:p + ln]; p += ln
        diff = [k for k in impl if not vclose(impl[k], mod[k])]
        wt = wo.split(); xi = wt.index("X"); di = wt.index("D"); wst = [fh(x) for x in wt[1:xi]]; p = 0
        for k, ln in (("sigma", 1), ("mean", n), ("C", n * n), ("pc", n), ("ps", n)):
            if not vclose(impl[k], wst[p:p + ln]): diff.append("cma_step:" + k)
            p += ln
        wx = [fh(x) for x in wt[xi + 1:di]]
        if not all(vclose([fh(x) for x in o[1].split(",")], wx[i * n:(i + 1) * n]) for i, o in enumerate(r["off"])): diff.append("cma_step:sampled search points")
        nwhole += 1
        if r["ties"]:
            ties += 1; diff = []      # std::sort leaves the order of tied offspring unspecified; the model's tie rule (stable) need not match
        if not r["same"]: diff.append("step()!=generate+evaluate+update")
        if diff:
            ndis += 1
            if first_dis is None: first_dis = (cmd, st, diff, r, {k: mod[k] for k in mod}, impl)
    if ndis and not nmonc and not ck.violations:
        cmd, st, diff, r, mod, impl = first_dis
        cf = ck.write_replay("cor_case.txt", cmd + "\n")
        ck.violation("correspondence", {"case_file": cf, "case": [cmd], "step": st, "differs_in": diff, "model_output": mod, "implementation_output": impl,
                                        "replay_cmd": "python3 tools/c11.py --replay %s" % cf, "broken": "correspondence C11Model.cma_update vs CMA::updatePopulation"},
                     "correspondence C11Model.cma_update vs CMA::updatePopulation no longer checks (%s differ on %d updates); the spec monitors pass on every explored input" % (",".join(diff), ndis), no_input=True)
    ck.oblige("correspondence C11Model.cma_update (float) = CMA::updatePopulation, and C11DirectModel.cma_step (offspring sampled by the model from the recorded draws with Q diag(sqrt(max(eigenvalues,0)))) "
              "= generateOffspring + evaluation + updatePopulation, at 1e-10 on %d updates of %d runs; step() = generate+evaluate+update exactly" % (len(recs), len(cors)),
              ndis == 0 and nmonc == 0, "" if not (ndis or nmonc) else "%d monitor failures, %d disagreements" % (nmonc, ndis))
    ck.notes["cor_updates"] = len(recs); ck.notes["cor_updates_in_corner_c1+cMu=1"] = corner; ck.notes["cor_updates_with_tied_fitness_skipped"] = ties

    # ---------------- correspondence of the Cholesky-factor optimizers and VDCMA: CMSA::updatePopulation, CMAChromosome, VDCMA::updateStrategyParameters
    tie_reports = [0]
    def tie(tag, cmds, prefix, parse, mline, monitor, impl_of, layout, viol_key, what):
        """spec monitor first (on the implementation's record, independent of the model), then model = implementation.
        returns (records, disagreements, monitor failures, records skipped for fitness ties, parsed records)"""
        nonlocal evals
        if not cmds: return 0, 0, 0, 0, []
        rc, out, err = run_harness(exe, cmds, os.path.join(tmpd, tag + ".txt"))
        blocks = split_blocks(out); recs = []; nmon = 0
        for cmd, blk in zip(cmds, blocks + [["<truncated>"]] * (len(cmds) - len(blocks))):
            st = 0
            for l in blk:
                if l.startswith(prefix + " "):
                    recs.append((cmd, st, parse(l))); st += 1
                elif l.startswith("EXC") or l == "<truncated>":
                    nmon += 1; report(tag + ":exception", "`%s`: %s" % (cmd, l), [cmd])
        mlines = [mline(r) for _, _, r in recs]
        rcm, mout, merr = run_lines(model, mlines, os.path.join(tmpd, tag + "_model.txt")) if mlines else (0, [], "")
        if rcm != 0 or len(mout) != len(mlines):
            raise RuntimeError("model driver failed on %s lines: rc=%s %s" % (prefix, rcm, merr[-500:]))
        ndis = 0; first = None; ties = 0
        for (cmd, st, r), mo in zip(recs, mout):
            evals += 1
            bad = monitor(cmd, st, r)
            if bad:
                key, msg = bad[0]
                if ck.match_known(key) is None: nmon += 1
                else: nknown[0] += 1
                if key not in seen_keys and tie_reports[0] < 6:
                    seen_keys.add(key); tie_reports[0] += 1; report(key, msg, [cmd], {"step": st, "record": r})
                continue
            if r.get("ties"):
                ties += 1; continue      # std::sort leaves the order of tied offspring unspecified; the model's tie rule (stable) need not match
            mt = mo.split()[1:]; impl = impl_of(r)
            if mt == ["EXC"]:
                diff = ["model: Cholesky update indefinite (None), implementation: no exception"]; mod = {}
            else:
                mt = [fh(x) for x in mt]; p = 0; mod = {}
                for k, ln in layout(r["n"]):
                    mod[k] = mt[p:p + ln]; p += ln
                diff = [k for k in impl if not vclose(impl[k], mod[k])]
            if diff:
                ndis += 1
                if first is None: first = (cmd, st, diff, r, mod, impl)
        if ndis and not nmon and not ck.violations:
            cmd, st, diff, r, mod, impl = first
            cf = ck.write_replay(tag + "_case.txt", cmd + "\n")
            ck.violation(viol_key, {"case_file": cf, "case": [cmd], "step": st, "differs_in": diff, "model_output": mod, "implementation_output": impl, "record": r,
                                    "replay_cmd": "python3 tools/c11.py --replay %s" % cf, "broken": "correspondence " + what},
                         "correspondence %s no longer checks (%s differ on %d updates); the spec monitors pass on every explored input" % (what, ",".join(diff), ndis), no_input=True)
        return len(recs), ndis, nmon, ties, [r for _, _, r in recs]

    fl = lambda xs: [fh(x) for x in xs]
    # CMSA
    k, ndis, nm, ties, srecs = tie("scor", scors, "SU", parse_su, model_line_su, monitor_su,
                               lambda r: {"sigma": [fh(r["post"]["sigma"])], "mean": fl(r["post"]["mean"]), "L": fl(r["post"]["L"])},
                               lambda n: (("sigma", 1), ("mean", n), ("L", n * n)), "correspondence-cmsa", "C11Model.cmsa_update vs CMSA::updatePopulation")
    ck.oblige("correspondence C11Model.cmsa_update (float, incl. chol_update) = CMSA::updatePopulation at 1e-10 on %d updates of %d runs; step() = generate+evaluate+update exactly; "
              "monitors: sigma' > 0, factor lower triangular with positive diagonal, mean/sigma = averages over the mu best, L'L'^T = (1-1/cC)LL^T + 1/(mu cC) sum step step^T, rank-only" % (k, len(scors)),
              ndis == 0 and nm == 0, "" if not (ndis or nm) else "%d monitor failures, %d disagreements" % (nm, ndis))
    ck.notes["scor_updates"] = k; ck.notes["scor_updates_with_tied_fitness_skipped"] = ties
    # the whole step on the model: C11DirectModel.cmsa_step samples the offspring itself (z and the step-size draw read back)
    wrecs = [r for r in srecs if r["post"] is not None and not r.get("ties") and "draws" in r]
    if wrecs and not ndis and not nm:
        rcw, wout, werr = run_lines(model, [model_line_sw(r) for r in wrecs], os.path.join(tmpd, "scor_step_model.txt"))
        if rcw != 0 or len(wout) != len(wrecs): raise RuntimeError("model driver failed on SW lines: rc=%s %s" % (rcw, werr[-500:]))
        nw = 0; firstw = None
        for r, wo in zip(wrecs, wout):
            n = r["n"]; wt = wo.split(); diff = []
            if wt[1:2] == ["EXC"]: diff = ["model: Cholesky update indefinite, implementation: no exception"]
            else:
                xi = wt.index("X"); di = wt.index("D"); wst = [fh(x) for x in wt[1:xi]]
                impl = {"sigma": [fh(r["post"]["sigma"])], "mean": fl(r["post"]["mean"]), "L": fl(r["post"]["L"])}; p = 0
                for kk, ln in (("sigma", 1), ("mean", n), ("L", n * n)):
                    if not vclose(impl[kk], wst[p:p + ln]): diff.append("cmsa_step:" + kk)
                    p += ln
                wx = [fh(x) for x in wt[xi + 1:di]]
                if not all(vclose([fh(x) for x in o[1].split(",")], wx[i * n:(i + 1) * n]) for i, o in enumerate(r["off"])): diff.append("cmsa_step:sampled search points")
            if diff:
                nw += 1
                if firstw is None: firstw = (r, diff, wo)
        if nw and not ck.violations:
            r, diff, wo = firstw
            cmdw = next(c for c in scors)
            ck.violation("correspondence-cmsa-step", {"differs_in": diff, "record": r, "model_output": wo[:2000], "broken": "correspondence C11DirectModel.cmsa_step vs CMSA generateOffspring + evaluation + updatePopulation"},
                         "correspondence C11DirectModel.cmsa_step vs CMSA::step no longer checks (%s differ on %d steps); the spec monitors pass on every explored input" % (",".join(diff), nw), no_input=True)
        ck.oblige("correspondence C11DirectModel.cmsa_step (offspring sampled by the model from the draws read back: x = mean + sigma exp(cSigma g) L z) = CMSA generateOffspring + evaluation + updatePopulation at 1e-10 on %d steps" % len(wrecs), nw == 0)
        ck.notes["scor_whole_steps"] = len(wrecs)
    # CMAChromosome (ElitistCMA)
    k, ndis, nm, ties, crecs = tie("ccor", ccors, "CU", parse_cu, model_line_cu, monitor_cu,
                                   lambda r: {"L": fl(r["post"]["L"]), "pc": fl(r["post"]["pc"]), "sigma": [fh(r["post"]["ss"][0])], "psucc": [fh(r["post"]["ss"][1])]},
                                   lambda n: (("L", n * n), ("pc", n), ("sigma", 1), ("psucc", 1)), "correspondence-chromosome",
                                   "C11Model.ecma_chrom_step vs CMAChromosome::updateAsOffspring/updateAsParent/roundUpdate in ElitistCMA::step")
    branches = {}
    for r in crecs: branches[r.get("branch", "?")] = branches.get(r.get("branch", "?"), 0) + 1
    ck.oblige("correspondence C11Model.ecma_chrom_step (float, incl. chol_update) = CMAChromosome update inside ElitistCMA::step at 1e-10 on %d steps of %d runs; "
              "monitors: sigma' > 0, factor diagonal > 0, lastStep = L lastZ, L'L'^T = alpha LL^T + beta vv^T for the branch recomputed from the record, no exception" % (k, len(ccors)),
              ndis == 0 and nm == 0, "" if not (ndis or nm) else "%d monitor failures, %d disagreements" % (nm, ndis))
    ck.notes["ccor_steps"] = k; ck.notes["ccor_branch_counts"] = branches
    # VDCMA
    k, ndis, nm, ties, vrecs = tie("vcor", vcors, "VU", parse_vu, model_line_vu, monitor_vu,
                                   lambda r: dict([(f, fl(r["post"][f])) for f in ("mean", "D", "vn", "pc", "ps")] + [(f, [fh(r["post"][f])]) for f in ("sigma", "normv")]
                                                  + [("cov", vd_cov_py(fl(r["post"]["D"]), fl(r["post"]["vn"]), fh(r["post"]["normv"]))), ("sample_x", fl(r["sx"])), ("sample_y", fl(r["sy"]))]),
                                   lambda n: (("sigma", 1), ("mean", n), ("D", n), ("vn", n), ("normv", 1), ("pc", n), ("ps", n), ("cov", n * n), ("sample_x", n), ("sample_y", n)),
                                   "correspondence-vdcma", "C11Model.vd_update / vd_sample / vd_cov vs VDCMA::updateStrategyParameters / createSample / D(I+vv^T)D")
    ck.oblige("correspondence C11Model.vd_update (float) = VDCMA selection + counter + updateStrategyParameters, C11Model.vd_sample = VDCMA::createSample on the recorded normal draws, "
              "C11Model.vd_cov = D(I+vv^T)D of the post state, at 1e-10 on %d updates of %d runs; step() = sample+evaluate+select+update exactly; "
              "monitors: sigma' > 0, every D_i > 0, |v| > 0, |vn| = 1, D(I+vv^T)D positive definite, mean' = weighted recombination of the mu best" % (k, len(vcors)),
              ndis == 0 and nm == 0, "" if not (ndis or nm) else "%d monitor failures, %d disagreements" % (nm, ndis))
    ck.notes["vcor_updates"] = k; ck.notes["vcor_updates_with_tied_fitness_skipped"] = ties
    ck.notes["vcor_updates_by_dimension"] = {str(n): sum(1 for r in vrecs if r["n"] == n) for n in sorted(set(r["n"] for r in vrecs))}

    # ---------------- cholesky_decomposition::update directly: exact spec, exception exit, model
    if chols:
        rc, out, err = run_harness(exe, chols, os.path.join(tmpd, "chol.txt"))
        cout = [l for l in out if l.startswith("CH ")]
        rcm, mout, merr = run_lines(model, ["H " + c[3:] for c in chols], os.path.join(tmpd, "chol_model.txt"))
        if rcm != 0 or len(mout) != len(chols): raise RuntimeError("model driver failed on H lines: " + merr[-500:])
        nspec = ndis = nexc = 0; firstc = None
        if len(cout) != len(chols):
            report("chol:crash", "harness stopped after %d of %d CH lines" % (len(cout), len(chols)), chols[len(cout):len(cout) + 1]); nspec += 1
        for line, io, mo in zip(chols, cout, mout):
            evals += 1
            got = io.split()[1:]; mod = mo.split()[1:]
            if got[:1] == ["EXC"]: nexc += 1
            m = spec_chol(line, got)
            if m:
                if ck.match_known("chol:spec") is None: nspec += 1
                else: nknown[0] += 1
                if "chol:spec" not in seen_keys:
                    seen_keys.add("chol:spec"); report("chol:spec", "`%s`: %s" % (line, m), [line])
                continue
            same = (got == mod) if (got[:1] == ["EXC"] or mod[:1] == ["EXC"]) else vclose([fh(a) for a in got[0].split(",")], [fh(a) for a in mod])
            if not same:
                ndis += 1
                if firstc is None: firstc = (line, got, mod)
        if ndis and not nspec and not ck.violations:
            cf = ck.write_replay("chol_case.txt", firstc[0] + "\n")
            ck.violation("correspondence-cholupdate", {"case_file": cf, "case": [firstc[0]], "implementation_output": firstc[1], "model_output": firstc[2],
                                                        "replay_cmd": "python3 tools/c11.py --replay %s" % cf},
                         "correspondence C11Model.chol_update vs cholesky_decomposition::update no longer checks (%d of %d inputs); the exact spec holds on every explored input" % (ndis, len(chols)), no_input=True)
        ck.oblige("cholesky_decomposition::update = exact spec (throws iff alpha LL^T + beta vv^T is not positive definite, else L'L'^T = that matrix, 1e-9) = C11Model.chol_update (None iff throws, else 1e-10) "
                  "on %d exact inputs (%d of them throw)" % (len(chols), nexc), nspec == 0 and ndis == 0)
        ck.notes["chol_inputs"] = len(chols); ck.notes["chol_inputs_that_throw"] = nexc

    # ---------------- correspondence ElitistCMA acceptance
    rc, out, err = run_harness(exe, ecors, os.path.join(tmpd, "ecor.txt"))
    eblocks = split_blocks(out); ndis = nmone = 0; mlines = []; meta = []
    for cmd, blk in zip(ecors, eblocks + [["<truncated>"]] * (len(ecors) - len(eblocks))):
        if not blk or not blk[0].startswith("E0"):
            report("ecor:exception", "`%s`: %s" % (cmd, blk[:1]), [cmd]); continue
        e0 = blk[0].split()[1:]; steps = [l.split()[1:] for l in blk[1:] if l.startswith("E ")]
        active = cmd.split()[5]; fid = int(cmd.split()[3])
        mlines.append("E %s %s %d %s %s" % (active, e0[0], len(e0) - 1, " ".join(e0[1:]), " ".join(s[0] + " " + s[1] for s in steps)))
        meta.append((cmd, e0, steps, fid))
    rcm, mout, merr = run_lines(model, mlines, os.path.join(tmpd, "ecor_model.txt")) if mlines else (0, [], "")
    if rcm != 0 or len(mout) != len(mlines): raise RuntimeError("model driver failed on E lines: " + merr[-500:])
    for (cmd, e0, steps, fid), mo in zip(meta, mout):
        na = len(e0) - 1; mt = mo.split()[1:]
        prev_val = fh(e0[0]); prev_back = fh(e0[-1]); bad = None
        for i, s in enumerate(steps):
            evals += 1
            val, anc, spec = fh(s[2]), [fh(x) for x in s[3:3 + na]], fh(s[-1])
            if anc[-1] > prev_back: bad = ("ecor:elitist-worse", "`%s` step %d: penalised fitness of the kept individual increased %r -> %r" % (cmd, i, prev_back, anc[-1]))
            elif fid not in (3, 5) and val > prev_val: bad = ("ecor:elitist-worse", "`%s` step %d: reported value got worse %r -> %r" % (cmd, i, prev_val, val))
            elif val != spec: bad = ("ecor:value", "`%s` step %d: reported value %r != objective at the reported point %r" % (cmd, i, val, spec))
            if bad: break
            prev_val, prev_back = val, anc[-1]
            got = [val] + anc; want = [fh(x) for x in mt[i * (na + 1):(i + 1) * (na + 1)]]
            if got != want:
                ndis += 1
                if ndis == 1: first_e = (cmd, i, got, want)
                break
        if bad:
            if ck.match_known(bad[0]) is None: nmone += 1
            else: nknown[0] += 1
            if bad[0] not in seen_keys: seen_keys.add(bad[0]); report(bad[0], bad[1], [cmd])
    if ndis and not nmone and not ck.violations:
        cmd, i, got, want = first_e
        cf = ck.write_replay("ecor_case.txt", cmd + "\n")
        ck.violation("correspondence-elitist", {"case_file": cf, "case": [cmd], "step": i, "implementation_output": got, "model_output": want},
                     "correspondence C11Model.elitist_step vs ElitistCMA::step no longer checks; monitors pass", no_input=True)
    ck.oblige("correspondence C11Model.elitist_step = ElitistCMA acceptance/ancestral window exactly on %d runs" % len(ecors), ndis == 0 and nmone == 0)

    # ---------------- PenalizingEvaluator
    rc, out, err = run_harness(exe, pens, os.path.join(tmpd, "pen.txt"))
    pout = [l for l in out if l.startswith("P ")]
    rcm, mout, merr = run_lines(model, pens, os.path.join(tmpd, "pen_model.txt")) if pens else (0, [], "")
    npen = ndis = 0
    if len(pout) != len(pens):
        report("pen:crash", "harness stopped after %d of %d P lines" % (len(pout), len(pens)), pens[len(pout):len(pout) + 1]); npen += 1
    for line, io, mo in zip(pens, pout, mout):
        evals += 1
        unp, pz = spec_pen(line)
        got = [Fraction(fh(x)) for x in io.split()[1:]]
        if got != [unp, pz]:
            if ck.match_known("pen:value") is None: npen += 1
            else: nknown[0] += 1
            if "pen:value" not in seen_keys:
                seen_keys.add("pen:value")
                report("pen:value", "`%s`: PenalizingEvaluator gives (unpenalized, penalized) = %s, exact value at the closest feasible point + penalty*distance^2 = %s" % (line, [float(g) for g in got], [float(unp), float(pz)]), [line])
        elif io != mo: ndis += 1
    if ndis and not npen and not ck.violations:
        ck.violation("correspondence-penalized", {"note": "model and implementation differ on %d P lines" % ndis}, "correspondence penalized_eval no longer checks", no_input=True)
    ck.oblige("PenalizingEvaluator = exact spec = C11Model.penalized_eval on %d dyadic inputs" % len(pens), npen == 0 and ndis == 0)

    # ---------------- SimplexDownhill replayed step by step: C11DirectModel.sd_init / sd_step on the implementation's own previous simplex
    NM_PROBES = ["NM 1 10 1 2 1 0x1p-1", "NM 2 10 1 3 0 0x1p+0 -0x1p-1"]      # every objective value >= 1e100 (the literal of SimplexDownhill::init)
    if nms or ck.replay is None:
        probes = [] if ck.replay else NM_PROBES
        allc = []
        for c in nms: allc += [(c, "base"), (nm_scaled(c, 4.0), "scaled")]
        allc += [(c, "probe") for c in probes]
        rc, out, err = run_harness(exe, [c for c, _ in allc], os.path.join(tmpd, "nm.txt"))
        nblocks = split_blocks(out); nblocks += [["<truncated>"]] * (len(allc) - len(nblocks))
        recs = []; nmon = 0; parsed = []
        for (cmd, role), blk in zip(allc, nblocks):
            n = int(cmd.split()[1]); rl = []; seen_small = False; st = 0
            for l in blk:
                if l.startswith("NI") or l.startswith("NS"):
                    r = parse_nm(l)
                    seen_small = seen_small or any(v < BIG for v, _ in r["evals"])
                    r["seen_small"] = seen_small
                    rl.append(r); recs.append((cmd, role, st if r["kind"] == "NS" else -1, r, n))
                    if r["kind"] == "NS": st += 1
                elif l.startswith("EXC") or l == "<truncated>":
                    nmon += 1; report("nm:exception", "`%s`: %s" % (cmd, l), [cmd])
            parsed.append(rl)
        mlines = [model_line_nm(r, n) for _, _, _, r, n in recs]
        rcm, mout, merr = run_lines(model, mlines, os.path.join(tmpd, "nm_model.txt")) if mlines else (0, [], "")
        if rcm != 0 or len(mout) != len(mlines): raise RuntimeError("model driver failed on NI/NS lines: rc=%s %s" % (rcm, merr[-500:]))
        ndis = 0; first = None; branches = {}; tied_steps = 0; badcmds = set()
        for (cmd, role, st, r, n), mo in zip(recs, mout):
            evals += 1
            if r["kind"] == "NS":
                b = nm_branch(r, n); branches[b] = branches.get(b, 0) + 1
                if len(set(v for v, _ in r["pre"])) < len(r["pre"]): tied_steps += 1
            bad = monitor_nm(cmd, st, r, n, r["seen_small"])
            if bad:
                key, msg = bad[0]; badcmds.add(cmd)
                if ck.match_known(key) is None: nmon += 1
                else: nknown[0] += 1
                if key not in seen_keys and tie_reports[0] < 10:
                    seen_keys.add(key); tie_reports[0] += 1; report(key, msg, [cmd], {"step": st, "record": r})
                continue
            simplex, best, looked, miss = parse_nm_model(mo, n)
            diff = []
            if simplex != r["post"]: diff.append("simplex")
            if best != r["best"]: diff.append("reported solution")
            if miss or sorted(looked) != sorted(p for _, p in r["evals"]): diff.append("evaluated points")
            if diff:
                ndis += 1
                if first is None or (n, st, len(cmd)) < (int(first[0].split()[1]), first[1], len(first[0])):
                    first = (cmd, st, diff, r, {"simplex": simplex, "best": best, "evaluated": looked})
        # rank invariance on the implementation: the run on 4*f visits exactly the same simplices
        nri = 0
        for i in range(0, 2 * len(nms), 2):
            (cb, _), (cs, _) = allc[i], allc[i + 1]
            if cb in badcmds or cs in badcmds: continue
            a, b = parsed[i], parsed[i + 1]
            k = next((j for j, (x, y) in enumerate(zip(a, b)) if [p for _, p in x["post"]] != [p for _, p in y["post"]] or x["best"][1] != y["best"][1]
                      or [4.0 * v for v, _ in x["post"]] != [v for v, _ in y["post"]]), None)
            if k is None and len(a) != len(b): k = min(len(a), len(b))
            if k is not None:
                nri += 1; key = "nm:rank-invariance"
                if ck.match_known(key) is None: nmon += 1
                else: nknown[0] += 1
                if key not in seen_keys:
                    seen_keys.add(key); report(key, "`%s` vs `%s`: the simplices of the run on 4*f differ from those of the run on f from record %d on (0 = init)" % (cb, cs, k), [cb])
        if ndis and not nmon and not ck.violations:
            cmd, st, diff, r, mod = first
            cf = ck.write_replay("nm_case.txt", cmd + "\n")
            ck.violation("correspondence-simplex", {"case_file": cf, "case": [cmd], "step": st, "differs_in": diff, "model_output": mod,
                                                    "implementation_output": {"simplex": r["post"], "best": r["best"], "evaluated": r["evals"]}, "record": r,
                                                    "replay_cmd": "python3 tools/c11.py --replay %s" % cf, "broken": "correspondence C11DirectModel.sd_init/sd_step vs SimplexDownhill::init/step"},
                         "correspondence C11DirectModel.sd_%s vs SimplexDownhill::%s no longer checks (%s differ on %d records; first: `%s` %s); the spec monitors pass on every explored input"
                         % ("init" if st < 0 else "step", "init" if st < 0 else "step", ",".join(diff), ndis, cmd, "init" if st < 0 else "step %d" % st), no_input=True)
        want = ["reflection", "expansion:expanded-kept", "expansion:reflected-kept", "contraction", "shrink"]
        covered = ck.replay is not None or all(branches.get(b, 0) > 0 for b in want)
        ck.oblige("correspondence C11DirectModel.sd_init / sd_step (float, objective = table of the implementation's own evaluations) = SimplexDownhill::init / step EXACTLY "
                  "(simplex, reported solution, set of evaluated points) on %d records of %d runs (f and 4*f, dimensions 1..15, ties included); monitors: value = objective at the reported point, "
                  "vertex values = objective, simplex best and reported value never increase, reported solution is a best vertex, run on 4*f visits the same simplices; every branch reached" % (len(recs), len(allc)),
                  ndis == 0 and nmon == 0 and covered, "" if (ndis == 0 and nmon == 0 and covered) else "%d monitor failures, %d disagreements, branches %s" % (nmon, ndis, branches))
        ck.notes["nm_records"] = len(recs); ck.notes["nm_branch_counts"] = branches; ck.notes["nm_steps_with_tied_vertex_values"] = tied_steps
        ck.notes["simplex_1e100_literal_probes"] = probes

    # ---------------- CrossEntropyMethod step by step: C11DirectModel.cem_sample / cem_select_update / cem_step on the recorded draws and samples
    if xcors:
        rc, out, err = run_harness(exe, xcors, os.path.join(tmpd, "xcor.txt"))
        xblocks = split_blocks(out); xblocks += [["<truncated>"]] * (len(xcors) - len(xblocks))
        recs = []; nmon = 0
        for cmd, blk in zip(xcors, xblocks):
            st = 0
            for l in blk:
                if l.startswith("XU "):
                    recs.append((cmd, st, parse_xu(l))); st += 1
                elif l.startswith("EXC") or l == "<truncated>":
                    nmon += 1; report("xcor:exception", "`%s`: %s" % (cmd, l), [cmd])
        mlines = [model_line_xu(r) for _, _, r in recs]
        rcm, mout, merr = run_lines(model, mlines, os.path.join(tmpd, "xcor_model.txt")) if mlines else (0, [], "")
        if rcm != 0 or len(mout) != len(mlines): raise RuntimeError("model driver failed on X lines: rc=%s %s" % (rcm, merr[-500:]))
        ndis = 0; first = None; stats = {"elite_size_1": 0, "identical_samples": 0, "noise_zero": 0, "noise_positive": 0, "variance_zero_component": 0,
                                         "selection_throws": 0, "tied_fitness_skipped": 0, "tied_fitness_compared": 0, "sampling_bit_exact": 0}
        for (cmd, st, r), mo in zip(recs, mout):
            evals += 1
            bad = monitor_xu(cmd, st, r)
            if bad:
                key, msg = bad[0]
                if ck.match_known(key) is None: nmon += 1
                else: nknown[0] += 1
                if key not in seen_keys and tie_reports[0] < 14:
                    seen_keys.add(key); tie_reports[0] += 1; report(key, msg, [cmd], {"step": st})
                continue
            n, lam, mu = r["n"], r["lam"], r["mu"]
            rs, ru, zs = parse_xu_model(mo, n, lam)
            diff = []
            if not all(xclose(z, o[1]) for z, o in zip(zs, r["off"])): diff.append("samples")
            exact = all(z == o[1] for z, o in zip(zs, r["off"]))
            stats["sampling_bit_exact"] += 1 if exact else 0
            if mu == 1: stats["elite_size_1"] += 1
            if all(o[1] == r["off"][0][1] for o in r["off"]): stats["identical_samples"] += 1
            stats["noise_zero" if cem_noise_py(r) == 0.0 else "noise_positive"] += 1
            if r["post"] is None:
                stats["selection_throws"] += 1
                if ru is not None or rs is not None: diff.append("model: no exception, implementation: exception")
            elif ru is None or rs is None:
                diff.append("model: exception, implementation: none")
            else:
                if any(v == 0.0 for v in r["post"]["var"]): stats["variance_zero_component"] += 1
                anytie = len(set(o[0] for o in r["off"])) < lam
                if r["ties"] and lam > 16: stats["tied_fitness_skipped"] += 1      # std::sort on > 16 elements is not stable
                else:
                    if anytie: stats["tied_fitness_compared"] += 1
                    for tag, res in (("update", ru), ("step", rs)):
                        if tag == "step" and not exact: continue      # the table oracle needs bit-exact samples (they are, see sampling_bit_exact)
                        if tag == "step" and res["miss"]: diff.append("step: sample not among the implementation's"); continue
                        if not xclose(res["mean"], r["post"]["mean"]): diff.append(tag + ":mean")
                        if not xclose(res["var"], r["post"]["var"]): diff.append(tag + ":variance")
                        if res["best"] != r["post"]["best"] or res["bestpt"] != r["post"]["bestpt"]: diff.append(tag + ":reported solution")
            if diff:
                ndis += 1
                if first is None: first = (cmd, st, diff, r, {"step": rs, "update": ru})
        if ndis and not nmon and not ck.violations:
            cmd, st, diff, r, mod = first
            cf = ck.write_replay("xcor_case.txt", cmd + "\n")
            ck.violation("correspondence-cem", {"case_file": cf, "case": [cmd], "step": st, "differs_in": diff, "model_output": mod, "implementation_output": r["post"], "record": r,
                                                "replay_cmd": "python3 tools/c11.py --replay %s" % cf, "broken": "correspondence C11DirectModel.cem_* vs CrossEntropyMethod::step"},
                         "correspondence C11DirectModel.cem_sample / cem_select_update / cem_step vs CrossEntropyMethod::step no longer checks (%s differ on %d steps; first: `%s` step %d); the spec monitors pass on every explored input"
                         % (",".join(diff), ndis, cmd, st), no_input=True)
        ck.oblige("correspondence C11DirectModel.cem_sample (draws read back) / cem_select_update (recorded samples) / cem_step (draws + table oracle) = CrossEntropyMethod::step at 1e-12 "
                  "(reported solution exactly, exception iff population <= selection size) on %d steps of %d runs; step() = sample+evaluate+select+counter+++update+best by hand exactly; "
                  "monitors: value = objective at closest feasible reported point, mean' = average of the elite, variance' = mean squared deviation + noise >= noise, "
                  "variance'_j = 0 only if noise = 0 and the elite agrees in coordinate j, elite unchanged on 4*fitness" % (len(recs), len(xcors)),
                  ndis == 0 and nmon == 0, "" if not (ndis or nmon) else "%d monitor failures, %d disagreements" % (nmon, ndis))
        ck.notes["xcor_steps"] = len(recs); ck.notes["xcor_case_counts"] = stats

    ck.cov["evaluations"] = evals
    ck.cov["distinct_nontrivial"] = len(nontrivial) + len(set(cors)) + len(set(ecors)) + len(set(pens)) + len(set(scors)) + len(set(ccors)) + len(set(vcors)) + len(set(chols)) + len(set(nms)) + len(set(xcors))
    ck.cov["rule"] = ("optimizer steps (RUN: 7 optimizer configurations x dimension 2..10 x population sizes / recombination types / initial sigmas / seeds / 7 objectives, each run four times (fresh, fresh again with the same seed, on 4*f, and on an object re-initialised after an earlier run): "
                      "twice with the same seed and once on 4*f), CMA updates replayed through the model (COR), ElitistCMA steps (ECOR), PenalizingEvaluator calls (P), "
                      "CMSA updates (SCOR), CMAChromosome updates inside ElitistCMA steps (CCOR) and VDCMA updates (VCOR) replayed through the model, direct Cholesky rank-one updates on exact inputs (CH), SimplexDownhill init/steps (NM: dimension 1..15 x 9 objectives incl. plateaus and constants x dyadic start points, each on f and 4*f) and CrossEntropyMethod steps (XCOR: population 2..50 x elite 1..population x initial variance 0..100 x 8 noise schedules x 10 objectives) replayed through the model; non-trivial = more than 2 steps; distinct = distinct command lines")
    ck.cov["samples"] = [runs[0][0] if runs else "", cors[0] if cors else "", ecors[0] if ecors else "", pens[0] if pens else "",
                         scors[0] if scors else "", ccors[0] if ccors else "", vcors[0] if vcors else "", chols[0] if chols else "", nms[0] if nms else "", xcors[0] if xcors else ""]
    ck.notes["failures_matching_known_findings"] = nknown[0]
    ck.notes["runs"] = len(runs); ck.notes["monitor_keys_reported"] = sorted(seen_keys)
    ck.finish()

if __name__ == "__main__":
    main()
