#!/bin/sh
# usage: seedtest.sh <worktree> <patch.diff> <check command...>
# applies the patch in the scratch worktree, runs the check against it (VERIF_REPO), undoes the patch
wt=$1; patch=$2; shift 2
git -C $wt checkout -q -- . && git -C $wt apply $patch || exit 2
VERIF_REPO=$wt "$@" 2>&1 | grep -v conda | grep "VIOLATION\|KNOWN\|\] \(ok\|FAIL\)\|->" | cut -c1-400 | head -12
git -C $wt checkout -q -- .
