#!/usr/bin/env python3
"""C02 — linear-system solvers and matrix decompositions satisfy their defining equations.
proofs (Properties_C02.v) + correspondence (extracted Q model vs remora solve()/decomposition classes, default
kernels and OpenBLAS bindings, exactly representable systems => equality) + spec monitors computed in
Python with exact rational arithmetic on the implementation's own output (residuals, L L^T, P A = L U,
Q D Q^T, Q^T Q, least-squares normal equations, inv(A)%B == solve).
Pivoted LU: the model (getrf_block/getrf_recursive/getrf/lu_solve of C02BlkModel.v) is compared EXACTLY (factor, pivot vector,
exception) on matrices whose whole run is exactly representable (gen_lu_exact: unique pivots, ties, singular), and with
pivots exact / factor 1e-12 on gen_lu_struct; blocked potrf (potrf_rec) incl. the return value and the matrix left behind
on matrices that are not positive definite.
Extension: pivoted Cholesky pstrf (op P: rank, matrix left behind, pivot vector), the semi-definite solver (S semi / Z semi) and
cholesky_decomposition::update (op U) are modelled (C02PstrfModel.v, C02SemiModel.v, C02UpdModel.v) and run next to the C++ on
every run: EXACTLY over Q on inputs built so that every square root is taken of the square of a power of two (reference runs in
the generator accept/reject candidates), and over IEEE doubles (the same extracted functions instantiated with OCaml floats, 1e-9)
on B B^T / random SPD inputs whose pivot order is separated from rounding noise.  potrf is compared through potrf_blocked2 (all four
(triangle, storage) pairs blocked: left-looking leaf C02BlkModel.potrf_rec, right-looking leaf C02RlModel.potrf_rec_rl), the LU class
with matrix right-hand sides through C02LUMatModel.lu_solve_m (two blocked trsm).
Conjugate gradient (op J: conjugate_gradient(eps, maxit) with explicit arguments; vector solve left/right, matrix solve left/right): model
C02CgModel.v over Q and over doubles.  A floating-point CG run is determined only up to its stopping threshold times ||A^-1||, and rounding
differences are amplified along the iteration, so only this is compared (j_close): runs with dyadic step lengths exactly; the first iterate
of the columns of the matrix version with the derived bound 4((3n+1) kappa + 2) u |x_1|; converged runs with the a-posteriori bound
|x - x'| <= (|b - A x| + |b - A x'|) / gap (residuals recomputed exactly, Varah bound for the generated diagonally dominant matrices,
condition <= 9).  Monitors (proved statements): true residual < eps (+ drift slack) after a return through the stopping rule; finite
termination (residual after n iterations, n <= 5); left/right solutions within the same a-posteriori bound.
Symmetric eigen-decomposition (op E): the WHOLE of kernels::syev is modelled as coded (C02SyevModel.v: Householder reduction, accumulation,
implicit QL, eigensort, normalisation) and compared through the instantiation with doubles (Q and D at 1e-9) on symmetric matrices with
well separated eigenvalues and on tridiagonal inputs; exactly on diagonal matrices; the intermediate tridiagonal matrix cannot be observed
in the C++ (one function), the proved part (the reduction step) is tied as a part of the whole."""
import os, sys, re, math
from fractions import Fraction as Fr
sys.path.insert(0, os.path.dirname(os.path.abspath(__file__)))
from vlib import *

PID = "C02"
EPS = 2.0 ** -52
TAGS = ["lower", "unit_lower", "upper", "unit_upper", "spd", "semi", "indef", "cg"]
EXACT_TAGS = TAGS[:5]                      # covered by the Q model
MODEL_KINDS = ("exact", "lustruct", "xlsq", "cgq") # xlsq: exact model comparison + normal equations exactly zero (rank-deficient semi-definite systems)
FMODEL_KINDS = ("fmodel", "flsq")          # case kinds the extracted model is run on OVER IEEE DOUBLES (driver line "F <case>"): square
                                           # roots are not rational there; integer results equal, values within F_TOL
F_TOL = Fr(1, 10 ** 9)
# cgq: conjugate gradient, model over Q (exact rationals) vs implementation (doubles): the step lengths are not dyadic, so the
# comparison is at F_TOL; small well-conditioned integer systems, iterates exposed one by one through max_iterations
LSQ_KINDS = ("lsq", "flsq", "xlsq")        # rank-deficient semi-definite systems: the monitor is the normal equations
PS_BS = 20                                 # block_size of kernels/default/pstrf.hpp
LU_TOL = Fr(1, 10 ** 12)
C_RES = 64.0                               # residual monitor: |Ax-b| <= C_RES * n * eps * (|A||x| + |b|)
BIG = [31, 32, 33, 40]                     # sizes around the blocking threshold 32 of trsm/potrf (rhs panel 16, getrf 4, pstrf 20)

# ---------------------------------------------------------------- number helpers
def tok(x):
    """case-file token of an exact rational with power-of-two denominator, or of a float"""
    if isinstance(x, float): return x.hex()
    x = Fr(x)
    return str(x.numerator) if x.denominator == 1 else "%d/%d" % (x.numerator, x.denominator)
def num(t):
    if "/" in t:
        p, q = t.split("/"); return Fr(int(p), int(q))
    if "x" in t or "X" in t: return Fr(float.fromhex(t))
    if t.lstrip("-") in ("nan", "inf"): raise ValueError("non-finite")
    return Fr(int(t))
def fl(m): return " ".join(tok(v) for r in m for v in r)
def mat(n, m, l): return [l[i * m:(i + 1) * m] for i in range(n)]
def mmul(a, b): return [[sum(a[i][k] * b[k][j] for k in range(len(b))) for j in range(len(b[0]))] for i in range(len(a))]
def tr(a): return [list(r) for r in zip(*a)] if a else []
def ninf(a): return max([sum(abs(v) for v in r) for r in a] + [0])
def amax(a): return max([abs(v) for r in a for v in r] + [0])
def groups(line): return [g.split() for g in line.split("|")]
def out_groups(o):
    t = o.split(" ", 2)
    if len(t) < 2 or t[1] != "OK": return None
    return [[num(x) for x in g.split()] for g in (t[2] if len(t) > 2 else "").split(";")]
def tri_of(tag, a):
    """the triangular matrix a triangular tag denotes: the named triangle of the stored matrix, unit diagonal if unit"""
    n = len(a); up = "upper" in tag; un = "unit" in tag
    return [[(Fr(1) if un else a[i][j]) if i == j else (a[i][j] if (i < j) == up else Fr(0)) for j in range(n)] for i in range(n)]

# ---------------------------------------------------------------- generators
def rint(rng, lo, hi): return Fr(rng.randint(lo, hi))
def gen_tri_exact(rng, n, tag):
    d = [Fr(1), Fr(2), Fr(4), Fr(1, 2), Fr(-1), Fr(-2), Fr(1, 4)]
    a = [[rint(rng, -3, 3) for _ in range(n)] for _ in range(n)]       # the other triangle is junk that must not be read
    for i in range(n): a[i][i] = rint(rng, -3, 3) if "unit" in tag else rng.choice(d)
    return a
def gen_spd_exact(rng, n):
    l = [[(rint(rng, -2, 2) if j < i else (rng.choice([Fr(1), Fr(2), Fr(4)]) if i == j else Fr(0))) for j in range(n)] for i in range(n)]
    return mmul(l, tr(l))
def householder(rng, n, a, left=True, right=True):
    v = [rng.gauss(0, 1) for _ in range(n)]; s = sum(x * x for x in v) or 1.0
    if left:   # a <- (I - 2vv'/s) a
        w = [sum(v[i] * a[i][j] for i in range(n)) for j in range(n)]
        a = [[a[i][j] - 2 * v[i] * w[j] / s for j in range(n)] for i in range(n)]
    if right:  # a <- a (I - 2vv'/s)
        w = [sum(a[i][j] * v[j] for j in range(n)) for i in range(n)]
        a = [[a[i][j] - 2 * w[i] * v[j] / s for j in range(n)] for i in range(n)]
    return a
def gen_float(rng, n, kind, cond):
    """kind: tri | spd | gen ; singular values log-uniform in [1/cond, 1]"""
    if kind == "tri":
        a = [[rng.uniform(-1, 1) / n for _ in range(n)] for _ in range(n)]
        for i in range(n): a[i][i] = rng.choice([-1, 1]) * rng.uniform(0.5, 2)
        return a
    ev = [math.exp(-rng.uniform(0, math.log(cond))) for _ in range(n)]
    if n > 1: ev[0] = 1.0; ev[-1] = 1.0 / cond
    if kind == "gen": ev = [e * rng.choice([-1, 1]) for e in ev]
    a = [[ev[i] if i == j else 0.0 for j in range(n)] for i in range(n)]
    for _ in range(min(n, 4) if n > 1 else 0):
        if kind == "spd":
            v = [rng.gauss(0, 1) for _ in range(n)]; s = sum(x * x for x in v)
            w = [sum(v[i] * a[i][j] for i in range(n)) for j in range(n)]
            a = [[a[i][j] - 2 * v[i] * w[j] / s for j in range(n)] for i in range(n)]
            w = [sum(a[i][j] * v[j] for j in range(n)) for i in range(n)]
            a = [[a[i][j] - 2 * w[i] * v[j] / s for j in range(n)] for i in range(n)]
        else:
            a = householder(rng, n, a, True, False); a = householder(rng, n, a, False, True)
    if kind == "spd": a = [[(a[i][j] + a[j][i]) / 2 for j in range(n)] for i in range(n)]
    return a
def gen_lu_struct(rng, n):
    """well-conditioned full-rank matrices on which the pivot SEARCH of the LU matters: (permuted) nearly triangular
    matrices with small-integer entries, mostly negative diagonal, and zero / negligible entries below it"""
    a = [[0.0] * n for _ in range(n)]
    for i in range(n):
        a[i][i] = float(rng.randint(1, 4)) * (-1.0 if rng.random() < 0.7 else 1.0)
        for j in range(i + 1, n): a[i][j] = float(rng.randint(-2, 2)) if rng.random() < 0.5 else 0.0
        for j in range(i): a[i][j] = rng.choice([0.0, 0.0, 0.0, 1e-17, -1e-17, 2.0 ** -70])
    if rng.random() < 0.4:
        perm = list(range(n)); rng.shuffle(perm); a = [a[k] for k in perm]
    return a
def py_getrf(a):
    """reference run of the unblocked partial-pivoting LU with the rule as coded (a later row wins only if strictly larger
    in absolute value), exact rationals; used by the GENERATOR only (to keep every intermediate value a small dyadic rational)"""
    a = [list(r) for r in a]; n = len(a); perm = []
    for j in range(n):
        p = j
        for i in range(j + 1, n):
            if abs(a[i][j]) > abs(a[p][j]): p = i
        if a[p][j] == 0: return None
        perm.append(p); a[j], a[p] = a[p], a[j]
        for i in range(j + 1, n):
            a[i][j] /= a[j][j]
            for k in range(j + 1, n): a[i][k] -= a[i][j] * a[j][k]
    return a, perm
def small_dyadic(v, bits=20):
    d = v.denominator
    return d & (d - 1) == 0 and d <= 2 ** bits and abs(v.numerator) <= 2 ** (bits + 10)
def gen_lu_exact(rng, n, ties=False, singular=False):
    """A = P^T L U with dyadic unit-lower L (|l| <= 1/2, or |l| = 1 where the tie rule matters), power-of-two pivots (one of them
    0 if singular): the partial-pivoting LU of A runs in exactly representable numbers, blocked or not"""
    for attempt in range(60):
        lv = [Fr(0), Fr(1, 2), Fr(-1, 2), Fr(1, 4), Fr(-1, 4)] + ([Fr(1), Fr(-1), Fr(1), Fr(-1)] if ties and attempt < 50 else [])
        l = [[(rng.choice(lv) if j < i else Fr(int(i == j))) for j in range(n)] for i in range(n)]
        u = [[(rint(rng, -2, 2) if j > i else (rng.choice([Fr(1), Fr(2), Fr(4), Fr(1, 2), Fr(-1), Fr(-2)]) if i == j else Fr(0))) for j in range(n)] for i in range(n)]
        if singular:
            k = rng.randrange(n); u[k][k] = Fr(0)
        a = mmul(l, u); perm = list(range(n)); rng.shuffle(perm); a = [a[k] for k in perm]
        r = py_getrf(a)
        if r is None:
            if singular: return a
            continue
        if not singular and all(small_dyadic(v) for row in r[0] for v in row): return a
    raise RuntimeError("gen_lu_exact: no representable sample")
def ldl_pd(a):
    """exact test for positive definiteness (square-root free LDL^T); returns 0 or the 1-based index of the first pivot <= 0"""
    n = len(a); l = [[Fr(0)] * n for _ in range(n)]; d = [Fr(0)] * n
    for j in range(n):
        d[j] = a[j][j] - sum(l[j][k] * l[j][k] * d[k] for k in range(j))
        if d[j] <= 0: return j + 1
        for i in range(j + 1, n): l[i][j] = (a[i][j] - sum(l[i][k] * l[j][k] * d[k] for k in range(j))) / d[j]
    return 0
def gen_semi_deficient(rng, n):
    # property quantifier: rank deficiencies 0..n-1, i.e. rank >= 1 (the zero matrix is outside; see report)
    if n == 1: return [[Fr(rng.choice([1, 2, 4]))]], 1
    r = rng.randint(1, n - 1)
    while True:
        g = [[rint(rng, -2, 2) for _ in range(r)] for _ in range(n)]
        a = mmul(g, tr(g)) if r else [[Fr(0)] * n for _ in range(n)]
        if r == 0 or rank_of(a) == r: return a, r
def rank_of(a):
    a = [list(r) for r in a]; n = len(a); rk = 0
    for c in range(n):
        p = next((i for i in range(rk, n) if a[i][c] != 0), None)
        if p is None: continue
        a[rk], a[p] = a[p], a[rk]
        for i in range(rk + 1, n):
            f = a[i][c] / a[rk][c]
            if f: a[i] = [x - f * y for x, y in zip(a[i], a[rk])]
        rk += 1
    return rk


# ---------------------------------------------------------------- pivoted Cholesky: exactly representable runs
def fr_sqrt(x):
    """exact square root of a rational that is a perfect square, else None"""
    x = Fr(x)
    if x < 0: return None
    rp, rq = math.isqrt(x.numerator), math.isqrt(x.denominator)
    return Fr(rp, rq) if rp * rp == x.numerator and rq * rq == x.denominator else None
def py_pstrf(a, bs=PS_BS):
    """reference run in exact rationals of the pivoted Cholesky as coded (threshold, first-largest pivot, symmetric swap, lazy
    column update inside a block, trailing update after it).  Used by the GENERATOR only, to accept matrices on which every
    pivot has an exact square root; returns None otherwise, else (rank, matrix left behind, pivot vector)"""
    n = len(a); a = [list(r) for r in a]; perm = list(range(n)); pv = [Fr(0)] * n
    md = a[0][0]
    for i in range(1, n): md = max(md, abs(a[i][i]))
    eps = n * n * Fr(EPS) * md
    for k in range(0, n, bs):
        cs = min(n - k, bs)
        for j in range(cs):
            c = k + j
            if j == 0:
                for i in range(k, n): pv[i] = a[i][i]
            else:
                for i in range(c, n): pv[i] -= a[i][c - 1] ** 2
            p = c
            for i in range(c + 1, n):
                if pv[p] < pv[i]: p = i
            if p != c:
                perm[c] = p; a[c], a[p] = a[p], a[c]
                for row in a: row[c], row[p] = row[p], row[c]
                pv[c], pv[p] = pv[p], pv[c]
            if pv[c] <= eps:
                for i in range(c, n):
                    for jj in range(c, n): a[i][jj] = Fr(0)
                return c, a, perm
            d = fr_sqrt(pv[c])
            if d is None: return None
            a[c][c] = d
            for i in range(c + 1, n): a[i][c] = (a[i][c] - sum(a[i][t] * a[c][t] for t in range(k, c))) / d
            for jj in range(c + 1, n): a[c][jj] = Fr(0)
        if k + cs < n:
            e = k + bs
            upd = [[sum(a[i][t] * a[j][t] for t in range(k, e)) for j in range(e, n)] for i in range(e, n)]
            for i in range(e, n):
                for j in range(e, n): a[i][j] -= upd[i - e][j - e]
    return n, a, perm
def gen_ps_factor(rng, n, r, ties=False, zero_tail=False):
    """lower-trapezoidal n x r factor L, power-of-two diagonal (non-increasing), such that the pivoted Cholesky of L L^T meets
    exactly the pivots d_c^2: for every row i and column c < i the tail sum_{u >= c} L_iu^2 is <= d_c^2 (equality = a pivot tie)"""
    ds = sorted([rng.choice([1, 2, 2, 4]) for _ in range(r)], reverse=True)
    L = [[Fr(0)] * r for _ in range(n)]
    vals = [Fr(0), Fr(1), Fr(-1), Fr(2), Fr(-2), Fr(1, 2), Fr(-1, 2), Fr(3), Fr(-3)]
    for i in range(n):
        s = Fr(0)
        if i < r: L[i][i] = Fr(ds[i]); s = Fr(ds[i]) ** 2
        elif zero_tail: continue
        for u in range(min(i, r) - 1, -1, -1):
            cap = Fr(ds[u]) ** 2 - s
            cands = [v for v in vals if v * v <= cap]
            if ties and rng.random() < 0.5: cands = [v for v in cands if v * v == max(w * w for w in cands)]
            L[i][u] = rng.choice(cands); s += L[i][u] ** 2
    return L
def gen_pstrf_exact(rng, n, r, ties=False, zero_tail=False):
    """symmetric positive semi-definite matrix of rank r on which the whole run of pstrf is exactly representable"""
    for attempt in range(20):
        L = gen_ps_factor(rng, n, r, ties, zero_tail)
        a = mmul(L, tr(L)) if r else [[Fr(0)] * n for _ in range(n)]
        if attempt < 15 and rng.random() < 0.8:
            perm = list(range(n)); rng.shuffle(perm); a = [[a[perm[i]][perm[j]] for j in range(n)] for i in range(n)]
        ref = py_pstrf(a)
        if ref is not None and ref[0] == r and all(small_dyadic(v) for row in ref[1] for v in row): return a
    raise RuntimeError("gen_pstrf_exact: no representable sample")
def ps_separated(a, gap=Fr(1, 10 ** 6)):
    """exact (square-root free) pivoted elimination: True if at every stage the largest Schur-complement diagonal entry is
    unique by a relative margin, and the matrix has rank n or n-1 -- then rounding cannot change the pivot order, and at a
    stop there is a single candidate (otherwise the last swap before the stop is decided by rounding noise)"""
    n = len(a); s = [list(r) for r in a]; idx = list(range(n))
    for c in range(n):
        d = sorted((s[i][i] for i in idx), reverse=True)
        if d[0] <= 0: return len(idx) <= 1 and d[0] == 0
        if len(d) > 1 and d[0] - d[1] < gap * d[0]: return False
        p = next(i for i in idx if s[i][i] == d[0]); idx.remove(p)
        col = [s[i][p] for i in range(n)]
        for i in idx:
            for j in idx: s[i][j] -= col[i] * col[j] / d[0]
    return True
def gen_bbt(rng, n, r, separated=False):
    """B B^T with a small-integer n x r matrix B (rank <= r; the pivots are not perfect squares in general)"""
    while True:
        b = [[rint(rng, -3, 3) for _ in range(r)] for _ in range(n)]
        a = mmul(b, tr(b)) if r else [[Fr(0)] * n for _ in range(n)]
        if not separated or ps_separated(a): return a
# ---------------------------------------------------------------- Cholesky rank-one update: exactly representable runs
def pow2(d): d = Fr(d); return d > 0 and (d.numerator == 1 or d.denominator == 1) and (d.numerator * d.denominator) & (d.numerator * d.denominator - 1) == 0
def gen_update_exact(rng, n, throw=False):
    """(alpha, beta, A = L L^T, v) such that every square root of cholesky_decomposition::update is taken of the square of a power
    of two and every intermediate value is a small dyadic rational: v is built column by column along an exact reference run of the
    update as coded (GENERATOR only).  throw=True: the last component makes x <= 0 (the documented exception)"""
    for attempt in range(50):
        L = [[(rint(rng, -2, 2) if j < i else (rng.choice([Fr(1), Fr(2), Fr(4)]) if i == j else Fr(0))) for j in range(n)] for i in range(n)]
        alpha = rng.choice([Fr(1), Fr(4), Fr(1, 4), Fr(16)]); a = fr_sqrt(alpha)
        beta = rng.choice([Fr(3), Fr(3), Fr(-3, 4), Fr(12), Fr(3, 4), Fr(1), Fr(15), Fr(-1)])
        v = [None] * n; bp = Fr(1); ok = True
        # temp(j) at its turn = v(j) - corr(j), corr = the corrections of the earlier columns (they read column j of the ORIGINAL factor)
        corr = [Fr(0)] * n
        for j in range(n):
            ljj = a * L[j][j]; dj = ljj * ljj
            cands = []
            for vj in [Fr(k, q) for q in (1, 2) for k in range(-16, 17)]:
                wj = vj - corr[j]; x = dj + beta * wj * wj / bp
                if throw and j == n - 1:
                    if x <= 0: cands.append((vj, wj, x))
                elif x > 0 and fr_sqrt(x) is not None and pow2(fr_sqrt(x)): cands.append((vj, wj, x))
            nz = [c for c in cands if c[1] != 0]
            if nz and rng.random() < 0.8: cands = nz
            if not cands: ok = False; break
            vj, wj, x = rng.choice(cands); v[j] = vj
            for i in range(j + 1, n): corr[i] += (wj / ljj) * (L[i][j] * a)
            bp = bp + beta * wj * wj / dj
        if not ok: continue
        # exact reference run with the chosen v to validate representability (and that the last step throws iff asked)
        ref = py_chol_update(alpha, beta, L, v)
        if throw: 
            if ref is None: return alpha, beta, mmul(L, tr(L)), v
            continue
        if ref is not None and all(small_dyadic(x) for r in ref for x in r): return alpha, beta, mmul(L, tr(L)), v
    raise RuntimeError("gen_update_exact: no representable sample")
def py_chol_update(alpha, beta, L, v):
    """exact reference run of update as coded; None if it throws or a square root is not exact"""
    n = len(v); L = [list(r) for r in L]
    a = fr_sqrt(alpha)
    if a is None: return None
    if beta == 0: return [[x * a for x in r] for r in L]
    temp = list(v); bp = Fr(1)
    for j in range(n):
        ljj = a * L[j][j]; dj = ljj * ljj; wj = temp[j]; s2 = beta * wj * wj; gamma = dj * bp + s2
        x = dj + s2 / bp
        if x <= 0: return None
        nl = fr_sqrt(x)
        if nl is None or not pow2(nl): return None
        L[j][j] = nl; bp += s2 / dj
        for i in range(j + 1, n):
            L[i][j] *= a; temp[i] -= (wj / ljj) * L[i][j]
            if gamma != 0: L[i][j] = L[i][j] * (nl / ljj) + (nl * beta * wj / gamma) * temp[i]
    return L
def gen_U_cases(rng, big):
    cases = []
    for ao in "rc":
        cases.append(("exact", "U %s 2 1 3 | 1 0 0 4 | 1 4" % ao)); cases.append(("exact", "U %s 2 1 -1 | 1 0 0 4 | 2 0" % ao))
        cases.append(("exact", "U %s 2 4 0 | 1 0 0 4 | 2 0" % ao)); cases.append(("exact", "U %s 1 4 12 | 1 | 1" % ao))
        for n in [rng.randint(1, 10) for _ in range(5 if not big else 14)] + [rng.choice([33, 36])]:
            al, be, a, v = gen_update_exact(rng, n)
            cases.append(("exact", "U %s %d %s %s | %s | %s" % (ao, n, tok(al), tok(be), fl(a), fl([v]))))
        for n in [rng.randint(1, 8) for _ in range(2 if not big else 6)]:
            al, be, a, v = gen_update_exact(rng, n, throw=True)
            cases.append(("exact", "U %s %d %s %s | %s | %s" % (ao, n, tok(al), tok(be), fl(a), fl([v]))))
        for n in [rng.randint(1, 10) for _ in range(2 if not big else 6)]:      # beta == 0: the whole factor is scaled by sqrt(alpha)
            cases.append(("exact", "U %s %d %s 0 | %s | %s" % (ao, n, tok(rng.choice([Fr(4), Fr(1, 4), Fr(16), Fr(1)])), fl(gen_spd_exact(rng, n)), fl([[rint(rng, -3, 3) for _ in range(n)]]))))
        for n in [rng.randint(1, 12) for _ in range(4 if not big else 12)] + [rng.choice([33, 40])]:
            a2 = gen_float(rng, n, "spd", 100.0); v = [rng.uniform(-1, 1) for _ in range(n)]
            if rng.random() < 0.3:
                z = rng.randint(1, n); v[:z] = [0.0] * z
            alpha = rng.choice([1.0, 0.5, 2.0, rng.uniform(0.1, 3)]); beta = rng.choice([1.0, rng.uniform(0.1, 2), 0.0, -1e-3 * min(a2[i][i] for i in range(n)), -100.0])
            cases.append(("fmodel", "U %s %d %s %s | %s | %s" % (ao, n, tok(alpha), tok(beta), fl(a2), fl([v]))))
    return cases
# ---------------------------------------------------------------- conjugate gradient (op J: explicit epsilon and max_iterations)
U_ROUND = Fr(1, 2 ** 53)                   # unit roundoff of IEEE double
def gen_dd(rng, n, floats=False, near_identity=False):
    """symmetric strictly diagonally dominant matrix with CONSTANT diagonal D >= max_i R_i / 0.8 (R_i = off-diagonal absolute row sum):
    by Gershgorin every eigenvalue lies in [0.2 D, 1.8 D], so the matrix is positive definite with condition number <= 9, and
    ||A^-1||_inf <= 1 / min_i (a_ii - R_i) (Varah)"""
    if near_identity:           # A ~ I: the start vector x0 = b of the vector version is better than 0
        a = [[Fr(0)] * n for _ in range(n)]
        for i in range(n):
            for j in range(i): a[i][j] = a[j][i] = Fr(rng.randint(-1, 1), 8)
        for i in range(n): a[i][i] = Fr(1)
        return a
    a = [[0.0 if floats else Fr(0)] * n for _ in range(n)]
    for i in range(n):
        for j in range(i): a[i][j] = a[j][i] = (rng.uniform(-1, 1) if floats else rint(rng, -1, 1))
    rmax = max(sum(abs(a[i][j]) for j in range(n) if j != i) for i in range(n))
    d = (float(rmax) / 0.8 * (1 + 0.25 * rng.random()) + 0.5) if floats else Fr(max(1, math.ceil(Fr(rmax) * 5 / 4)) + rng.randint(0, 2))
    for i in range(n): a[i][i] = d
    return a
def dd_gap(a):
    """min_i (a_ii - sum_{j != i} |a_ij|); > 0 iff strictly diagonally dominant with positive diagonal"""
    n = len(a); return min(a[i][i] - sum(abs(a[i][j]) for j in range(n) if j != i) for i in range(n))
def J_line(ao, n, m, eps, maxit, a, b): return "J %s %d %d %s %d | %s | %s" % (ao, n, m, tok(eps), maxit, fl(a), fl(b))
def gen_J_cases(rng, big):
    """conjugate gradient with explicit (eps, maxit).  What is compared / monitored is restricted to what is determined up to rounding:
    exact runs (dyadic step lengths) exactly; the FIRST iterate of the columns of the matrix version (start 0, r0 = b exact) with a derived
    rounding bound; converged runs (maxit = 0) with the a-posteriori bound |x - x'| <= ||A^-1||_inf (|b - A x| + |b - A x'|) (exact
    residuals, Varah bound) and the residual test of the proved stopping guarantee; maxit = n on condition <= 9, n <= 5: finite termination.
    Later iterates of a floating-point CG run are NOT determined up to rounding (the rounding errors are amplified along the iteration)
    and are not compared."""
    cases = []; eps = Fr(1, 2 ** 30)
    for ao in "rc":
        # exactly representable runs: one step (A = 2^k I; right-hand side an eigenvector), zero right-hand side, x0 = b already solves
        cases.append(("exact", J_line(ao, 3, 2, eps, 0, [[4, 0, 0], [0, 4, 0], [0, 0, 4]], [[4, 8], [-4, 0], [12, 4]])))
        cases.append(("exact", J_line(ao, 2, 1, eps, 0, [[1, 0], [0, 1]], [[3], [5]])))
        cases.append(("exact", J_line(ao, 2, 2, eps, 0, [[2, 1], [1, 2]], [[0, 0], [0, 0]])))
        cases.append(("exact", J_line(ao, 2, 1, eps, 0, [[3, 1], [1, 3]], [[2], [2]])))          # eigenvector (1,1), eigenvalue 4: alpha = 1/4
        cases.append(("exact", J_line(ao, 2, 1, eps, 3, [[2, 0], [0, 8]], [[2], [0]])))
        cases.append(("exact", J_line(ao, 2, 1, eps, 1, [[1, 0], [0, 4]], [[2], [1]])))          # alpha_0 = 5/8 dyadic: x_1 = (5/4, 5/8) exactly
        for n in [rng.randint(1, 5) for _ in range(4 if not big else 12)]:
            a = gen_dd(rng, n, near_identity=(n > 1 and rng.random() < 0.3)); m = rng.choice([1, 2, 3])
            b = [[rint(rng, -4, 4) for _ in range(m)] for _ in range(n)]
            for k in (1, n, 0):
                cases.append(("cgq", J_line(ao, n, m, eps, k, a, b)))
        for n in [rng.randint(2, 12) for _ in range(3 if not big else 8)]:
            a = gen_dd(rng, n, floats=True); m = rng.choice([1, 2])
            b = [[rng.uniform(-1, 1) for _ in range(m)] for _ in range(n)]
            for k in (1, 0):
                cases.append(("fmodel", J_line(ao, n, m, 1e-10, k, a, b)))
    return cases
# ---------------------------------------------------------------- symmetric eigen-decomposition through the model of kernels::syev
def gen_E_cases(rng, big):
    """exact: diagonal matrices (no rotation, sorting and normalisation only), n = 1; double model: symmetric matrices with well
    separated eigenvalues (distinct integers), so that the eigenvectors are well conditioned"""
    cases = []
    for ao in "rc":
        cases.append(("exact", "E %s 1 | 5" % ao)); cases.append(("exact", "E %s 3 | 2 0 0 0 -1 0 0 0 7" % ao))
        cases.append(("exact", "E %s 4 | 1 0 0 0 0 1 0 0 0 0 3 0 0 0 0 -2" % ao))
        for n in [rng.randint(2, 10) for _ in range(4 if not big else 12)] + [rng.choice([13, 17])]:
            ev = rng.sample(range(-3 * n, 3 * n + 1), n)
            a = [[float(ev[i]) if i == j else 0.0 for j in range(n)] for i in range(n)]
            for _ in range(3): a = householder(rng, n, a, True, True)
            cases.append(("fmodel", "E %s %d | %s" % (ao, n, fl(symm(a)))))
            # exactly tridiagonal input (scale of the rows above the sub-diagonal is 0 for i = 1 only) and a matrix with zero rows
            t = [[0.0] * n for _ in range(n)]
            for i in range(n):
                t[i][i] = float(ev[i])
                if i + 1 < n: t[i][i + 1] = t[i + 1][i] = rng.choice([1.0, -0.5, 0.25])
            cases.append(("fmodel", "E %s %d | %s" % (ao, n, fl(t))))
    return cases
def gen_P_cases(rng, big):
    """streams aimed at the case splits of the pstrf proofs: rank 0, rank n, pivot ties, no swap needed / swap needed, zero trailing
    block, sizes crossing the panel width 20 (and 40)"""
    cases = []
    for ao in "rc":
        cases.append(("exact", "P %s 1 | 0" % ao)); cases.append(("exact", "P %s 1 | 4" % ao))
        cases.append(("exact", "P %s 3 | 0 0 0 0 0 0 0 0 0" % ao))
        cases.append(("exact", "P %s 2 | 1 0 0 4" % ao)); cases.append(("exact", "P %s 2 | 4 4 4 4" % ao))
        sizes = [(n, rng.randint(0, n)) for n in [rng.randint(2, 12) for _ in range(6 if not big else 16)]]
        sizes += [(n, n) for n in (rng.randint(2, 12), 20, 21)] + [(n, rng.choice([n - 1, n - 2, 19, 20, 21])) for n in ((19, 20, 21, 22, 25, 41) if big else (20, 21, rng.choice([19, 25, 41])))]
        for (n, r) in sizes:
            r = max(0, min(n, r))
            cases.append(("exact", "P %s %d | %s" % (ao, n, fl(gen_pstrf_exact(rng, n, r, ties=rng.random() < 0.4, zero_tail=rng.random() < 0.25)))))
        for n in [rng.randint(2, 10) for _ in range(4 if not big else 12)] + [rng.choice([21, 24])]:
            r = rng.choice([n, n - 1])
            cases.append(("fmodel", "P %s %d | %s" % (ao, n, fl(gen_bbt(rng, n, r, separated=True)))))
            cases.append(("fmodel", "P %s %d | %s" % (ao, n, fl(gen_float(rng, n, "spd", 10.0 ** rng.choice([0, 2, 4]))))))
    return cases

def S_line(tag, side, ao, rhs, bo, n, m, a, b): return "S %s %s %s %s %s %d %d | %s | %s" % (tag, side, ao, rhs, bo, n, m, fl(a), fl(b))

# ---------------------------------------------------------------- semi-definite solver: exactly representable runs
def chol_exact(g):
    """Cholesky factor in exact rationals if every pivot is a perfect square with a power-of-two root and every entry is a small
    dyadic rational, else None (GENERATOR only)"""
    n = len(g); l = [[Fr(0)] * n for _ in range(n)]
    for j in range(n):
        s = g[j][j] - sum(l[j][k] ** 2 for k in range(j))
        if s <= 0: return None
        d = fr_sqrt(s)
        if d is None or d.numerator != 1 and d.denominator != 1 or (d.numerator * d.denominator) & (d.numerator * d.denominator - 1): return None
        l[j][j] = d
        for i in range(j + 1, n): l[i][j] = (g[i][j] - sum(l[i][k] * l[j][k] for k in range(j))) / d
    return l if all(small_dyadic(v) for row in l for v in row) else None
def semi_run_exact(a):
    """True if the whole constructor of symm_pos_semi_definite_solver runs in exactly representable numbers on a: pstrf, and (rank
    deficient case) the Cholesky factorisation of L^T L with power-of-two pivots"""
    n = len(a); ref = py_pstrf(a)
    if ref is None or not all(small_dyadic(v) for row in ref[1] for v in row): return None
    r = ref[0]
    if any(ref[1][t][t].numerator != 1 and ref[1][t][t].denominator != 1 for t in range(r)): return None
    if 0 < r < n:
        lr = [row[:r] for row in ref[1]]
        if chol_exact(mmul(tr(lr), lr)) is None: return None
    return r
def rank1_block(rng, m):
    """vector l of length m with max |l_i| a power of two and |l|^2 in {1,4,16,64}: the block l l^T has an exactly representable run"""
    while True:
        l = [rng.choice([Fr(0), Fr(1), Fr(-1), Fr(1), Fr(2), Fr(-2), Fr(1, 2), Fr(4)]) for _ in range(m)]
        s = sum(v * v for v in l); mx = max(abs(v) for v in l)
        if s in (1, 4, 16, 64) and mx in (Fr(1, 2), 1, 2, 4): return l
def gen_semi_exact(rng, n, r, tries=1500):
    """rank-r positive semi-definite matrix on which pstrf AND the Cholesky factorisation of L^T L are exactly representable.
    First a random search for factors with a NON-diagonal L^T L, then the block-diagonal family (rank-one blocks l l^T, zero
    blocks; L^T L diagonal), symmetrically permuted"""
    if r == 0: return [[Fr(0)] * n for _ in range(n)]
    if r == n: return gen_pstrf_exact(rng, n, n, ties=rng.random() < 0.3)
    for _ in range(tries if n <= 8 else 0):
        L = gen_ps_factor(rng, n, r, ties=rng.random() < 0.3)
        g = mmul(tr(L), L)
        if all(g[i][j] == 0 for i in range(r) for j in range(i)): continue
        if chol_exact(g) is None: continue
        a = mmul(L, tr(L))
        perm = list(range(n)); rng.shuffle(perm); ap = [[a[perm[i]][perm[j]] for j in range(n)] for i in range(n)]
        for cand in (ap, a):
            if semi_run_exact(cand) == r: return cand
    for attempt in range(200):
        # r non-zero blocks with sizes summing to at most n, the rest zero rows
        sizes = [1] * r; extra = n - r
        zero_rows = rng.randint(0, extra) if rng.random() < 0.5 else 0
        for _ in range(extra - zero_rows): sizes[rng.randrange(r)] += 1
        a = [[Fr(0)] * n for _ in range(n)]; pos = 0
        for m in sizes:
            l = rank1_block(rng, m)
            for i in range(m):
                for j in range(m): a[pos + i][pos + j] = l[i] * l[j]
            pos += m
        perm = list(range(n)); rng.shuffle(perm); a = [[a[perm[i]][perm[j]] for j in range(n)] for i in range(n)]
        if semi_run_exact(a) == r: return a
    raise RuntimeError("gen_semi_exact: no representable sample")
def gen_semi_cases(rng, big):
    """symm_semi_pos_def solves: exact stream (model over Q, equality; normal equations exactly zero; right-hand sides in the
    range of A give A x = b exactly), float-model stream (B B^T with small integer B, model over doubles, 1e-9)"""
    cases = []
    combos = [(s, ao, rhs, bo) for s in "LR" for ao in "rc" for rhs, bo in (("v", "r"), ("m", "r"), ("m", "c"))]
    for ci, (s, ao, rhs, bo) in enumerate(combos):
        ns = [rng.randint(1, 9) for _ in range(2 if not big else 6)] + ([rng.choice([21, 24])] if (big or ci % 4 == 0) else [])
        for n in ns:
            r = rng.choice([0, n, rng.randint(0, n), max(n - 1, 0), 1])
            r = min(r, n)
            a = gen_semi_exact(rng, n, r)
            m = 1 if rhs == "v" else rng.choice([1, 2, 3])
            shape = (n, m) if s == "L" else (m, n)
            inrange = rng.random() < 0.4
            if inrange:
                w = [[rint(rng, -3, 3) for _ in range(shape[1])] for _ in range(shape[0])]
                b = mmul(a, w) if s == "L" else mmul(w, a)
            else:
                b = [[rint(rng, -4, 4) * 4 for _ in range(shape[1])] for _ in range(shape[0])]
            if rhs == "v": b = [[v for row in b for v in row]]
            cases.append(("exact" if inrange else "xlsq", S_line("semi", s, ao, rhs, bo, n, m, a, b)))
        for n in [rng.randint(2, 8) for _ in range(1 if not big else 4)]:
            a, _ = gen_semi_deficient(rng, n)
            m = 1 if rhs == "v" else rng.choice([1, 2])
            shape = (n, m) if s == "L" else (m, n)
            b = [[rint(rng, -3, 3) for _ in range(shape[1])] for _ in range(shape[0])]
            if rhs == "v": b = [[v for row in b for v in row]]
            cases.append(("flsq", S_line("semi", s, ao, rhs, bo, n, m, a, b)))
    for ao in "rc":
        for n in [rng.randint(2, 9) for _ in range(3 if not big else 8)] + [21]:
            r = rng.randint(0, n - 1); a = gen_semi_exact(rng, n, r); m = rng.choice([1, 2, 3])
            b = [[rint(rng, -4, 4) * 4 for _ in range(m)] for _ in range(n)]
            cases.append(("xlsq", "Z semi %s %d %d | %s | %s" % (ao, n, m, fl(a), fl(b))))
        for n in [rng.randint(2, 8) for _ in range(2 if not big else 6)]:
            a, _ = gen_semi_deficient(rng, n); m = rng.choice([1, 2])
            b = [[rint(rng, -3, 3) for _ in range(m)] for _ in range(n)]
            cases.append(("flsq", "Z semi %s %d %d | %s | %s" % (ao, n, m, fl(a), fl(b))))
    return cases

def gen_S_exact(rng, tag, side, ao, rhs, bo, n):
    m = 1 if rhs == "v" else rng.choice([1, 2, 3, 5, 17] if n <= 12 else [2, 17, 33])
    a = gen_spd_exact(rng, n) if tag == "spd" else (gen_lu_exact(rng, n, ties=rng.random() < 0.3) if tag == "indef" else gen_tri_exact(rng, n, tag))
    t = a if tag in ("spd", "indef") else tri_of(tag, a)
    if side == "L":
        x = [[rint(rng, -4, 4) for _ in range(m)] for _ in range(n)]; b = mmul(t, x)
    else:
        x = [[rint(rng, -4, 4) for _ in range(n)] for _ in range(m)]; b = mmul(x, t)
    if rhs == "v": b = [[v for r in b for v in r]]
    return S_line(tag, side, ao, rhs, bo, n, m, a, b)

def gen_S_float(rng, tag, side, ao, rhs, bo, n, deficient=False):
    m = 1 if rhs == "v" else rng.choice([1, 2, 3, 5, 17])
    cond = 10.0 ** rng.choice([0, 1, 2, 4, 6, 8])
    if tag in TAGS[:4]: a = gen_float(rng, n, "tri", 1)
    elif tag == "indef": a = gen_lu_struct(rng, n) if (n <= 12 and rng.random() < 0.4) else gen_float(rng, n, "gen", cond)
    elif tag == "cg": a = gen_float(rng, n, "spd", min(cond, 1e3))
    elif deficient: a, _ = gen_semi_deficient(rng, n)
    else: a = gen_float(rng, n, "spd", cond)
    shape = (n, m) if side == "L" else (m, n)
    b = [[rng.uniform(-1, 1) if not deficient else rint(rng, -3, 3) for _ in range(shape[1])] for _ in range(shape[0])]
    if rhs == "v": b = [[v for r in b for v in r]]
    return S_line(tag, side, ao, rhs, bo, n, m, a, b)


def gen_X_cases(rng, big):
    """the same solution through different expression forms: chained products with an unevaluated solve / inv (rewrite rules of
    solve.hpp), and solves on a square VIEW into a larger stored matrix (leading dimension != n; CBLAS bindings)"""
    cases = []
    reps = 2 if not big else 8
    for tag in TAGS:
        for ao in "rc":
            for bo in "rc":
                for _ in range(reps):
                    n = rng.choice([1, 2, 3, 4, 5, 7, 9, 12] + ([17, 24, 33] if big or rng.random() < 0.2 else []))
                    m = rng.choice([1, 2, 3, 4]); off = rng.choice([0, 1, 2, 5])
                    if tag in EXACT_TAGS or tag == "indef":
                        a = gen_spd_exact(rng, n) if tag == "spd" else (gen_lu_exact(rng, n) if tag == "indef" else gen_tri_exact(rng, n, tag))
                        t = a if tag in ("spd", "indef") else tri_of(tag, a)
                        b = mmul(t, [[rint(rng, -3, 3) for _ in range(m)] for _ in range(n)])
                        c = [rint(rng, -2, 2) for _ in range(m)]
                        # right-hand side vector solvable exactly from BOTH sides only for symmetric A; use an image of t and of t^T summed? keep it simple: b1 = t x
                        b1 = [r[0] for r in mmul(t, [[rint(rng, -3, 3)] for _ in range(n)])]
                        kind = "chainx"
                    else:
                        a = gen_float(rng, n, "spd", 100.0)
                        b = [[rng.uniform(-1, 1) for _ in range(m)] for _ in range(n)]; c = [rng.uniform(-1, 1) for _ in range(m)]
                        b1 = [rng.uniform(-1, 1) for _ in range(n)]
                        kind = "chainf"
                    cases.append((kind, "X %s %s %s %d %d %d | %s | %s | %s | %s" % (tag, ao, bo, n, m, off, fl(a), fl(b), fl([c]), fl([b1]))))
    return cases

def gen_Y_cases(rng, big):
    """accumulating forms: noalias(X) += / -= solve(A,B,tag,side), X0 + solve(...), += inv(A) % B / B % inv(A), matrix and vector
    right-hand sides, both sides: the value added must be the solution the plain assignment gives"""
    cases = []
    reps = 1 if not big else 5
    for tag in TAGS:
        for ao in "rc":
            for bo in "rc":
                for _ in range(reps):
                    n = rng.choice([1, 2, 3, 4, 5, 7, 9] + ([17, 24, 33] if big or rng.random() < 0.15 else []))
                    m = rng.choice([1, 2, 3, 4, n])          # m = n: square right-hand side (a wrong SIDE then still has a fitting shape)
                    if tag in EXACT_TAGS or tag == "indef":
                        a = gen_spd_exact(rng, n) if tag == "spd" else (gen_lu_exact(rng, n) if tag == "indef" else gen_tri_exact(rng, n, tag))
                        t = a if tag in ("spd", "indef") else tri_of(tag, a)
                        b = mmul(t, [[rint(rng, -3, 3) for _ in range(m)] for _ in range(n)])
                        cm = mmul([[rint(rng, -3, 3) for _ in range(n)] for _ in range(m)], t)
                        x0 = [[rint(rng, -4, 4) for _ in range(m)] for _ in range(n)]; y0 = [[rint(rng, -4, 4) for _ in range(n)] for _ in range(m)]
                        # one vector that is solvable exactly from the left: b1 = t x; from the right the result is compared at 1e-9
                        b1 = [r[0] for r in mmul(t, [[rint(rng, -3, 3)] for _ in range(n)])]
                        v0 = [rint(rng, -4, 4) for _ in range(n)]
                        kind = "accx"
                    else:
                        a = gen_float(rng, n, "spd", 100.0)
                        b = [[rng.uniform(-1, 1) for _ in range(m)] for _ in range(n)]; cm = [[rng.uniform(-1, 1) for _ in range(n)] for _ in range(m)]
                        x0 = [[rng.uniform(-2, 2) for _ in range(m)] for _ in range(n)]; y0 = [[rng.uniform(-2, 2) for _ in range(n)] for _ in range(m)]
                        b1 = [rng.uniform(-1, 1) for _ in range(n)]; v0 = [rng.uniform(-2, 2) for _ in range(n)]
                        kind = "accf"
                    cases.append((kind, "Y %s %s %s %d %d | %s | %s | %s | %s | %s | %s | %s" % (tag, ao, bo, n, m, fl(a), fl(b), fl(cm), fl(x0), fl(y0), fl([b1]), fl([v0]))))
    return cases

def gen_cases(rng, tier):
    big = tier == "thorough"
    small = list(range(1, 13))
    cases = []
    # fixed trivial systems of every documented kind: identity matrix, and a zero right-hand side
    for tag in TAGS:
        for s in "LR":
            cases.append(("exact", "S %s %s r v r 3 1 | 1 0 0 0 1 0 0 0 1 | 1 2 3" % (tag, s)))
            cases.append(("exact", "S %s %s c m r 3 2 | 1 0 0 0 1 0 0 0 1 | 1 2 3 4 5 6" % (tag, s)))
            cases.append(("exact", "S %s %s r v r 2 1 | 4 0 0 4 | 0 0" % (tag, s)))
    combos = [(s, ao, rhs, bo) for s in "LR" for ao in "rc" for rhs, bo in (("v", "r"), ("m", "r"), ("m", "c"))]
    # exact stream (model = implementation, residual exactly zero)
    for tag in EXACT_TAGS + ["indef"]:
        for ci, (s, ao, rhs, bo) in enumerate(combos):
            ns = [rng.choice(small) for _ in range(3 if not big else 8)] + ([rng.choice(BIG)] if (big or (ci + TAGS.index(tag)) % 3 == 0) else [])
            if big: ns += list(range(13, 41, 3))
            for n in ns: cases.append(("exact", gen_S_exact(rng, tag, s, ao, rhs, bo, n)))
    # general well-conditioned systems (residual monitor)
    for tag in TAGS:
        for (s, ao, rhs, bo) in combos:
            ns = [rng.choice(small) for _ in range(2 if not big else 6)] + ([rng.choice(BIG + [20, 21])] if big else [])
            for n in ns: cases.append(("float", gen_S_float(rng, tag, s, ao, rhs, bo, n)))
            if tag == "semi":
                for n in [rng.choice(small) for _ in range(2 if not big else 6)] + ([rng.choice([21, 25, 40])] if big else []):
                    cases.append(("lsq", gen_S_float(rng, tag, s, ao, rhs, bo, n, deficient=True)))
    # inv(A) % B == solve(A,B)
    for tag in TAGS:
        for ao in "rc":
            for bo in "rc":
                for n in [rng.choice(small) for _ in range(1 if not big else 4)]:
                    m = rng.choice([1, 2, 3])
                    if tag in EXACT_TAGS:
                        a = gen_spd_exact(rng, n) if tag == "spd" else gen_tri_exact(rng, n, tag)
                        t = a if tag == "spd" else tri_of(tag, a)
                        b = mmul(t, [[rint(rng, -4, 4) for _ in range(m)] for _ in range(n)])
                        c = mmul([[rint(rng, -4, 4) for _ in range(n)] for _ in range(m)], t)
                        # the explicit inverse must be representable: triangular integer inverse exists for power-of-two
                        # diagonals only up to rounding, so g5 is monitored with tolerance
                        kind = "exact"
                    else:
                        a = gen_float(rng, n, "gen" if tag == "indef" else "spd", 1e3)
                        b = [[rng.uniform(-1, 1) for _ in range(m)] for _ in range(n)]; c = tr(b); kind = "float"
                    cases.append((kind, "I %s %s %s %d %d | %s | %s | %s" % (tag, ao, bo, n, m, fl(a), fl(b), fl(c))))
    # decompositions
    for ao in "rc":
        ns = [rng.choice(small) for _ in range(4 if not big else 10)] + [rng.choice(BIG)] + (BIG if big else [])
        for n in ns:
            a = gen_spd_exact(rng, n)
            cases.append(("exact", "C %s %d | %s" % (ao, n, fl(a))))
            for tri in ("lower", "upper"): cases.append(("exact", "K %s %s %d | %s" % (tri, ao, n, fl(a))))
        # pivoted LU, exactly representable runs: unique pivots, ties (|l| = 1), singular (getrf must throw); sizes around the
        # block size 4 of getrf_recursive and up to the trsm threshold
        for n in [1, 2, 3, 4, 5, 8, 9] + [rng.choice(small) for _ in range(4 if not big else 12)] + [rng.choice([13, 17, 24] + BIG)] + (BIG if big else []):
            cases.append(("exact", "G %s %d | %s" % (ao, n, fl(gen_lu_exact(rng, n)))))
            if n <= 16: cases.append(("exact", "G %s %d | %s" % (ao, n, fl(gen_lu_exact(rng, n, ties=True)))))
            cases.append(("exact", "G %s %d | %s" % (ao, n, fl(gen_lu_exact(rng, n, singular=True)))))
            m = rng.choice([1, 2, 3]); za = gen_lu_exact(rng, n, ties=rng.random() < 0.3)
            cases.append(("exact", "Z indef %s %d %d | %s | %s" % (ao, n, m, fl(za), fl(mmul(za, [[rint(rng, -4, 4) for _ in range(m)] for _ in range(n)])))))
        # potrf on matrices that are NOT positive definite: pivot k is made negative; return value and the matrix left behind
        for n in [rng.choice(small) for _ in range(3 if not big else 8)] + [rng.choice([33, 40])] + ([33, 40, 70] if big else []):
            a = gen_spd_exact(rng, n); k = rng.randrange(n); a[k][k] -= a[k][k] + rng.choice([1, 2, 5])
            for tri in ("lower", "upper"):
                # all four (triangle, storage) pairs are modelled blocked (left-looking leaf: C02BlkModel.potrf_rec, right-looking leaf: C02RlModel.potrf_rec_rl)
                cases.append(("exact", "K %s %s %d | %s" % (tri, ao, n, fl(a))))
        for n in [rng.choice(small) for _ in range(4 if not big else 12)] + ([33, 40] if big else [rng.choice([33, 40])]):
            a = gen_float(rng, n, "spd", 10.0 ** rng.choice([0, 2, 4, 8]))
            cases.append(("float", "C %s %d | %s" % (ao, n, fl(a))))
            v = [rng.uniform(-1, 1) for _ in range(n)]
            alpha = rng.choice([1.0, 0.5, 2.0, rng.uniform(0.1, 3)]); beta = rng.choice([0.0, 1.0, rng.uniform(0.1, 2), -1e-3 * min(a[i][i] for i in range(n))])
            a2 = gen_float(rng, n, "spd", 100.0)
            cases.append(("float", "U %s %d %s %s | %s | %s" % (ao, n, tok(alpha), tok(beta), fl(a2), fl([v]))))
            # update vectors with exact zeros (unit vector, axis-aligned step, leading zeros, v = 0) and alpha != 1: a column whose
            # component is zero must still be scaled by sqrt(alpha)
            for _ in range(2):
                z = rng.randint(1, n); vz = [0.0] * z + [rng.uniform(-1, 1) for _ in range(n - z)]
                if rng.random() < 0.3: vz = [0.0] * n; vz[rng.randrange(n)] = rng.choice([1.0, -2.0])
                cases.append(("float", "U %s %d %s %s | %s | %s" % (ao, n, tok(rng.choice([0.5, 2.0, 3.0, 0.25])), tok(rng.choice([1.0, 0.5, 2.0])), fl(gen_float(rng, n, "spd", 100.0)), fl([vz]))))
            cases.append(("float", "G %s %d | %s" % (ao, n, fl(gen_float(rng, n, "gen", 10.0 ** rng.choice([0, 2, 4, 8]))))))
            if n <= 12:
                for _ in range(2): cases.append(("lustruct", "G %s %d | %s" % (ao, n, fl(gen_lu_struct(rng, n)))))
            cases.append(("float", "E %s %d | %s" % (ao, n, fl(symm(gen_float(rng, n, "gen", 100.0))))))
            # structured symmetric matrices: exactly tridiagonal with negative / mixed couplings (tridiag(-1,2,-1) among them),
            # and a dense matrix whose first off-diagonal is negative and dominates the rest of its row
            tri = [[0.0] * n for _ in range(n)]
            lap = rng.random() < 0.4
            for i in range(n):
                tri[i][i] = 2.0 if lap else float(rng.randint(-3, 3))
                if i + 1 < n: tri[i][i + 1] = tri[i + 1][i] = -1.0 if lap else rng.choice([-1.0, -2.5, 0.5, -0.125])
            cases.append(("float", "E %s %d | %s" % (ao, n, fl(tri))))
            dom = symm(gen_float(rng, n, "gen", 10.0))
            for i in range(n - 1): dom[i][i + 1] = dom[i + 1][i] = -10.0 ** rng.choice([2, 3, 5])
            cases.append(("float", "E %s %d | %s" % (ao, n, fl(dom))))
            cases.append(("float", "P %s %d | %s" % (ao, n, fl(gen_float(rng, n, "spd", 10.0 ** rng.choice([0, 2, 4]))))))
            d, r = gen_semi_deficient(rng, n)
            cases.append(("float", "P %s %d | %s" % (ao, n, fl(d))))
            for ztag, za in (("spd", gen_float(rng, n, "spd", 1e4)), ("indef", gen_float(rng, n, "gen", 1e4)),
                             ("indef", gen_lu_struct(rng, min(n, 12))),
                             ("semi", gen_float(rng, n, "spd", 1e4)), ("semi", d), ("eig", gen_float(rng, n, "spd", 1e3))):
                m = rng.choice([1, 2, 3]); nn = len(za)
                b = [[(rng.uniform(-1, 1) if za is not d else float(rng.randint(-3, 3))) for _ in range(m)] for _ in range(nn)]
                cases.append(("lsq" if za is d else "float", "Z %s %s %d %d | %s | %s" % (ztag, ao, nn, m, fl(za), fl(b))))
    cases += gen_P_cases(rng, big)
    cases += gen_semi_cases(rng, big)
    cases += gen_U_cases(rng, big)
    cases += gen_J_cases(rng, big)
    cases += gen_E_cases(rng, big)
    cases += gen_X_cases(rng, big)
    cases += gen_Y_cases(rng, big)
    return cases
def symm(a): return [[(a[i][j] + a[j][i]) / 2 for j in range(len(a))] for i in range(len(a))]

# ---------------------------------------------------------------- spec monitors (exact rational evaluation of the defining equations)
def resid_ok(a, x, b, left, n, exact, scale=1.0):
    """A x = b (left) or x A = b; returns message or None"""
    ax = mmul(a, x) if left else mmul(x, a)
    r = [[ax[i][j] - b[i][j] for j in range(len(b[0]))] for i in range(len(b))]
    e = amax(r)
    if exact: return None if e == 0 else "residual %s (must be exactly 0)" % float(e)
    bound = Fr(C_RES * scale * max(n, 1) * EPS) * (ninf(a) * amax(x) + amax(b))
    return None if e <= bound else "residual %.3e > bound %.3e" % (float(e), float(bound))
def lsq_ok(a, x, b, left, n, exact=False):
    """normal equations A'(Ax-b) = 0 for symmetric A, relative 1e-8 (exactly zero on the exact stream)"""
    ax = mmul(a, x) if left else mmul(x, a)
    r = [[ax[i][j] - b[i][j] for j in range(len(b[0]))] for i in range(len(b))]
    g = mmul(a, r) if left else mmul(r, a)
    e = amax(g)
    if exact: return None if e == 0 else "least-squares condition |A(Ax-b)| = %.3e (must be exactly 0)" % float(e)
    bound = Fr(1e-8) * (ninf(a) * (ninf(a) * amax(x) + amax(b)) + Fr(1, 10 ** 300))
    return None if e <= bound else "least-squares condition |A(Ax-b)| = %.3e > %.3e" % (float(e), float(bound))
def near(x, y, tol, what):
    e = max([abs(p - q) for r1, r2 in zip(x, y) for p, q in zip(r1, r2)] + [0])
    return None if e <= tol else "%s: max deviation %.3e > %.3e" % (what, float(e), float(tol))
def apply_swaps(a, p, rows=True, cols=False):
    a = [list(r) for r in a]
    for i, pi in enumerate(p):
        pi = int(pi)
        if pi != i:
            if rows: a[i], a[pi] = a[pi], a[i]
            if cols:
                for r in a: r[i], r[pi] = r[pi], r[i]
    return a

def monitor(kind, line, o):
    g = groups(line); h = g[0]; cmd = h[0]
    if o.split(" ")[0] != cmd: return ["output line does not belong to the case: " + o[:60]]
    try: og = out_groups(o)
    except ValueError: return ["non-finite value in the result: " + o[:120]]
    exact = kind == "exact"
    if cmd == "X":
        tag, ao, bo, n, m, off = h[1], h[2], h[3], int(h[4]), int(h[5]), int(h[6])
        a = mat(n, n, [num(t) for t in g[1]]); b = mat(n, m, [num(t) for t in g[2]]); cv = [num(t) for t in g[3]]; b1 = [num(t) for t in g[4]]
        if og is None: return ["solve reported an error (%s) on a system of the documented kind" % o]
        if len(og) != 10: return ["X: %d result groups, expected 10" % len(og)]
        t = a if tag not in TAGS[:4] else tri_of(tag, a)
        y1, y2, y3, y4, v1, v2, w1, w2, V1, V2 = og
        scale = max([abs(v) for grp in og for v in grp] + [1])
        tol = Fr(0) if (kind == "chainx") else Fr(1e-9) * scale * (10 ** 3 if tag == "cg" else 1)
        names = ["prod(solve(A,B,left),c)", "X = solve(A,B,left) evaluated, then prod(X,c)", "(inv(A) % B) % c", "solve(A, prod(B,c), left)"]
        for k, y in enumerate([y1, y3, y4]):
            kk = [0, 2, 3][k]
            e = near([y], [y2], tol, "%s differs from `%s`" % (names[kk], names[1]))
            if e: return [e]
        e = near([v1], [v2], tol, "solve(subrange(M,o,o+n,o,o+n), b, left) on a view into a larger matrix differs from solve(A, b, left) on a copy of the same block")
        if e: return [e]
        e = near([w1], [w2], tol, "solve(subrange(M,...), b, right) on a view differs from solve(A, b, right) on a copy of the same block")
        if e: return [e]
        e = near([V1], [V2], tol, "solve(subrange(M,...), B, left) with a matrix right-hand side on a view differs from the solve on a copy")
        if e: return [e]
        # defining equation of the chained form: A y = B c
        bc = [[sum(b[i][j] * cv[j] for j in range(m))] for i in range(n)]
        if tag != "cg":
            e = resid_ok(t, [[v] for v in y1], bc, True, n, kind == "chainx")
            if e: return ["prod(solve(A,B,left),c): A y = B c violated: " + e]
        return []
    if cmd == "Y":
        tag, n, m = h[1], int(h[4]), int(h[5])
        if og is None: return ["solve reported an error (%s) on a system of the documented kind" % o]
        if len(og) != 18: return ["Y: %d result groups, expected 18" % len(og)]
        a = mat(n, n, [num(t) for t in g[1]]); t = a if tag not in TAGS[:4] else tri_of(tag, a)
        b = mat(n, m, [num(v) for v in g[2]]); cm = mat(m, n, [num(v) for v in g[3]])
        x0 = [num(v) for v in g[4]]; y0 = [num(v) for v in g[5]]; b1 = [num(v) for v in g[6]]; v0 = [num(v) for v in g[7]]
        scale = max([abs(v) for grp in og for v in grp] + [1])
        cgt = tag == "cg"
        tol = Fr(0) if (kind == "accx" and not cgt) else Fr(1e-9) * scale * (10 ** 3 if cgt else 1)
        def chk(idx, ref, start, sign, what):
            want = [s + sign * r for s, r in zip(start, og[ref])]
            return near([og[idx]], [want], tol if not (kind == "accx" and ref == 15) else max(tol, Fr(1e-9) * scale), what)
        checks = [(1, 0, x0, 1, "noalias(X) += solve(A,B,left) differs from X0 + (solve(A,B,left) evaluated)"),
                  (2, 0, x0, 1, "noalias(X) += inv(A) % B differs from X0 + (solve(A,B,left) evaluated)"),
                  (3, 0, x0, 1, "X = X0 + solve(A,B,left) differs from X0 + (solve(A,B,left) evaluated)"),
                  (4, 0, x0, -1, "noalias(X) -= solve(A,B,left) differs from X0 - (solve(A,B,left) evaluated)"),
                  (5, 0, x0, 1, "X += solve(A,B,left) differs from X0 + (solve(A,B,left) evaluated)"),
                  (7, 6, y0, 1, "noalias(Y) += solve(A,C,right) differs from Y0 + (solve(A,C,right) evaluated)"),
                  (8, 6, y0, 1, "noalias(Y) += C % inv(A) differs from Y0 + (solve(A,C,right) evaluated)"),
                  (9, 6, y0, 1, "Y = Y0 + solve(A,C,right) differs from Y0 + (solve(A,C,right) evaluated)"),
                  (10, 6, y0, -1, "noalias(Y) -= solve(A,C,right) differs from Y0 - (solve(A,C,right) evaluated)"),
                  (11, 6, y0, 1, "Y += solve(A,C,right) differs from Y0 + (solve(A,C,right) evaluated)"),
                  (13, 12, v0, 1, "noalias(v) += solve(A,b,left) differs from v0 + (solve(A,b,left) evaluated)"),
                  (14, 12, v0, -1, "noalias(v) -= inv(A) % b differs from v0 - (solve(A,b,left) evaluated)"),
                  (16, 15, v0, 1, "noalias(v) += solve(A,b,right) differs from v0 + (solve(A,b,right) evaluated)"),
                  (17, 15, v0, -1, "v0 - b % inv(A) differs from v0 - (solve(A,b,right) evaluated)")]
        for idx, ref, start, sign, what in checks:
            if len(og[idx]) != len(start): return ["%s: result has %d entries, expected %d" % (what.split(" differs")[0], len(og[idx]), len(start))]
            e = chk(idx, ref, start, sign, what)
            if e: return [e]
        # defining equations of the two references
        if not cgt:
            e = resid_ok(t, mat(n, m, og[0]), b, True, n, kind == "accx")
            if e: return ["solve(A,B,left): " + e]
            e = resid_ok(t, mat(m, n, og[6]), cm, False, n, kind == "accx")
            if e: return ["solve(A,C,right): " + e]
        return []
    if cmd == "S":
        tag, side, ao, rhs, bo, n, m = h[1], h[2], h[3], h[4], h[5], int(h[6]), int(h[7])
        a = mat(n, n, [num(t) for t in g[1]]); bl = [num(t) for t in g[2]]
        if og is None: return ["solve reported an error (%s) on a system of the documented kind" % o]
        left = side == "L"
        t = a if tag not in TAGS[:4] else tri_of(tag, a)
        if rhs == "v": b = [[v] for v in bl] if left else [bl]; x = [[v] for v in og[0]] if left else [og[0]]
        else: b = mat(n, m, bl) if left else mat(m, n, bl); x = mat(n, m, og[0]) if left else mat(m, n, og[0])
        if len(og[0]) != n * m: return ["result has %d entries, expected %d" % (len(og[0]), n * m)]
        if kind in LSQ_KINDS: msg = lsq_ok(t, x, b, left, n, exact=(kind == "xlsq"))
        elif tag == "cg":
            ax = mmul(t, x) if left else mmul(x, t); e = amax([[ax[i][j] - b[i][j] for j in range(len(b[0]))] for i in range(len(b))])
            msg = None if e <= Fr(1e-8) * max(1, amax(b)) else "conjugate-gradient residual %.3e > 1e-8" % float(e)
        else: msg = resid_ok(t, x, b, left, n, exact)
        return [msg] if msg else []
    if cmd == "I":
        tag, n, m = h[1], int(h[4]), int(h[5])
        if og is None: return ["inv/solve reported an error (%s)" % o]
        a = mat(n, n, [num(t) for t in g[1]]); t = a if tag not in TAGS[:4] else tri_of(tag, a)
        b = mat(n, m, [num(v) for v in g[2]]); c = mat(m, n, [num(v) for v in g[3]])
        msgs = []
        if og[0] != og[1]: msgs.append("inv(A)%B differs from solve(A,B,left)")
        if og[2] != og[3]: msgs.append("C%inv(A) differs from solve(A,C,right)")
        cgt = tag == "cg"
        for x, rb, left in ((mat(n, m, og[0]), b, True), (mat(m, n, og[2]), c, False)):
            mm = resid_ok(t, x, rb, left, n, exact and not cgt, scale=(1e6 if cgt else 1.0))
            if mm: msgs.append(mm)
        ident = [[Fr(int(i == j)) for j in range(n)] for i in range(n)]
        mm = resid_ok(t, mat(n, n, og[4]), ident, True, n, False, scale=(1e6 if cgt else 1.0))
        if mm: msgs.append("explicit inverse: " + mm)
        return msgs
    if cmd in ("C", "K", "U", "G", "E", "P"):
        off = {"C": 2, "K": 3, "U": 2, "G": 2, "E": 2, "P": 2}[cmd]; n = int(h[off])
        a = mat(n, n, [num(t) for t in g[1]])
        if cmd == "G" and exact:
            # exactly representable run: getrf throws if and only if the matrix is singular
            sing = rank_of(a) < n
            if sing != (og is None): return ["getrf %s on a %s matrix" % ("succeeded" if sing else "reported an error (%s)" % o, "singular" if sing else "full-rank")]
            if sing: return []
        if og is None:
            if cmd == "U": return []                     # documented: throws when the update makes the matrix indefinite
            return ["decomposition reported an error (%s)" % o]
        tol = Fr(C_RES * n * EPS) * max(amax(a), Fr(1, 10 ** 300)) * n
        if cmd == "C":
            f = mat(n, n, og[0]); l = [[f[i][j] if j <= i else Fr(0) for j in range(n)] for i in range(n)]
            return [x for x in [near(mmul(l, tr(l)), a, 0 if exact else tol, "L L^T vs A")] if x]
        if cmd == "K":
            ret = int(og[0][0]); f = mat(n, n, og[1]); up = h[1] == "upper"
            bad = ldl_pd(a) if exact else 0
            if bad:
                if ret == 0: return ["potrf returned 0 on a matrix whose leading minor of order %d is not positive" % bad]
                if n <= 32 and ret != bad: return ["potrf returned %d, the first non-positive pivot is %d" % (ret, bad)]
                return []
            if ret != 0: return ["potrf returned %d on a positive definite matrix" % ret]
            l = [[f[i][j] if ((j >= i) if up else (j <= i)) else Fr(0) for j in range(n)] for i in range(n)]
            return [x for x in [near(mmul(tr(l), l) if up else mmul(l, tr(l)), a, 0 if exact else tol, "factor product vs A")] if x]
        if cmd == "U":
            alpha, beta = num(h[3]), num(h[4]); v = [num(t) for t in g[2]]
            f = mat(n, n, og[0]); l = [[f[i][j] if j <= i else Fr(0) for j in range(n)] for i in range(n)]
            want = [[alpha * a[i][j] + beta * v[i] * v[j] for j in range(n)] for i in range(n)]
            return [x for x in [near(mmul(l, tr(l)), want, 0 if exact else tol * 1000, "rank-one update: L L^T vs alpha A + beta v v^T")] if x]
        if cmd == "G":
            f = mat(n, n, og[0]); p = og[1]
            l = [[f[i][j] if j < i else Fr(int(i == j)) for j in range(n)] for i in range(n)]
            u = [[f[i][j] if j >= i else Fr(0) for j in range(n)] for i in range(n)]
            msgs = [x for x in [near(mmul(l, u), apply_swaps(a, p), 0 if exact else tol * 16, "L U vs P A")] if x]
            if any(not (i <= int(p[i]) < n) for i in range(n)): msgs.append("permutation entry outside [i, n): %s" % [int(v) for v in p])
            big_l = [(i, j) for i in range(n) for j in range(i) if abs(f[i][j]) > 1]
            if big_l: msgs.append("|L(%d,%d)| = %.17g > 1 (the pivot was not the largest entry of its column)" % (big_l[0][0], big_l[0][1], float(abs(f[big_l[0][0]][big_l[0][1]]))))
            return msgs
        if cmd == "E":
            q = mat(n, n, og[0]); d = og[1]
            qd = [[q[i][j] * d[j] for j in range(n)] for i in range(n)]
            ident = [[Fr(int(i == j)) for j in range(n)] for i in range(n)]
            t2 = Fr(1e-10) * max(amax(a), Fr(1, 10 ** 300))
            return [x for x in [near(mmul(qd, tr(q)), a, t2, "Q D Q^T vs A"), near(mmul(tr(q), q), ident, Fr(1e-10), "Q^T Q vs I")] if x]
        if cmd == "P":
            rk = int(og[0][0]); f = mat(n, n, og[1]); p = og[2]
            msgs = []
            if not 0 <= rk <= n: return ["pstrf returned rank %d for a matrix of size %d" % (rk, n)]
            if any(not (i <= int(p[i]) < n) for i in range(n)): return ["permutation entry outside [i, n): %s" % [int(v) for v in p]]
            l = [[f[i][j] if (j <= i and j < rk) else Fr(0) for j in range(n)] for i in range(n)]
            t2 = 0 if exact else Fr(n * n * n * 8 * EPS) * max(amax(a), Fr(1, 10 ** 300)) * 4
            pap = apply_swaps(a, p, True, True); llt = mmul(l, tr(l))
            # the exact stream is built with rank(A) = r exactly (zero Schur complement), the other streams have a Schur
            # complement below the threshold: the whole of P^T A P is reproduced
            mm = near(llt, pap, t2, "L L^T vs P^T A P (rank %d)" % rk)
            if mm: msgs.append(mm)
            # as coded: strict upper triangle of the first rk rows cleared, trailing block cleared
            junk = [(i, j) for i in range(n) for j in range(n) if ((j > i and i < rk) or (i >= rk and j >= rk)) and f[i][j] != 0]
            if junk: msgs.append("entry (%d,%d) of the matrix left behind is %s, expected 0 (cleared part)" % (junk[0][0], junk[0][1], float(f[junk[0][0]][junk[0][1]])))
            dg = [f[t][t] for t in range(rk)]
            if any(d <= 0 for d in dg): msgs.append("pivot %d is not positive: %s" % ([d <= 0 for d in dg].index(True), float([d for d in dg if d <= 0][0])))
            slack = 0 if exact else Fr(1, 10 ** 12)
            dec = [t for t in range(rk - 1) if dg[t + 1] > dg[t] * (1 + slack)]
            if dec: msgs.append("pivots increase at %d: %.17g < %.17g (max-diagonal rule)" % (dec[0], float(dg[dec[0]]), float(dg[dec[0] + 1])))
            if exact and rk != rank_of(a): msgs.append("pstrf returned rank %d, the matrix has rank %d" % (rk, rank_of(a)))
            return msgs
    if cmd == "J":
        n, m, eps, maxit = int(h[2]), int(h[3]), num(h[4]), int(h[5])
        if og is None: return ["conjugate gradient reported an error (%s)" % o]
        a = mat(n, n, [num(t) for t in g[1]]); b = mat(n, m, [num(t) for t in g[2]])
        if len(og) != 4 or len(og[0]) != n or len(og[1]) != n or len(og[2]) != n * m or len(og[3]) != n * m: return ["malformed result"]
        msgs = []
        X, Y = mat(n, m, og[2]), mat(m, n, og[3])
        sols = [([[v] for v in og[0]], [[r[0]] for r in b], "solve(b,left)"), ([[v] for v in og[1]], [[r[0]] for r in b], "solve(b,right)"),
                (X, b, "solve(B,left)"), (tr(Y), b, "solve(trans(B),right)")]
        res = []
        for (xx, bb, nm) in sols:
            ax = mmul(a, xx); res.append([max(abs(ax[i][j] - bb[i][j]) for i in range(n)) for j in range(len(bb[0]))])
        gap = dd_gap(a)
        if maxit == 0:
            # proved (C02_cg_*_stop_true_residual): returned through the stopping rule => the TRUE residual, recomputed here exactly, is
            # below the coded threshold; slack = rounding drift between the maintained and the true residual, 64 n u (|A||x| + |b|)
            for (xx, bb, nm), rr in zip(sols, res):
                bound = eps + Fr(C_RES * max(n, 1) * EPS) * (ninf(a) * amax(xx) + amax(bb))
                if max(rr) > bound: msgs.append("%s: true residual %.3e after the stopping rule fired, threshold %.3e" % (nm, float(max(rr)), float(eps)))
            # two solutions of the same system differ by at most ||A^-1||_inf (|r| + |r'|) <= (|r| + |r'|) / gap (Varah), per column
            if gap > 0:
                for (i1, i2) in ((0, 1), (2, 3)):
                    x1, x2 = sols[i1][0], sols[i2][0]
                    for j in range(len(x1[0])):
                        dv = max(abs(x1[i][j] - x2[i][j]) for i in range(n)); bd = (res[i1][j] + res[i2][j]) / gap
                        if dv > bd: msgs.append("%s and %s differ by %.3e > (|r|+|r'|)/gap = %.3e" % (sols[i1][2], sols[i2][2], float(dv), float(bd)))
        elif maxit == n and kind == "cgq" and gap > 0 and n <= 5:
            # proved in exact arithmetic (C02_cg_*_terminates): after n iterations the residual is 0.  In doubles, for n <= 5 and condition <= 9
            # the deviation is bounded crudely by (8 cond)^n u |b| <= 72^5 * 1.2e-16 |b| = 2.2e-7 |b|; threshold 1e-6 |b| (+ eps)
            for (xx, bb, nm), rr in zip(sols, res):
                bound = eps + Fr(1, 10 ** 6) * max(1, amax(bb))
                if max(rr) > bound: msgs.append("%s: residual %.3e after n = %d iterations (finite termination), bound %.3e" % (nm, float(max(rr)), n, float(bound)))
        return msgs
    if cmd == "Z":
        tag, n, m = h[1], int(h[3]), int(h[4])
        if og is None: return ["decomposition class reported an error (%s)" % o]
        a = mat(n, n, [num(t) for t in g[1]]); b = mat(n, m, [num(t) for t in g[2]])
        x, y = mat(n, m, og[0]), mat(m, n, og[1]); xv, yv = [[v] for v in og[2]], [og[3]]
        b0 = [[r[0]] for r in b]
        msgs = []
        for (xx, bb, left, nm) in ((x, b, True, "solve(B,left)"), (y, tr(b), False, "solve(B,right)"), (xv, b0, True, "solve(b,left)"), (yv, tr(b0), False, "solve(b,right)")):
            mm = lsq_ok(a, xx, bb, left, n, exact=(kind == "xlsq")) if kind in LSQ_KINDS else resid_ok(a, xx, bb, left, n, False, scale=(1e4 if tag == "eig" else 1.0))
            if mm: msgs.append(nm + ": " + mm)
        return msgs
    return []

def same(model_line, impl_line):
    """exact equality of values: the model prints rationals, the harness hex floats"""
    if model_line.split(" ")[:2] != impl_line.split(" ")[:2]: return False
    try:
        m, i = out_groups(model_line), out_groups(impl_line)
        if m is not None and i is not None and model_line.startswith("Z "):
            # Z uses ONE right-hand side B = A X for all four calls: only the left solves (groups 0, 2) have exactly
            # representable results; the right solves are tied exactly by the "S indef R" lines and residual-monitored here
            if len(m) == 5: return m == i          # Z semi (symmetric matrix): all four solves and the rank
            return len(m) == len(i) and m[0] == i[0] and m[2] == i[2]
        return m == i
    except ValueError: return False

def close_lu(model_line, impl_line):
    """G lines outside the exact stream: same pivot sequence, factor entries within 1e-12 (relative to max(1,|entry|))"""
    if model_line.split(" ")[:2] != impl_line.split(" ")[:2]: return False
    try: m, i = out_groups(model_line), out_groups(impl_line)
    except ValueError: return False
    if m is None or i is None: return m is None and i is None
    if len(m) != 2 or len(i) != 2 or m[1] != i[1] or len(m[0]) != len(i[0]): return False
    return all(abs(x - y) <= LU_TOL * max(1, abs(x)) for x, y in zip(m[0], i[0]))

def close_f(model_line, impl_line):
    """model run over IEEE doubles vs implementation: same status, integers equal, values within F_TOL (relative to max(1,|x|))"""
    if model_line.split(" ")[:2] != impl_line.split(" ")[:2]: return False
    try: m, i = out_groups(model_line), out_groups(impl_line)
    except ValueError: return False
    if m is None or i is None: return m is None and i is None
    if len(m) != len(i) or any(len(x) != len(y) for x, y in zip(m, i)): return False
    return all(abs(x - y) <= F_TOL * max(1, abs(x)) for gx, gy in zip(m, i) for x, y in zip(gx, gy))

def j_close(kind, line, model_line, impl_line):
    """conjugate gradient, model (over Q or over doubles) vs implementation, only where the result is determined up to rounding:
    maxit = 1: the columns of the matrix version (start 0, p0 = r0 = b exact): x_1 = alpha b, alpha = b.b / b.Ab.  Any summation order:
       relative error of fl(b.b) <= n u; of fl(b.fl(Ab)) <= 2 n u |b|^T|A||b| / b^T A b <= 2 n u ||A||_inf / lambda_min <= 2 n u kappa,
       kappa = ||A||_inf / gap (Gershgorin: lambda_min >= gap); division and the product alpha*b_i: 2u.  Hence
       |fl(x_1) - x_1| <= ((3n+1) kappa + 2) u |x_1| to first order; tolerance = 4x that (second-order terms; both sides rounded when the
       model runs in doubles).
    maxit = 0 (converged): |x - x'| <= ||A^-1||_inf (|b - A x| + |b - A x'|) <= (|r| + |r'|) / gap with the residuals recomputed exactly.
    other iteration limits: later iterates are not determined up to rounding -- not compared (the monitor checks termination)."""
    if model_line.split(" ")[:2] != impl_line.split(" ")[:2]: return False
    try: mo, io = out_groups(model_line), out_groups(impl_line)
    except ValueError: return False
    if mo is None or io is None: return mo is None and io is None
    g = groups(line); h = g[0]; n, m, maxit = int(h[2]), int(h[3]), int(h[5])
    if len(mo) != 4 or len(io) != 4 or any(len(x) != len(y) for x, y in zip(mo, io)): return False
    a = mat(n, n, [num(t) for t in g[1]]); b = mat(n, m, [num(t) for t in g[2]])
    gap = dd_gap(a)
    if gap <= 0: return True                     # not generated; no bound available
    if maxit == 1:
        kappa = ninf(a) / gap
        for gi in (2, 3):
            tol = 4 * ((3 * n + 1) * kappa + 2) * U_ROUND * max([abs(v) for v in mo[gi]] + [0])
            if any(abs(x - y) > tol for x, y in zip(mo[gi], io[gi])): return False
        return True
    if maxit == 0:
        def cols(gi, out):
            if gi < 2: return [[[v] for v in out[gi]]], [[r[0]] for r in b]
            return [mat(n, m, out[2]) if gi == 2 else tr(mat(m, n, out[3]))], b
        for gi in range(4):
            (xm,), bb = cols(gi, mo); (xi,), _ = cols(gi, io)
            axm, axi = mmul(a, xm), mmul(a, xi)
            for j in range(len(bb[0])):
                rm = max(abs(axm[i][j] - bb[i][j]) for i in range(n)); ri = max(abs(axi[i][j] - bb[i][j]) for i in range(n))
                if max(abs(xm[i][j] - xi[i][j]) for i in range(n)) > (rm + ri) / gap: return False
        return True
    return True

def key_of(line, build, msg):
    h = line.split("|")[0].split()
    cmd = h[0]
    if "cg" in h[1:3] and msg.startswith("non-finite"):
        return "cg: non-finite result (start vector x0 = b already solves the system -> step length 0/0)"
    sig = " ".join(x for x in h[1:] if not re.match(r"^-?[\d./xp+a-f]+$", x) or x in ("c",)) if cmd != "S" else " ".join(h[1:6])
    return "%s[%s]@%s: %s" % (cmd, sig, build, re.sub(r"[-+]?\d[\d.e+-]*", "#", msg))

def main():
    ck = Check(PID)
    ck.trusted = DEFAULT_TRUSTED + ["modelled not verified: OpenBLAS (trsm/trsv/gemm/syrk bindings), floating-point rounding (monitored by residual bounds), std::sqrt",
                                    "Python fractions (exact evaluation of the defining equations on the implementation's output)",
                                    "OCaml float arithmetic = IEEE double for the double-model streams (F lines of ocaml/c02_driver.ml)"]
    ck.assumptions = ["systems of the documented kinds: non-singular triangular, symmetric positive definite (semi-definite for the semi tag), full rank for indefinite_full_rank; condition <= 1e8 (1e3 for conjugate gradient, whose stopping rule is an absolute 1e-10)",
                      "exact stream: integer factors with power-of-two or unit diagonals so that every intermediate value is a small dyadic rational (float arithmetic exact in any summation order)",
                      "pivoted LU exact stream: matrices built so that every intermediate value of the (blocked or unblocked) elimination is a small dyadic rational (checked by an exact reference run in the generator)",
                      "pstrf / semi / update exact streams: square roots only of squares of powers of two, all intermediate values small dyadic rationals (checked by exact reference runs in the generator: py_pstrf, chol_exact, py_chol_update); double-model streams: pivot order separated by a relative margin 1e-6 and rank >= n-1 (otherwise the last swap before a stop is decided by rounding noise)",
                      "right-hand sides with at least one column; zero right-hand sides are not generated for conjugate gradient (see report)"]
    ck.proofs()
    model = extract_model(PID, "C02Extract.v", "c02_driver.ml")
    src = os.path.join(ROOT, "harness", "c02_solve.cpp")
    builds = {}
    for name, extra in (("default", []), ("cblas", ["-DREMORA_USE_CBLAS"])):
        exe, err = cxx_build("c02_solve_" + name, [src], flags=CXXFLAGS + extra, tag="c02" + name)
        if exe is None:
            ck.oblige("harness builds against /repo (%s kernels)" % name, False, err); ck.finish()
        builds[name] = exe
    tmpd = os.path.join(BUILD, "tmp", PID); os.makedirs(tmpd, exist_ok=True)
    if ck.replay:
        cases = []
        for l in open(ck.replay).read().split("\n"):
            if l.strip() and not l.startswith("#"):
                k = "exact"
                if l.startswith("%"): k, l = l[1:].split(" ", 1)
                elif "0x" in l: k = "float"
                cases.append((k, l))
    else:
        cases = []
        cdir = os.path.join(ROOT, "corpus", PID)
        if os.path.isdir(cdir):
            for f in sorted(os.listdir(cdir)):
                for l in open(os.path.join(cdir, f)).read().split("\n"):
                    if l.strip() and not l.startswith("#"):
                        k, l2 = (l[1:].split(" ", 1) if l.startswith("%") else ("float" if "0x" in l else "exact", l)); cases.append((k, l2))
        cases += gen_cases(ck.rng, ck.tier)
    lines = [[c[1]] for c in cases]
    mo = run_cases(model, [[c[1]] if c[0] in MODEL_KINDS else (["F " + c[1]] if c[0] in FMODEL_KINDS else ["N"]) for c in cases], os.path.join(tmpd, "model_in.txt"), timeout=1700)
    nviol = 0; ndis = 0; cover = {}; reported = set()
    for bname, exe in builds.items():
        io = run_cases(exe, lines, os.path.join(tmpd, "impl_%s.txt" % bname), timeout=1700)
        for ci, (kind, line) in enumerate(cases):
            (b, rcb, eb), (a, rca, ea) = io[ci], mo[ci]
            if rca != 0: raise RuntimeError("model driver failed on case %d: %s" % (ci, ea))
            h = line.split("|")[0].split(); ck_key = (h[0], h[1] if h[0] in "SIZK" else "", kind)
            cover[ck_key] = cover.get(ck_key, 0) + 1
            if rcb != 0 or not b:
                o = (b[0] if b else ""); msgs = ["implementation crashed/timed out (rc=%s) %s" % (rcb, o)]
            else:
                o = b[0]; msgs = monitor(kind, line, o)
            dis = (not msgs) and not a[0].endswith(" -") and ((kind in ("exact", "xlsq") and not same(a[0], o)) or (kind == "lustruct" and not close_lu(a[0], o)) or (kind in FMODEL_KINDS and not line.startswith("J ") and not close_f(a[0], o)) or (kind in FMODEL_KINDS + ("cgq",) and line.startswith("J ") and not j_close(kind, line, a[0], o)))
            if msgs or dis:
                msg = msgs[0] if msgs else "model and implementation differ"
                key = key_of(line, bname, msg)
                rp = {"case": "%" + kind + " " + line, "build": bname, "implementation_output": o, "model_output": a[0], "monitor": msgs}
                cf = ck.write_replay("case_%s_%d.txt" % (bname, ci), "%" + kind + " " + line + "\n")
                rp["case_file"] = cf; rp["replay_cmd"] = "python3 tools/c02.py --replay " + cf
                if msgs:
                    nviol += 1
                    if key not in reported and len(reported) < 6:
                        reported.add(key); ck.violation(key, rp, "spec monitor fails on the implementation (%s kernels): %s" % (bname, msg))
                else:
                    ndis += 1
                    if ndis <= 2: ck.violation("correspondence:" + key, rp, "correspondence C02Model vs remora (%s kernels) no longer checks although the defining-equation monitor passes: model %s / implementation %s" % (bname, a[0][:200], o[:200]), no_input=True)
    ck.oblige("correspondence + monitors: %d cases x %d builds" % (len(cases), len(builds)), nviol == 0 and ndis == 0,
              "" if not (nviol or ndis) else "%d monitor failures, %d disagreements" % (nviol, ndis))
    ck.cov["evaluations"] = len(cases) * len(builds)
    def size_of(l):
        h = l.split("|")[0].split(); return int(h[{"S": 6, "I": 4, "Z": 3, "K": 3, "X": 4, "Y": 4}.get(h[0], 2)])
    ck.cov["distinct_nontrivial"] = len(set(l for k, l in cases if size_of(l) >= 2))
    ck.cov["rule"] = ("solve(A,b,tag,side) for 8 tags x left/right x row/column-major A x vector / row-major / column-major matrix right-hand side, sizes 1..12 "
                      "(plus sizes around the blocking threshold 32; up to 40 in thorough), exact stream (integer factors, power-of-two/unit diagonals: equality with the Q model and zero residual), "
                      "random well-conditioned stream (condition <= 1e8, residual <= 64 n eps (|A||x|+|b|)), rank-deficient semi-definite stream (normal equations); "
                      "decomposition classes (Cholesky incl. rank-one update, pivoted LU, symmetric eigen, pivoted Cholesky), inv(A)%B vs solve; "
                      "pivoted LU exact stream (A = P^T L U, dyadic L with |l| <= 1/2 or ties |l| = 1, power-of-two pivots, one zero pivot for the singular cases; sizes 1..12 and around 4/32: "
                      "factor, pivot vector and exception equal to the Q model), gen_lu_struct (pivot vector equal, factor 1e-12), potrf on non-positive-definite matrices (return value and matrix left behind equal to the model); both default kernels and -DREMORA_USE_CBLAS; non-trivial = size >= 2")
    ck.cov["samples"] = [c[1][:200] for c in cases[:2]]
    ck.notes["case_mix"] = {" ".join(k): v for k, v in sorted(cover.items())}
    ck.notes["builds"] = list(builds)
    ck.notes["cg_comparison"] = ("J lines. maxit=1, columns of the matrix version (x0 = 0, p0 = r0 = b exact): x_1 = alpha b, alpha = b.b/b.Ab; for any summation order "
        "relerr(fl(b.b)) <= n u, relerr(fl(b.fl(Ab))) <= 2 n u |b|^T|A||b| / b^T A b <= 2 n u ||A||_inf/lambda_min <= 2 n u kappa with kappa = ||A||_inf/gap, "
        "gap = min_i(a_ii - sum_j!=i |a_ij|) <= lambda_min (Gershgorin); division and alpha*b_i add 2u: |fl(x_1)-x_1| <= ((3n+1) kappa + 2) u |x_1| to first order, "
        "tolerance 4x that (u = 2^-53). maxit=0: x - x' = A^-1 (r' - r) for the exactly recomputed residuals r = b - A x, so |x-x'|_inf <= ||A^-1||_inf (|r|+|r'|) "
        "<= (|r|+|r'|)/gap (Varah); no constant involved. Other iteration limits: iterates not compared. Monitors: |b - A x|_inf < eps + 64 n eps_mach (|A||x|+|b|) "
        "after a stop through the rule (C02_cg_*_stop_true_residual; slack = drift of the maintained residual); maxit = n <= 5, condition <= 9: residual <= eps + 1e-6 max(1,|b|) "
        "(C02_cg_*_terminates gives 0 in exact arithmetic; crude amplification bound (8 cond)^n u <= 72^5 * 1.2e-16 = 2.2e-7).")
    ck.finish()

if __name__ == "__main__":
    main()
