#!/bin/sh
# Build the framework offline from files on disk: Coq development (full .vo build), extracted models.
set -e
cd "$(dirname "$0")/.."
python3 tools/setup.py
