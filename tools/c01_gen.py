#!/usr/bin/env python3
"""C01 — program generator, Python reference evaluator (spec monitor) and C++/term printers for the
remora expression language of coq/theories/C01Model.v.

Terms are nested tuples whose head is the Coq constructor name, e.g.
  ("VAdd", ("VVar", 0, 3), ("VScale", 2, ("VRange", ("VVar", 1, 5), 1, 4)))
Statements: ("SAssignV", noalias, op, target, e), ("SAssignM", ...), ("SScalarV", op, t, c),
("SScalarM", op, t, c), ("SSetV", x, i, c), ("SSetM", A, i, j, c), ("SReduce", sexp).
"""
import random

VEC_HEADS = {"VVar", "VRange", "VRow", "VCol", "VDiag", "VConst", "VUnit", "VScale", "VAdd", "VMinus", "VUn", "VBin",
             "VMv", "VFold", "VConcat"}
BOUND = 1 << 24      # every node value of every generated statement stays below this (exact in long and double)


class Reject(Exception):
    pass


# ------------------------------------------------------------------ shapes
def vsize(e):
    h = e[0]
    if h == "VVar": return e[2]
    if h == "VRange": return e[3] - e[2]
    if h == "VRow": return mshape(e[1])[1]
    if h == "VCol": return mshape(e[1])[0]
    if h == "VDiag": return min(mshape(e[1]))
    if h in ("VConst", "VUnit"): return e[1]
    if h in ("VScale", "VUn"): return vsize(e[2])
    if h in ("VAdd", "VMinus"): return vsize(e[1])
    if h == "VBin": return vsize(e[2])
    if h == "VMv": return mshape(e[2])[0]
    if h == "VFold": return mshape(e[3])[0]
    if h == "VConcat": return vsize(e[1]) + vsize(e[2])
    raise ValueError(h)


def mshape(m):
    h = m[0]
    if h == "MVar": return (m[2], m[3])
    if h == "MTrans": r, c = mshape(m[1]); return (c, r)
    if h == "MRange": return (m[3] - m[2], m[5] - m[4])
    if h == "MRows": return (m[3] - m[2], mshape(m[1])[1])
    if h == "MCols": return (mshape(m[1])[0], m[3] - m[2])
    if h == "MConst": return (m[1], m[2])
    if h == "MDiagM": n = vsize(m[1]); return (n, n)
    if h in ("MScale", "MUn"): return mshape(m[2])
    if h in ("MAdd", "MMinus"): return mshape(m[1])
    if h == "MBin": return mshape(m[2])
    if h == "MOuter": return (vsize(m[1]), vsize(m[2]))
    if h == "MProd": return (mshape(m[2])[0], mshape(m[3])[1])
    if h == "MRepeat": n = vsize(m[2]); return (n, m[3]) if m[1] else (m[3], n)
    if h == "MConcat":
        (r1, c1), (r2, c2) = mshape(m[2]), mshape(m[3])
        return (r1, c1 + c2) if m[1] else (r1 + r2, c1)
    if h == "MTri": return mshape(m[3])
    raise ValueError(h)


# ------------------------------------------------------------------ reference evaluator (the documented meaning)
def uapp(f, x):
    if f == "FId": return x
    if f == "FAbs": return abs(x)
    if f == "FSqr": return x * x
    if f[0] == "FMulScalar": return x * f[1]
    if f[0] == "FCompose": return uapp(f[2], uapp(f[1], x))
    raise ValueError(f)


def bapp(g, x, y):
    if g == "BMul": return x * y
    if g == "BMin": return min(x, y)
    if g == "BMax": return max(x, y)
    if g[0] == "BCompose": return uapp(g[2], bapp(g[1], x, y))
    raise ValueError(g)


class Env:
    def __init__(self):
        self.v = {}   # name -> list
        self.m = {}   # name -> list of rows

    def copy(self):
        e = Env(); e.v = {k: list(x) for k, x in self.v.items()}; e.m = {k: [list(r) for r in x] for k, x in self.m.items()}
        return e

    def maxabs(self):
        a = [abs(x) for l in self.v.values() for x in l] + [abs(x) for M in self.m.values() for r in M for x in r]
        return max(a) if a else 0


def _chk(vals):
    for x in vals:
        if abs(x) >= BOUND:
            raise Reject("magnitude")
    return vals


def vden(s, e):
    """list of the vsize(e) documented element values"""
    h = e[0]
    if h == "VVar": r = list(s.v[e[1]])
    elif h == "VRange": r = vden(s, e[1])[e[2]:e[3]]
    elif h == "VRow": r = list(mden(s, e[1])[e[2]])
    elif h == "VCol": r = [row[e[2]] for row in mden(s, e[1])]
    elif h == "VDiag":
        M = mden(s, e[1]); r = [M[i][i] for i in range(min(mshape(e[1])))]
    elif h == "VConst": r = [e[2]] * e[1]
    elif h == "VUnit": r = [e[3] if i == e[2] else 0 for i in range(e[1])]
    elif h == "VScale": r = [e[1] * x for x in vden(s, e[2])]
    elif h == "VAdd": r = [x + y for x, y in zip(vden(s, e[1]), vden(s, e[2]))]
    elif h == "VMinus": r = [x - y for x, y in zip(vden(s, e[1]), vden(s, e[2]))]
    elif h == "VUn": r = [uapp(e[1], x) for x in vden(s, e[2])]
    elif h == "VBin": r = [bapp(e[1], x, y) for x, y in zip(vden(s, e[2]), vden(s, e[3]))]
    elif h == "VMv":
        M = mden(s, e[2]); x = vden(s, e[3])
        for row in M: _chk([abs(a * b) * max(1, len(x)) for a, b in zip(row, x)])
        r = [e[1] * sum(a * b for a, b in zip(row, x)) for row in M]
    elif h == "VFold":
        M = mden(s, e[3]); k = e[1]
        f = {"KSum": sum, "KMax": max, "KMin": min}[k]
        r = [uapp(e[2], f(row) if (row or k == "KSum") else 0) for row in M]
    elif h == "VConcat": r = vden(s, e[1]) + vden(s, e[2])
    else: raise ValueError(h)
    return _chk(r)


def mden(s, m):
    h = m[0]
    R, C = mshape(m)
    if h == "MVar": r = [list(x) for x in s.m[m[1]]]
    elif h == "MTrans":
        M = mden(s, m[1]); r = [[M[i][j] for i in range(C)] for j in range(R)]
    elif h == "MRange": r = [row[m[4]:m[5]] for row in mden(s, m[1])[m[2]:m[3]]]
    elif h == "MRows": r = [list(row) for row in mden(s, m[1])[m[2]:m[3]]]
    elif h == "MCols": r = [row[m[2]:m[3]] for row in mden(s, m[1])]
    elif h == "MConst": r = [[m[3]] * C for _ in range(R)]
    elif h == "MDiagM":
        d = vden(s, m[1]); r = [[d[i] if i == j else 0 for j in range(C)] for i in range(R)]
    elif h == "MScale": r = [[m[1] * x for x in row] for row in mden(s, m[2])]
    elif h == "MAdd": r = [[x + y for x, y in zip(a, b)] for a, b in zip(mden(s, m[1]), mden(s, m[2]))]
    elif h == "MMinus": r = [[x - y for x, y in zip(a, b)] for a, b in zip(mden(s, m[1]), mden(s, m[2]))]
    elif h == "MUn": r = [[uapp(m[1], x) for x in row] for row in mden(s, m[2])]
    elif h == "MBin": r = [[bapp(m[1], x, y) for x, y in zip(a, b)] for a, b in zip(mden(s, m[2]), mden(s, m[3]))]
    elif h == "MOuter":
        a, b = vden(s, m[1]), vden(s, m[2]); r = [[x * y for y in b] for x in a]
    elif h == "MProd":
        A, B = mden(s, m[2]), mden(s, m[3]); K = mshape(m[2])[1]
        r = []
        for i in range(R):
            row = []
            for j in range(C):
                ts = [A[i][k] * B[k][j] for k in range(K)]
                _chk([abs(t) * max(1, K) for t in ts])
                row.append(m[1] * sum(ts))
            r.append(row)
    elif h == "MRepeat":
        d = vden(s, m[2])
        r = [[(d[i] if m[1] else d[j]) for j in range(C)] for i in range(R)]
    elif h == "MConcat":
        A, B = mden(s, m[2]), mden(s, m[3])
        r = [a + b for a, b in zip(A, B)] if m[1] else [list(x) for x in A] + [list(x) for x in B]
    elif h == "MTri":
        # to_triangular(A, tag): the named triangle of the stored matrix, unit diagonal for the unit tags
        A = mden(s, m[3]); upper, unit = m[1], m[2]
        r = [[(1 if unit else A[i][j]) if i == j else (A[i][j] if ((i < j) if upper else (j < i)) else 0) for j in range(C)] for i in range(R)]
    else: raise ValueError(h)
    for row in r: _chk(row)
    assert len(r) == R and all(len(x) == C for x in r), (m, R, C, r)
    return r


def seval(s, r):
    h = r[0]
    if h in ("RSum", "RMax", "RMin", "RNorm1", "RNormSqr", "RNormInf"):
        d = vden(s, r[1])
        if h == "RSum": return sum(d)
        if h == "RMax": return max(d)
        if h == "RMin": return min(d)
        if h == "RNorm1": return sum(abs(x) for x in d)
        if h == "RNormSqr": return sum(x * x for x in d)
        return max(abs(x) for x in d)
    if h == "RInner": return sum(x * y for x, y in zip(vden(s, r[1]), vden(s, r[2])))
    M = mden(s, r[1]); R, C = mshape(r[1])
    if h == "RTrace": return sum(M[i][i] for i in range(R))
    if h == "RMSum": return sum(sum(x) for x in M)
    if h == "RMMax": return max(max(x) for x in M)
    if h == "RMMin": return min(min(x) for x in M)
    if h == "RMNorm1": return max(sum(abs(M[i][j]) for i in range(R)) for j in range(C))
    if h == "RMNormInf": return max(sum(abs(x) for x in row) for row in M)
    raise ValueError(h)


def quot(a, b):   # C++ / on integers truncates toward zero (Coq Z.quot)
    q = abs(a) // abs(b)
    return q if (a >= 0) == (b >= 0) else -q


def combine_op(o, old, new):
    if o == "OpSet": return new
    if o == "OpAdd": return old + new
    if o == "OpSub": return old - new
    if o == "OpMul": return old * new
    if o == "OpDiv":
        if new == 0: raise Reject("div0")
        return quot(old, new)
    raise ValueError(o)


def vaddr(t, i):
    h = t[0]
    if h == "VVar": return ("v", t[1], i)
    if h == "VRange": return vaddr(t[1], t[2] + i)
    if h == "VRow": return maddr(t[1], t[2], i)
    if h == "VCol": return maddr(t[1], i, t[2])
    if h == "VDiag": return maddr(t[1], i, i)
    raise ValueError("not an lvalue: %r" % (t,))


def maddr(t, i, j):
    h = t[0]
    if h == "MVar": return ("m", t[1], i, j)
    if h == "MTrans": return maddr(t[1], j, i)
    if h == "MRange": return maddr(t[1], t[2] + i, t[4] + j)
    if h == "MRows": return maddr(t[1], t[2] + i, j)
    if h == "MCols": return maddr(t[1], i, t[2] + j)
    raise ValueError("not an lvalue: %r" % (t,))


def rd(s, a): return s.v[a[1]][a[2]] if a[0] == "v" else s.m[a[1]][a[2]][a[3]]


def wr(s, a, x):
    if a[0] == "v": s.v[a[1]][a[2]] = x
    else: s.m[a[1]][a[2]][a[3]] = x


def exec_stmt(s, st):
    """spec semantics (temporary semantics for every form; noalias forms are only generated when the
    target container does not occur on the right).  Returns (new env, reduction value or None)."""
    h = st[0]; n = s.copy()
    if h == "SAssignV":
        _, na, o, t, e = st; d = vden(s, e)
        for i in range(vsize(t)):
            a = vaddr(t, i); wr(n, a, combine_op(o, rd(s, a), d[i]))
    elif h == "SAssignM":
        _, na, o, t, e = st; d = mden(s, e); R, C = mshape(t)
        for i in range(R):
            for j in range(C):
                a = maddr(t, i, j); wr(n, a, combine_op(o, rd(s, a), d[i][j]))
    elif h == "SScalarV":
        _, o, t, c = st
        for i in range(vsize(t)):
            a = vaddr(t, i); wr(n, a, combine_op(o, rd(s, a), c))
    elif h == "SScalarM":
        _, o, t, c = st; R, C = mshape(t)
        for i in range(R):
            for j in range(C):
                a = maddr(t, i, j); wr(n, a, combine_op(o, rd(s, a), c))
    elif h == "SSetV": wr(n, ("v", st[1], st[2]), st[3])
    elif h == "SSetM": wr(n, ("m", st[1], st[2], st[3]), st[4])
    elif h == "SReduce":
        return n, seval(s, st[1])
    else: raise ValueError(h)
    if n.maxabs() >= BOUND: raise Reject("magnitude")
    return n, None


def dump(decls, s):
    out = []
    for d in decls:
        if d[0] == "v": out.append("v%d=%s" % (d[1], ",".join(map(str, s.v[d[1]]))))
        else: out.append("m%d=%dx%d:%s" % (d[1], d[2], d[3], ",".join(str(x) for r in s.m[d[1]] for x in r)))
    return " ".join(out)


def expected_lines(decls, stmts, quiet=0):
    """one line per statement; the first `quiet` statements (element sets that establish the initial store) produce no line"""
    s = Env()
    for d in decls:
        if d[0] == "v": s.v[d[1]] = [0] * d[2]
        else: s.m[d[1]] = [[0] * d[3] for _ in range(d[2])]
    out = []
    for k, st in enumerate(stmts):
        if k < quiet:       # initial store: in place (exec_stmt copies the whole store)
            wr(s, ("v", st[1], st[2]) if st[0] == "SSetV" else ("m", st[1], st[2], st[3]), st[-1]); continue
        s, red = exec_stmt(s, st)
        if k >= quiet: out.append("%d ok r=%s | %s" % (k - quiet, "-" if red is None else red, dump(decls, s)))
    return out


# ------------------------------------------------------------------ printers
def sx(t):
    if isinstance(t, tuple): return "(" + " ".join(sx(x) for x in t) + ")"
    if isinstance(t, bool): return "true" if t else "false"
    return str(t)


def term_file(decls, stmts, quiet=0):
    L = []
    for d in decls:
        L.append("D v %d %d" % (d[1], d[2]) if d[0] == "v" else "D m %d %d %d" % (d[1], d[2], d[3]))
    for k, st in enumerate(stmts):
        if k < quiet:
            assert st[0] in ("SSetV", "SSetM")
            L.append("Q " + " ".join(str(x) for x in st))       # initial store: no output line
        else: L.append("S " + sx(st))
    return L


def names_in(t, acc=None):
    acc = set() if acc is None else acc
    if isinstance(t, tuple):
        if t[0] == "VVar": acc.add(("v", t[1]))
        elif t[0] == "MVar": acc.add(("m", t[1]))
        else:
            for x in t[1:]: names_in(x, acc)
    return acc


def morient(m, orient):
    """'r' / 'c' for expressions whose storage orientation is determined by dense operands, 'u' otherwise"""
    h = m[0]
    if h == "MVar": return "c" if orient.get(m[1]) else "r"
    if h == "MTrans":
        o = morient(m[1], orient); return {"r": "c", "c": "r"}.get(o, o)
    if h in ("MRange", "MRows", "MCols"): return morient(m[1], orient)
    if h == "MConst": return "r"
    if h == "MTri": return "u"
    if h in ("MScale", "MUn"): return morient(m[2], orient)
    if h in ("MAdd", "MMinus"): return morient(m[1], orient)
    if h == "MBin": return morient(m[2], orient)
    return "u"


def has_mixed_bin(t, orient):
    """a matrix_binary whose operands have different storage orientations: `S + (S * Cm)` segfaults
    (finding crash:A+f(B,C):mixed-orientation), kept out of the main stream"""
    if not isinstance(t, tuple): return False
    if t[0] == "MBin":
        a, b = morient(t[2], orient), morient(t[3], orient)
        if a != b and "u" not in (a, b): return True
    return any(has_mixed_bin(x, orient) for x in t[1:])


def is_mlval(m):
    return m[0] == "MVar" or (m[0] in ("MTrans", "MRange", "MRows", "MCols") and is_mlval(m[1]))


def is_vlval(e):
    return e[0] == "VVar" or (e[0] == "VRange" and is_vlval(e[1])) or (e[0] in ("VRow", "VCol", "VDiag") and is_mlval(e[1]))


TRI_TAG = {(False, False): "lower", (True, False): "upper", (False, True): "unit_lower", (True, True): "unit_upper"}


class Cxx:
    """C++ spelling of a term.  `style` picks between equivalent spellings (operator vs function)."""
    def __init__(self, rng=None):
        self.rng = rng or random.Random(0)

    def pick(self, *alts):
        return self.rng.choice(alts)

    def sc(self, c): return "T(%d)" % c

    def v(self, e):
        h = e[0]
        if h == "VVar": return "v%d" % e[1]
        if h == "VRange": return "subrange(%s,%d,%d)" % (self.v(e[1]), e[2], e[3])
        if h == "VRow": return "row(%s,%d)" % (self.m(e[1]), e[2])
        if h == "VCol":
            # column() of a temporary does not compile (finding compile:column-of-temporary); it is
            # *defined* as row(trans(m),j), which is what we spell for non-containers
            if e[1][0] == "MVar": return "column(%s,%d)" % (self.m(e[1]), e[2])
            return "row(trans(%s),%d)" % (self.m(e[1]), e[2])
        if h == "VDiag": return "diag(%s)" % self.m(e[1])
        if h == "VConst": return self.pick("scalar_vector<T,cpu_tag>(%d,%s)" % (e[1], self.sc(e[2])), "repeat(%s,%d)" % (self.sc(e[2]), e[1]))
        if h == "VUnit": return "unit_vector<T,cpu_tag>(%d,%d,%s)" % (e[1], e[2], self.sc(e[3]))
        if h == "VScale":
            if e[1] == -1 and self.rng.random() < 0.5: return "(-%s)" % self.v(e[2])
            return self.pick("(%s*%s)" % (self.sc(e[1]), self.v(e[2])), "(%s*%s)" % (self.v(e[2]), self.sc(e[1])))
        if h == "VAdd":
            if e[2][0] == "VConst" and self.rng.random() < 0.5: return "(%s+%s)" % (self.v(e[1]), self.sc(e[2][2]))
            return "(%s+%s)" % (self.v(e[1]), self.v(e[2]))
        if h == "VMinus":
            if e[2][0] == "VConst" and self.rng.random() < 0.5: return "(%s-%s)" % (self.v(e[1]), self.sc(e[2][2]))
            return "(%s-%s)" % (self.v(e[1]), self.v(e[2]))
        if h == "VUn": return "%s(%s)" % ({"FAbs": "abs", "FSqr": "sqr"}[e[1]], self.v(e[2]))
        if h == "VBin":
            a, b = self.v(e[2]), self.v(e[3])
            if e[1] == "BMul": return self.pick("(%s*%s)" % (a, b), "element_prod(%s,%s)" % (a, b))
            return "%s(%s,%s)" % ({"BMin": "min", "BMax": "max"}[e[1]], a, b)
        if h == "VMv":
            assert e[1] == 1
            M, x = e[2], e[3]
            if M[0] == "MTri":      # triangular_prod takes its vector argument by non-const reference: a container
                assert x[0] == "VVar"
                return "triangular_prod<%s>(%s,%s)" % (TRI_TAG[(M[1], M[2])], self.m(M[3]), self.v(x))
            if M[0] == "MTrans" and self.rng.random() < 0.5:
                return self.pick("prod(%s,%s)" % (self.v(x), self.m(M[1])), "(%s%%%s)" % (self.v(x), self.m(M[1])))
            return self.pick("prod(%s,%s)" % (self.m(M), self.v(x)), "(%s%%%s)" % (self.m(M), self.v(x)))
        if h == "VFold":
            assert e[2] == "FId"
            f = {"KSum": "sum", "KMax": "max", "KMin": "min"}[e[1]]
            M = e[3]
            if M[0] == "MTrans" and self.rng.random() < 0.6: return "%s(as_columns(%s))" % (f, self.m(M[1]))
            if e[1] == "KSum" and M[0] == "MUn" and M[1] == "FAbs" and self.rng.random() < 0.5:
                return "norm_1(as_rows(%s))" % self.m(M[2])
            return "%s(as_rows(%s))" % (f, self.m(M))
        if h == "VConcat": return "(%s|%s)" % (self.v(e[1]), self.v(e[2]))
        raise ValueError(h)

    def m(self, m):
        h = m[0]
        if h == "MVar": return "m%d" % m[1]
        if h == "MTrans": return "trans(%s)" % self.m(m[1])
        if h == "MRange": return "subrange(%s,%d,%d,%d,%d)" % (self.m(m[1]), m[2], m[3], m[4], m[5])
        if h == "MRows": return "rows(%s,%d,%d)" % (self.m(m[1]), m[2], m[3])
        if h == "MCols": return "columns(%s,%d,%d)" % (self.m(m[1]), m[2], m[3])
        if h == "MConst": return self.pick("repeat(%s,%d,%d)" % (self.sc(m[3]), m[1], m[2]),
                                           "scalar_matrix<T,cpu_tag,row_major>(%d,%d,%s)" % (m[1], m[2], self.sc(m[3])))
        if h == "MDiagM":
            if m[1][0] == "VConst" and m[1][2] == 1: return "identity_matrix<T>(%d)" % m[1][1]
            return "to_diagonal(%s)" % self.v(m[1])
        if h == "MScale":
            if m[1] == -1 and self.rng.random() < 0.5: return "(-%s)" % self.m(m[2])
            return self.pick("(%s*%s)" % (self.sc(m[1]), self.m(m[2])), "(%s*%s)" % (self.m(m[2]), self.sc(m[1])))
        if h == "MAdd":
            if m[2][0] == "MConst" and self.rng.random() < 0.5: return "(%s+%s)" % (self.m(m[1]), self.sc(m[2][3]))
            return "(%s+%s)" % (self.m(m[1]), self.m(m[2]))
        if h == "MMinus":
            if m[2][0] == "MConst" and self.rng.random() < 0.5: return "(%s-%s)" % (self.m(m[1]), self.sc(m[2][3]))
            return "(%s-%s)" % (self.m(m[1]), self.m(m[2]))
        if h == "MUn": return "%s(%s)" % ({"FAbs": "abs", "FSqr": "sqr"}[m[1]], self.m(m[2]))
        if h == "MBin":
            a, b = self.m(m[2]), self.m(m[3])
            if m[1] == "BMul": return self.pick("(%s*%s)" % (a, b), "element_prod(%s,%s)" % (a, b))
            return "%s(%s,%s)" % ({"BMin": "min", "BMax": "max"}[m[1]], a, b)
        if h == "MOuter": return "outer_prod(%s,%s)" % (self.v(m[1]), self.v(m[2]))
        if h == "MProd":
            assert m[1] == 1
            if m[2][0] == "MTri":
                return "triangular_prod<%s>(%s,%s)" % (TRI_TAG[(m[2][1], m[2][2])], self.m(m[2][3]), self.m(m[3]))
            return self.pick("prod(%s,%s)" % (self.m(m[2]), self.m(m[3])), "(%s%%%s)" % (self.m(m[2]), self.m(m[3])))
        if h == "MRepeat":
            assert not m[1]
            return "repeat(%s,%d)" % (self.v(m[2]), m[3])
        if h == "MConcat": return "(%s%s%s)" % (self.m(m[2]), "|" if m[1] else "&", self.m(m[3]))
        raise ValueError(h)

    def red(self, r):
        h = r[0]
        f = {"RSum": "sum", "RMax": "max", "RMin": "min", "RNorm1": "norm_1", "RNormSqr": "norm_sqr", "RNormInf": "norm_inf",
             "RTrace": "trace", "RMSum": "sum", "RMMax": "max", "RMMin": "min", "RMNorm1": "norm_1", "RMNormInf": "norm_inf"}
        if h == "RInner": return "inner_prod(%s,%s)" % (self.v(r[1]), self.v(r[2]))
        if h in ("RSum", "RMax", "RMin", "RNorm1", "RNormSqr", "RNormInf"): return "%s(%s)" % (f[h], self.v(r[1]))
        return "%s(%s)" % (f[h], self.m(r[1]))

    def stmt(self, st):
        h = st[0]; ops = {"OpSet": "=", "OpAdd": "+=", "OpSub": "-=", "OpMul": "*=", "OpDiv": "/="}
        if h in ("SAssignV", "SAssignM"):
            _, na, o, t, e = st
            P = self.v if h == "SAssignV" else self.m
            lhs = P(t)
            if na: lhs = "noalias(%s)" % lhs
            return "%s %s %s;" % (lhs, ops[o], P(e))
        if h == "SScalarV": return "%s %s %s;" % (self.v(st[2]), ops[st[1]], self.sc(st[3]))
        if h == "SScalarM": return "%s %s %s;" % (self.m(st[2]), ops[st[1]], self.sc(st[3]))
        if h == "SSetV": return "v%d(%d) = %s;" % (st[1], st[2], self.sc(st[3]))
        if h == "SSetM": return "m%d(%d,%d) = %s;" % (st[1], st[2], st[3], self.sc(st[4]))
        if h == "SReduce": return "RED = %s;" % self.red(st[1])
        raise ValueError(h)


PRELUDE = r"""// generated by tools/c01.py — do not edit
#include <shark/LinAlg/BLAS/remora.hpp>
#include <cstdio>
#include <cmath>
#include <string>
using namespace remora;
#ifndef VT
#define VT long
#endif
typedef VT T;
static std::string num(double x){ char b[64]; if(std::floor(x)==x && std::fabs(x)<9e15) std::snprintf(b,64,"%lld",(long long)x); else std::snprintf(b,64,"%a",x); return b; }
static std::string num(long x){ return std::to_string(x); }
template<class V> static void pv(int id, V const& v){ std::printf(" v%d=",id); for(std::size_t i=0;i<v.size();++i) std::printf("%s%s", i?",":"", num(v(i)).c_str()); }
template<class M> static void pm(int id, M const& m){ std::printf(" m%d=%dx%d:",id,(int)m.size1(),(int)m.size2()); bool f=true; for(std::size_t i=0;i<m.size1();++i) for(std::size_t j=0;j<m.size2();++j){ std::printf("%s%s", f?"":",", num(m(i,j)).c_str()); f=false; } }
"""


def cxx_program(decls, orient, stmts, rng=None, sparse=(), quiet=0):
    """one translation unit: declarations, then every statement followed by a dump of every container; the first
    `quiet` statements (element sets) are emitted as data tables + loops and print nothing"""
    cx = Cxx(rng)
    L = [PRELUDE, "int main(){", "  T RED = T(0); bool isred = false; int K = 0;"]
    dumpcode = []
    for d in decls:
        if d[0] == "v":
            ty = "compressed_vector<T>" if ("v", d[1]) in sparse else "vector<T>"
            L.append("  %s v%d(%d);" % (ty, d[1], d[2]))
            dumpcode.append(("{ vector<T> t_(v%d); pv(%d,t_); }" % (d[1], d[1])) if ("v", d[1]) in sparse else "pv(%d,v%d);" % (d[1], d[1]))
        else:
            if ("m", d[1]) in sparse: ty = "compressed_matrix<T>"
            else: ty = "matrix<T,%s>" % ("column_major" if orient.get(d[1]) else "row_major")
            L.append("  %s m%d(%d,%d);" % (ty, d[1], d[2], d[3]))
            dumpcode.append(("{ matrix<T> t_(m%d); pm(%d,t_); }" % (d[1], d[1])) if ("m", d[1]) in sparse else "pm(%d,m%d);" % (d[1], d[1]))
    L.append("#define P() do{ std::printf(\"%d ok r=%s |\", K++, isred? num(RED).c_str() : \"-\"); isred=false; " + " ".join(dumpcode) + " std::printf(\"\\n\"); std::fflush(stdout); }while(0)")
    k0 = 0
    while k0 < quiet:
        st = stmts[k0]; k1 = k0
        while k1 < quiet and stmts[k1][0] == st[0] and stmts[k1][1] == st[1]: k1 += 1
        grp = stmts[k0:k1]
        if st[0] == "SSetV":
            L.append("  { static const int d_[] = {%s}; for (int q_ = 0; q_ < %d; ++q_) v%d(d_[2*q_]) = T(d_[2*q_+1]); }" % (
                ",".join("%d,%d" % (g[2], g[3]) for g in grp), len(grp), st[1]))
        else:
            L.append("  { static const int d_[] = {%s}; for (int q_ = 0; q_ < %d; ++q_) m%d(d_[3*q_],d_[3*q_+1]) = T(d_[3*q_+2]); }" % (
                ",".join("%d,%d,%d" % (g[2], g[3], g[4]) for g in grp), len(grp), st[1]))
        k0 = k1
    for k, st in enumerate(stmts):
        if k < quiet: continue
        code = cx.stmt(st)
        if st[0] == "SReduce": code += " isred = true;"
        L.append("  { %s } P(); // %d" % (code, k))
    L.append("  return 0;\n}")
    return "\n".join(L) + "\n"


# ------------------------------------------------------------------ random programs
class Gen:
    """draws well-typed statements over a fixed set of containers.  Restrictions of the *main* stream
    (constructs that do not compile or crash on the unchanged tree are listed in tools/c01.py: DEFECTS
    and exercised there one by one):
      * proxies are applied to container chains or to proxy-free element-wise expressions;
      * prod(M1,M2): no operand whose optimised head is a scalar multiple; prod(M,v): no repeat;
      * plain `*=`/`/=` with an expression on a vector *proxy* target is F9."""

    def __init__(self, rng, integer_div=True, max_depth=5, big=False):
        self.rng = rng; self.integer_div = integer_div; self.max_depth = max_depth
        self.decls = []; self.orient = {}
        sizes = [0, 1, 2, 3, 3, 4, 5, rng.randint(2, 5)]
        shapes = [(0, 3), (1, 1), (2, 3), (3, 2), (3, 3), (4, 4), (rng.randint(2, 5), rng.randint(1, 5)), (5, 2), (rng.randint(1, 4), 0), (2, 2)]
        if big:
            # shapes around the 16x16 blocking of the dense assignment kernels (partial last blocks in both directions)
            sizes = [17, 18, 33]
            shapes = [(17, 17), (17, 18), (18, 17), (18, 18), (33, 17), (17, 33)]
        rng.shuffle(sizes)
        for x, n in enumerate(sizes): self.decls.append(("v", x, n))
        rng.shuffle(shapes)
        for A, (r, c) in enumerate(shapes):
            self.decls.append(("m", A, r, c)); self.orient[A] = rng.random() < 0.5
        self.vecs = [d for d in self.decls if d[0] == "v"]; self.mats = [d for d in self.decls if d[0] == "m"]
        self.stats = {}

    def count(self, k): self.stats[k] = self.stats.get(k, 0) + 1

    # ---- lvalue chains
    def mchain(self, r, c, depth=2, avoid=()):
        """matrix proxy chain of shape r x c over a container, or None"""
        rng = self.rng; cands = []
        for d in self.mats:
            if ("m", d[1]) in avoid: continue
            R, C = d[2], d[3]; base = ("MVar", d[1], R, C)
            if (R, C) == (r, c): cands += [base] * 3
            if (C, R) == (r, c): cands.append(("MTrans", base))
            if R >= r and C >= c and (R, C) != (r, c):
                a = rng.randint(0, R - r); b = rng.randint(0, C - c)
                cands.append(("MRange", base, a, a + r, b, b + c))
                if C == c: cands.append(("MRows", base, a, a + r))
                if R == r: cands.append(("MCols", base, b, b + c))
            if C >= r and R >= c and depth > 1 and (C, R) != (r, c):
                a = rng.randint(0, C - r); b = rng.randint(0, R - c)
                cands.append(("MRange", ("MTrans", base), a, a + r, b, b + c))
                cands.append(("MTrans", ("MRange", base, b, b + c, a, a + r)))
        return rng.choice(cands) if cands else None

    def vchain(self, n, avoid=()):
        rng = self.rng; cands = []
        for d in self.vecs:
            if ("v", d[1]) in avoid: continue
            base = ("VVar", d[1], d[2])
            if d[2] == n: cands += [base] * 4
            elif d[2] > n:
                a = rng.randint(0, d[2] - n); cands.append(("VRange", base, a, a + n))
                if d[2] - n >= 2:
                    a = rng.randint(0, d[2] - n - 1); cands.append(("VRange", ("VRange", base, a, a + n + 1), 0, n))
        for d in self.mats:
            if ("m", d[1]) in avoid: continue
            R, C = d[2], d[3]; base = ("MVar", d[1], R, C)
            if C == n and R > 0: cands.append(("VRow", base, rng.randrange(R)))
            if R == n and C > 0: cands.append(("VCol", base, rng.randrange(C)))
            if min(R, C) == n: cands.append(("VDiag", base))
            if C > n and R > 0:
                a = rng.randint(0, C - n); cands.append(("VRange", ("VRow", base, rng.randrange(R)), a, a + n))
            if R > n and C > 0:
                a = rng.randint(0, R - n); cands.append(("VRow", ("MTrans", ("MRows", base, a, a + n)), rng.randrange(C)))
            if R == n and C > 0 and rng.random() < 0.3: cands.append(("VRow", ("MTrans", base), rng.randrange(C)))
        return rng.choice(cands) if cands else None

    def const(self): return self.rng.choice([-3, -2, -1, -1, 1, 2, 2, 3])

    # ---- proxy-free element-wise expressions (the rewrite rules push a proxy through these)
    def ev(self, n, d, avoid=()):
        rng = self.rng
        if d <= 0 or rng.random() < 0.3:
            r = rng.random()
            if r < 0.75:
                c = self.vchain(n, avoid)
                if c is not None: return c
            return ("VConst", n, self.const())
        k = rng.random()
        if k < 0.2: return ("VScale", self.const(), self.ev(n, d - 1, avoid))
        if k < 0.45: return ("VAdd", self.ev(n, d - 1, avoid), self.ev(n, d - 1, avoid))
        if k < 0.6: return ("VMinus", self.ev(n, d - 1, avoid), self.ev(n, d - 1, avoid))
        if k < 0.75: return ("VUn", rng.choice(["FAbs", "FSqr"]), self.ev(n, d - 1, avoid))
        return ("VBin", rng.choice(["BMul", "BMin", "BMax"]), self.ev(n, d - 1, avoid), self.ev(n, d - 1, avoid))

    def em(self, r, c, d, avoid=(), const_ok=True):
        rng = self.rng
        if d <= 0 or rng.random() < 0.3:
            if rng.random() < 0.8 or not const_ok:
                ch = self.mchain(r, c, avoid=avoid)
                if ch is not None: return ch
            if const_ok: return ("MConst", r, c, self.const())
            return ("MOuter", ("VConst", r, self.const()), ("VConst", c, self.const()))
        k = rng.random()
        if k < 0.2: return ("MScale", self.const(), self.em(r, c, d - 1, avoid, const_ok))
        if k < 0.45: return ("MAdd", self.em(r, c, d - 1, avoid, const_ok), self.em(r, c, d - 1, avoid, const_ok))
        if k < 0.6: return ("MMinus", self.em(r, c, d - 1, avoid, const_ok), self.em(r, c, d - 1, avoid, const_ok))
        if k < 0.75: return ("MUn", rng.choice(["FAbs", "FSqr"]), self.em(r, c, d - 1, avoid, const_ok))
        return ("MBin", rng.choice(["BMul", "BMin", "BMax"]), self.em(r, c, d - 1, avoid, const_ok), self.em(r, c, d - 1, avoid, const_ok))

    # ---- general expressions
    def V(self, n, d, avoid=()):
        rng = self.rng
        if d <= 0: return self.ev(n, 0, avoid)
        k = rng.random()
        if k < 0.22: return self.ev(n, min(d, 2), avoid)
        if k < 0.30: return ("VScale", self.const(), self.V(n, d - 1, avoid))
        if k < 0.40: return ("VAdd", self.V(n, d - 1, avoid), self.V(n, d - 1, avoid))
        if k < 0.47: return ("VMinus", self.V(n, d - 1, avoid), self.V(n, d - 1, avoid))
        if k < 0.53: return ("VUn", rng.choice(["FAbs", "FSqr"]), self.V(n, d - 1, avoid))
        if k < 0.60: return ("VBin", rng.choice(["BMul", "BMin", "BMax"]), self.V(n, d - 1, avoid), self.V(n, d - 1, avoid))
        if k < 0.75:   # matrix-vector product
            kk = rng.randint(0, 5); self.count("prod(M,v)")
            if rng.random() < 0.3:
                # any vector operand (possibly a scalar multiple): the matrix must then have a default /
                # scalar-multiple head, otherwise the optimizer specialisations are ambiguous
                # (finding compile:prod(structured M, alpha*v))
                M = self.mchain(n, kk, avoid=avoid) or ("MConst", n, kk, self.const())
                q = rng.random()
                if q < 0.2: M = ("MScale", self.const(), M)
                elif q < 0.35: M = ("MUn", rng.choice(["FAbs", "FSqr"]), self.M(n, kk, d - 1, avoid))
                return ("VMv", 1, M, self.V(kk, d - 1, avoid))
            M = self.Mprodop(n, kk, d - 1, avoid, for_mv=True)
            return ("VMv", 1, M, self.Vns(kk, d - 1, avoid))
        if k < 0.82:   # row folds
            c = rng.randint(1, 5); fk = rng.choice(["KSum", "KSum", "KMax", "KMin"])
            if rng.random() < 0.4:
                self.count("fold(as_columns)")
                return ("VFold", fk, "FId", ("MTrans", self.em(c, n, min(d - 1, 2), avoid)))
            self.count("fold(as_rows)")
            return ("VFold", fk, "FId", self.M(n, c, d - 1, avoid))
        if k < 0.86 and n >= 1:
            a = rng.randint(0, n); self.count("concat")
            return ("VConcat", self.V(a, d - 1, avoid), self.V(n - a, d - 1, avoid))
        if k < 0.89 and n >= 1:
            return ("VUnit", n, rng.randrange(n), self.const())
        # proxies over expressions: these fire the rewrite rules
        p = rng.random()
        if p < 0.35:
            extra = rng.randint(0, 3); a = rng.randint(0, extra); self.count("subrange(expr)")
            inner = self.ev(n + extra, min(d - 1, 3), avoid)
            if rng.random() < 0.25:
                kk = rng.randint(0, 4); M = self.mchain(n + extra, kk, avoid=avoid)
                if M is not None:
                    self.count("subrange(prod(M,v))"); inner = ("VMv", 1, M, self.ev(kk, 1, avoid))
            return ("VRange", inner, a, a + n)
        if p < 0.6:
            R = rng.randint(1, 4); i = rng.randrange(R); self.count("row(expr)")
            q = rng.random()
            if q < 0.2: self.count("row(outer_prod)"); return ("VRow", ("MOuter", self.ev(R, 1, avoid), self.V(n, d - 1, avoid)), i)
            if q < 0.3: self.count("row(repeat)"); return ("VRow", ("MRepeat", False, self.V(n, d - 1, avoid), R), i)
            if q < 0.4:
                kk = rng.randint(0, 4); A = self.mchain(R, kk, avoid=avoid); B = self.mchain(kk, n, avoid=avoid)
                if A is not None and B is not None: self.count("row(prod)"); return ("VRow", ("MProd", 1, A, B), i)
            if q < 0.48 and n >= 1 and R == n:
                self.count("row(diagonal)"); return ("VRow", ("MDiagM", self.vchain(n, avoid) or ("VConst", n, 2)), i)
            return ("VRow", self.em(R, n, min(d - 1, 3), avoid), i)
        if p < 0.8:
            C = rng.randint(1, 4); j = rng.randrange(C); self.count("column(expr)")
            return ("VCol", self.em(n, C, min(d - 1, 3), avoid), j)
        m = rng.randint(n, n + 2); self.count("diag(expr)")
        sh = (n, m) if rng.random() < 0.5 else (m, n)
        return ("VDiag", self.diagop(sh[0], sh[1], d, avoid))

    def diagop(self, r, c, d, avoid=()):
        """operand of diag()/trace(): diag(prod), diag(scalar_matrix), diag(concat) do not compile"""
        rng = self.rng; q = rng.random(); n = min(r, c)
        if q < 0.2: self.count("diag(outer_prod)"); return ("MOuter", self.ev(r, 1, avoid), self.ev(c, 1, avoid))
        if q < 0.3: self.count("diag(repeat)"); return ("MRepeat", False, self.ev(c, 1, avoid), r)
        if q < 0.4 and r == c: self.count("diag(diagonal)"); return ("MDiagM", self.V(n, d - 1, avoid))
        return self.em(r, c, min(d - 1, 3), avoid, const_ok=False)

    def Vns(self, n, d, avoid=()):
        """vector expression whose optimised head is not a scalar multiple"""
        rng = self.rng; k = rng.random()
        if k < 0.4 or d <= 0: return self.vchain(n, avoid) or ("VConst", n, self.const())
        if k < 0.7: return ("VAdd", self.V(n, d - 1, avoid), self.V(n, d - 1, avoid))
        if k < 0.85: return ("VUn", rng.choice(["FAbs", "FSqr"]), self.V(n, d - 1, avoid))
        return ("VBin", rng.choice(["BMul", "BMin", "BMax"]), self.V(n, d - 1, avoid), self.V(n, d - 1, avoid))

    def Mprodop(self, r, c, d, avoid, for_mv=False):
        """operand of a product: anything whose optimised head is not a scalar multiple (and, for
        prod(M,v), contains no repeat at a position the product optimizer looks at)"""
        rng = self.rng
        for _ in range(20):
            k = rng.random()
            if k < 0.5 or d <= 0:
                m = self.mchain(r, c, avoid=avoid)
                if m is None: m = ("MConst", r, c, self.const())
            elif k < 0.65: m = ("MAdd", self.Mprodop(r, c, d - 1, avoid, for_mv), self.Mprodop(r, c, d - 1, avoid, for_mv))
            elif k < 0.72: m = ("MUn", rng.choice(["FAbs", "FSqr"]), self.M(r, c, d - 1, avoid))
            elif k < 0.80:
                kk = rng.randint(0, 4)
                m = ("MProd", 1, self.Mprodop(r, kk, d - 1, avoid), self.Mprodop(kk, c, d - 1, avoid))
            elif k < 0.86: m = ("MOuter", self.V(r, d - 1, avoid), self.V(c, d - 1, avoid))
            elif k < 0.9 and r == c: m = ("MDiagM", self.V(r, d - 1, avoid))
            elif k < 0.95 and for_mv: m = ("MScale", self.const(), self.Mprodop(r, c, d - 1, avoid, for_mv))
            else: m = ("MBin", "BMul", self.M(r, c, d - 1, avoid), self.M(r, c, d - 1, avoid))
            return m
        return ("MConst", r, c, 1)

    def M(self, r, c, d, avoid=()):
        rng = self.rng
        if d <= 0: return self.em(r, c, 0, avoid)
        k = rng.random()
        if k < 0.22: return self.em(r, c, min(d, 2), avoid)
        if k < 0.30: return ("MScale", self.const(), self.M(r, c, d - 1, avoid))
        if k < 0.40: return ("MAdd", self.M(r, c, d - 1, avoid), self.M(r, c, d - 1, avoid))
        if k < 0.47: return ("MMinus", self.M(r, c, d - 1, avoid), self.M(r, c, d - 1, avoid))
        if k < 0.53: return ("MUn", rng.choice(["FAbs", "FSqr"]), self.M(r, c, d - 1, avoid))
        if k < 0.59: return ("MBin", rng.choice(["BMul", "BMin", "BMax"]), self.M(r, c, d - 1, avoid), self.M(r, c, d - 1, avoid))
        if k < 0.72:
            kk = rng.randint(0, 5); self.count("prod(M,M)")
            return ("MProd", 1, self.Mprodop(r, kk, d - 1, avoid), self.Mprodop(kk, c, d - 1, avoid))
        if k < 0.78: self.count("outer_prod"); return ("MOuter", self.V(r, d - 1, avoid), self.V(c, d - 1, avoid))
        if k < 0.83: self.count("repeat"); return ("MRepeat", False, self.V(c, d - 1, avoid), r)
        if k < 0.87 and r == c:
            self.count("diagonal/identity")
            return ("MDiagM", ("VConst", r, 1)) if rng.random() < 0.4 else ("MDiagM", self.V(r, d - 1, avoid))
        if k < 0.91 and (r >= 1 or c >= 1):
            self.count("concat")
            if c >= 1 and (rng.random() < 0.5 or r == 0):
                a = rng.randint(0, c); return ("MConcat", True, self.M(r, a, d - 1, avoid), self.M(r, c - a, d - 1, avoid))
            a = rng.randint(0, r); return ("MConcat", False, self.M(a, c, d - 1, avoid), self.M(r - a, c, d - 1, avoid))
        # proxies over expressions
        p = rng.random()
        if p < 0.35:
            self.count("trans(expr)"); q = rng.random()
            if q < 0.15: self.count("trans(outer_prod)"); return ("MTrans", ("MOuter", self.V(c, d - 1, avoid), self.V(r, d - 1, avoid)))
            if q < 0.30:
                kk = rng.randint(0, 4); A = self.mchain(c, kk, avoid=avoid); B = self.mchain(kk, r, avoid=avoid)
                if A is not None and B is not None: self.count("trans(prod)"); return ("MTrans", ("MProd", 1, A, B))
            if q < 0.4: self.count("trans(repeat)"); return ("MTrans", ("MRepeat", False, self.V(r, d - 1, avoid), c))
            if q < 0.47 and r == c: self.count("trans(diagonal)"); return ("MTrans", ("MDiagM", self.V(r, d - 1, avoid)))
            if q < 0.55 and r >= 1:
                a = rng.randint(0, r); self.count("trans(concat)")
                return ("MTrans", ("MConcat", True, self.em(c, a, 1, avoid), self.em(c, r - a, 1, avoid)))
            return ("MTrans", self.em(c, r, min(d - 1, 3), avoid))
        er, ec = rng.randint(0, 2), rng.randint(0, 2); a, b = rng.randint(0, er), rng.randint(0, ec)
        if p < 0.6:
            self.count("subrange(matrix expr)"); q = rng.random()
            if q < 0.15: self.count("subrange(outer_prod)"); return ("MRange", ("MOuter", self.ev(r + er, 1, avoid), self.ev(c + ec, 1, avoid)), a, a + r, b, b + c)
            if q < 0.27: self.count("subrange(repeat)"); return ("MRange", ("MRepeat", False, self.ev(c + ec, 1, avoid), r + er), a, a + r, b, b + c)
            if q < 0.4:
                kk = rng.randint(0, 4); A = self.mchain(r + er, kk, avoid=avoid); B = self.mchain(kk, c + ec, avoid=avoid)
                if A is not None and B is not None: self.count("subrange(prod)"); return ("MRange", ("MProd", 1, A, B), a, a + r, b, b + c)
            return ("MRange", self.em(r + er, c + ec, min(d - 1, 3), avoid), a, a + r, b, b + c)
        if p < 0.8:
            self.count("rows(expr)"); q = rng.random()
            if q < 0.15: self.count("rows(outer_prod)"); return ("MRows", ("MOuter", self.ev(r + er, 1, avoid), self.V(c, d - 1, avoid)), a, a + r)
            if q < 0.27: self.count("rows(repeat)"); return ("MRows", ("MRepeat", False, self.V(c, d - 1, avoid), r + er), a, a + r)
            return ("MRows", self.em(r + er, c, min(d - 1, 3), avoid), a, a + r)
        self.count("columns(expr)")
        return ("MCols", self.em(r, c + ec, min(d - 1, 3), avoid), b, b + c)

    # ---- statements
    def target_v(self):
        rng = self.rng
        if rng.random() < 0.5:
            d = rng.choice(self.vecs); return ("VVar", d[1], d[2])
        for _ in range(10):
            t = self.vchain(rng.randint(0, 5))
            if t is not None: return t
        d = rng.choice(self.vecs); return ("VVar", d[1], d[2])

    def target_m(self):
        rng = self.rng
        if rng.random() < 0.5:
            d = rng.choice(self.mats); return ("MVar", d[1], d[2], d[3])
        for _ in range(10):
            t = self.mchain(rng.randint(0, 4), rng.randint(0, 4))
            if t is not None: return t
        d = rng.choice(self.mats); return ("MVar", d[1], d[2], d[3])

    def op(self):
        r = self.rng.random()
        return "OpSet" if r < 0.4 else "OpAdd" if r < 0.6 else "OpSub" if r < 0.8 else "OpMul" if r < 0.93 else "OpDiv"

    def alias_pattern(self):
        """the deliberate aliasing shapes named in the property (plain forms only)"""
        rng = self.rng; k = rng.randrange(7)
        sq = [d for d in self.mats if d[2] == d[3] and d[2] >= 2]
        if k == 0 and sq:      # x = prod(A,x)
            d = rng.choice(sq); x = self.vchain(d[2])
            if x is not None and is_vlval(x):
                self.count("alias x=prod(A,x)")
                return ("SAssignV", False, rng.choice(["OpSet", "OpAdd", "OpSub"]), x, ("VMv", 1, ("MVar", d[1], d[2], d[3]), x))
        if k == 1 and sq:      # A = trans(A)
            d = rng.choice(sq); A = ("MVar", d[1], d[2], d[3]); self.count("alias A=trans(A)")
            return ("SAssignM", False, rng.choice(["OpSet", "OpAdd", "OpSub", "OpMul"]), A, ("MTrans", A))
        if k == 2 and sq:      # row(A,i) += column(A,j)
            d = rng.choice(sq); A = ("MVar", d[1], d[2], d[3]); self.count("alias row(A,i)+=column(A,j)")
            return ("SAssignV", False, rng.choice(["OpSet", "OpAdd", "OpSub"]), ("VRow", A, rng.randrange(d[2])), ("VCol", A, rng.randrange(d[2])))
        if k == 3:             # overlapping subranges
            vs = [d for d in self.vecs if d[2] >= 3]
            if vs:
                d = rng.choice(vs); n = rng.randint(1, d[2] - 1); a = rng.randint(0, d[2] - n); b = rng.randint(0, d[2] - n)
                x = ("VVar", d[1], d[2]); self.count("alias overlapping subranges")
                return ("SAssignV", False, rng.choice(["OpSet", "OpAdd", "OpSub"]), ("VRange", x, a, a + n), ("VRange", x, b, b + n))
        if k == 4 and sq:      # A = prod(A,A) / A = prod(A,trans(A))
            d = rng.choice(sq); A = ("MVar", d[1], d[2], d[3]); self.count("alias A=prod(A,A)")
            return ("SAssignM", False, rng.choice(["OpSet", "OpAdd", "OpSub"]), A, ("MProd", 1, A, rng.choice([A, ("MTrans", A)])))
        if k == 5:             # overlapping sub-matrices
            ms = [d for d in self.mats if d[2] >= 3 and d[3] >= 3]
            if ms:
                d = rng.choice(ms); A = ("MVar", d[1], d[2], d[3]); r = rng.randint(1, d[2] - 1); c = rng.randint(1, d[3] - 1)
                a, b = rng.randint(0, d[2] - r), rng.randint(0, d[3] - c); a2, b2 = rng.randint(0, d[2] - r), rng.randint(0, d[3] - c)
                self.count("alias overlapping sub-matrices")
                return ("SAssignM", False, rng.choice(["OpSet", "OpAdd", "OpSub", "OpMul"]), ("MRange", A, a, a + r, b, b + c), ("MRange", A, a2, a2 + r, b2, b2 + c))
        if k == 6 and sq:      # diag(A) = row(A,i) ; x = x|... style self reference inside a deeper expression
            d = rng.choice(sq); A = ("MVar", d[1], d[2], d[3]); self.count("alias diag(A)=f(A)")
            return ("SAssignV", False, rng.choice(["OpSet", "OpAdd", "OpSub"]), ("VDiag", A),
                    ("VAdd", ("VRow", A, rng.randrange(d[2])), ("VMv", 1, A, ("VCol", A, rng.randrange(d[2])))))
        return None

    def reduction(self):
        rng = self.rng; k = rng.randrange(11); d = rng.randint(0, 3)
        n = rng.randint(1, 5)
        if k == 0: return ("RSum", self.V(rng.randint(0, 5), d))
        if k == 1: return ("RMax", self.V(n, d))
        if k == 2: return ("RMin", self.V(n, d))
        if k == 3: return ("RNorm1", self.V(rng.randint(0, 5), d))
        if k == 4: return ("RNormSqr", self.V(rng.randint(0, 5), d))
        if k == 5: return ("RNormInf", self.V(n, d))
        if k == 6: return ("RInner", self.V(n, d), self.V(n, d))
        if k == 7: return ("RTrace", self.diagop(n, n, d))
        if k == 8: return ("RMSum", self.M(rng.randint(0, 4), rng.randint(0, 4), d))
        if k == 9: return ("RMNorm1", self.M(n, rng.randint(1, 4), d))
        return ("RMNormInf", self.M(n, rng.randint(1, 4), d))

    def statement(self):
        rng = self.rng; k = rng.random()
        if k < 0.12:
            st = self.alias_pattern()
            if st is not None: return st
        if k < 0.22: return ("SReduce", self.reduction())
        if k < 0.30:
            o = rng.choice(["OpAdd", "OpSub", "OpMul", "OpMul", "OpDiv"]); c = self.const()
            if o == "OpDiv": c = rng.choice([1, -1]) if not self.integer_div else c
            return ("SScalarV", o, self.target_v(), c) if rng.random() < 0.5 else ("SScalarM", o, self.target_m(), c)
        na = rng.random() < 0.35; o = self.op(); d = rng.randint(0, self.max_depth)
        if rng.random() < 0.5:
            t = self.target_v(); n = vsize(t); avoid = names_in(t) if na else ()
            if o == "OpDiv":
                e = ("VAdd", ("VUn", "FAbs", self.V(n, min(d, 2), avoid)), ("VConst", n, 1)) if self.integer_div else ("VConst", n, rng.choice([1, -1]))
            else: e = self.V(n, d, avoid)
            if (not na) and o in ("OpMul", "OpDiv") and t[0] != "VVar": na = True; avoid = names_in(t); e = self.V(n, d, avoid) if o == "OpMul" else e
            if na and (names_in(e) & names_in(t)): return None
            return ("SAssignV", na, o, t, e)
        t = self.target_m(); r, c = mshape(t); avoid = names_in(t) if na else ()
        if o == "OpDiv":
            e = ("MAdd", ("MUn", "FAbs", self.M(r, c, min(d, 2), avoid)), ("MConst", r, c, 1)) if self.integer_div else ("MConst", r, c, rng.choice([1, -1]))
        else: e = self.M(r, c, d, avoid)
        if na and (names_in(e) & names_in(t)): return None
        return ("SAssignM", na, o, t, e)

    def program(self, nstmts):
        """initialisation (element sets) followed by nstmts accepted statements"""
        rng = self.rng; stmts = []
        s = Env()
        for d in self.decls:
            if d[0] == "v": s.v[d[1]] = [0] * d[2]
            else: s.m[d[1]] = [[0] * d[3] for _ in range(d[2])]
        sparse_init = sum(d[2] * d[3] for d in self.decls if d[0] == "m") > 600     # big shapes: set ~35% of the cells, rest stays 0
        for d in self.decls:
            if d[0] == "v":
                for i in range(d[2]): stmts.append(("SSetV", d[1], i, rng.randint(-4, 4)))
            else:
                for i in range(d[2]):
                    for j in range(d[3]):
                        if sparse_init and rng.random() > 0.35: continue
                        stmts.append(("SSetM", d[1], i, j, rng.randint(-4, 4)))
        for st in stmts: s, _ = exec_stmt(s, st)
        ninit = len(stmts); tries = 0; rejected = 0
        while len(stmts) - ninit < nstmts and tries < 40 * nstmts:
            tries += 1
            if s.maxabs() > (1 << 12) or rejected > 8:
                rejected = 0
                big = max(self.decls, key=lambda d: max([abs(x) for x in s.v[d[1]]] + [0]) if d[0] == "v" else max([abs(x) for r in s.m[d[1]] for x in r] + [0]))
                if big[0] == "v": st = ("SAssignV", False, "OpSet", ("VVar", big[1], big[2]), ("VConst", big[2], self.const()))
                else:
                    st = ("SAssignM", False, "OpSet", ("MVar", big[1], big[2], big[3]),
                          ("MDiagM", ("VConst", big[2], self.const())) if big[2] == big[3] and rng.random() < 0.5 else ("MConst", big[2], big[3], self.const()))
                self.count("reset")
            else:
                try: st = self.statement()
                except RecursionError: st = None
            if st is None: continue
            # (matrix_binary with operands of different orientation used to be kept out of the main stream: it crashed
            #  until the repair 322c8c6f of matrix_binary::plus_assign_to; it is part of the stream now)
            try:
                s2, _ = exec_stmt(s, st)
            except Reject:
                rejected += 1; self.count("rejected(magnitude)"); continue
            s = s2; stmts.append(st)
        return stmts


# ------------------------------------------------------------------ orientation-complete proxy layer
class ProxyLayer:
    """Systematic (stratified) stream for the PROXY layer: every proxy (subrange, rows, columns, row, column, diag,
    trans) applied to every matrix expression form in BOTH orientations, i.e. to the form itself and to trans(form)
    (which the rewrite table turns into the form of the opposite orientation: column-major repeater, swapped outer
    product, flipped concatenation, column-major scalar matrix, transposed dense proxy, ...), alone or nested in
    an element-wise expression (scalar multiple, unary / binary function, sum, difference, scalar broadcast), with
    non-square operand shapes and off-diagonal / non-square / empty / full / single-line index ranges.

    Forms (FORMS): dense container row-major / column-major, repeat(v,k), outer_prod(u,v), to_diagonal(v),
    identity, scalar matrix, prod(A,B), A|B, A&B, matrix + scalar (broadcast), repeat of a broadcast vector.
    One statement per stratum (proxy, form, plain|trans); the element-wise wrapper, the index range class, the shapes,
    the assignment form (= += -= with and without noalias) and the orientation of the target are drawn at random.
    Targets are dedicated containers that never occur on a right-hand side (noalias is always legal).

    Kept out: the strata of EXCLUDED_STRATA (no member compiles: proxies other than trans of a concatenation, rows /
    columns of a diagonal matrix, diag of a product = known finding C01-DIAGPROD), an off-diagonal sub-range of a
    diagonal matrix (known finding C01-RANGEDIAG: only blocks with a==c, b==d are drawn for the diagonal forms; the
    off-diagonal case is pinned in the regression stream of tools/c01.py), triangular views (a matrix expression only as
    the first operand of a product: triangular stream).  Members of the remaining strata that the type checker rejects
    (e.g. outer_prod(u,v) + row-major matrix assigned to a column-major target) are filtered by a syntax-only compiler
    pass, recorded in the evidence and redrawn as the stratum's CORE member, which must compile."""
    SHAPES = [(3, 5), (5, 3), (4, 4), (2, 4), (4, 2)]       # closed under transposition
    FORMS = ["dense_r", "dense_c", "repeat", "outer", "diagonal", "identity", "constant", "prod", "concat_right",
             "concat_down", "broadcast", "repeat_broadcast", "repeat_blockwise"]
    PROXIES = ["subrange", "rows", "columns", "row", "column", "diag", "trans"]
    WRAPS = ["none", "none", "scale", "unary", "add_dense", "dense_add", "minus", "binary", "add_same", "add_scalar"]

    def __init__(self, rng):
        self.rng = rng; self.decls = []; self.orient = {}; self.stats = {}
        self.vec_by_size = {}; vid = 0
        for n in (2, 3, 4, 5):
            self.vec_by_size[n] = []
            for _ in range(2):
                self.decls.append(("v", vid, n)); self.vec_by_size[n].append(("VVar", vid, n)); vid += 1
        self.tv = ("VVar", vid, 5); self.decls.append(("v", vid, 5))
        self.mat_by = {}; mid = 0
        for (r, c) in self.SHAPES:
            for cm in (False, True):
                self.decls.append(("m", mid, r, c)); self.orient[mid] = cm
                self.mat_by[(r, c, cm)] = ("MVar", mid, r, c); mid += 1
        self.tm = {}
        for cm in (False, True):
            self.decls.append(("m", mid, 5, 5)); self.orient[mid] = cm; self.tm[cm] = ("MVar", mid, 5, 5); mid += 1

    def count(self, k): self.stats[k] = self.stats.get(k, 0) + 1
    def const(self): return self.rng.choice([-3, -2, -1, 2, 3])

    # ---- operands
    def vec(self, n, simple=False):
        rng = self.rng; u = rng.random()
        cands = [x for x in self.vec_by_size.get(n, [])]
        bigger = [x for k, l in self.vec_by_size.items() if k > n for x in l]
        if not cands or (bigger and u < 0.15 and not simple):
            x = rng.choice(bigger); a = rng.randint(0, x[2] - n); return ("VRange", x, a, a + n)
        e = rng.choice(cands)
        if simple or u < 0.6: return e
        if u < 0.7: return ("VScale", self.const(), e)
        if u < 0.8: return ("VAdd", e, rng.choice(cands))
        if u < 0.9: return ("VUn", rng.choice(["FAbs", "FSqr"]), e)
        return ("VAdd", e, ("VConst", n, self.const()))

    def dense(self, r, c, cm=None):
        """dense operand of shape r x c: container (orientation cm, None = any), transposed container or a
        sub-range of a larger container"""
        rng = self.rng; cands = []
        for (R, C, o), m in self.mat_by.items():
            if cm is not None and o != cm: continue
            if (R, C) == (r, c): cands += [m] * 4
            elif R >= r and C >= c:
                a = rng.randint(0, R - r); b = rng.randint(0, C - c); cands.append(("MRange", m, a, a + r, b, b + c))
        for (R, C, o), m in self.mat_by.items():
            if cm is not None and o == cm: continue          # trans flips the orientation
            if (C, R) == (r, c): cands += [("MTrans", m)] * 2
        return rng.choice(cands) if cands else ("MConst", r, c, self.const())

    def form(self, name, r, c):
        rng = self.rng
        if name == "dense_r": return self.dense(r, c, False)
        if name == "dense_c": return self.dense(r, c, True)
        if name == "repeat": return ("MRepeat", False, self.vec(c), r)
        if name == "repeat_broadcast": return ("MRepeat", False, ("VAdd", self.vec(c, True), ("VConst", c, self.const())), r)
        if name == "repeat_blockwise":
            # repeat of a BLOCK-WISE vector expression (scaled matrix-vector product): the repeater evaluates it into the target blockwise
            k = rng.choice([2, 3, 4]); return ("MRepeat", False, ("VScale", self.const(), ("VMv", 1, self.dense(c, k), self.vec(k))), r)
        if name == "outer": return ("MOuter", self.vec(r), self.vec(c))
        if name == "diagonal": return ("MDiagM", self.vec(r)) if r == c else None
        if name == "identity": return ("MDiagM", ("VConst", r, 1)) if r == c else None
        if name == "constant": return ("MConst", r, c, self.const())
        if name == "prod":
            k = rng.choice([2, 3, 4]); return ("MProd", 1, self.dense(r, k), self.dense(k, c))
        if name == "concat_right":
            a = rng.randint(1, c - 1) if c >= 2 else 0; return ("MConcat", True, self.dense(r, a), self.dense(r, c - a))
        if name == "concat_down":
            a = rng.randint(1, r - 1) if r >= 2 else 0; return ("MConcat", False, self.dense(a, c), self.dense(r - a, c))
        if name == "broadcast": return ("MAdd", self.dense(r, c), ("MConst", r, c, self.const()))
        raise ValueError(name)

    def wrap(self, w, e):
        rng = self.rng; r, c = mshape(e)
        if w == "none": return e
        if w == "scale": return ("MScale", self.const(), e)
        if w == "unary": return ("MUn", rng.choice(["FAbs", "FSqr"]), e)
        if w == "add_dense": return ("MAdd", e, self.dense(r, c))
        if w == "dense_add": return ("MAdd", self.dense(r, c), ("MScale", self.const(), e))
        if w == "minus": return ("MMinus", self.dense(r, c), e)
        if w == "binary": return ("MBin", rng.choice(["BMul", "BMin", "BMax"]), e, self.dense(r, c))
        if w == "add_same": return ("MAdd", e, ("MTrans", ("MRepeat", False, self.vec(r, True), c)))     # + column-major repeater
        if w == "add_scalar": return ("MAdd", e, ("MConst", r, c, self.const()))
        raise ValueError(w)

    # ---- index ranges
    def interval(self, n, cls):
        """[a,b) inside [0,n) of class inner | empty | full | single"""
        rng = self.rng
        if cls == "empty": a = rng.randint(0, n); return a, a
        if cls == "full": return 0, n
        if cls == "single": a = rng.randrange(n); return a, a + 1
        if n < 2: return 0, n
        L = rng.randint(1, n - 1); a = rng.randint(0, n - L)        # proper, non-empty part
        return a, a + L

    def range2(self, R, C, diagonal_only=False):
        """(a,b,c,d, class): off-diagonal / non-square blocks most of the time"""
        rng = self.rng
        if diagonal_only:
            a, b = self.interval(min(R, C), rng.choice(["inner", "inner", "full", "empty", "single"])); return a, b, a, b, "diagonal-block"
        u = rng.random()
        if u < 0.62:
            for _ in range(50):
                a, b = self.interval(R, rng.choice(["inner", "inner", "single", "full"])); c, d = self.interval(C, rng.choice(["inner", "inner", "single", "full"]))
                if a != c or b != d: return a, b, c, d, ("off-diagonal" if a != c else "non-square")
        if u < 0.72: a, b = self.interval(R, "empty"); c, d = self.interval(C, "inner"); return a, b, c, d, "empty-rows"
        if u < 0.82: a, b = self.interval(R, "inner"); c, d = self.interval(C, "empty"); return a, b, c, d, "empty-columns"
        if u < 0.9: return 0, R, 0, C, "full"
        a, b = self.interval(min(R, C), "inner"); return a, b, a, b, "diagonal-block"

    # ---- one statement of a stratum
    def expression(self, proxy, fname, transposed, wrapname=None, shape=None):
        """(is_vector, term) or None when the stratum does not exist for the drawn shape"""
        rng = self.rng
        sq = fname in ("diagonal", "identity")
        R, C = shape or ((4, 4) if sq else rng.choice(self.SHAPES))
        f = self.form(fname, C, R) if transposed else self.form(fname, R, C)
        if f is None: return None
        e = ("MTrans", f) if transposed else f
        w = wrapname or rng.choice(self.WRAPS)
        has_diag = sq
        x = self.wrap(w, e)
        if proxy == "subrange":
            a, b, c, d, cls = self.range2(R, C, diagonal_only=has_diag); self.count("range:" + cls)
            return False, ("MRange", x, a, b, c, d)
        if proxy == "rows":
            cls = rng.choice(["inner", "inner", "inner", "empty", "full", "single"]); a, b = self.interval(R, cls); self.count("rows:" + cls)
            return False, ("MRows", x, a, b)
        if proxy == "columns":
            cls = rng.choice(["inner", "inner", "inner", "empty", "full", "single"]); a, b = self.interval(C, cls); self.count("columns:" + cls)
            return False, ("MCols", x, a, b)
        if proxy == "row": return True, ("VRow", x, rng.randrange(R))
        if proxy == "column": return True, ("VCol", x, rng.randrange(C))
        if proxy == "diag": return True, ("VDiag", x)
        if proxy == "trans": return False, ("MTrans", x)
        raise ValueError(proxy)

    def nest(self, isvec, e):
        """a second proxy / element-wise layer on top of a proxy expression"""
        rng = self.rng
        if isvec:
            n = vsize(e); u = rng.random()
            if u < 0.4 and n >= 1: a, b = self.interval(n, rng.choice(["inner", "single", "full", "empty"])); return True, ("VRange", e, a, b)
            if u < 0.7: return True, ("VAdd", ("VScale", self.const(), e), self.vec(n, True) if n in self.vec_by_size else ("VConst", n, 1))
            return True, ("VUn", "FSqr", e)
        r, c = mshape(e); u = rng.random()
        if "MDiagM" in heads_under(e):          # a diagonal matrix below: only diagonal blocks (C01-RANGEDIAG), no rows / columns
            if u < 0.3 and r >= 1 and c >= 1:
                a, b = self.interval(min(r, c), "inner"); return False, ("MRange", e, a, b, a, b)
            u = max(u, 0.5)
        if u < 0.2 and r >= 1 and c >= 1:
            a, b = self.interval(r, "inner"); c0, d = self.interval(c, "inner"); return False, ("MRange", e, a, b, c0, d)
        if u < 0.35 and r >= 1: a, b = self.interval(r, "inner"); return False, ("MRows", e, a, b)
        if u < 0.5 and c >= 1: a, b = self.interval(c, "inner"); return False, ("MCols", e, a, b)
        if u < 0.6: return False, ("MTrans", e)
        if u < 0.7 and r >= 1: return True, ("VRow", e, rng.randrange(r))
        if u < 0.8 and c >= 1: return True, ("VCol", e, rng.randrange(c))
        if u < 0.9: return False, ("MAdd", ("MScale", self.const(), e), ("MConst", r, c, self.const()))
        return False, ("MUn", "FAbs", e)

    def statement(self, isvec, e):
        rng = self.rng
        o = rng.choice(["OpSet", "OpSet", "OpSet", "OpAdd", "OpSub", "OpAdd", "OpSub", "OpMul"]); na = rng.random() < 0.5
        if isvec:
            n = vsize(e); t = self.tv if n == 5 else ("VRange", self.tv, 0, n)
            if o == "OpMul" and t[0] != "VVar": na = True          # plain *= on a vector proxy temporary is F9
            return ("SAssignV", na, o, t, e)
        r, c = mshape(e); T = self.tm[rng.random() < 0.5]
        t = T if (r, c) == (5, 5) else ("MRange", T, 0, r, 0, c)
        return ("SAssignM", na, o, t, e)

    def strata(self):
        """every (proxy, form, transposed) combination that the library supports at all (EXCLUDED_STRATA lists the others)"""
        return [(p, f, tr) for p in self.PROXIES for f in self.FORMS for tr in (False, True) if (p, f) not in EXCLUDED_STRATA]

    def draw(self, stratum, core=False, nested=0.2):
        """one statement of the stratum.  core: the plainest member (no element-wise wrapper beyond a scalar multiple or a
        unary function, row-major target, plain `=`): these are required to compile"""
        rng = self.rng; p, f, tr = stratum
        for _try in range(50):
            r = self.expression(p, f, tr, wrapname=rng.choice(["none", "scale", "unary"]) if core else None)
            if r is None: continue
            isvec, e = r
            if not core and rng.random() < nested: isvec, e = self.nest(isvec, e)
            st = self.statement(isvec, e)
            if core:
                st = (st[0], rng.random() < 0.5, "OpSet", st[3], st[4])
                if st[0] == "SAssignM" and st[3][0] == "MRange": st = st[:3] + (("MRange", self.tm[False]) + st[3][2:],) + st[4:]
                elif st[0] == "SAssignM": st = st[:3] + (self.tm[False],) + st[4:]
            return st
        raise RuntimeError("stratum %r cannot be realised" % (stratum,))

    def init_statements(self):
        """element sets establishing the initial store (emitted quietly): operand vectors have pairwise distinct entries
        (a shifted or transposed index always changes the value), operand matrices random, targets 1"""
        rng = self.rng; stmts = []
        tvid = self.tv[1]; tmids = set(t[1] for t in self.tm.values())
        for d in self.decls:
            if d[0] == "v":
                vals = [1] * d[2] if d[1] == tvid else rng.sample([-5, -4, -3, -2, -1, 1, 2, 3, 4, 5], d[2])
                stmts += [("SSetV", d[1], i, vals[i]) for i in range(d[2])]
            else:
                stmts += [("SSetM", d[1], i, j, 1 if d[1] in tmids else rng.randint(-4, 4)) for i in range(d[2]) for j in range(d[3])]
        return stmts

    def settle(self, init, stmts):
        """the statements in order with the documented store threaded through; a compound form whose result would leave
        the exact range becomes a plain assignment"""
        s = Env()
        for d in self.decls:
            if d[0] == "v": s.v[d[1]] = [0] * d[2]
            else: s.m[d[1]] = [[0] * d[3] for _ in range(d[2])]
        for st in init: wr(s, ("v", st[1], st[2]) if st[0] == "SSetV" else ("m", st[1], st[2], st[3]), st[-1])
        out = []
        for st in stmts:
            try: s2, _ = exec_stmt(s, st)
            except Reject:
                st = st[:2] + ("OpSet",) + st[3:]; s2, _ = exec_stmt(s, st)
            s = s2; out.append(st)
        return out


# strata of the proxy layer that do not exist in the library (the C++ type checker rejects every member; probed on the
# pinned tree with all element-wise wrappers): proxy -> form -> reason
EXCLUDED_STRATA = {}
for _p in ("subrange", "rows", "columns", "row", "column", "diag"):
    for _f in ("concat_right", "concat_down"):
        EXCLUDED_STRATA[(_p, _f)] = "matrix_concat has no rule in any proxy optimizer and is not a dense proxy: only trans(A|B), trans(A&B) exist"
for _p in ("rows", "columns"):
    for _f in ("diagonal", "identity"):
        EXCLUDED_STRATA[(_p, _f)] = "matrix_rows_optimizer<diagonal_matrix> is a commented-out stub: rows()/columns() of a diagonal matrix do not compile"
for _p in ("row", "column"):
    EXCLUDED_STRATA[(_p, "repeat_blockwise")] = "column(repeat(e,n), j) / row(trans(repeat(e,n)), j) is the constant vector of ELEMENT j of e: a block-wise vector expression has no element access (rejected at compile time); the whole row/column pair is left out"
EXCLUDED_STRATA[("diag", "prod")] = "known finding C01-DIAGPROD: matrix_diagonal_optimizer<matrix_matrix_prod> is a commented-out stub"


def heads_under(t):
    """constructor heads of t and its sub-terms"""
    out = set()
    if isinstance(t, tuple) and t and isinstance(t[0], str):
        out.add(t[0])
        for x in t[1:]: out |= heads_under(x)
    return out
