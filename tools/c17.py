#!/usr/bin/env python3
"""C17 — tree-based nearest-neighbour search returns exactly the nearest neighbours.

proofs (Properties_C17.v)  +  correspondence: extracted model of KDTree::squaredDistanceLowerBound and
IterativeNNQuery (run on the tree the real KDTree built, read back from the harness) vs the compiled
C++; extracted model of the construction (C17Build.kd_build; its std::nth_element oracle answers with the
arrangements recorded from the real std::nth_element calls) vs the real tree; the same for the projection trees
(LCTree, KHCTree with linear / polynomial kernel): C17Proj bounds, funct and the C17Gen query in exact rational
arithmetic on the real tree, C17ProjBuild construction with the anchors as coded and the recorded std::nth_element
results; C17Vote (NearestNeighborModel) on the neighbour lists both back-ends returned  +  spec monitor: well-
formedness of every real kd-tree, exhaustive search computed here, on kd / LC / kernel (KHC) trees, bucket sizes
> 1, valid-k-nearest-neighbours and vote monitors for NearestNeighborModel with tree vs brute-force back-end.

Streams and violation keys (stable; matched against known_findings.json):
  tree:split-threshold <kind>  default construction, the built tree stores a point on the wrong side of a
                               cut (BinaryTree::splitList takes `pos->key` for the nearest point on the
                               other side), query result differs from exhaustive search
  tree:query <kind>            default construction, tree consistent, query result wrong
  tree:build-wf kd             the kd-tree KDTree::buildTree built is not well-formed (a point on the wrong side of a cut, a leaf
                               with two different points, leaves not a partition of 0..n-1): contradicts kd_build_wellformed
  construction                 (correspondence) the tree built by the construction model C17Build.kd_build, with the recorded
                               std::nth_element results as oracle, differs from the real tree (cut dimension, threshold or the
                               left/right index sets of a node), or a recorded std::nth_element result lacks the median property
  tree:single-leaf <kind>      all points identical (or n = 1): the root is a leaf, IterativeNNQuery casts a TraceNode to TraceLeaf
  tree:duplicate-points <kind> LC / KHC tree construction recurses without bound when a node holds only copies of one point
  tree:kernel-metric khc2      KHCTree with a non-linear kernel: KHCTree does not override BinaryTree::kernel(), so the query measures
                               leaf distances in the Euclidean metric while the cells are bounded in the kernel metric
  tree:bucket>1 <kind>         TreeConstruction(0, bucket>1): leaf keeps one distance for all its points (F4)
  simpleNN:squared-distance    NearestNeighborModel(1/distance weights): brute-force back-end reports
                               squared distances, tree back-end distances (F5)
  nnmodel:tree-backend / simpleNN:prediction   other prediction mismatches
  simpleNN:neighbours          SimpleNearestNeighbors::getNeighbors does not return k nearest neighbours
  nnmodel:vote                 the prediction is not the (uniform / 1/distance) vote of the neighbours the back-end returned
  nnmodel:backends-differ      the back-ends return different neighbours / predictions although there is no tie at the k-th distance
  correspondence-projection / correspondence-vote   (no-failing-input) the extracted model and the C++ differ, monitors pass
"""
import os, sys, re, math, random
sys.path.insert(0, os.path.dirname(os.path.abspath(__file__)))
from vlib import *

PID = "C17"

# ------------------------------------------------------------------------------------------------
# cases: dict(kind, bucket, dim, pts, body=[lines])

def fac(c):
    """printed squared distances are fac(c) * d^2: 16 S^2 for the Euclidean metric, 16 S^4 for PolynomialKernel(2,1) (S = coordinate scale)"""
    S = c.get("scale", 1); return 16 * S * S * (S * S if c["kind"] == "khc2" else 1)

def far_case(c):
    """data far from the origin (the 'far' stream, also recognised after a round trip through a case file)"""
    return bool(c.get("far")) or any(abs(x) >= 10 ** 7 for p in c["pts"] for x in p)

def dline(c, tree=None):
    # a depth limit d (with the default bucket size) is written as bucket field -d
    s = "D %s %d %d %d %s" % (c["kind"] + ("/%d" % c["scale"] if c.get("scale", 1) != 1 else ""), c["bucket"] if not c.get("depth") else -c["depth"], c["dim"], len(c["pts"]), " ".join(str(x) for p in c["pts"] for x in p))
    return s + (" | tree=" + tree if tree else "")

def case_lines(c, tree=None):
    return [dline(c, tree)] + list(c["body"])

def parse_case(lines):
    hd = lines[0].split("|")[0].split()
    dim, n = int(hd[3]), int(hd[4]); cs = list(map(int, hd[5:5 + dim * n]))
    return {"kind": hd[1].split("/")[0], "scale": int(hd[1].split("/")[1]) if "/" in hd[1] else 1, "bucket": max(int(hd[2]), 0), "depth": max(-int(hd[2]), 0), "dim": dim, "pts": [cs[i * dim:(i + 1) * dim] for i in range(n)], "body": [l for l in lines[1:]]}

def parse_tree(s):
    def go(i):
        if s[i] == "L":
            j = i + 1
            while j < len(s) and (s[j].isdigit() or s[j] == ","): j += 1
            return ("L", [int(x) for x in s[i + 1:j].split(",")]), j
        m = re.match(r"N(\d+):(-?\d+)\(", s[i:]); j = i + m.end()
        l, j = go(j); assert s[j:j + 2] == ")("; r, j = go(j + 2); assert s[j] == ")"
        return ("N", int(m.group(1)), int(m.group(2)), l, r), j + 1
    return go(0)[0]

def tree_planes(t):
    return [] if t[0] == "L" else [(t[1], t[2])] + tree_planes(t[3]) + tree_planes(t[4])

def tree_leaves(t):
    return [t[1]] if t[0] == "L" else tree_leaves(t[3]) + tree_leaves(t[4])

def tree_canon(t):
    return "L" + ",".join(map(str, sorted(t[1]))) if t[0] == "L" else "N%d:%d(%s)(%s)" % (t[1], t[2], tree_canon(t[3]), tree_canon(t[4]))

def build_wf_monitor(c, t):
    """the well-formedness predicate of the theorems evaluated directly on the real tree (thresholds are dumped doubled)"""
    pts, n = c["pts"], len(c["pts"])
    idx = [i for l in tree_leaves(t) for i in l]
    if sorted(idx) != list(range(n)): return "the leaves %s are not a partition of 0..%d" % (tree_leaves(t), n - 1)
    def go(t):
        if t[0] == "L":
            if not t[1]: return "empty leaf"
            if c["bucket"] == 0 and len(set(tuple(pts[i]) for i in t[1])) > 1:
                return "leaf %s holds different points %s" % (t[1], [pts[i] for i in t[1]])
            return None
        cd, thr2 = t[1], t[2]
        for i in [i for l in tree_leaves(t[3]) for i in l]:
            if 2 * pts[i][cd] > thr2: return "point %d %s is in the LEFT sub-tree of the cut x[%d] < %s" % (i, pts[i], cd, thr2 / 2)
        for i in [i for l in tree_leaves(t[4]) for i in l]:
            if 2 * pts[i][cd] < thr2: return "point %d %s is in the RIGHT sub-tree of the cut x[%d] >= %s" % (i, pts[i], cd, thr2 / 2)
        return go(t[3]) or go(t[4])
    return go(t)

def gen_points(rng, big):
    dim = rng.choice([1, 1, 2, 2, 2, 3, 3, 4])
    n = rng.choice([1, 2, 3, 4, 5, 6, 7, 8, 9, 10, 12, 14, 17, 20, 24] + ([32, 45, 60] if big else []))
    style = rng.random()
    if style < 0.25: R = rng.choice([1, 2, 3]); pts = [[rng.randint(-R, R) for _ in range(dim)] for _ in range(n)]      # many duplicates / ties
    elif style < 0.45: pts = [[rng.randint(-20, 20) for _ in range(dim)] for _ in range(n)]
    elif style < 0.6:                                                                                                 # collinear
        a = [rng.randint(-5, 5) for _ in range(dim)]; b = [rng.randint(-2, 2) for _ in range(dim)]
        pts = [[a[d] + t * b[d] for d in range(dim)] for t in (rng.randint(-6, 6) for _ in range(n))]
    elif style < 0.8:                                                                                                 # one heavily repeated value in one coordinate
        pts = [[rng.randint(-8, 8) for _ in range(dim)] for _ in range(n)]
        d = rng.randrange(dim); v = rng.randint(-8, 0)
        for p in pts:
            if rng.random() < 0.55: p[d] = v
    else:                                                                                                             # copies of few points
        base = [[rng.randint(-6, 6) for _ in range(dim)] for _ in range(max(1, n // 3))]
        pts = [list(rng.choice(base)) for _ in range(n)]
    return dim, pts

def proj_plane_query(rng, c, ptree):
    """a query (half units) exactly on a splitting hyper-surface of a projection tree: the midpoint of the left point with the
    largest and the right point with the smallest projection (funct is affine for LC trees and for KHC trees with the linear
    kernel, so funct(midpoint) = threshold in exact arithmetic); for the polynomial kernel the midpoint of two data points"""
    pts = c["pts"]; inner = ptree_inner(ptree)
    if not inner or c["kind"] == "khc2":
        a, b = rng.choice(pts), rng.choice(pts); return [x + y for x, y in zip(a, b)]
    nd = rng.choice(inner); f = nd[1]
    if c["kind"] == "lc": w = [float(x) for x in f[1].split(",")]
    else: w = [x - y for x, y in zip(pts[int(f[1])], pts[int(f[2])])]
    fv = lambda i: sum(a * b for a, b in zip(w, pts[i]))
    li = [i for l in ptree_leaves(nd[2]) for i in l]; ri = [i for l in ptree_leaves(nd[3]) for i in l]
    pl = max(li, key=fv); pr = min(ri, key=fv)
    h = [x + y for x, y in zip(pts[pl], pts[pr])]
    if rng.random() < 0.3: h[rng.randrange(len(h))] += rng.choice([-1, 1])
    return h

def gen_queries(rng, c, tree, m, ptree=None):
    dim, pts = c["dim"], c["pts"]; qs = []
    planes = tree_planes(tree) if tree else []
    for _ in range(m):
        r = rng.random()
        if ptree is not None and 0.55 <= r < 0.85: q = proj_plane_query(rng, c, ptree)
        elif r < 0.3: q = [rng.randint(-45, 45) for _ in range(dim)]                       # inside, half units
        elif r < 0.4: q = [2 * x for x in rng.choice(pts)]                               # a data point
        elif r < 0.55: q = [rng.choice([-1, 1]) * rng.randint(300, 2000) if rng.random() < 0.7 else rng.randint(-40, 40) for _ in range(dim)]  # far outside
        elif r < 0.85 and planes:                                                        # on / next to a splitting plane
            cd, thr2 = rng.choice(planes)
            q = [2 * x + rng.choice([-1, 0, 0, 1]) for x in rng.choice(pts)]
            q[cd] = thr2 + rng.choice([0, 0, -1, 1, -2, 2])
        else: q = [2 * x + rng.randint(-3, 3) for x in rng.choice(pts)]
        qs.append("Q " + " ".join(map(str, q)))
    return qs

# ------------------------------------------------------------------------------------------------
# spec monitor: exhaustive search

def true16(c, h):
    """fac(c) x squared distance of every data point (integer units c, real value c/S) to the query (half units h, real value
    h/(2S)) in the tree's metric; exact integers"""
    if c["kind"] == "khc2":      # PolynomialKernel(2,1): k(x,y) = (x.y+1)^2, feature distance; 16 S^4 d^2
        hh = sum(x * x for x in h); S2 = c.get("scale", 1) ** 2
        return [16 * (sum(x * x for x in p) + S2) ** 2 - 2 * 4 * (sum(a * b for a, b in zip(p, h)) + 2 * S2) ** 2 + (hh + 4 * S2) ** 2 for p in c["pts"]]
    return [4 * sum((2 * a - b) ** 2 for a, b in zip(p, h)) for p in c["pts"]]

def parse_q(o):
    d = {}
    for tok in o.split()[1:]:
        k, v = tok.split("=", 1)
        if k in ("lb", "fp"): continue                      # projection trees: per-node bounds / plane distances (parse_aux)
        d[k] = [tuple(x.split(":")) for x in v.split(";")] if v else []
    return d

def parse_aux(o):
    """lb= (squaredDistanceLowerBound of every node, pre-order) and fp= (distanceFromPlane of every inner node)"""
    r = {}
    for tok in o.split()[1:]:
        k, v = tok.split("=", 1)
        if k in ("lb", "fp"): r[k] = [] if v in ("", "-") else [float(x) for x in v.split(",")]
    return r

def parse_ptree(s):
    """L i,j | N[a;b;..](left)(right)  ->  ("L", [i..]) | ("N", [fields], left, right)"""
    def go(i):
        if s[i] == "L":
            j = i + 1
            while j < len(s) and (s[j].isdigit() or s[j] == ","): j += 1
            return ("L", [int(x) for x in s[i + 1:j].split(",")]), j
        assert s[i:i + 2] == "N["; j = s.index("]", i)
        f = s[i + 2:j].split(";"); assert s[j + 1] == "("
        l, j = go(j + 2); assert s[j:j + 2] == ")("; r, j = go(j + 2); assert s[j] == ")"
        return ("N", f, l, r), j + 1
    return go(0)[0]

def ptree_leaves(t):
    return [t[1]] if t[0] == "L" else ptree_leaves(t[2]) + ptree_leaves(t[3])

def ptree_inner(t):
    return [] if t[0] == "L" else [t] + ptree_inner(t[2]) + ptree_inner(t[3])

def impl_meta(o):
    m = re.search(r"misplaced=(\d+)", o)
    return int(m.group(1)) if m else 0

def vote_weights(ds, w):
    return [1.0 if w == 0 else (1e100 if d < 1e-100 else 1.0 / d) for d in ds]

def knn_valid(tr, labels, nb, f=16):
    """nb = [(distance, label)] as returned by a back-end; tr = 16 d^2 of every data point; is nb a list of K nearest
    neighbours (distances non-decreasing and equal to the K smallest, every (distance, label) pair backed by a data point,
    all points strictly nearer than the K-th distance present)?  returns None or a message"""
    from collections import Counter
    K = len(nb); st = sorted(tr)
    if any(d != d or abs(d) > 1e150 for d, _ in nb): return "non-finite / absurd distance among the reported neighbours %s" % ([d for d, _ in nb][:6],)
    got = [int(round(float(f) * d * d)) for d, _ in nb]
    if got != st[:K]: return "reported 16d^2 %s, the %d smallest true values are %s" % (got, K, st[:K])
    have = Counter((t, l) for t, l in zip(tr, labels)); rep = Counter(zip(got, [l for _, l in nb]))
    for key, cnt in rep.items():
        if cnt > have.get(key, 0): return "neighbour (16d^2=%s, label %s) reported %d times, the data set has %d such points" % (key[0], key[1], cnt, have.get(key, 0))
    last = st[K - 1]
    for key, cnt in have.items():
        if key[0] < last and rep.get(key, 0) != cnt: return "point(s) (16d^2=%s, label %s) nearer than the k-th distance are missing" % key
    return None

def close_list(x, y, tol=1e-9):
    return len(x) == len(y) and all(abs(u - v) <= tol * (1 + abs(v)) for u, v in zip(x, y))

OBS = {"tie_cases": 0, "tie_backends_differ": 0, "example": None, "single_class_predicts_1": 0}

def monitor_vote_C(c, t, o, tkey):
    """C <k> <w> <nc> h..:  C tree=<class>;<scores>;<d:l,..> simple=..."""
    msgs = []
    K, w, ncr = int(t[1]), int(t[2]), int(t[3]); h = list(map(int, t[4:])); tr = true16(c, h); n = len(tr)
    labels = [(5 * i + 2) % ncr for i in range(n)]; nc = max(labels) + 1
    m = re.match(r"C tree=(\d+);([^;]*);(\S*) simple=(\d+);([^;]*);(\S*)$", o)
    if not m: return [(tkey, "unparsable %s" % o[:200])]
    res = []
    for be, (cl, sc, nb) in (("TreeNearestNeighbors", m.group(1, 2, 3)), ("SimpleNearestNeighbors", m.group(4, 5, 6))):
        cl = int(cl); sc = [float(x) for x in sc.split(",")]; nb = [(float(a), int(b)) for a, b in (x.split(":") for x in nb.split(","))]
        bad = knn_valid(tr, labels, nb, fac(c)) if len(nb) == K else "returned %d of %d neighbours" % (len(nb), K)
        if bad: msgs.append((tkey if be[0] == "T" else "simpleNN:neighbours", "%s.getNeighbors(k=%d), query h=%s: %s" % (be, K, h, bad))); continue
        ws = vote_weights([d for d, _ in nb], w); hist = [0.0] * nc
        for wi, (_, l) in zip(ws, nb): hist[l] += wi
        exp = [x / sum(ws) for x in hist]
        if not close_list(sc, exp): msgs.append(("nnmodel:vote", "NearestNeighborModel(k=%d,%s) on %s: scores %s, the %s vote of the returned neighbours %s gives %s" % (K, "1/distance" if w else "uniform", be, sc, "1/distance" if w else "uniform", nb, exp))); continue
        top = sorted(exp, reverse=True)
        if nc == 1:
            if cl != 1: msgs.append(("nnmodel:vote", "single-class data set: Classifier thresholds the one score %s at 0 and must report 1, got %d" % (sc, cl)))
            OBS["single_class_predicts_1"] += 1
        elif len(top) < 2 or top[0] - top[1] > 1e-12 * (1 + top[0]):
            if cl != exp.index(max(exp)): msgs.append(("nnmodel:vote", "NearestNeighborModel(k=%d) on %s: class %d, arg max of the scores %s is %d" % (K, be, cl, sc, exp.index(max(exp)))))
        elif cl not in [i for i, x in enumerate(exp) if top[0] - x <= 1e-12 * (1 + top[0])]:
            msgs.append(("nnmodel:vote", "NearestNeighborModel(k=%d) on %s: class %d is not among the maximal scores %s" % (K, be, cl, sc)))
        res.append((cl, sc, sorted((int(round(fac(c) * d * d)), l) for d, l in nb)))
    if len(res) == 2:
        (c1, s1, m1), (c2, s2, m2) = res; st = sorted(tr)
        tie = K < n and st[K - 1] == st[K]
        if m1 == m2:
            if c1 != c2 or not close_list(s1, s2): msgs.append(("nnmodel:backends-differ", "same neighbours %s, but tree back-end predicts %d %s and brute-force back-end %d %s (k=%d, query h=%s)" % (m1, c1, s1, c2, s2, K, h)))
        elif not tie: msgs.append(("nnmodel:backends-differ", "no tie at the k-th distance, but the back-ends return different (16d^2, label) multisets %s / %s (k=%d, query h=%s)" % (m1, m2, K, h)))
        if tie:
            OBS["tie_cases"] += 1
            if m1 != m2 and (c1 != c2 or not close_list(s1, s2)):
                OBS["tie_backends_differ"] += 1
                if OBS["example"] is None or len(c["pts"]) < OBS["example"][0]:
                    OBS["example"] = (len(c["pts"]), "%s / %s -> tree back-end: neighbours %s class %d, brute-force back-end: neighbours %s class %d (both are k nearest neighbours; tie at 16d^2=%d)" % (dline(c), " ".join(t), m1, c1, m2, c2, st[K - 1]))
    return msgs

def monitor_case(c, out):
    """returns list of (key, message) — the property's predicate on the implementation's own output"""
    msgs = []
    if not out or not out[0].startswith("D n="):
        return [("harness", "no tree built: %s" % (out[0] if out else "<nothing>"))]
    mis = impl_meta(out[0]); n = len(c["pts"])
    mt = re.search(r"\btree=(\S+)", out[0])
    if c["kind"] == "kd" and mt:
        bad = build_wf_monitor(c, parse_tree(mt.group(1)))
        if bad: msgs.append(("tree:build-wf kd", "KDTree(%d points, dim %d, bucket %d) tree=%s: %s" % (n, c["dim"], c["bucket"], mt.group(1), bad)))
    if re.search(r"nodes=1\b", out[0]): tkey = "tree:single-leaf " + c["kind"]
    elif c["bucket"] > 1: tkey = "tree:bucket>1 " + c["kind"]
    elif mis > 0: tkey = "tree:split-threshold " + c["kind"]
    elif c["kind"] == "khc2": tkey = "tree:kernel-metric khc2"
    else: tkey = "tree:query " + c["kind"]
    for l, o in zip(c["body"], out[1:]):
        t = l.split()
        if o.endswith("EXC") or o == "?":
            msgs.append((tkey, "%s -> %s" % (l, o))); continue
        if t[0] == "Q":
            h = list(map(int, t[1:])); tr = true16(c, h); st = sorted(tr)
            try:
                d = parse_q(o)
                it = [(int(a), int(b)) for a, b, _, _ in d["it"]]
                bad = None
                if len(it) != n: bad = "returned %d of %d neighbours" % (len(it), n)
                if not bad:
                    for j, (dd, i) in enumerate(it):
                        if i >= n or tr[i] != dd: bad = "neighbour #%d: index %d reported at 16d^2=%d, its true 16d^2 is %s" % (j + 1, i, dd, tr[i] if i < n else "?"); break
                        if dd != st[j]: bad = "neighbour #%d: reported 16d^2=%d (index %d) but the %d-th smallest true value is %d (index %d)" % (j + 1, dd, i, j + 1, st[j], tr.index(st[j])); break
                if not bad and sorted(i for _, i in it) != list(range(n)): bad = "reported indices are not a permutation of the data set"
                if not bad:
                    for k, v in d.items():
                        if k == "it": continue
                        K = int(k[1:]); r = [(int(a), int(b)) for a, b in v]
                        if len(r) != K or [a for a, _ in r] != st[:K] or any(tr[b] != a for a, b in r):
                            bad = "getNeighbors(k=%d) = %s, exhaustive search gives distances %s" % (K, r, st[:K]); break
                if bad: msgs.append((tkey, "%s tree, query h/2 with h=%s%s: %s" % (c["kind"], h, "" if c.get("scale", 1) == 1 else " (coordinate scale 1/%d: data c/%d, query h/%d, printed values are %d*d^2)" % (c["scale"], c["scale"], 2 * c["scale"], fac(c)), bad)))
            except (ValueError, KeyError, IndexError) as e:
                msgs.append((tkey, "unparsable output for %s: %s" % (l, o[:200])))
        elif t[0] == "C":
            msgs += monitor_vote_C(c, t, o, tkey)
        elif t[0] == "P":
            K, w = int(t[1]), int(t[2]); h = list(map(int, t[3:])); tr = true16(c, h)
            order = sorted(range(n), key=lambda i: (tr[i], i))
            if K > n: continue
            # the neighbours each back-end returned (tn= / sn=): valid k nearest neighbours, and the prediction is their weighted mean
            rl = [((7 * i + 3) % 11, i % 3) for i in range(n)]; preds = {}
            mp = re.match(r"P tree=(\S+),(\S+) simple=(\S+),(\S+)", o)
            for be, fld, pr in (("TreeNearestNeighbors", "tn", mp.group(1, 2) if mp else None), ("SimpleNearestNeighbors", "sn", mp.group(3, 4) if mp else None)):
                mm = re.search(r" %s=(\S+)" % fld, o)
                if not mm or not mp: continue
                nb = [(float(a), tuple(int(float(x)) for x in b.split(","))) for a, b in (x.split(":") for x in mm.group(1).split(";"))]
                bad = knn_valid(tr, rl, nb, fac(c)) if len(nb) == K else "returned %d of %d neighbours" % (len(nb), K)
                if bad: msgs.append((tkey if be[0] == "T" else "simpleNN:neighbours", "%s.getNeighbors(k=%d), query h=%s: %s" % (be, K, h, bad))); continue
                ws = vote_weights([d for d, _ in nb], w)
                exp = [sum(wi * l[j] for wi, (_, l) in zip(ws, nb)) / sum(ws) for j in range(2)]
                if not close_list([float(pr[0]), float(pr[1])], exp):
                    msgs.append(("nnmodel:vote", "NearestNeighborModel(k=%d,%s) regression on %s: prediction %s, the weighted mean of the returned neighbours %s is %s" % (K, "1/distance" if w else "uniform", be, pr, nb, exp)))
                preds[be] = ([float(pr[0]), float(pr[1])], sorted((int(round(fac(c) * d * d)), l) for d, l in nb))
            if K < n and tr[order[K - 1]] == tr[order[K]]:
                # tie at the k-th distance: each back-end may pick any of the tied points (C17_vote_backend_tie_refuted); counted, not hidden
                OBS["tie_cases"] += 1
                if len(preds) == 2:
                    (p1, m1), (p2, m2) = preds["TreeNearestNeighbors"], preds["SimpleNearestNeighbors"]
                    if m1 != m2 and not close_list(p1, p2):
                        OBS["tie_backends_differ"] += 1
                        if OBS["example"] is None or n < OBS["example"][0]:
                            OBS["example"] = (n, "%s / %s -> tree back-end: neighbours %s prediction %s, brute-force back-end: neighbours %s prediction %s (tie at 16d^2=%d)" % (dline(c), l, m1, p1, m2, p2, tr[order[K - 1]]))
                    elif m1 == m2 and not close_list(p1, p2):
                        msgs.append(("nnmodel:backends-differ", "same neighbours %s, predictions %s / %s" % (m1, p1, p2)))
                continue
            def pred(sq):
                ws = []
                for i in order[:K]:
                    d2 = tr[i] / float(fac(c)); d = d2 if sq else math.sqrt(d2)
                    ws.append(1.0 if w == 0 else (1e100 if d < 1e-100 else 1.0 / d))
                s = sum(ws)
                return [sum(wi * ((7 * i + 3) % 11) for wi, i in zip(ws, order[:K])) / s, sum(wi * (i % 3) for wi, i in zip(ws, order[:K])) / s]
            m = re.match(r"P tree=(\S+),(\S+) simple=(\S+),(\S+)", o)
            if not m: msgs.append((tkey, "unparsable %s" % o)); continue
            a = [float(m.group(1)), float(m.group(2))]; b = [float(m.group(3)), float(m.group(4))]
            close = lambda x, y: all(abs(u - v) <= 1e-9 * (1 + abs(v)) for u, v in zip(x, y))
            e1, e2 = pred(False), pred(True)
            if not close(a, e1):
                msgs.append((tkey if mis > 0 else "nnmodel:tree-backend", "NearestNeighborModel(k=%d,%s) tree back-end predicts %s, exhaustive search %s (query h=%s)" % (K, "1/distance" if w else "uniform", a, e1, h)))
            elif not close(a, b):
                key = "simpleNN:squared-distance" if (w == 1 and close(b, e2)) else "simpleNN:prediction"
                msgs.append((key, "NearestNeighborModel(k=%d,%s) predicts %s with TreeNearestNeighbors but %s with SimpleNearestNeighbors (query h=%s; 1/d weights give %s, 1/d^2 weights give %s)" % (K, "1/distance" if w else "uniform", a, b, h, e1, e2)))
    return msgs

# ------------------------------------------------------------------------------------------------
# canonical form for model-vs-implementation comparison

def canon_q(c, l, o):
    """ties between different points may be reported in either order (the C++ breaks them by node
    address): sort indices inside groups of equal distance; queue size / radius are compared only
    when no two *different* points are at the same distance (then the run is deterministic)."""
    h = list(map(int, l.split()[1:])); tr = true16(c, h); n = len(tr)
    d = parse_q(o)
    byd = {}
    for i in range(n): byd.setdefault(tr[i], set()).add(tuple(c["pts"][i]))
    tiefree = all(len(v) == 1 for v in byd.values())
    it = d.get("it", [])
    res = []; j = 0
    while j < len(it):
        e = j
        while e < len(it) and it[e][0] == it[j][0]: e += 1
        res.append((it[j][0], sorted(int(x[1]) for x in it[j:e]), [x[2:] for x in it[j:e]] if tiefree else None)); j = e
    ks = {}
    st = sorted(tr)
    for k, v in d.items():
        if k == "it": continue
        K = int(k[1:]); ds = [x[0] for x in v]
        cut = K < n and len(v) == K and st[K - 1] == st[K]
        ks[k] = (ds, sorted((x[0], int(x[1])) for x in v if not (cut and int(x[0]) == st[K - 1])))
    return (res, ks), tiefree

def canon_d(o):
    m = re.match(r"(D n=\d+ nodes=\d+ tree=\S+)", o)
    return m.group(1) if m else o

# ------------------------------------------------------------------------------------------------

def main():
    ck = Check(PID)
    ck.trusted = DEFAULT_TRUSTED + [
        "modelled not verified: boost::intrusive::rbtree (as a sorted list); std::nth_element (an oracle: the theorems hold for every result with the median property, the recorded real results are checked with median_okb); the two std::partition calls of partitionEqually (stable partitions in the model)",
        "the harness records the results of std::nth_element by redirecting the name for the Shark headers ('#define nth_element c17_nth_element', wrapper calls the real std::nth_element; no source change)",
        "projection trees: the harness dumps m_normal / mep_positive / mep_negative / m_normalInvNorm / m_threshold as %.17g; the model evaluates them in exact rational arithmetic (Qc), the C++ in double: bounds, plane distances, keys, thresholds and normals are compared at relative 1e-12; the construction model takes sqrt from the driver (double sqrt of the exact value)",
        "PolynomialKernel(2, 1): std::pow(base, 2) is taken to be base*base (exact on the integer / half-integer inputs of the run)",
        "the harness reads m_cutDim, m_squaredRadius, m_normal, mep_positive/negative, m_normalInvNorm through '#define private public' / '#define protected public' (no source change)"]
    ck.assumptions = ["integer data coordinates, half-integer query coordinates: all squared distances and thresholds are exact in double (sqrt results are squared back and rounded)",
                      "query theorems: the tree is well-formed for the data (left <= threshold <= right on the cut coordinate, every leaf holds copies of one point, leaf index lists are non-empty) — proved for the construction model (C17_kd_build_wellformed) and checked on every real tree by the extracted wf_treeb and an independent monitor",
                      "construction theorems: non-empty data set, all points of one dimension, std::nth_element returns a rearrangement with the median property at position (size+1)/2, fewer than 2^32 points (depth limit), default TreeConstruction (bucket size 1); thresholds exact on doubled integer coordinates",
                      "at most n calls of next() on a data set of n points",
                      "projection-tree theorems: exact arithmetic of an ordered field; sqrt x * sqrt x = x for the squared anchor distances (construction only); the kernel satisfies KPos / KCS and is symmetric (proved for the linear and the degree-2 polynomial kernel); std::nth_element result with the median property; the anchor choice as coded is proved admissible",
                      "NearestNeighborModel: exact arithmetic (the vote is order-independent); identical predictions of the two back-ends only without a tie at the k-th distance (with a tie: refuted, C17_vote_backend_tie_refuted)"]
    ck.proofs()
    model = extract_model(PID, "C17Extract.v", "c17_driver.ml")
    exe, err = cxx_build("c17_nn", [os.path.join(ROOT, "harness", "c17_nn.cpp")])
    if exe is None:
        ck.oblige("harness builds against /repo", False, err); ck.finish()
    tmpd = os.path.join(BUILD, "tmp", PID); os.makedirs(tmpd, exist_ok=True)
    big = ck.tier == "thorough"; rng = ck.rng

    OMP = {"OMP_NUM_THREADS": "2", "OMP_WAIT_POLICY": "PASSIVE"}      # shared machine: no spinning worker threads

    def fragile(c):
        u = len(set(map(tuple, c["pts"])))
        return u == 1 or (c["kind"] != "kd" and u < len(c["pts"])) or len(c["pts"]) <= c["bucket"]

    def run_impl(cases, tag):
        """crash-prone streams (single-leaf trees, LC/KHC trees on data with duplicates) run one process per case"""
        res = [None] * len(cases)
        rob = [i for i, c in enumerate(cases) if not fragile(c)]
        for i, r in zip(rob, run_cases(exe, [case_lines(cases[i]) for i in rob], os.path.join(tmpd, tag + "_impl.txt"), env=OMP)): res[i] = r
        for i, c in enumerate(cases):
            if res[i] is None: res[i] = run_cases(exe, [case_lines(c)], os.path.join(tmpd, tag + "_impl1.txt"), timeout=60, env=OMP)[0]
        return res

    # ---- build the case list -------------------------------------------------------------------
    cases = []
    cdir = os.path.join(ROOT, "corpus", PID)
    if ck.replay:
        cases = [parse_case([l for l in open(ck.replay).read().split("\n") if l.strip() and not l.startswith("#")])]
    else:
        if os.path.isdir(cdir):
            for f in sorted(os.listdir(cdir)):
                cases.append(parse_case([l for l in open(os.path.join(cdir, f)).read().split("\n") if l.strip() and not l.startswith("#")]))
        plan = [("kd", 0, 260, 8), ("kd", 2, 40, 4), ("lc", 0, 60, 6), ("khc", 0, 50, 6), ("khc2", 0, 50, 6), ("kdP", 0, 70, 6)]
        if big: plan = [(k, b, m * 12, q + 4) for k, b, m, q in plan]
        fresh = []
        for kind, bucket, m, nq in plan:
            for _ in range(m):
                dim, pts = gen_points(rng, big)
                while len(set(map(tuple, pts))) < 2: dim, pts = gen_points(rng, big)     # single-leaf trees have their own stream
                if kind == "khc2": pts = [[max(-6, min(6, x)) for x in p] for p in pts]
                # (before the repairs bfc526b8 / c6ff0316 duplicates crashed the LC / KHC constructors and these streams were
                #  de-duplicated; now duplicates, collinear points and points on the cutting hyper-surface stay in)
                b = bucket if bucket == 0 else rng.choice([b for b in (2, 3, 4, 8) if b < len(pts)] or [0])
                fresh.append(({"kind": kind.replace("P", ""), "bucket": b, "dim": dim, "pts": pts, "body": []}, nq, kind.endswith("P")))
                # the same kind of tree built with a DEPTH limit (TreeConstruction(d, 0), d below and above the natural depth): the
                # property quantifies over depth limits; whatever the construction does with the limit, queries must stay exact
                if b == 0 and not kind.endswith("P") and rng.random() < 0.5:
                    dim2, pts2 = gen_points(rng, big)
                    while len(set(map(tuple, pts2))) < 2: dim2, pts2 = gen_points(rng, big)
                    if kind == "khc2": pts2 = [[max(-6, min(6, x)) for x in p] for p in pts2]
                    fresh.append(({"kind": kind, "bucket": 0, "depth": rng.choice([1, 1, 2, 3, 5, 40]), "dim": dim2, "pts": pts2, "body": []}, nq, False))
                # data FAR from the origin (offset 1e8 per coordinate, extent a few units): kd and LC trees (Euclidean distances are formed
                # from coordinate differences, so the printed 16 d^2 stay exact integers); queries near the data; tree queries only
                if b == 0 and kind in ("kd", "lc") and rng.random() < 0.5:
                    dim3, pts3 = gen_points(rng, big)
                    while len(set(map(tuple, pts3))) < 2: dim3, pts3 = gen_points(rng, big)
                    off = [rng.choice([10 ** 8, -10 ** 8, 3 * 10 ** 7]) for _ in range(dim3)]
                    fresh.append(({"kind": kind, "bucket": 0, "far": 1, "dim": dim3, "pts": [[x + o for x, o in zip(p, off)] for p in pts3], "body": []}, nq, "F"))
        for kind in ("lc", "khc", "khc2"):                                             # duplicate points in LC / KHC trees
            for _ in range(2):
                pts = [[rng.randint(-4, 4) for _ in range(2)] for _ in range(rng.randint(2, 6))]
                fresh.append(({"kind": kind, "bucket": 0, "dim": 2, "pts": pts + [list(pts[0])], "body": []}, 2, False))
        for kind in ("kd", "lc", "khc"):                                               # data sets whose tree is a single leaf
            for n in (1, 3):
                p = [rng.randint(-5, 5) for _ in range(2)]
                fresh.append(({"kind": kind, "bucket": 0, "dim": 2, "pts": [list(p) for _ in range(n)], "body": []}, 2, False))
        # extension streams for the projection trees (own random stream: the streams above stay as they were)
        rx = random.Random(rng.randint(0, 2 ** 30) ^ 0x17C17)
        for kind in ("lc", "khc", "khc2"):
            for n, eq in ((1, True), (2, True), (2, False), (3, False)):                   # n = 1, 2, all points equal
                d = rx.choice([1, 2, 3]); p = [rx.randint(-5, 5) for _ in range(d)]
                pts = [list(p) for _ in range(n)] if eq else [[x + (i if j == 0 else 0) for j, x in enumerate(p)] for i in range(n)]
                fresh.append(({"kind": kind, "bucket": 0, "dim": d, "pts": pts, "body": []}, 3, False))
            for _ in range(6 if not big else 40):                                          # more than CuttingAccuracy = 25 points: sampled cut direction
                d = rx.choice([1, 2, 2, 3]); n = rx.randint(26, 44); st = rx.random()
                if st < 0.35: pts = [[rx.randint(-1, 1) for _ in range(d)] for _ in range(n)]              # heavy duplicates
                elif st < 0.6:                                                                               # one value, few exceptions (degenerate sample, repair c6ff0316)
                    p = [rx.randint(-3, 3) for _ in range(d)]; pts = [list(p) for _ in range(n)]
                    for _ in range(rx.randint(1, 3)): pts[rx.randrange(n)] = [rx.randint(-6, 6) for _ in range(d)]
                elif st < 0.8:                                                                               # collinear
                    a = [rx.randint(-3, 3) for _ in range(d)]; b = [rx.randint(-1, 1) for _ in range(d)]
                    pts = [[a[j] + t * b[j] for j in range(d)] for t in (rx.randint(-6, 6) for _ in range(n))]
                else: pts = [[rx.randint(-6, 6) for _ in range(d)] for _ in range(n)]
                fresh.append(({"kind": kind, "bucket": 0, "dim": d, "pts": pts, "body": []}, 3, False))
        # clusters (all kinds, aimed at lc / khc): 30..70 points, 60-90% copies of ONE point, the others within a small neighbourhood, on a
        # 1/8 or 1/16 grid (distinct points closer than 1); half of the cases place the distinct points where buildTree does not sample
        # (positions other than n*(2i+1)/50), so that the degenerate-sample branch of repair c6ff0316 runs at the root
        for kind, m in (("lc", 10), ("khc", 8), ("khc2", 5), ("kd", 5)):
            for _ in range(m * (8 if big else 1)):
                d = rx.choice([1, 2, 2, 3]); n = rx.randint(30, 70); S = rx.choice([8, 16])
                p0 = [rx.randint(-12, 12) for _ in range(d)]; nd = max(1, int(n * rx.uniform(0.1, 0.4)))
                R = rx.choice([1, 2, 3, 5])
                def nearp():
                    while True:
                        q = [x + rx.randint(-R, R) for x in p0]
                        if q != p0: return q
                pts = [list(p0) for _ in range(n)]
                sampled = set(n * (2 * i + 1) // 50 for i in range(25))
                if rx.random() < 0.5:
                    free = [i for i in range(1, n) if i not in sampled]; rx.shuffle(free)
                    for i in free[:min(nd, len(free))]: pts[i] = nearp()
                else:
                    for i in rx.sample(range(n), nd): pts[i] = nearp()
                if kind == "khc2": pts = [[max(-48, min(48, x)) for x in p] for p in pts]
                fresh.append(({"kind": kind, "scale": S, "bucket": 0, "dim": d, "pts": pts, "body": []}, 4, "K"))
        # NearestNeighborModel: classification (C lines) and regression (P lines) votes on every kind of tree, both back-ends
        for kind, m in (("kd", 36), ("lc", 22), ("khc", 18), ("khc2", 18)):
            for _ in range(m * (10 if big else 1)):
                dim, pts = gen_points(rx, big)
                if kind == "khc2": pts = [[max(-6, min(6, x)) for x in p] for p in pts]
                fresh.append(({"kind": kind, "bucket": 0, "dim": dim, "pts": pts, "body": []}, 6, "V"))
        # phase 1: build the trees only, to aim queries at the real splitting planes
        o1 = run_impl([c for c, _, _ in fresh], "phase1")
        for (c, nq, isP), (o, rc, e) in zip(fresh, o1):
            tree = None
            ptree = None
            if rc == 0 and o and re.search(r"\btree=", o[0]):
                tree = parse_tree(re.search(r"\btree=(\S+)", o[0]).group(1))
            if rc == 0 and o and "ptree=" in o[0]:
                ptree = parse_ptree(re.search(r"ptree=(\S+)", o[0]).group(1))
            qs = gen_queries(rng, c, tree, nq, ptree)
            if c["kind"] == "khc2": qs = ["Q " + " ".join(str(max(-120, min(120, int(x)))) for x in q.split()[1:]) for q in qs]
            if isP == "F":                                      # far-offset data: queries near the data points only
                qs = ["Q " + " ".join(str(2 * x + rx.randint(-8, 8)) for x in rx.choice(c["pts"])) for _ in range(len(qs))]
            elif isP == "K":                                      # queries near the cluster (integer units, half steps), some far away
                p0 = c["pts"][0]
                qs = ["Q " + " ".join(str(2 * x + rx.randint(-8, 8)) for x in rx.choice(c["pts"])) if rx.random() < 0.8
                      else "Q " + " ".join(str(2 * x + rx.choice([-1, 1]) * rx.randint(40, 400)) for x in p0) for _ in range(len(qs))]
                if c["kind"] == "khc2": qs = ["Q " + " ".join(str(max(-120, min(120, int(x)))) for x in q.split()[1:]) for q in qs]
            elif isP == "V":
                n = len(c["pts"]); vq = []
                for q in qs:
                    r = rx.random()
                    if r < 0.35:                                   # a tie: the midpoint of two data points / a data point itself (zero distance)
                        a, b = rx.choice(c["pts"]), rx.choice(c["pts"]); q = "Q " + " ".join(str(x + y) for x, y in zip(a, b))
                    k = rx.randint(1, min(n, 6)); w = rx.randint(0, 1)
                    if rx.random() < 0.7 or c["kind"] == "khc2": vq.append("C %d %d %d %s" % (k, w, rx.choice([1, 2, 2, 3, 3, 4]), q[2:]))
                    else: vq.append("P %d %d %s" % (k, w, q[2:]))
                qs = vq
            elif isP:
                n = len(c["pts"])
                qs = ["P %d %d %s" % (rng.randint(1, min(n, 5)), rng.randint(0, 1), q[2:]) for q in qs]
            c["body"] = qs
            cases.append(c)

    # ---- run implementation, monitor -----------------------------------------------------------
    io = run_impl(cases, "all")
    failing = {}          # key -> list of (case index, message)
    def case_failures(c, res):
        o, rc, e = res
        if rc != 0:
            u = len(set(map(tuple, c["pts"])))
            key = ("tree:duplicate-points " if (c["kind"] != "kd" and u < len(c["pts"]) and u > 1 and not o) else "tree:single-leaf " if (u == 1 or len(c["pts"]) <= c["bucket"]) else "crash ") + c["kind"]
            return [(key, "implementation crashed/stopped after %d of %d lines (rc=%s) %s" % (len(o), len(c["body"]) + 1, rc, e.strip()[-200:]))]
        return monitor_case(c, o)
    for ci, (c, res) in enumerate(zip(cases, io)):
        for key, msg in case_failures(c, res):
            failing.setdefault(key, []).append((ci, msg))
    mon_failed_cases = set(ci for v in failing.values() for ci, _ in v)

    # ---- correspondence on the kd/default stream -----------------------------------------------
    kd = [ci for ci, c in enumerate(cases) if c["kind"] == "kd" and c["bucket"] == 0 and not far_case(c) and io[ci][1] == 0 and any(l.startswith("Q") for l in c["body"])]
    def model_lines(c, implD):
        m = re.search(r"\btree=(\S+)", implD); nth = re.search(r"nth=(\S+)", implD)
        return [dline(c, m.group(1) + (" nth=" + nth.group(1) if nth else ""))] + [l for l in c["body"] if l.startswith("Q")]
    mo = run_cases(model, [model_lines(cases[ci], io[ci][0][0]) for ci in kd], os.path.join(tmpd, "all_model.txt"))
    dis = []; ntie_free = 0; nq = 0; notwf = 0
    bstat = {"trees": 0, "nth_calls": 0, "sortoracle_same": 0, "inner_nodes": 0}
    def build_differs(md, implD, count=True):
        """construction model (oracle = recorded std::nth_element results) vs the real tree: cut dimension, threshold,
        left/right index set of every node (leaves compared as sets)"""
        f = dict(x.split("=", 1) for x in md.split() if "=" in x)
        if "built" not in f: return "construction: the model driver printed no built tree: %s" % md[:200]
        real = tree_canon(parse_tree(re.search(r"\btree=(\S+)", implD).group(1)))
        if f["built"] != real: return "construction: model tree %s / real tree %s" % (f["built"], real)
        if f["oracle"] != "ok": return "construction: recorded std::nth_element result rejected: %s (%s)" % (f["oracle"], re.search(r"nth=(\S+)", implD).group(1)[:300])
        u, k = f["calls"].split("/")
        if u != k: return "construction: the model consulted %s of %s recorded std::nth_element calls" % (u, k)
        if f["modelwf"] != "WF": return "construction: the model tree fails wf_treeb (contradicts kd_build_wellformed): %s" % f["built"]
        if f["sortoracle"] != "same": return "construction: kd_build with the sorting oracle gives a different tree than with the recorded std::nth_element results (contradicts kd_build_oracle_independent): %s" % md[:300]
        if not count: return None
        bstat["trees"] += 1; bstat["nth_calls"] += int(k); bstat["sortoracle_same"] += f["sortoracle"] == "same"
        bstat["inner_nodes"] += f["built"].count("N")
        return None
    def differs(c, a, b):
        """a: model lines, b: implementation lines (D + Q lines only)"""
        nonlocal ntie_free, nq
        if len(a) != len(b): return "model printed %d lines, implementation %d" % (len(a), len(b))
        if canon_d(a[0]) != canon_d(b[0]): return "tree read back differently: %s / %s" % (a[0][:120], b[0][:120])
        w = build_differs(a[0], b[0])
        if w: return w
        for l, x, y in zip([l for l in c["body"] if l.startswith("Q")], a[1:], b[1:]):
            (cx, tf), (cy, _) = canon_q(c, l, x), canon_q(c, l, y)
            nq += 1; ntie_free += 1 if tf else 0
            if cx != cy: return "%s: model %s / implementation %s" % (l, x[:300], y[:300])
        return None
    for ci, (a, rca, ea) in zip(kd, mo):
        if rca != 0: raise RuntimeError("model driver failed on case %d: %s" % (ci, ea))
        if a and re.search(r" NOTWF( built=|$)", a[0]):
            notwf += 1
            if not any(k == "tree:build-wf kd" for k, _ in case_failures(cases[ci], io[ci])):
                failing.setdefault("tree:build-wf kd", []).append((ci, "the extracted wf_treeb rejects the real tree %s" % a[0][:200]))
                mon_failed_cases.add(ci)
        if ci in mon_failed_cases: continue
        implq = [io[ci][0][0]] + [o for l, o in zip(cases[ci]["body"], io[ci][0][1:]) if l.startswith("Q")]
        why = differs(cases[ci], a, implq)
        if why: dis.append((ci, why))


    # ---- correspondence on the projection trees (LC, KHC linear, KHC polynomial), default construction ------------
    # the extracted C17Proj / C17Gen model runs, in exact rational arithmetic, on the tree the real constructor built
    # (node data dumped as %.17g: thresholds, normals, anchor indices, m_normalInvNorm) and must reproduce
    #   * squaredDistanceLowerBound(q) of every node and distanceFromPlane(q) of every inner node (relative 1e-12),
    #   * every result of IterativeNNQuery::next / getNeighbors (exact 16 d^2, indices up to ties),
    #   * queue size and radius after every call when no decision of the search is within 1e-9 of a tie,
    # and the real tree must pass the extracted pwf_treeb and the unit-norm check |funct gradient|^2 = 1 (1e-12).
    pj = [ci for ci, c in enumerate(cases) if c["kind"] in ("lc", "khc", "khc2") and c["bucket"] == 0 and not far_case(c) and io[ci][1] == 0
          and io[ci][0] and "ptree=" in io[ci][0][0] and any(l.startswith("Q") for l in c["body"])]
    def pmodel_lines(c, implD):
        pn = re.search(r"pnth=(\S+)", implD)
        return [dline(c) + " | ptree=" + re.search(r"ptree=(\S+)", implD).group(1) + (" pnth=" + pn.group(1) if pn else "")] + [l for l in c["body"] if l.startswith("Q")]
    def ptree_cmp(kind, a, b, where="root"):
        """model tree (built by the construction model) vs real tree: leaf index sets and anchors exact, doubles at 1e-12"""
        if a[0] != b[0]: return "%s: model has a %s, the real tree a %s" % (where, "leaf" if a[0] == "L" else "node", "leaf" if b[0] == "L" else "node")
        if a[0] == "L":
            return None if sorted(a[1]) == sorted(b[1]) else "%s: leaf index sets differ: model %s / real %s" % (where, sorted(a[1]), sorted(b[1]))
        fa, fb = a[1], b[1]
        if not fclose(float(fa[0]), float(fb[0])): return "%s: threshold model %s / real %s" % (where, fa[0], fb[0])
        if kind == "lc":
            na, nb = [float(x) for x in fa[1].split(",")], [float(x) for x in fb[1].split(",")]
            if len(na) != len(nb) or not all(fclose(x, y) for x, y in zip(na, nb)): return "%s: normal vector model %s / real %s" % (where, fa[1], fb[1])
        else:
            if fa[1] != fb[1] or fa[2] != fb[2]: return "%s: anchors (positive, negative) model (%s, %s) / real (%s, %s)" % (where, fa[1], fa[2], fb[1], fb[2])
            if not fclose(float(fa[3]), float(fb[3])): return "%s: m_normalInvNorm model %s / real %s" % (where, fa[3], fb[3])
        return ptree_cmp(kind, a[2], b[2], where + ".left") or ptree_cmp(kind, a[3], b[3], where + ".right")
    def pbuild_differs(c, md, implD, count=True):
        f = dict(x.split("=", 1) for x in md.split()[1:] if "=" in x)
        if "built" not in f: return "construction: the model driver printed no built tree: %s" % md[:200]
        if f["ftie"] == "yes":
            # the projections of two different points tie in exact arithmetic but not as doubles (or the other way round): the real
            # split follows the rounded keys, the exact model cannot reproduce it; the real tree is still checked by pwf_treeb above
            if count: pstat["build_float_ties"] += 1
            return None
        if f["oracle"] != "ok": return "construction: recorded std::nth_element result / keys rejected: %s" % f["oracle"][:400]
        u, k = f["calls"].split("/")
        if u != k: return "construction: the model consulted %s of %s recorded std::nth_element calls" % (u, k)
        w = ptree_cmp(c["kind"], parse_ptree(f["built"]), parse_ptree(re.search(r"ptree=(\S+)", implD).group(1)))
        if w: return "construction: " + w + " (model %s / real %s)" % (f["built"][:300], re.search(r"ptree=(\S+)", implD).group(1)[:300])
        if f["modelwf"] != "WF": return "construction: the model tree fails pwf_treeb (contradicts lc_build_wellformed / khc_build_wellformed): %s" % f["built"][:300]
        if f["modelunit"] != "ok": return "construction: a node of the model tree has a normal of squared norm != 1: %s" % f["built"][:300]
        if count:
            pstat["build_trees"] += 1; pstat["build_nth_calls"] += int(k); pstat["build_inner_nodes"] += f["built"].count("N")
        return None
    pstat = {"trees": 0, "queries": 0, "node_bounds": 0, "plane_distances": 0, "trace_compared": 0, "max_rel_err_bound": 0.0, "nodes_norm_gt_1": 0, "inner_nodes": 0, "trees_wf_up_to_rounding": 0,
             "build_trees": 0, "build_nth_calls": 0, "build_inner_nodes": 0, "build_float_ties": 0}
    def fclose(x, y, tol=1e-12):
        return abs(x - y) <= tol * (1.0 + max(abs(x), abs(y)))
    def proj_differs(c, a, b, count=True):
        """a: model lines, b: implementation lines (D + Q lines)"""
        if len(a) != len(b): return "model printed %d lines, implementation %d" % (len(a), len(b))
        f = dict(x.split("=", 1) for x in a[0].split()[1:] if "=" in x)
        if f.get("wf") != "WF":
            # exact evaluation of funct on the stored doubles: a point whose projection ties with the threshold in exact arithmetic
            # may sit a rounding error (<= 1e-12) on the other side; anything larger is a misplaced point
            if not (0.0 < float(f.get("slack", "1")) <= 1e-12): return "ptree-wf: the extracted pwf_treeb rejects the real %s tree (a point on the wrong side of a cut by %s, or a leaf with different points): %s" % (c["kind"], f.get("slack"), b[0][:300])
            if count: pstat["trees_wf_up_to_rounding"] += 1
        if f.get("partition") != "ok": return "ptree-wf: the leaves of the real %s tree are not a partition of 0..n-1: %s" % (c["kind"], b[0][:300])
        units = [] if f.get("unit", "-") == "-" else [float(x) for x in f["unit"].split(",")]
        for u in units:
            if not abs(u - 1.0) <= 1e-12: return "unit-norm: a node of the real %s tree has squared gradient norm %r of funct (must be 1): %s" % (c["kind"], u, b[0][:300])
        w = pbuild_differs(c, a[0], b[0], count)
        if w: return w
        n = len(c["pts"])
        for l, x, y in zip([l for l in c["body"] if l.startswith("Q")], a[1:], b[1:]):
            ax, ay = parse_aux(x), parse_aux(y)
            for key, what in (("lb", "squaredDistanceLowerBound"), ("fp", "distanceFromPlane")):
                if len(ax.get(key, [])) != len(ay.get(key, [None])): return "%s: %s lists differ in length: model %s / implementation %s" % (l, what, x[:200], y[:200])
                for j, (u, v) in enumerate(zip(ax[key], ay[key])):
                    if not fclose(u, v): return "%s: %s of node #%d (pre-order): model %r / implementation %r" % (l, what, j, u, v)
                    if count and key == "lb" and max(abs(u), abs(v)) > 1e-6: pstat["max_rel_err_bound"] = max(pstat["max_rel_err_bound"], abs(u - v) / max(abs(u), abs(v)))
            h = list(map(int, l.split()[1:])); tr = true16(c, h)
            dx, dy = parse_q(x), parse_q(y)
            def groups(it):
                res = []; j = 0
                while j < len(it):
                    e = j
                    while e < len(it) and it[e][0] == it[j][0]: e += 1
                    res.append((it[j][0], sorted(int(z[1]) for z in it[j:e]))); j = e
                return res
            if groups(dx.get("it", [])) != groups(dy.get("it", [])): return "%s: results of next(): model %s / implementation %s" % (l, x[:300], y[:300])
            st = sorted(tr)
            for k in dy:
                if k == "it": continue
                K = int(k[1:]); cut = K < n and st[K - 1] == st[K]
                cx = sorted((z[0], int(z[1])) for z in dx.get(k, []) if not (cut and int(z[0]) == st[K - 1]))
                cy = sorted((z[0], int(z[1])) for z in dy[k] if not (cut and int(z[0]) == st[K - 1]))
                if [z[0] for z in dx.get(k, [])] != [z[0] for z in dy[k]] or cx != cy: return "%s: getNeighbors(%s): model %s / implementation %s" % (l, k, dx.get(k), dy[k])
            # queue size and radius: only when the run is deterministic and no comparison of the search is near a tie
            byd = {}
            for i in range(n): byd.setdefault(tr[i], set()).add(tuple(c["pts"][i]))
            tiefree = all(len(v) == 1 for v in byd.values())
            near = any(abs(float(fac(c)) * lbv - t) <= 1e-9 * (1.0 + t) for lbv in ay["lb"] for t in tr) or any(abs(v) <= 1e-9 for v in ay["fp"])
            if tiefree and not near:
                tx = [(z[2], z[3]) for z in dx["it"]]; ty = [(z[2], z[3]) for z in dy["it"]]
                for j, ((qa, ra), (qb, rb)) in enumerate(zip(tx, ty)):
                    if qa != qb or (ra == "inf") != (rb == "inf") or (ra != "inf" and not fclose(float(ra), float(rb))):
                        return "%s: after call %d of next(): queue size / radius model %s:%s / implementation %s:%s" % (l, j + 1, qa, ra, qb, rb)
                if count: pstat["trace_compared"] += 1
            if count:
                pstat["queries"] += 1; pstat["node_bounds"] += len(ay["lb"]); pstat["plane_distances"] += len(ay["fp"])
        if count:
            pstat["trees"] += 1; pstat["inner_nodes"] += len(units); pstat["nodes_norm_gt_1"] += sum(1 for u in units if u > 1.0)
        return None
    pmo = run_cases(model, [pmodel_lines(cases[ci], io[ci][0][0]) for ci in pj], os.path.join(tmpd, "proj_model.txt"))
    pdis = []
    for ci, (a, rca, ea) in zip(pj, pmo):
        if rca != 0: raise RuntimeError("model driver failed on projection-tree case %d: %s" % (ci, ea))
        if ci in mon_failed_cases: continue
        implq = [io[ci][0][0]] + [o for l, o in zip(cases[ci]["body"], io[ci][0][1:]) if l.startswith("Q")]
        why = proj_differs(cases[ci], a, implq)
        if why: pdis.append((ci, why))


    # ---- correspondence of the vote: the extracted C17Vote model, in exact rational arithmetic, on the neighbour list each real
    # back-end returned (distances as exact doubles), vs the prediction of NearestNeighborModel: class scores / decision / mean
    vstat = {"votes_classification": 0, "votes_regression": 0, "decisions_compared": 0}
    vcases = []; vmeta = []
    for ci, c in enumerate(cases):
        if io[ci][1] != 0 or ci in mon_failed_cases: continue
        lines = []; meta = []
        for l, o in zip(c["body"], io[ci][0][1:]):
            t = l.split()
            if t[0] == "C":
                m = re.match(r"C tree=(\d+);([^;]*);(\S*) simple=(\d+);([^;]*);(\S*)$", o)
                if not m: continue
                for be, (cl, sc, nb) in (("tree", m.group(1, 2, 3)), ("simple", m.group(4, 5, 6))):
                    lines.append("V %d %d %s" % (1 if t[2] == "0" else 0, len(sc.split(",")), nb)); meta.append((l, be, int(cl), [float(x) for x in sc.split(",")]))
            elif t[0] == "P":
                mp = re.match(r"P tree=(\S+),(\S+) simple=(\S+),(\S+)", o)
                for be, fld, grp in (("tree", "tn", (1, 2)), ("simple", "sn", (3, 4))):
                    mm = re.search(r" %s=(\S+)" % fld, o)
                    if mp and mm:
                        lines.append("W %d 2 %s" % (1 if t[2] == "0" else 0, mm.group(1))); meta.append((l, be, None, [float(mp.group(grp[0])), float(mp.group(grp[1]))]))
        if lines: vcases.append(lines); vmeta.append((ci, meta))
    vdis = []
    for (ci, meta), (a, rca, ea), lines in zip(vmeta, run_cases(model, vcases, os.path.join(tmpd, "vote_model.txt")) if vcases else [], vcases):
        if rca != 0: raise RuntimeError("model driver failed on vote case %d: %s" % (ci, ea))
        for (l, be, cl, sc), x, ml in zip(meta, a, lines):
            f = x.split()
            if f[0] == "V":
                msc = [float(y) for y in f[2].split(",")]; vstat["votes_classification"] += 1
                if not close_list(msc, sc, 1e-12): vdis.append((ci, "%s (%s back-end, model input %s): scores model %s / implementation %s" % (l, be, ml, msc, sc))); break
                # the decision (first maximal score) is compared unless two different scores are within rounding of the maximum
                exact_max = set(int(y) for y in f[3].split(",")) if len(f) > 3 else set()
                amb = any(0 < abs(max(v) - x) <= 1e-12 * (1 + max(v)) for v in (msc, sc) for x in v) or \
                      any(set(i for i, x in enumerate(v) if x == max(v)) != exact_max for v in (msc, sc))      # a difference that doubles cannot see (1e100 + 1)
                if not amb:
                    vstat["decisions_compared"] += 1
                    if int(f[1]) != cl: vdis.append((ci, "%s (%s back-end, model input %s): class model %s / implementation %d" % (l, be, ml, f[1], cl))); break
            else:
                mv = [float(y) for y in f[1].split(",")]; vstat["votes_regression"] += 1
                if not close_list(mv, sc, 1e-12): vdis.append((ci, "%s (%s back-end, model input %s): prediction model %s / implementation %s" % (l, be, ml, mv, sc))); break

    # ---- reporting -----------------------------------------------------------------------------
    def fails_with(c, key):
        return any(k == key for k, _ in case_failures(c, run_impl([c], "shrink")[0]))

    def shrink(c, key):
        c = dict(c)
        for l in c["body"]:                                   # one failing line
            c1 = dict(c); c1["body"] = [l]
            if fails_with(c1, key): c = c1; break
        idx = ddmin(list(range(len(c["pts"]))), lambda keep: fails_with(dict(c, pts=[c["pts"][i] for i in keep]), key), max_runs=150)
        c2 = dict(c, pts=[c["pts"][i] for i in idx])
        return c2 if fails_with(c2, key) else c

    for key in sorted(failing):
        lst = sorted(failing[key], key=lambda x: (impl_meta(io[x[0]][0][0]) if io[x[0]][0] else 0, len(cases[x[0]]["pts"])))
        log("[C17] monitor: %d failing lines in %d cases for key '%s'" % (len(lst), len(set(ci for ci, _ in lst)), key))
        if ck.match_known(key) is not None:
            ck.violation(key, {}, lst[0][1]); continue
        for ci, msg in lst[:1]:
            small = shrink(cases[ci], key)
            res = run_impl([small], "rep")[0]; o = res[0]
            m = [mm for k, mm in case_failures(small, res) if k == key]
            lines = case_lines(small)
            cf = ck.write_replay("case_%s_%d.txt" % (re.sub(r"\W+", "_", key), ci), "\n".join(lines) + "\n")
            rp = {"case_file": cf, "case": lines, "implementation_output": o, "monitor": m or [msg], "points": small["pts"],
                  "replay_cmd": "python3 tools/c17.py --replay %s" % cf}
            ck.violation(key, rp, "spec monitor (exhaustive search / tree well-formedness) fails on the implementation: " + (m or [msg])[0])
    unknown_mon = [k for k in failing if ck.match_known(k) is None]
    ck.oblige("spec monitor (exhaustive search) on %d cases" % len(cases), not unknown_mon, "; ".join("%s: %d" % (k, len(failing[k])) for k in unknown_mon))

    if dis:
        log("[C17] correspondence: %d disagreeing cases; first: %s" % (len(dis), dis[0][1][:600]))
        found = False
        if not unknown_mon:
            # search: many more queries on the disagreeing data sets
            for ci, why in dis[:5]:
                c = dict(cases[ci]); t = parse_tree(re.search(r"\btree=(\S+)", io[ci][0][0]).group(1))
                c["body"] = gen_queries(rng, c, t, 300)
                ms = [(k, m) for k, m in case_failures(c, run_impl([c], "search")[0]) if ck.match_known(k) is None]
                if ms:
                    small = shrink(c, ms[0][0]); lines = case_lines(small)
                    cf = ck.write_replay("case_search_%d.txt" % ci, "\n".join(lines) + "\n")
                    ck.violation(ms[0][0], {"case_file": cf, "case": lines, "monitor": [ms[0][1]], "replay_cmd": "python3 tools/c17.py --replay %s" % cf},
                                 "spec monitor fails on the implementation (found by search after the correspondence broke): " + ms[0][1])
                    found = True; break
        if not found and not unknown_mon:
            ci, why = dis[0]; c = cases[ci]
            if why.startswith("construction"):
                # shrink the data set on which the construction model and KDTree::buildTree differ
                def bd(pts):
                    if len(set(map(tuple, pts))) < 2: return None
                    c1 = dict(c, pts=pts, body=[]); o, rc, e = run_impl([c1], "shrink")[0]
                    if rc != 0 or not o: return None
                    a, rca, _ = run_cases(model, [model_lines(c1, o[0])], os.path.join(tmpd, "s_model.txt"))[0]
                    return build_differs(a[0], o[0], count=False) if a else None
                idx = ddmin(list(range(len(c["pts"]))), lambda keep: bool(bd([c["pts"][i] for i in keep])), max_runs=120)
                w = bd([c["pts"][i] for i in idx])
                if w: c = dict(c, pts=[c["pts"][i] for i in idx], body=[l for l in c["body"] if l.startswith("Q")][:1]); why = w
                dis = [(ci, why)] + dis[1:]
            # shrink to one disagreeing query
            for l in ([] if why.startswith("construction") else [l for l in c["body"] if l.startswith("Q")]):
                c1 = dict(c, body=[l]); o, rc, e = run_impl([c1], "shrink")[0]
                if rc != 0: continue
                a, rca, _ = run_cases(model, [model_lines(c1, o[0])], os.path.join(tmpd, "s_model.txt"))[0]
                w = differs(c1, a, o)
                if w: c, why = c1, w; break
            lines = case_lines(c)
            cf = ck.write_replay("case_corr_%d.txt" % ci, "\n".join(lines) + "\n")
            ck.violation("correspondence", {"case_file": cf, "case": lines, "difference": why,
                                            "broken": ("correspondence C17Build.kd_build (oracle = recorded std::nth_element results) vs KDTree::buildTree/calculateCuttingDimension, BinaryTree::splitList, partitionEqually/median_element"
                                                       if why.startswith("construction") else "correspondence C17Model.next/enqueue/lbound vs IterativeNNQuery/KDTree"),
                                            "replay_cmd": "python3 tools/c17.py --replay %s" % cf},
                         "correspondence model vs %s no longer checks (%d cases differ: %s); the exhaustive-search and well-formedness monitors pass on every explored input" % ("KDTree::buildTree" if why.startswith("construction") else "IterativeNNQuery/KDTree", len(dis), why[:400]), no_input=True)
    ck.oblige("correspondence C17Model (query on the real tree) vs KDTree/IterativeNNQuery on %d data sets" % len(kd), not [d for d in dis if not d[1].startswith("construction")], "%d disagreements" % len(dis))
    ck.oblige("correspondence C17Build.kd_build (oracle = recorded std::nth_element results) vs KDTree::buildTree on %d data sets: cut dimension, threshold, left/right index sets of %d inner nodes; %d recorded nth_element results pass median_okb"
              % (bstat["trees"], bstat["inner_nodes"], bstat["nth_calls"]), not [d for d in dis if d[1].startswith("construction")] and (bstat["trees"] > 0 or not kd), "%d disagreements" % len([d for d in dis if d[1].startswith("construction")]))


    if pdis:
        log("[C17] projection-tree correspondence: %d disagreeing cases; first: %s" % (len(pdis), pdis[0][1][:600]))
        found = False
        if not unknown_mon:
            for ci, why in pdis[:5]:                          # search: many more queries on the disagreeing data sets
                c = dict(cases[ci]); pt_ = parse_ptree(re.search(r"ptree=(\S+)", io[ci][0][0]).group(1))
                c["body"] = gen_queries(rng, c, None, 300, pt_)
                if c["kind"] == "khc2": c["body"] = ["Q " + " ".join(str(max(-120, min(120, int(x)))) for x in q.split()[1:]) for q in c["body"]]
                ms = [(k, m) for k, m in case_failures(c, run_impl([c], "search")[0]) if ck.match_known(k) is None]
                if ms:
                    small = shrink(c, ms[0][0]); lines = case_lines(small)
                    cf = ck.write_replay("case_search_proj_%d.txt" % ci, "\n".join(lines) + "\n")
                    ck.violation(ms[0][0], {"case_file": cf, "case": lines, "monitor": [ms[0][1]], "correspondence_difference": why, "replay_cmd": "python3 tools/c17.py --replay %s" % cf},
                                 "spec monitor fails on the implementation (found by search after the projection-tree correspondence broke: %s): %s" % (why[:200], ms[0][1]))
                    found = True; break
        if not found and not unknown_mon:
            ci, why = pdis[0]; c = cases[ci]
            def pd_(c1):
                o, rc, e = run_impl([c1], "shrink")[0]
                if rc != 0 or not o or "ptree=" not in o[0]: return None
                a, rca, _ = run_cases(model, [pmodel_lines(c1, o[0])], os.path.join(tmpd, "s_model.txt"))[0]
                return proj_differs(c1, a, [o[0]] + [x for l, x in zip(c1["body"], o[1:]) if l.startswith("Q")], count=False) if a else None
            for l in [l for l in c["body"] if l.startswith("Q")]:               # one disagreeing query
                w = pd_(dict(c, body=[l]))
                if w: c, why = dict(c, body=[l]), w; break
            idx = ddmin(list(range(len(c["pts"]))), lambda keep: len(keep) >= 1 and bool(pd_(dict(c, pts=[c["pts"][i] for i in keep]))), max_runs=120)
            w = pd_(dict(c, pts=[c["pts"][i] for i in idx]))
            if w: c, why = dict(c, pts=[c["pts"][i] for i in idx]), w
            lines = case_lines(c)
            cf = ck.write_replay("case_corr_proj_%d.txt" % ci, "\n".join(lines) + "\n")
            ck.violation("correspondence-projection", {"case_file": cf, "case": lines, "difference": why,
                                                       "broken": "correspondence C17Proj.plb / lc_funct / khc_funct / C17Gen (query) vs LCTree / KHCTree::squaredDistanceLowerBound, funct, BinaryTree::distanceFromPlane, IterativeNNQuery on the real tree",
                                                       "replay_cmd": "python3 tools/c17.py --replay %s" % cf},
                         "correspondence model vs LCTree/KHCTree no longer checks (%d cases differ: %s); the exhaustive-search monitor passes on every explored input" % (len(pdis), why[:400]), no_input=True)
    ck.oblige("correspondence C17Proj/C17Gen (bounds, plane distances, query on the real tree, exact rational arithmetic) vs LCTree / KHCTree / IterativeNNQuery on %d trees: %d node bounds, %d plane distances, %d queries (%d with queue size and radius)"
              % (pstat["trees"], pstat["node_bounds"], pstat["plane_distances"], pstat["queries"], pstat["trace_compared"]), not pdis and (pstat["trees"] > 0 or not pj), "%d disagreements" % len(pdis))


    if vdis:
        log("[C17] vote correspondence: %d disagreeing cases; first: %s" % (len(vdis), vdis[0][1][:600]))
        if not unknown_mon:
            ci, why = vdis[0]; c = cases[ci]; l = why.split(" (")[0]
            small = dict(c, body=[l]); lines = case_lines(small)
            cf = ck.write_replay("case_corr_vote_%d.txt" % ci, "\n".join(lines) + "\n")
            ck.violation("correspondence-vote", {"case_file": cf, "case": lines, "difference": why,
                                                 "broken": "correspondence C17Vote.nn_scores / nn_classify / nn_regress vs detail::BaseNearestNeighbor::eval / Classifier::eval",
                                                 "replay_cmd": "python3 tools/c17.py --replay %s" % cf},
                         "correspondence vote model vs NearestNeighborModel no longer checks (%d cases differ: %s); the vote monitor passes on every explored input" % (len(vdis), why[:400]), no_input=True)
    ck.oblige("correspondence C17Vote (exact rational arithmetic on the neighbours each back-end returned) vs NearestNeighborModel: %d classification votes (%d decisions), %d regression votes"
              % (vstat["votes_classification"], vstat["decisions_compared"], vstat["votes_regression"]), not vdis and (vstat["votes_classification"] > 0 or not vcases), "%d disagreements" % len(vdis))
    if OBS["tie_backends_differ"]:
        # the property's last sentence ("consequently nearest-neighbour models predict identically with either back-end") fails
        # exactly here: recorded as known finding C17-TIEK (theorem C17_vote_backend_tie_refuted); any OTHER difference between
        # the back-ends is reported under nnmodel:backends-differ and is not covered by that entry
        ck.violation("nnmodel:kth-distance-tie:backends-predict-differently",
                     {"example": OBS["example"][1] if OBS["example"] else None, "tie_votes": OBS["tie_cases"], "differing": OBS["tie_backends_differ"]},
                     "in %d of %d votes with a tie at the k-th distance the tree back-end and the brute-force back-end returned different tied points and NearestNeighborModel predicted differently; smallest example: %s"
                     % (OBS["tie_backends_differ"], OBS["tie_cases"], OBS["example"][1] if OBS["example"] else "-"))
    ck.notes["vote_model"] = dict(vstat, ties_at_kth_distance=OBS["tie_cases"], ties_where_backends_predict_differently=OBS["tie_backends_differ"],
                                  example=(OBS["example"][1] if OBS["example"] else None), single_class_data_sets_predicting_class_1=OBS["single_class_predicts_1"],
                                  note="with a tie at the k-th distance both back-ends return valid k nearest neighbours but may pick different tied points; the prediction then differs although the reported distances are equal (theorem C17_vote_backend_tie_refuted); without such a tie C17_vote_backends_agree applies and the monitor requires equal predictions")

    nlines = sum(len(c["body"]) for c in cases)
    ck.cov["evaluations"] = nlines
    ck.cov["distinct_nontrivial"] = len(set((c["kind"], c["bucket"], str(c["pts"]), l) for c in cases if len(c["pts"]) >= 3 for l in c["body"]))
    ck.cov["rule"] = ("data sets of 1..24 (60 thorough) integer points in dimension 1-4 (small ranges with duplicates, wide ranges, collinear, one repeated coordinate value, copies of few points); "
                      "queries in half units: inside, equal to data points, far outside (300..2000), exactly on / one half-unit next to the real splitting planes; every query asks for all n neighbours through "
                      "IterativeNNQuery::next and k=1..n through TreeNearestNeighbors::getNeighbors; construction: the tree of every kd data set is rebuilt by the extracted kd_build from the recorded results of the real std::nth_element calls and compared node by node (see construction_model); non-trivial = at least 3 points; distinct = distinct (tree kind, data set, query); "
                      "projection trees (LC, KHC linear, KHC polynomial degree 2): the same point streams WITH duplicates, collinear points and points on the cutting hyper-surface, plus n = 1, 2, all points equal, 26..44 points (more than CuttingAccuracy: sampled cut direction, degenerate samples); queries also exactly on a real splitting hyper-surface (midpoint of the extreme left / right projections) and far outside; "
                      "clusters: 30..70 points on a 1/8 or 1/16 grid, 60-90%% copies of one point, the others closer than 1 to it, half of the cases with the distinct points at positions buildTree does not sample (degenerate-sample branch of c6ff0316), all four kinds of tree, queries near the cluster and far away, all n neighbours; "
                      "votes: k = 1..6, uniform / 1/distance weights, 1..4 classes (labels (5i+2) mod nc) and 2-d regression labels, queries on data points (zero distance) and midpoints of data points (ties at the k-th distance), every kind of tree, both back-ends")
    ck.cov["samples"] = [case_lines(c)[:3] for c in cases[:2]]
    ck.cov["traces_validated_against_impl"] = len(kd) - len([ci for ci in kd if ci in mon_failed_cases])
    ck.cov["disagreements_checked"] = len(dis) + len(mon_failed_cases)
    streams = {}
    for c in cases:
        k = "%s/%s" % (c["kind"], "default" if c["bucket"] == 0 else "bucket>1"); streams[k] = streams.get(k, 0) + len(c["body"])
    ck.notes["streams(lines)"] = streams
    ck.notes["kd_queries_compared_with_model"] = nq
    ck.notes["of_which_tie_free(queue size and radius compared too)"] = ntie_free
    ck.notes["real_kd_trees_rejected_by_wf_treeb"] = notwf
    ck.notes["construction_model"] = dict(bstat, note="trees = kd data sets on which kd_build (recorded oracle) reproduced the real tree; sortoracle_same = of these, kd_build with the sorting oracle gives the same tree")
    ck.notes["projection_tree_model"] = dict(pstat, note="trees = LC / KHC(linear) / KHC(polynomial) data sets whose real tree the extracted model reproduced; nodes_norm_gt_1 = inner nodes whose stored normal / m_normalInvNorm gives a squared norm above 1 by rounding (<= 1e-12): the Lipschitz hypothesis of the theorems holds for the exact construction model, for the rounded doubles only up to that error")
    ck.notes["real_trees_with_misplaced_points"] = sum(1 for (o, rc, e) in io if rc == 0 and o and impl_meta(o[0]) > 0)
    ck.notes["monitor_failures_by_key"] = {k: len(v) for k, v in failing.items()}
    ck.finish(explanation="theorems quantify over all data sets, all results of std::nth_element with the median property, queries and k: the construction model yields a well-formed tree whose leaves partition the index set, and the query model returns the k nearest neighbours on every well-formed tree (end to end: C17_kd_build_then_query_correct); both models are tied to the C++ by correspondence runs (construction: recorded nth_element results as oracle, every node's cut dimension / threshold / index sets compared; query: every call of next()); projection trees (LC, KHC): cell bound, query and construction proved over any ordered field for every kernel with KPos/KCS (linear and degree-2 polynomial proved) and tied by correspondence on the real trees (exact rational arithmetic vs double, 1e-12); NearestNeighborModel: the vote as coded depends only on the multiset of (distance, label) pairs, both back-ends agree without a tie at the k-th distance, refuted with a tie (observed and reported on every run); bucket sizes > 1 are monitored only (known finding)")

if __name__ == "__main__":
    main()
