#!/usr/bin/env python3
"""C14 — multi-objective optimisers keep a consistent, feasible, elitist population.

  proofs      : Properties_C14.v (selection count / rank monotone for any valid indicator, one-at-a-time
                leastContributors is valid, PenalizingEvaluator identity, steady-state hypervolume monotone)
  stream S    : IndicatorBasedSelection<Indicator> (Hypervolume+reference, AdditiveEpsilon, CrowdingDistance,
                NSGA3) on generated integer populations.  The implementation runs first behind a forwarding
                indicator that records the single leastContributors call; the returned indices are the
                model's oracle (C03 pattern).  Compared: ranks, selected flags, K, front, archive.
                Spec monitor (independent of the model): exactly mu selected, rank monotone, ranks = rank
                definition, indicator indices valid, hypervolume choices are exact least contributors
                (brute-force integer hypervolume), epsilon choices as documented.
  stream P    : PenalizingEvaluator on an integer objective / box, exact.
  stream O    : per-generation monitors of MOCMA, SteadyStateMOCMA, SMSEMOA, RealCodedNSGAII (3 indicators),
                RealCodedNSGAIII, MOEAD, RVEA on ZDT/DTLZ functions.
  stream I    : the indicator classes called directly (leastContributors(front, archive, K)) next to the extracted models of
                C14Ind.v: AdditiveEpsilonIndicator and HypervolumeIndicator (2 objectives, with and without reference point) over
                integers, CrowdingDistance over OCaml floats (the model's carrier), exact comparison of the returned index lists.
                Spec monitors (independent Python): K distinct indices into the front; epsilon rule; hypervolume: every removed
                point has the least exact contribution; crowding distance by its definition (boundary -> infinity, sum of
                normalised neighbour differences, first minimum).  The same models answer inside stream S (field mown=).
  stream V    : SimulatedBinaryCrossover (draws injected through a replaying generator), PolynomialMutator, TournamentSelection
                (std::mt19937 seeds; the draws are read from the harness in a first pass and listed in the case line), ElitistSelection
                next to C14Var.v on OCaml floats: children / chosen index / flags compared exactly (hex floats).  Spec monitors:
                children of parents inside the box are inside the box, untouched coordinates unchanged; the tournament winner is the
                first drawn individual of least rank; elitist selection marks mu individuals, none worse than an unmarked one.
  stream U    : updatePopulation of IndicatorBasedRealCodedNSGAII<H|E|C>, MOCMA, SMSEMOA, SteadyStateMOCMA driven with chosen integer
                fitness vectors (protected members opened in the harness only) next to C14Loop.gen_update / ss_update with the coded
                indicator models: surviving individuals and solution() compared.  Monitor: mu survivors, all of them parents or
                offspring, none worse-ranked than a discarded one, solution() = (point, unpenalized value) of the survivors.
  stream K    : checkpoint / restore of the serializable optimisers (SMSEMOA, SteadyStateMOCMA, MOCMA, RealCodedNSGAII x 3 indicators,
                RealCodedNSGAIII through read()/write(), MOEAD through its serialize(Archive&); RVEA's serialize cannot be instantiated):
                k steps, text archive, read into a FRESH object that only got the generator, m more steps.  Required: the restored
                object reports the same solution set, the continued run equals the uninterrupted run of k+m steps generation by
                generation, and all per-generation monitors (size, values, box, hypervolume monotone w.r.t. the configured reference
                point) hold across the restore.  Keys restore:<alg>:diverges / restore:<alg>:hypervolume-decreased / restore:<alg>:...
  stream N    : INITIALISATION with caller-supplied starting points.  Every configuration of the seven optimisers (NSGA-II with its three
                indicators) is initialised through init(function, startingPoints) with 1, 2, mu-1 (fewer than mu), exactly mu, mu+1, 2mu,
                3mu+1 (more than mu) distinct points, with lists containing duplicates (all equal; fewer than mu distinct ones among
                more than mu points; ...), with lists containing a point outside the box, and through the plain init(function) (the
                proposed points are reconstructed by the harness); then a few generations.  Monitors after init and after every step:
                size, value = objective at the (closest feasible) reported point EXACTLY, box, hypervolume; additionally after init:
                every reported point is one of the starting points and carries the objective vector the harness computed for THAT
                point; with at most mu starting points every one of them is in the population (doInit: "fill everything in");
                a list with an infeasible point is either rejected by a library exception or handled within the monitors;
                the internal parents carry (penalized, unpenalized) = (f(x), f(x)) of their own search point and solution() is
                (search point, unpenalized fitness) of the parents; ranks after init = rank definition.  Keys init:<alg>:<shape>:...
                TIE: the implementation runs first; the harness replays random::discrete on a copy of the generator (D line); the
                indices are handed to the extracted C14Init model (init_parents / ssmocma_init / rvea_init over opaque point and value
                tokens, f = the harness's own evaluation of the starting points): model parents = m_parents and model solution =
                solution(), exactly and in order (SteadyStateMOCMA: including sortRankOneToFront), for all nine configurations and all
                regimes.  If the reported parents do not belong to the generator's indices, indices are recovered from the output alone
                (points carry unique first coordinates) and the difference is reported (key correspondence-init).
  stream F8   : HypervolumeIndicator WITHOUT reference point (separate stream, stable key
                contribution:no-reference-k-too-large)."""
import os, sys, random, re, math, itertools
sys.path.insert(0, os.path.dirname(os.path.abspath(__file__)))
from vlib import *

PID = "C14"
SRC = ["src/Core/Random.cpp", "src/Algorithms/DirectSearch/Operators/Lattice.cpp"]
SRC_MOO = SRC + ["src/Algorithms/DirectSearch/MOEAD.cpp", "src/Algorithms/DirectSearch/RVEA.cpp"]
BOUNDED = {"SMSEMOA", "NSGA2", "NSGA2C", "NSGA2E", "NSGA3", "MOEAD", "RVEA"}
STEADY_HV = {"SMSEMOA", "SSMOCMA"}

# ------------------------------------------------------------------------------------------------
# independent spec functions (Python)
def dominates(a, b):
    return all(x <= y for x, y in zip(a, b)) and any(x < y for x, y in zip(a, b))

def py_ranks(S):
    n = len(S); r = [0] * n
    for _ in range(n + 1):
        r = [1 + max([r[j] for j in range(n) if dominates(S[j], S[i])] + [0]) for i in range(n)]
    return r

def hv(points, ref):
    """exact (int) or float hypervolume by slicing the last objective"""
    d = len(ref)
    pts = [p for p in points if all(p[i] < ref[i] for i in range(d))]
    if not pts: return 0
    if d == 1: return ref[0] - min(p[0] for p in pts)
    vals = sorted(set(p[-1] for p in pts)); tot = 0
    for k, v in enumerate(vals):
        up = vals[k + 1] if k + 1 < len(vals) else ref[-1]
        tot += hv([p[:-1] for p in pts if p[-1] <= v], ref[:-1]) * (up - v)
    return tot

def contribs(F, ref):
    h = hv(F, ref)
    return [h - hv(F[:i] + F[i + 1:], ref) for i in range(len(F))]

def eps_least(F):
    best, bi = float("inf"), 0
    for i in range(len(F)):
        res = float("inf")
        for j in range(len(F)):
            if j != i: res = min(res, max(a - b for a, b in zip(F[j], F[i])))
        if res < best: best, bi = res, i
    return bi

def kv(line):
    d = {}
    for t in line.split():
        if "=" in t:
            k, v = t.split("=", 1); d[k] = v
    return d

def ints(s):
    return [int(x) for x in s.split(",")] if s else []

# ------------------------------------------------------------------------------------------------
# stream S
def parse_S(line):
    t = line.split("|")[0].split()
    ind, d, n, mu, useref = t[1], int(t[2]), int(t[3]), int(t[4]), int(t[5])
    v = list(map(int, t[6:]))
    ref = v[:d]; S = [v[d + i * d: d + (i + 1) * d] for i in range(n)]
    return ind, d, n, mu, useref, ref, S

def mk_S(ind, mu, useref, ref, S):
    d = len(ref)
    return "S %s %d %d %d %d %s %s" % (ind, d, len(S), mu, useref, " ".join(map(str, ref)),
                                        " ".join(str(x) for p in S for x in p))

def gen_pop(rng, big):
    d = rng.choice([2, 2, 3, 3, 4])
    n = rng.randint(1, 14 if big else 10) if d < 4 else rng.randint(1, 7)
    hi = rng.choice([1, 2, 3, 5, 6])
    shape = rng.random()
    if shape < 0.45: S = [[rng.randint(0, hi) for _ in range(d)] for _ in range(n)]
    elif shape < 0.60:                                    # one single front (anti-chain), maybe with duplicates
        S = [[i, n - i] + [rng.randint(0, 1) * 0 for _ in range(d - 2)] for i in range(n)]
        if rng.random() < 0.5 and n > 1: S[rng.randrange(n)] = list(S[rng.randrange(n)])
        rng.shuffle(S)
    elif shape < 0.70: S = [[rng.randint(0, hi)] * d for _ in range(n)]      # a chain: n fronts (with ties)
    elif shape < 0.78: S = [[1] * d for _ in range(n)]                        # all duplicates
    else:                                                   # few distinct points, many duplicates
        base = [[rng.randint(0, hi) for _ in range(d)] for _ in range(rng.randint(1, 3))]
        S = [list(rng.choice(base)) for _ in range(n)]
    mx = max(max(p) for p in S)
    ref = [mx + rng.randint(1, 3) for _ in range(d)]
    return S, ref

def gen_S(rng, big, count):
    lines = []
    while len(lines) < count:
        S, ref = gen_pop(rng, big)
        n = len(S)
        mus = list(range(1, n + 1)) if rng.random() < 0.35 else [rng.randint(1, n)]
        for mu in mus:
            for ind in rng.sample(["H", "H", "E", "C", "N"], 2):
                if ind == "N" and mu < len(ref): ind = "E"      # NSGA3Indicator::init needs mu >= #objectives (see report)
                lines.append(mk_S(ind, mu, 1 if ind == "H" else 0, ref, S))
    return lines[:count]

def monitor_S(line, out):
    """spec evaluated on the implementation's own output; list of messages"""
    ind, d, n, mu, useref, ref, S = parse_S(line)
    if out in ("EXC", "STDEXC") or "ranks=" not in out: return ["selection raised/produced no output: " + out[:80]]
    if useref == 0 and ind == "H" and out.rstrip().endswith(" EXC"): return []   # default configuration: rejected by the library exception (outside the claim)
    o = kv(out); bad = []
    if "ORACLE-INVALID" in out:
        return ["%s::leastContributors(front of %d, K=%s) returned the index list [%s]: not K distinct indices into the front"
                % (ind, len(ints(o.get("front", ""))), o.get("K"), o.get("d", ""))]
    if out.rstrip().endswith("EXC"): return ["selection threw: " + out[-60:]]
    sel = [c == "1" for c in o["sel"]]; rk = ints(o["ranks"])
    if len(sel) != n: return ["flags for %d of %d individuals" % (len(sel), n)]
    if sum(sel) != mu: bad.append("%d individuals are marked selected, mu = %d" % (sum(sel), mu))
    want = py_ranks(S)
    if rk != want: bad.append("ranks %s differ from the rank definition %s" % (rk, want))
    for i in range(n):
        for j in range(n):
            if sel[i] and not sel[j] and want[i] > want[j]:
                bad.append("individual %d (rank %d) is kept while individual %d (rank %d) is discarded" % (i, want[i], j, want[j])); break
        else: continue
        break
    if bad: return bad
    if int(o["calls"]) != 1: bad.append("%s leastContributors calls" % o["calls"])
    front = ints(o["front"]); dd = ints(o["d"]); K = int(o["K"])
    if len(dd) != K or len(set(dd)) != len(dd) or any(x < 0 or x >= len(front) for x in dd):
        bad.append("indicator returned %s for K=%d, front size %d" % (dd, K, len(front)))
        return bad
    removed = sorted(front[x] for x in dd)
    if removed != sorted(i for i in range(n) if not sel[i] and rk[i] == (rk[front[0]] if front else 0)):
        bad.append("deselected members of the split front are not the ones the indicator named")
    F = [S[i] for i in front]
    if ind == "H" and useref:
        act = list(range(len(F))); cur = list(F)
        # the code works on the erased vector: indices are recovered through activeIndices
        for x in dd:
            pos = act.index(x); c = contribs(cur, ref)
            if c[pos] != min(c):
                bad.append("HypervolumeIndicator removed front member %d with contribution %s although the least contribution is %s (front %s, ref %s)"
                           % (x, c[pos], min(c), cur, ref)); break
            del act[pos]; del cur[pos]
    if ind == "E":
        act = list(range(len(F))); cur = list(F); wantd = []
        for _ in range(K):
            pos = eps_least(cur); wantd.append(act[pos]); del act[pos]; del cur[pos]
        if wantd != dd: bad.append("AdditiveEpsilonIndicator removed %s, documented rule gives %s" % (dd, wantd))
    return bad

def const_objective(line, out):
    """some objective is constant over front + archive (NSGA-III normalisation divides by its range)"""
    ind, d, n, mu, useref, ref, S = parse_S(line); o = kv(out)
    P = [S[i] for i in ints(o.get("front", "")) + ints(o.get("archive", ""))]
    return bool(P) and any(len(set(p[j] for p in P)) == 1 for j in range(d))

def key_S(label, line, out, msg):
    if label == "F8": return "contribution:no-reference-k-too-large"
    if line.split()[1] == "N" and "ORACLE-INVALID" in out and const_objective(line, out):
        return "indicator:nsga3-constant-objective"
    return "selection:" + re.sub(r"\d+", "N", msg)[:80]

def compare_S(line, out, mout):
    """model vs implementation on the observable fields"""
    a, b = kv(out), kv(mout)
    diffs = [k for k in ("ranks", "sel", "K", "front", "archive") if a.get(k) != b.get(k)]
    if b.get("ovalid") != "1": diffs.append("ovalid")
    if "mown" in b and b["mown"] != a.get("d"): diffs.append("mown")      # the model's own coded indicator (C14Ind.v) vs the list read back
    return diffs

def shrink_S(line, fails):
    ind, d, n, mu, useref, ref, S = parse_S(line)
    changed = True
    while changed and len(S) > 1:
        changed = False
        for i in range(len(S)):
            S2 = S[:i] + S[i + 1:]
            for mu2 in sorted(set([min(mu, len(S2)), max(1, mu - 1)])):
                l2 = mk_S(ind, mu2, useref, ref, S2)
                if fails(l2):
                    S, mu, changed = S2, mu2, True; break
            if changed: break
    return mk_S(ind, mu, useref, ref, S)

def run_S(ck, lines, model, exe, tmpd, label="S"):
    """returns (n_monitor_failures, n_disagreements)"""
    io = run_cases(exe, [[l] for l in lines], os.path.join(tmpd, label + "_impl.txt"))
    outs = []
    for (o, rc, e) in io:
        outs.append(o[0] if rc == 0 and o else "CRASH rc=%s" % rc)
    mlines = [l + " | " + " ".join(kv(o).get("d", "").split(",")) if "ranks=" in o and "ORACLE-INVALID" not in o else l + " |"
              for l, o in zip(lines, outs)]
    rc, mo, err = run_lines(model, mlines, os.path.join(tmpd, label + "_model.txt"))
    if rc != 0 or len(mo) != len(lines): raise RuntimeError("model driver failed: " + err[-1000:])
    mon, dis = [], []
    for i, (l, o, m) in enumerate(zip(lines, outs, mo)):
        msgs = ["implementation crashed (%s)" % o] if o.startswith("CRASH") else monitor_S(l, o)
        if msgs: mon.append((i, msgs))
        elif o.rstrip().endswith("EXC"): pass          # rejected by the library exception (only accepted in the no-reference stream)
        elif compare_S(l, o, m): dis.append(i)
        # cross-check of the Python hypervolume against the Coq spec (contribs_spec extracted)
        if not msgs and " contribs=" in m and kv(o).get("front") == kv(m).get("front"):
            ind, d, n, mu, useref, ref, S = parse_S(l)
            F = [S[k] for k in ints(kv(o)["front"])]
            if F and contribs(F, ref) != ints(kv(m)["contribs"]):
                raise RuntimeError("Python hypervolume monitor disagrees with Coq contribs_spec on %s" % l)
    def one(l2):
        rc, o2, _ = run_lines(exe, [l2], os.path.join(tmpd, "s_impl.txt"))
        o2 = o2[0] if rc == 0 and o2 else "CRASH rc=%s" % rc
        m2 = None
        if "ranks=" in o2:
            dd = "" if "ORACLE-INVALID" in o2 else " ".join(kv(o2).get("d", "").split(","))
            _, mm, _ = run_lines(model, [l2 + " | " + dd], os.path.join(tmpd, "s_model.txt")); m2 = mm[0] if mm else None
        return o2, m2
    seen_keys = set()
    for i, msgs in mon:
        k0 = key_S(label, lines[i], outs[i], msgs[0])
        if k0 in seen_keys or len(seen_keys) >= 3: continue
        seen_keys.add(k0)
        def fails(l2, k0=k0):
            o2, _ = one(l2)
            m2 = ["crash"] if o2.startswith("CRASH") else monitor_S(l2, o2)
            if not m2: return False
            return key_S(label, l2, o2, m2[0]) == k0 if not k0.startswith("selection:") else True
        small = shrink_S(lines[i], fails)
        o2, m2 = one(small)
        m = (["implementation crashed (%s)" % o2] if o2.startswith("CRASH") else monitor_S(small, o2)) or msgs
        cf = ck.write_replay("%s_case_%d.txt" % (label, i), small + "\n")
        key = key_S(label, small, o2, m[0])
        ck.violation(key, {"case_file": cf, "case": small, "implementation_output": o2, "model_output": m2, "monitor": m,
                           "replay_cmd": "python3 tools/c14.py --replay " + cf}, "spec monitor fails on the implementation: " + m[0])
    # indicator-specific findings (stable keys) must not mask a broken correspondence of the selection itself
    if dis and not any(key_S(label, lines[i], outs[i], msgs[0]).startswith("selection:") for i, msgs in mon):
        i = dis[0]
        small = shrink_S(lines[i], lambda l2: (lambda om: om[1] is not None and bool(compare_S(l2, om[0], om[1])))(one(l2)))
        o2, m2 = one(small)
        cf = ck.write_replay("%s_dis_%d.txt" % (label, i), small + "\n")
        ck.violation("correspondence", {"case_file": cf, "case": small, "implementation_output": o2, "model_output": m2,
                                        "differing_fields": compare_S(small, o2, m2), "broken": "correspondence C14Model.indicator_selection vs IndicatorBasedSelection::operator()",
                                        "replay_cmd": "python3 tools/c14.py --replay " + cf},
                     "correspondence model vs IndicatorBasedSelection no longer checks (%d cases differ in %s); the spec monitor passes on every explored input"
                     % (len(dis), compare_S(lines[i], outs[i], mo[i])), no_input=True)
    return len(mon), len(dis), outs

# ------------------------------------------------------------------------------------------------
# stream I: indicators called directly
def fnum(x):
    return ("%d" % x) if float(x) == int(x) else repr(float(x))

def mk_I(ind, d, F, A, K, aux, head):
    return "I %s %d %d %d %d %d %s" % (ind, d, len(F), len(A), K, aux,
                                        " ".join(fnum(x) for x in list(head) + [c for p in F + A for c in p]))

def parse_I(line):
    t = line.split(); ind, d, nF, nA, K, aux = t[1], int(t[2]), int(t[3]), int(t[4]), int(t[5]), int(t[6])
    v = [float(x) for x in t[7:]]; nr = aux * d if ind == "N" else d
    head = v[:nr]; v = v[nr:]
    if ind != "C" and ind != "N": head = [int(x) for x in head]; v = [int(x) for x in v]
    P = [v[i * d:(i + 1) * d] for i in range(nF + nA)]
    return ind, d, P[:nF], P[nF:], K, aux, head

def cd_definition(F, A):
    """crowding distances of the front members by the definition (Deb et al.): per objective the joint set front+archive is
    ordered (stable), the two ends get infinity, every other member adds (next - previous)/(max - min).
    Returns (distances, degenerate) -- degenerate: some objective has range 0 (the quotient is undefined)"""
    n = len(F); P = F + A; d = len(F[0]); inf = float("inf")
    bnd = [False] * n; acc = [0.0] * n; degenerate = False
    for i in range(d):
        order = sorted(range(len(P)), key=lambda j: P[j][i])
        lo, hi = P[order[0]][i], P[order[-1]][i]
        if hi == lo: degenerate = True
        for pos, j in enumerate(order):
            if j >= n: continue
            if pos == 0 or pos == len(order) - 1: bnd[j] = True
            elif not bnd[j] and hi != lo: acc[j] += (P[order[pos + 1]][i] - P[order[pos - 1]][i]) / (hi - lo)
    return [inf if bnd[j] else acc[j] for j in range(n)], degenerate

def mutually_nd(F):
    return not any(dominates(a, b) for a in F for b in F)

def monitor_I(line, out, stats=None):
    ind, d, F, A, K, aux, head = parse_I(line)
    if not out.startswith("lcs="): return ["%s::leastContributors(front of %d, archive of %d, K=%d) raised / produced no list: %s" % (ind, len(F), len(A), K, out[:60])]
    dd = ints(kv(out)["lcs"])
    if len(dd) != K or len(set(dd)) != len(dd) or any(x < 0 or x >= len(F) for x in dd):
        return ["%s::leastContributors(front of %d, K=%d) returned the index list %s: not K distinct indices into the front" % (ind, len(F), K, dd)]
    act = list(range(len(F))); cur = [list(p) for p in F]
    for x in dd:
        pos = act.index(x)
        if ind == "E":
            w = eps_least(cur)
            if w != pos: return ["AdditiveEpsilonIndicator removed front member %d, the documented rule (first minimum of min_j max_k(f_j - f_i)) gives member %d (points %s)" % (x, act[w], cur)]
        elif ind == "H" and aux == 1 and all(all(a <= r for a, r in zip(p, head)) for p in cur) and mutually_nd(cur):
            c = contribs(cur, head)
            if c[pos] != min(c): return ["HypervolumeIndicator removed front member %d with contribution %s although the least contribution is %s (front %s, ref %s)" % (x, c[pos], min(c), cur, head)]
        elif ind == "C" and len(cur) >= 2:
            dist, degen = cd_definition(cur, A)
            if degen:
                if stats is not None: stats["cd_degenerate"] = stats.get("cd_degenerate", 0) + 1
                if stats is not None and dist[pos] == float("inf") and min(dist) < float("inf"):
                    stats.setdefault("cd_degenerate_boundary_removed", []).append(line)
                break                                  # quotient 0/0: outside the definition (NaN in the code; compared with the float model only)
            w = dist.index(min(dist))
            if w != pos: return ["CrowdingDistance removed front member %d (distance %r), the definition gives member %d (distance %r); points %s archive %s" % (x, dist[pos], act[w], dist[w], cur, A)]
        del act[pos]; del cur[pos]
    return []

def gen_I(rng, big, count):
    lines = []
    while len(lines) < count:
        ind = rng.choice(["E", "C", "C", "H", "H", "N", "N"])
        S, ref = gen_pop(rng, big)
        d = len(ref)
        if ind == "N" and d == 4 and rng.random() < 0.7:
            S = [p[:3] for p in S]; ref = ref[:3]; d = 3
        if ind == "H" and d != 2:
            S = [p[:2] for p in S]; ref = ref[:2]; d = 2
        shape = rng.random()
        if shape < 0.7:                       # what the selection hands over: one front, the better fronts as archive
            rk = py_ranks(S); k = rng.randint(1, max(rk))
            F = [p for p, r in zip(S, rk) if r == k]; A = [p for p, r in zip(S, rk) if r < k]
        else:                                 # arbitrary sets
            cut = rng.randint(1, len(S)); F, A = S[:cut], S[cut:]
        if ind == "C":
            q = rng.random()
            if q < 0.3: sc = rng.choice([0.5, 0.25, 0.125, 3.0]); F = [[c * sc for c in p] for p in F]; A = [[c * sc for c in p] for p in A]
            elif q < 0.4 and len(F) > 1: j = rng.randrange(d); F = [p[:j] + [F[0][j]] + p[j + 1:] for p in F]      # constant objective inside the front
            if len(F) + len(A) > 16: A = A[:16 - len(F)]            # std::sort leaves ties in a stable order up to 16 elements
        if ind == "H" and len(F) > 16: F = F[:16]
        if ind == "N":
            q = rng.random()
            if q < 0.25: sc = rng.choice([0.5, 0.25, 3.0]); F = [[c * sc for c in p] for p in F]; A = [[c * sc for c in p] for p in A]
            elif q < 0.45: j = rng.randrange(d); c0 = F[0][j]; F = [p[:j] + [c0] + p[j + 1:] for p in F]; A = [p[:j] + [c0] + p[j + 1:] for p in A]   # objective constant over front and archive (87210a93)
            nZ = rng.randint(1, 6); ticks = rng.randint(1, 4)
            Z = []
            while len(Z) < nZ:
                z = [rng.randint(0, ticks) for _ in range(d)]
                if any(z): Z.append(z)
            if rng.random() < 0.3: Z = [[1 if i == j else 0 for i in range(d)] for j in range(d)]      # the coordinate axes
            for K in (sorted(set([0, 1, len(F), rng.randint(0, len(F))])) if rng.random() < 0.3 else [rng.randint(0, len(F))]):
                lines.append(mk_I("N", d, F, A, K, len(Z), [c for z in Z for c in z]))
            continue
        Ks = sorted(set([0, 1, len(F), rng.randint(0, len(F))])) if rng.random() < 0.3 else [rng.randint(0, len(F))]
        for K in Ks:
            aux = (1 if rng.random() < 0.75 else 0) if ind == "H" else 0
            lines.append(mk_I(ind, d, F, A, K, aux, ref))
    return lines[:count]

def lcs_of(o):
    return kv(o).get("lcs") if o.startswith("lcs=") else o.split()[0] if o.strip() else ""

def shrink_I(line, fails):
    ind, d, F, A, K, aux, head = parse_I(line)
    changed = True
    while changed:
        changed = False
        for which in ("A", "F"):
            L = A if which == "A" else F
            for i in range(len(L)):
                L2 = L[:i] + L[i + 1:]
                F2, A2 = (F, L2) if which == "A" else (L2, A)
                if not F2: continue
                for K2 in sorted(set([min(K, len(F2)), max(0, K - 1)])):
                    l2 = mk_I(ind, d, F2, A2, K2, aux, head)
                    if fails(l2):
                        F, A, K, changed = F2, A2, K2, True; break
                if changed: break
            if changed: break
    return mk_I(ind, d, F, A, K, aux, head)

def run_I(ck, lines, model, exe, tmpd, label="I"):
    """direct indicator calls: implementation and extracted model read the same lines; -> (monitor failures, disagreements, stats)"""
    io = run_cases(exe, [[l] for l in lines], os.path.join(tmpd, label + "_impl.txt"))
    outs = [o[0] if rc == 0 and o else "CRASH rc=%s" % rc for (o, rc, e) in io]
    def mline(l, o):       # NSGA3: the answer of the plane solver is the model's oracle (re-derived by the harness)
        if l.split()[1] != "N": return l
        sv = kv(o).get("solve", "none")
        return l + " | " + " ".join(sv.split(","))
    rc, mo, err = run_lines(model, [mline(l, o) for l, o in zip(lines, outs)], os.path.join(tmpd, label + "_model.txt"))
    if rc != 0 or len(mo) != len(lines): raise RuntimeError("model driver failed: " + err[-1000:])
    stats = {}; mon = []; dis = []
    def differs(o, m):
        return m.startswith("lcs=") and (lcs_of(o) != lcs_of(m) or ("corners" in kv(m) and kv(m)["corners"] != kv(o).get("corners")))
    for k, (l, o, m) in enumerate(zip(lines, outs, mo)):
        msgs = monitor_I(l, o, stats)
        if msgs: mon.append((k, msgs))
        elif differs(o, m): dis.append(k)
        if l.split()[1] == "C" and m.startswith("lcs=") and not msgs:      # cross-check of the monitor against the model's distances
            ind, d, F, A, K, aux, head = parse_I(l)
            if len(F) >= 2:
                dist, degen = cd_definition(F, A)
                md = [float.fromhex(x) if "nan" not in x else float("nan") for x in kv(m)["dist"].split(",")]
                md = [float("inf") if x == sys.float_info.max else x for x in md]
                if not degen and md != dist:
                    raise RuntimeError("Python crowding-distance monitor disagrees with the extracted model on %s: %s vs %s" % (l, dist, md))
    def one(l2):
        rc, o2, _ = run_lines(exe, [l2], os.path.join(tmpd, "i_impl.txt"))
        o2 = o2[0] if rc == 0 and o2 else "CRASH rc=%s" % rc
        _, m2, _ = run_lines(model, [mline(l2, o2)], os.path.join(tmpd, "i_model.txt"))
        return o2, (m2[0] if m2 else "")
    seen = set()
    for k, msgs in mon:
        key = "indicator:%s:%s" % (lines[k].split()[1], re.sub(r"[\d.]+", "N", msgs[0])[:60])
        if key in seen or len(seen) >= 3: continue
        seen.add(key)
        small = shrink_I(lines[k], lambda l2: bool(monitor_I(l2, one(l2)[0])))
        o2, m2 = one(small); m = monitor_I(small, o2) or msgs
        cf = ck.write_replay("%s_case_%d.txt" % (label, k), small + "\n")
        ck.violation(key, {"case_file": cf, "case": small, "implementation_output": o2, "model_output": m2, "monitor": m,
                           "replay_cmd": "python3 tools/c14.py --replay " + cf}, "spec monitor fails on the implementation: " + m[0])
    if dis and not mon:
        k = dis[0]
        small = shrink_I(lines[k], lambda l2: (lambda om: differs(om[0], om[1]))(one(l2)))
        o2, m2 = one(small)
        cf = ck.write_replay("%s_dis_%d.txt" % (label, k), small + "\n")
        ck.violation("correspondence-indicator", {"case_file": cf, "case": small, "implementation_output": o2, "model_output": m2,
                                                  "broken": "correspondence C14Ind (eps_lcs / hv_ind_lcs / cd_lcs) vs the indicator classes",
                                                  "replay_cmd": "python3 tools/c14.py --replay " + cf},
                     "correspondence indicator models vs %s::leastContributors no longer checks (%d cases differ, e.g. `%s`: implementation %s, model %s); the spec monitor passes on every explored input"
                     % (small.split()[1], len(dis), small, lcs_of(o2), lcs_of(m2)), no_input=True)
    stats["modelled"] = sum(1 for m in mo if m.startswith("lcs="))
    return len(mon), len(dis), stats

# ------------------------------------------------------------------------------------------------
# stream V: variation and mating-selection operators
def hx(x):
    return float(x).hex()

def unhex(t):
    return float("nan") if t == "nan" else float.fromhex(t)

def dyadic(rng, bits=53):
    return rng.getrandbits(bits) / float(1 << bits)

def gen_box(rng, n):
    lo, hi, = [], []
    for _ in range(n):
        a = rng.choice([0.0, -1.0, 0.5, -3.25, 2.0]); w = rng.choice([1.0, 2.0, 0.5, 4.75, 0.0, 1e-8])
        lo.append(a); hi.append(a + w)
    return lo, hi

def gen_point(rng, lo, hi, outside=False):
    p = []
    for a, b in zip(lo, hi):
        q = rng.random()
        if outside and q < 0.3: p.append(rng.choice([a - 0.5, b + 0.25]))
        elif q < 0.15: p.append(a)
        elif q < 0.3: p.append(b)
        else: p.append(a + (b - a) * rng.choice([0.25, 0.5, 0.75, dyadic(rng, 20)]))
    return p

def gen_V(rng, big, count, exe, tmpd):
    specs = []
    for _ in range(count):
        kind = rng.choice(["X", "X", "M", "M", "T", "L"])
        if kind in ("X", "M"):
            n = rng.randint(1, 4); lo, hi = gen_box(rng, n)
            outside = rng.random() < 0.1
            prob = rng.choice([1.0, 1.0, 0.5, 1.0 / n, 0.0]); eta = rng.choice([20.0, 25.0, 2.0, 0.5])
            if kind == "X":
                p1 = gen_point(rng, lo, hi, outside); p2 = gen_point(rng, lo, hi, outside)
                q = rng.random()
                if q < 0.15: p2 = list(p1)                                           # equal parents
                elif q < 0.3: p2 = [x + 2.0 ** -25 for x in p1]                      # |y2 - y1| < 1e-7
                us = [rng.choice([dyadic(rng), dyadic(rng), dyadic(rng, 3), 0.0, 0.5, 1.0 - 2.0 ** -53]) for _ in range(3 * n)]
                specs.append(("X", "X %d %s %s %s" % (n, hx(prob), hx(eta), " ".join(hx(x) for x in lo + hi + p1 + p2)), us, None))
            else:
                p = gen_point(rng, lo, hi, outside); seed = rng.randint(1, 10 ** 6)
                specs.append(("M", "M %d %s %s %d %s" % (n, hx(prob), hx(eta), seed, " ".join(hx(x) for x in lo + hi + p)), None, "R %d %d" % (seed, 2 * n)))
        elif kind == "T":
            n = rng.randint(3, 12); k = rng.choice([2, 2, 2, 1, 3, 5]); k = min(k, n - 1); seed = rng.randint(1, 10 ** 6)
            ranks = [rng.randint(1, rng.choice([1, 2, 4])) for _ in range(n)]
            specs.append(("T", "T %d %d %d %s" % (n, k, seed, " ".join(map(str, ranks))), None, "D %d %d %d" % (seed, n, k)))
        else:
            n = rng.randint(1, 14); mu = rng.randint(0, n); ranks = [rng.randint(1, rng.choice([1, 2, 5])) for _ in range(n)]
            specs.append(("L", "L %d %d %s" % (n, mu, " ".join(map(str, ranks))), None, None))
    pre = [sp[3] for sp in specs if sp[3]]
    rc, po, err = run_lines(exe, pre, os.path.join(tmpd, "V_pre.txt"))
    if rc != 0 or len(po) != len(pre): raise RuntimeError("variation harness failed in the draw pass: " + err[-500:])
    it = iter(po); lines = []
    for kind, head, us, prel in specs:
        if prel:
            o = next(it); vals = o.split("=", 1)[1].split(",")
            lines.append(head + " | " + " ".join(vals))
        elif us is not None: lines.append(head + " | " + " ".join(hx(u) for u in us))
        else: lines.append(head)
    return lines

def parse_V(line):
    left, _, right = line.partition("|"); t = left.split(); r = right.split()
    return t, r

def monitor_V(line, out):
    t, r = parse_V(line); kind = t[0]; o = kv(out)
    if out in ("EXC", "STDEXC", "BAD") or out.startswith("CRASH"): return ["operator raised: " + out]
    if kind in ("X", "M"):
        n = int(t[1]); v = [unhex(x) for x in t[(4 if kind == "X" else 5):]]
        lo, hi = v[:n], v[n:2 * n]; parents = [v[2 * n:3 * n]] + ([v[3 * n:4 * n]] if kind == "X" else [])
        kids = [[unhex(x) for x in o[k].split(",")] for k in (("c1", "c2") if kind == "X" else ("c",))]
        if kind == "M" and o.get("drawsok") != "1": return ["harness: listed draws are not the generator's stream"]
        inside = all(a <= x <= b for p in parents for x, a, b in zip(p, lo, hi))
        name = "SimulatedBinaryCrossover" if kind == "X" else "PolynomialMutator"
        for c in kids:
            if len(c) != n: return ["%s: child has %d coordinates" % (name, len(c))]
        # independent of the model: parents inside the box => every child coordinate the C++ prints is a FINITE number in [lower, upper]
        if inside:
            for ci, c in enumerate(kids):
                for j, (x, a, b) in enumerate(zip(c, lo, hi)):
                    if not (math.isfinite(x) and a <= x <= b):
                        return ["%s: parents inside the box, child %d coordinate %d = %r is %s [%r, %r]%s" % (
                            name, ci + 1, j, x, "not a finite number in" if not math.isfinite(x) else "outside", a, b,
                            " (degenerate coordinate lower = upper)" if a == b else "")]
        if float(unhex(t[2])) == 0.0 and kids != parents: return ["%s with probability 0 changed the point" % name]
        return []
    if kind == "T":
        n, k = int(t[1]), int(t[2]); ranks = list(map(int, t[4:])); drawn = [int(float(x)) for x in r]
        if o.get("drawsok") != "1": return ["harness: listed indices are not the generator's stream"]
        idx = int(o["idx"])
        if idx not in drawn: return ["TournamentSelection returned individual %d, drawn were %s" % (idx, drawn)]
        best = min(ranks[d] for d in drawn)
        if ranks[idx] != best: return ["TournamentSelection returned individual %d of rank %d although individual of rank %d was drawn (%s)" % (idx, ranks[idx], best, drawn)]
        if idx != next(d for d in drawn if ranks[d] == best): return ["TournamentSelection: winner %d is not the first drawn individual of least rank (%s, ranks %s)" % (idx, drawn, ranks)]
        return []
    if kind == "L":
        n, mu = int(t[1]), int(t[2]); ranks = list(map(int, t[3:])); sel = [c == "1" for c in o["sel"]]
        if len(sel) != n or sum(sel) != mu: return ["ElitistSelection marked %d of %d individuals, mu = %d" % (sum(sel), n, mu)]
        if any(sel[i] and not sel[j] and ranks[i] > ranks[j] for i in range(n) for j in range(n)): return ["ElitistSelection keeps a worse-ranked individual and drops a better one (ranks %s, flags %s)" % (ranks, o["sel"])]
        if o["out"] != "-":
            out = ints(o["out"])
            if len(out) != mu or len(set(out)) != mu or sorted(ranks[i] for i in out) != sorted(ranks)[:mu] or [ranks[i] for i in out] != sorted(ranks[i] for i in out):
                return ["ElitistSelection (range overload) copied %s, ranks %s" % (out, ranks)]
        return []
    return ["unknown case kind"]

def box_of(line):
    t, _ = parse_V(line); n = int(t[1]); v = [unhex(x) for x in t[(4 if t[0] == "X" else 5):]]
    return v[:n], v[n:2 * n]

def cmp_V(o, m):
    a, b = kv(o), kv(m)
    return all(a.get(k) == v for k, v in b.items())

def run_V(ck, lines, model, exe, tmpd):
    io = run_cases(exe, [[l] for l in lines], os.path.join(tmpd, "V_impl.txt"))
    outs = [o[0] if rc == 0 and o else "CRASH rc=%s" % rc for (o, rc, e) in io]
    rc, mo, err = run_lines(model, lines, os.path.join(tmpd, "V_model.txt"))
    if rc != 0 or len(mo) != len(lines): raise RuntimeError("model driver failed: " + err[-1000:])
    mon = []; dis = []; degen = [l for l in lines if l[:2] in ("M ", "X ") and any(a == b for a, b in zip(*box_of(l)))]
    for k, (l, o, m) in enumerate(zip(lines, outs, mo)):
        msgs = monitor_V(l, o)
        if msgs: mon.append((k, msgs))
        elif not cmp_V(o, m): dis.append(k)
    seen = set()
    for k, msgs in mon:
        key = "variation:%s:%s" % (lines[k].split()[0], re.sub(r"[-\d.xa-fp+]+", "N", msgs[0])[:60])
        if "parents inside the box, child" in msgs[0]:
            op = "polynomial-mutation" if lines[k].startswith("M ") else "sbx"
            key = "variation:%s-%s" % (op, "degenerate-box-nan" if "degenerate coordinate" in msgs[0] else ("child-nan" if "not a finite" in msgs[0] else "child-outside-box"))
        if key in seen or len(seen) >= 3: continue
        seen.add(key)
        cf = ck.write_replay("V_case_%d.txt" % k, lines[k] + "\n")
        ck.violation(key, {"case_file": cf, "case": lines[k], "implementation_output": outs[k], "model_output": mo[k], "monitor": msgs,
                           "replay_cmd": "python3 tools/c14.py --replay " + cf}, "spec monitor fails on the implementation: " + msgs[0])
    if dis and not mon:
        k = dis[0]
        cf = ck.write_replay("V_dis_%d.txt" % k, lines[k] + "\n")
        ck.violation("correspondence-variation", {"case_file": cf, "case": lines[k], "implementation_output": outs[k], "model_output": mo[k],
                                                  "broken": "correspondence C14Var (sbx / pm / tournament / elitist) vs the operator classes",
                                                  "replay_cmd": "python3 tools/c14.py --replay " + cf},
                     "correspondence variation-operator models vs the C++ operators no longer checks (%d cases differ, e.g. `%s`: implementation `%s`, model `%s`); the spec monitor passes on every explored input"
                     % (len(dis), lines[k], outs[k], mo[k]), no_input=True)
    return len(mon), len(dis), degen

# ------------------------------------------------------------------------------------------------
# stream U: updatePopulation next to gen_update / ss_update
def gen_U(rng, big, count):
    lines = []
    while len(lines) < count:
        alg = rng.choice(["N2", "N2", "N2", "MO", "S", "SM"])
        ind = rng.choice(["H", "E", "C"]) if alg == "N2" else "H"
        S, ref = gen_pop(rng, big)
        if ind == "H": S = [p[:2] for p in S]; ref = ref[:2]
        d = len(ref); n = len(S)
        if alg in ("S", "SM"):
            if n < 2: continue
            mu, lam = n - 1, 1
        elif alg == "MO":
            if n < 2: continue
            mu = n // 2; lam = mu; S = S[:2 * mu]
        else:
            mu = rng.randint(1, n); lam = n - mu
        lines.append("U %s %s %d %d %d %d %s %s" % (alg, ind, d, mu, lam, 1 if ind == "H" else 0, " ".join(map(str, ref)),
                                                   " ".join(str(x) for p in S for x in p)))
    return lines

def monitor_U(line, out):
    t = line.split(); alg, ind, d, mu, lam = t[1], t[2], int(t[3]), int(t[4]), int(t[5])
    v = list(map(int, t[7 + d:])); S = [v[i * d:(i + 1) * d] for i in range(mu + lam)]
    if not out.startswith("pop="): return ["%s::updatePopulation raised: %s" % (alg, out[:80])]
    o = kv(out); pop = ints(o["pop"])
    if len(pop) != mu: return ["%s::updatePopulation left %d individuals, mu = %d" % (alg, len(pop), mu)]
    if len(set(pop)) != mu or any(k < 0 or k >= mu + lam for k in pop): return ["%s::updatePopulation: population %s is not a set of parents/offspring" % (alg, pop)]
    rk = py_ranks(S)
    for a in pop:
        for b in range(mu + lam):
            if b not in pop and rk[a] > rk[b]: return ["%s::updatePopulation keeps individual %d (rank %d) and discards individual %d (rank %d)" % (alg, a, rk[a], b, rk[b])]
    best = [e.split(":") for e in o["best"].split(";")] if o["best"] else []
    if sorted(int(k) for k, _ in best) != pop: return ["%s: solution() holds the points %s, the population is %s" % (alg, [int(k) for k, _ in best], pop)]
    for k, val in best:
        k = int(k); want = [x + (100 if k >= mu else 0) for x in S[k]]
        if [float(x) for x in val.split(",")] != [float(x) for x in want]:
            return ["%s: solution() reports the value %s for individual %d, its unpenalized fitness is %s (penalized %s)" % (alg, val, k, want, S[k])]
    return []

def cmp_U(line, o, m):
    a, b = kv(o), kv(m); t = line.split()
    if t[1] == "SM":          # SteadyStateMOCMA re-orders its parents (sortRankOneToFront): duplicates may swap roles; compare fitness vectors
        d = int(t[3]); v = list(map(int, t[7 + d:])); S = [v[i * d:(i + 1) * d] for i in range(int(t[4]) + int(t[5]))]
        fit = lambda x: sorted((S[k], k >= int(t[4])) for k in ints(x["pop"]))
        return fit(a) == fit(b)
    keys = ["pop", "best"] + (["order"] if t[1] == "S" else [])
    return all(a.get(k) == b.get(k) for k in keys)

def run_U(ck, lines, model, exe, tmpd):
    io = run_cases(exe, [[l] for l in lines], os.path.join(tmpd, "U_impl.txt"))
    outs = [o[0] if rc == 0 and o else "CRASH rc=%s" % rc for (o, rc, e) in io]
    rc, mo, err = run_lines(model, lines, os.path.join(tmpd, "U_model.txt"))
    if rc != 0 or len(mo) != len(lines): raise RuntimeError("model driver failed: " + err[-1000:])
    mon = []; dis = []
    for k, (l, o, m) in enumerate(zip(lines, outs, mo)):
        msgs = monitor_U(l, o)
        if msgs: mon.append((k, msgs))
        elif not cmp_U(l, o, m): dis.append(k)
    seen = set()
    for k, msgs in mon:
        key = "loop:%s:%s" % (lines[k].split()[1], re.sub(r"\d+", "N", msgs[0])[:60])
        if key in seen or len(seen) >= 3: continue
        seen.add(key)
        cf = ck.write_replay("U_case_%d.txt" % k, lines[k] + "\n")
        ck.violation(key, {"case_file": cf, "case": lines[k], "implementation_output": outs[k], "model_output": mo[k], "monitor": msgs,
                           "replay_cmd": "python3 tools/c14.py --replay " + cf}, "spec monitor fails on the implementation: " + msgs[0])
    if dis and not mon:
        k = dis[0]
        cf = ck.write_replay("U_dis_%d.txt" % k, lines[k] + "\n")
        ck.violation("correspondence-loop", {"case_file": cf, "case": lines[k], "implementation_output": outs[k], "model_output": mo[k],
                                             "broken": "correspondence C14Loop.gen_update / ss_update vs updatePopulation",
                                             "replay_cmd": "python3 tools/c14.py --replay " + cf},
                     "correspondence loop model vs updatePopulation no longer checks (%d cases differ, e.g. `%s`: implementation `%s`, model `%s`); the spec monitor passes on every explored input"
                     % (len(dis), lines[k], outs[k], mo[k]), no_input=True)
    return len(mon), len(dis)

# ------------------------------------------------------------------------------------------------
# stream P
def gen_P(rng, count):
    out = []
    for _ in range(count):
        d = rng.randint(1, 4); lo = rng.randint(-3, 1); hi = lo + rng.randint(0, 4)
        s = [rng.randint(lo - 3, hi + 3) if rng.random() < 0.6 else rng.randint(lo, hi) for _ in range(d)]
        out.append("P %d %d %d %d %d %s" % (d, lo, hi, rng.choice([0, 1, 3, 1000]), rng.choice([1, 1, 2, 5]), " ".join(map(str, s))))
    return out

def monitor_P(line, out):
    t = line.split(); d, lo, hi, alpha, m = map(int, t[1:6]); s = list(map(int, t[6:]))
    if "unp=" not in out: return ["no output: " + out]
    o = kv(out); c = [min(max(x, lo), hi) for x in s]
    f = [sum(x * x for x in c), sum((x - 2) ** 2 for x in c)]
    pen = [v + alpha * sum((a - b) ** 2 for a, b in zip(c, s)) for v in f]
    got_u = [float(x) for x in o["unp"].split(",")]; got_p = [float(x) for x in o["pen"].split(",")]
    bad = []
    if got_u != [float(x) for x in f]: bad.append("unpenalized fitness %s, objective at the closest feasible point %s is %s" % (got_u, c, f))
    if got_p != [float(x) for x in pen]: bad.append("penalized fitness %s, expected %s" % (got_p, pen))
    if "POINT-CHANGED" in out: bad.append("search point was modified")
    return bad

# ------------------------------------------------------------------------------------------------
# stream O
def f_zdt(kind, x):
    n = len(x); g = 1.0 + 9.0 * (sum(x) - x[0]) / (n - 1.0)
    if kind == "ZDT1": return [x[0], g * (1.0 - math.sqrt(x[0] / g))]
    if kind == "ZDT2": return [x[0], g * (1.0 - (x[0] / g) ** 2)]
    return None

def f_dtlz2(x, m):
    n = len(x); k = n - m + 1; g = sum((x[i] - 0.5) ** 2 for i in range(n - k, n)); v = []
    for i in range(m):
        f = 1.0 + g
        for j in range(m - i - 1): f *= math.cos(x[j] * math.pi / 2.0)
        if i > 0: f *= math.sin(x[m - i - 1] * math.pi / 2.0)
        v.append(f)
    return v

REFVAL = {"ZDT1": 12, "ZDT2": 12, "ZDT3": 12, "ZDT6": 12, "DTLZ1": 1000, "DTLZ2": 6, "DTLZ4": 6, "DTLZ7": 60}

# two kinds per function: a reference only the early population exceeds, and one that CUTS the Pareto front (the extreme points of
# the converged front stay beyond it for ever)
TIGHTREF = {"ZDT1": [2, 0.75], "ZDT2": [2, 0.75], "ZDT3": [2, 0.75], "ZDT6": [3, 0.75], "DTLZ1": [100, 0.375], "DTLZ2": [2, 0.875], "DTLZ4": [2, 0.875], "DTLZ7": [12, 12]}

def gen_O(rng, big):
    cases = []
    algs = ["MOCMA", "SSMOCMA", "SMSEMOA", "NSGA2", "NSGA2C", "NSGA2E", "NSGA3", "MOEAD", "RVEA"]
    fns2 = ["ZDT1", "ZDT2", "ZDT3", "ZDT6", "DTLZ2", "DTLZ1"]; fns3 = ["DTLZ2", "DTLZ1", "DTLZ4", "DTLZ7"]
    reps = 6 if big else 2
    for alg in algs:
        for _ in range(reps):
            for nobj in (2, 3):
                fn = rng.choice(fns2 if nobj == 2 else fns3)
                nvar = rng.randint(nobj + 1, 8)
                mu = rng.choice([3, 4, 5, 8, 12, 20] if alg not in ("MOEAD", "RVEA", "NSGA3") else [4, 6, 10, 15, 21])
                if alg in ("MOCMA", "SSMOCMA") and rng.random() < 0.3: mu = rng.choice([1, 2])     # no tournament there
                steady = alg in STEADY_HV or alg == "MOEAD"
                steps = rng.choice([30, 80, 200] if steady else [3, 8, 15]) * (2 if big else 1)
                seed = rng.randint(1, 10 ** 6)
                useref = 1 if alg in ("SSMOCMA", "SMSEMOA", "MOCMA", "NSGA2") else 0
                cases.append("O %s %s %d %d %d %d %d %d %d" % (alg, fn, nobj, nvar, mu, seed, steps, useref, REFVAL[fn]))
    # TIGHT reference points: part of the population lies beyond the reference point (legal and common: such points dominate no volume).
    # SMS-EMOA only (bounded operators, no penalty term): the hypervolume w.r.t. the fixed reference must still never decrease
    trng = random.Random(rng.randint(1, 10 ** 9))
    for _ in range(12 if big else 5):
        for nobj in (2, 3):
            fn = trng.choice(fns2 if nobj == 2 else fns3); nvar = trng.randint(nobj + 1, 5); mu = trng.choice([4, 5, 8, 12])
            cut = trng.random() < 0.7
            cases.append("O SMSEMOA %s %d %d %d %d %d 1 %r" % (fn, nobj, nvar, mu, trng.randint(1, 10 ** 6), trng.choice([300, 600, 1000] if cut else [80, 200]), TIGHTREF[fn][1 if cut else 0]))
    return cases

def parse_O(text):
    """-> list of (caseline, header dict, generations[(t, n, [(x, v, w, feas)], pen or None)], status)"""
    res = []; cur = None
    for l in text.split("\n"):
        if l.startswith("CASE "):
            m = re.match(r"CASE ([OKN] .*?) mu=(\d+) lo=(\S+) hi=(\S+)$", l)
            if m: cur = [m.group(1), {"mu": int(m.group(2)), "lo": [float(x) for x in m.group(3).split(",")], "hi": [float(x) for x in m.group(4).split(",")]}, [], "RUNNING"]
            else: cur = [l[5:], {}, [], "RUNNING"]
            res.append(cur)
        elif l.startswith("G ") and cur is not None:
            body, _, pen = l.partition(" P ;")
            parts = body.split(" ; "); hd = parts[0].split()
            els = []
            for e in parts[1:]:
                x, v, w, fe = [z.strip() for z in e.split(" : ")]
                els.append(([float(a) for a in x.split(",")], [float(a) for a in v.split(",")], [float(a) for a in w.split(",")], fe == "1"))
            pp = [[float(a) for a in z.strip().split(",")] for z in pen.split(" ; ")] if pen else None
            cur[2].append((int(hd[1]), int(hd[2][2:]), els, pp))
        elif (l.startswith("PTS ") or l.startswith("I ")) and cur is not None:
            parts = l.split(" ; "); els = []
            for e in parts[1:]:
                z = [y.strip() for y in e.split(" : ")]
                if l.startswith("PTS "): els.append(([float(a) for a in z[0].split(",")], [float(a) for a in z[1].split(",")], z[2] == "1"))
                else: els.append(([float(a) for a in z[0].split(",")], [float(a) for a in z[1].split(",")], [float(a) for a in z[2].split(",")], int(z[3])))
            cur[1]["pts" if l.startswith("PTS ") else "parents"] = els
        elif l.startswith("D") and (l == "D" or l.startswith("D ")) and cur is not None: cur[1]["draws"] = [int(a) for a in l.split()[1:]]
        elif l.startswith("RESTORE") and cur is not None: cur[2].append("RESTORE")
        elif l.startswith("END") and cur is not None: cur[3] = "END"
        elif (l.startswith("EXC") or l.startswith("STDEXC")) and cur is not None: cur[3] = l
    return res

def monitor_O(case, hdr, gens, status):
    """-> (violations[str], notes dict)"""
    t = case.split(); alg, fn, nobj, nvar, mu, seed, steps, useref, refval = t[1], t[2], int(t[3]), int(t[4]), int(t[5]), int(t[6]), int(t[7]), int(t[8]), float(t[9])
    bad = []; notes = {"hv_decrease_noref": 0}
    if status != "END":
        if not useref and "Without reference point the extreme points are not candidates" in status:
            notes["noref_rejected"] = 1; return [], notes      # default configuration, outside the claim (F8 after its fix)
        return ["optimizer run did not finish: " + status], notes
    if len(gens) != steps + 1: return ["%d generations reported, %d expected" % (len(gens), steps + 1)], notes
    lo, hi = hdr["lo"], hdr["hi"]; ref = [refval] * nobj
    prev_hv = prev_hp = None; prev_outside = False
    for (g, n, els, pen) in gens:
        if n != hdr["mu"] or len(els) != n:
            bad.append("generation %d: solution set has %d elements, configured size %d" % (g, n, hdr["mu"])); break
        for k, (x, v, w, feas) in enumerate(els):
            inside = all(l <= a <= h for a, l, h in zip(x, lo, hi))
            if inside != feas: bad.append("generation %d element %d: isFeasible=%s but box test=%s" % (g, k, feas, inside))
            if v != w:
                bad.append("generation %d element %d: reported value %s differs from the objective at the %s point %s" % (g, k, v, "reported" if inside else "closest feasible", w))
            c = [min(max(a, l), h) for a, l, h in zip(x, lo, hi)]
            pv = f_zdt(fn, c) if fn in ("ZDT1", "ZDT2") else (f_dtlz2(c, nobj) if fn == "DTLZ2" else None)
            if pv is not None and any(abs(a - b) > 1e-9 * max(1.0, abs(b)) for a, b in zip(v, pv)):
                bad.append("generation %d element %d: reported value %s, independent evaluation of %s at the closest feasible point gives %s" % (g, k, v, fn, pv))
            if alg in BOUNDED and not inside:
                bad.append("generation %d element %d: point %s outside the box" % (g, k, x))
            if bad: break
        if bad: break
        if alg in STEADY_HV:
            vals = [e[1] for e in els]
            if any(a >= r for p in vals + (pen or []) for a, r in zip(p, ref)):
                notes["ref_not_dominated"] = True
                if alg != "SMSEMOA": continue
                # points that do not strictly dominate the reference point dominate no volume: they are left out of the measure
                vals = [p for p in vals if all(a < r for a, r in zip(p, ref))]
                pen = [p for p in pen if all(a < r for a, r in zip(p, ref))] if pen else pen
                notes["tight_reference_generations"] = notes.get("tight_reference_generations", 0) + 1
            h = hv(vals, ref) if vals else 0.0; hp = (hv(pen, ref) if pen else 0.0) if pen is not None else None
            if prev_hv is not None:
                if useref:
                    if hp is not None and prev_hp is not None and hp < prev_hp - 1e-12 * abs(prev_hp):
                        bad.append("generation %d: hypervolume of the population (penalized fitness, reference %s = indicator reference) decreased %.17g -> %.17g" % (g, ref, prev_hp, hp)); break
                    if h < prev_hv - 1e-12 * abs(prev_hv):
                        outside = any(not e[3] for e in els) or prev_outside
                        bad.append("generation %d: hypervolume of the %s (reference %s = indicator reference) decreased %.17g -> %.17g%s" % (
                            g, "REPORTED unpenalized values" if outside else "solution set", ref, prev_hv, h,
                            " while the hypervolume of the penalized fitness the selection works on grew %.17g -> %.17g (individuals outside the box carry the penalty 1e-6*|x-x'|^2)" % (prev_hp, hp) if outside and hp is not None else "")); break
                elif h < prev_hv - 1e-12 * abs(prev_hv): notes["hv_decrease_noref"] += 1
            prev_hv, prev_hp = h, hp
            prev_outside = any(not e[3] for e in els)
    return bad, notes

def run_O(ck, cases, exe, tmpd, label="O"):
    results = []
    for chunk_start in range(0, len(cases), 8):
        chunk = cases[chunk_start:chunk_start + 8]
        fn = os.path.join(tmpd, "%s_in_%d.txt" % (label, chunk_start))
        open(fn, "w").write("\n".join(chunk) + "\n")
        rc, out, err = sh([exe, fn], timeout=900, env={"OMP_NUM_THREADS": "2"})
        parsed = parse_O(out)
        for i, c in enumerate(chunk):
            if i < len(parsed) and parsed[i][0] == c: results.append(parsed[i])
            else: results.append([c, {}, [], "CRASH rc=%s %s" % (rc, err[-200:].strip())])
        if rc != 0 and len(parsed) < len(chunk):   # re-run the cases after the crashing one individually
            for j in range(len(parsed), len(chunk)):
                open(fn, "w").write(chunk[j] + "\n")
                rc2, out2, err2 = sh([exe, fn], timeout=900, env={"OMP_NUM_THREADS": "2"})
                p2 = parse_O(out2)
                results[chunk_start + j] = p2[0] if p2 and rc2 == 0 else [chunk[j], {}, [], "CRASH rc=%s %s" % (rc2, err2[-200:].strip())]
    return results

# ------------------------------------------------------------------------------------------------
# stream N: initialisation with caller-supplied starting points
N_ALGS = ["MOCMA", "SSMOCMA", "SMSEMOA", "NSGA2", "NSGA2C", "NSGA2E", "NSGA3", "MOEAD", "RVEA"]
N_REGIMES = ["plain", "fewer-than-mu", "exactly-mu", "more-than-mu"]

def rvea_mu(nobj, approx):
    """RVEA::suggestMu: number of lattice points for the smallest number of ticks giving at least approx points"""
    if nobj == 2: return approx
    t = 0
    while math.comb(nobj - 1 + t, t) < approx: t += 1
    return math.comb(nobj - 1 + t, t)

def n_points(rng, n, nvar, distinct=None, outside=False):
    """n starting points in [0,1]^nvar; distinct points differ in their first coordinate id/128 (the id of the point)"""
    k = n if distinct is None else max(1, min(distinct, n))
    ids = rng.sample(range(1, 128), k)
    base = [[i / 128.0] + [rng.randint(0, 16) / 16.0 for _ in range(nvar - 1)] for i in ids]
    pts = [list(b) for b in base] + [list(rng.choice(base)) for _ in range(n - k)]
    if k < n: rng.shuffle(pts)
    if outside:
        j = rng.randrange(n); q = list(pts[j]); q[rng.randrange(nvar)] = rng.choice([1.25, -0.5, 1.0 + 2.0 ** -20]); pts[j] = q
    return pts

def gen_N(rng, big):
    cases = []
    fns2 = ["ZDT1", "ZDT2", "ZDT3", "ZDT6", "DTLZ2", "DTLZ1"]; fns3 = ["DTLZ2", "DTLZ1", "DTLZ4", "DTLZ7"]
    for alg in N_ALGS:
        for rep in range(4 if big else 2):
            nobj = 2 + rep % 2; fn = rng.choice(fns2 if nobj == 2 else fns3); nvar = rng.randint(nobj + 1, 6)
            mu = rng.choice([4, 5, 6, 7, 9] if alg not in ("MOEAD", "RVEA", "NSGA3") else [4, 6, 10]) + (rng.choice([0, 6, 11]) if big else 0)
            eff = rvea_mu(nobj, mu) if alg == "RVEA" else mu
            steps = 10 if (alg in STEADY_HV or alg == "MOEAD") else 3
            useref = 1 if alg in ("SSMOCMA", "SMSEMOA", "MOCMA", "NSGA2") else 0
            lists = [[]]                                                                  # plain init(function)
            for n in sorted(set([1, 2, eff - 1, eff, eff + 1, 2 * eff, 3 * eff + 1])):
                if n >= 1: lists.append(n_points(rng, n, nvar))
            lists.append(n_points(rng, 2, nvar, distinct=1))                              # duplicates: one point twice
            lists.append(n_points(rng, eff, nvar, distinct=max(1, eff // 2)))              # mu points, half of them distinct
            lists.append(n_points(rng, eff + 1, nvar, distinct=1))                        # more than mu copies of one point
            lists.append(n_points(rng, 2 * eff, nvar, distinct=eff - 1))                   # more than mu points, fewer than mu distinct
            lists.append(n_points(rng, 3 * eff + 1, nvar, distinct=2 * eff))               # more than mu points, >= mu distinct, with duplicates
            for n in (1, eff, eff + 2): lists.append(n_points(rng, n, nvar, outside=True)) # a point outside the box
            for pts in lists:
                cases.append("N %s %s %d %d %d %d %d %d %d %d%s" % (alg, fn, nobj, nvar, mu, rng.randint(1, 10 ** 6), steps, useref, REFVAL[fn], len(pts),
                                                                    "".join(" " + repr(c) for p in pts for c in p)))
    return cases

def n_supplied(case):
    t = case.split(); nvar = int(t[4]); n = int(t[10]); v = [float(x) for x in t[11:]]
    return [v[i * nvar:(i + 1) * nvar] for i in range(n)]

def n_shape(case, hdr):
    """shape of the starting list as the optimizer sees it (from the points themselves, not from the generator's intention)"""
    n = int(case.split()[10]); pts = hdr.get("pts") or []; mu = hdr.get("mu", 0)
    shape = "plain" if n == 0 else ("fewer-than-mu" if n < mu else "exactly-mu" if n == mu else "more-than-mu")
    if n and len(set(tuple(p[0]) for p in pts)) < len(pts): shape += "+duplicates"
    if any(not p[2] for p in pts): shape += "+outside-box"
    return shape

# the tie of stream N: C14Init.v next to init(function, startingPoints)
def ss_sort_py(l, flag):
    """sortRankOneToFront, statement by statement (independent of the Coq model)"""
    l = list(l)
    if not l: return l
    start, end = 0, len(l) - 1
    while start != end:
        if flag(l[start]): start += 1
        elif not flag(l[end]): end -= 1
        else: l[start], l[end] = l[end], l[start]
    return l

def ss_unsort(post, flag, P, np_):
    """an arrangement `pre` of the reported SteadyStateMOCMA population with pre[:np_] = P[:np_] that sortRankOneToFront turns into
    the reported one (None if there is none).  The sort swaps the i-th misplaced non-rank-1 individual from the left with the i-th
    misplaced rank-1 individual from the right; the left ones inside the fixed prefix are known, their partners are searched from
    the right.  The result is verified by running the sort."""
    n = len(post); r = sum(1 for x in post if flag(x))
    if any(not flag(x) for x in post[:r]): return None
    L = [j for j in range(min(np_, r)) if not flag(P[j])]
    Rp = [j for j in range(r, np_) if flag(P[j])]
    b = len(L) - len(Rp)
    if b < 0: return None
    R = []; hi = n
    for i in range(b):
        cand = [pos for pos in range(max(np_, r), hi) if post[pos] == P[L[i]]]
        if not cand: return None
        R.append(cand[-1]); hi = cand[-1]
    R += Rp[::-1]
    pre = list(post)
    for a, c in zip(L, R): pre[a], pre[c] = pre[c], pre[a]
    if pre[:np_] != list(P[:np_]) or ss_sort_py(pre, flag) != list(post): return None
    return pre

def ftok(v):
    return ",".join(repr(float(a)) for a in v)

def n_model_line(case, hdr):
    """-> (model case line or None, note).  The random indices: the harness replays the generator (D line); if the parents the
    model's statements build from these indices are the reported ones, they are the oracle.  Otherwise the indices are recovered from
    the reported parents alone (slot i >= numPoints holds the starting point with index oracle[i - numPoints]; first index of an
    equal point) and the note says that the population does not belong to the generator's stream."""
    t = case.split(); alg = t[1]; pts = hdr["pts"]; par = hdr["parents"]; mu = hdr["mu"]
    P = [tuple(x) for x, w, feas in pts]; n = len(P); np_ = n if n <= mu else 0
    post = [tuple(x) for (x, pen, unp, rank) in par]
    flags = {}
    for (x, pen, unp, rank) in par:
        if flags.setdefault(tuple(x), rank == 1) != (rank == 1): return None, "equal individuals carry different ranks"
    flag = lambda x: flags.get(x, False)
    D = hdr.get("draws"); oracle = None; note = None
    if D is not None and len(D) == mu - np_ and all(0 <= d < n for d in D):
        pre = list(P[:np_]) + [P[d] for d in D]
        if (ss_sort_py(pre, flag) if alg == "SSMOCMA" else pre) == post: oracle = D
    if oracle is None:
        note = "draws"
        pre = ss_unsort(post, flag, P, np_) if alg == "SSMOCMA" else post
        if pre is None: return None, "no arrangement of the reported parents starts with the %d starting points and is turned into the reported order by sortRankOneToFront" % np_
        first = {}
        for i, x in enumerate(P): first.setdefault(x, i)
        if any(x not in first for x in pre[np_:]): return None, "a parent is not a starting point"
        oracle = [first[x] for x in pre[np_:]]
    vals = {}
    for x, w, feas in pts: vals.setdefault(tuple(x), w)
    return "N %s %s %s %d %s %s %s | %s" % (alg, t[3], t[5], n, " ".join(ftok(x) for x in P), " ".join(ftok(vals[x]) for x in P),
                                          " ".join("1" if (alg == "SSMOCMA" and flag(x)) else "0" for x in P), " ".join(map(str, oracle))), note

def n_compare(hdr, gens, mout):
    """model population / solution vs the reported ones, exactly and in order -> list of differing fields"""
    o = kv(mout)
    if "pop" not in o: return ["model output: " + mout[:60]]
    fl = lambda s: [float(a) for a in s.split(",")]
    mpop = [tuple(fl(z) for z in e.split(":")) for e in o["pop"].split(";")] if o["pop"] else []
    msol = [tuple(fl(z) for z in e.split(":")) for e in o["sol"].split(";")] if o["sol"] else []
    d = []
    if mpop != [(x, pen, unp) for (x, pen, unp, rank) in hdr["parents"]]: d.append("parents")
    if msol != [(x, v) for (x, v, w, feas) in gens[0][2]]: d.append("solution")
    if int(o["mu"]) != hdr["mu"]: d.append("mu")
    if o["ok"] != "1": d.append("oracle_ok")
    return d

def monitor_N(case, hdr, gens, status):
    """-> (violations[str], notes).  The per-generation monitors of stream O plus the statements about the state after init."""
    t = case.split(); alg = t[1]; npts = int(t[10]); notes = {}
    if "pts" not in hdr: return ["optimizer run did not start: " + status[:200]], notes
    pts = hdr["pts"]; lo, hi = hdr["lo"], hdr["hi"]; mu = hdr["mu"]
    if npts and [p[0] for p in pts] != n_supplied(case): raise RuntimeError("harness did not read the starting points of `%s`" % case[:80])
    for x, w, feas in pts:
        if feas != all(l <= a <= h for a, l, h in zip(x, lo, hi)): return ["starting point %s: isFeasible=%s contradicts the box [%s, %s]" % (x, feas, lo, hi)], notes
    outside = any(not p[2] for p in pts)
    call = "init(function)" if npts == 0 else "init(function, %d starting points)" % npts
    if status != "END" and "parents" not in hdr:
        if outside and status.startswith("EXC"):
            notes["rejected"] = 1; return [], notes          # an infeasible starting point is rejected by a library exception (SHARK_RUNTIME_CHECK in every init)
        return ["%s with mu = %d raised / did not finish: %s" % (call, mu, status[:200])], notes
    bad, notes = monitor_O("O " + " ".join(t[1:10]), hdr, gens, status)
    if bad: return ["%s, mu = %d: %s" % (call, mu, b) for b in bad], notes
    table = {}
    for x, w, feas in pts: table.setdefault(tuple(x), w)
    g0 = gens[0][2]
    for k, (x, v, w, feas) in enumerate(g0):
        if tuple(x) not in table:
            bad.append("after %s, mu = %d: reported point %d = %s is not one of the starting points" % (call, mu, k, x)); break
        if v != table[tuple(x)]:
            bad.append("after %s, mu = %d: solution %d reports the value %s for the starting point %s whose objective vector is %s" % (call, mu, k, v, x, table[tuple(x)])); break
    if bad: return bad, notes
    if len(pts) <= mu:
        have = {}
        for (x, v, w, feas) in g0: have[tuple(x)] = have.get(tuple(x), 0) + 1
        for x, w, feas in pts:
            have[tuple(x)] = have.get(tuple(x), 0) - 1
            if have[tuple(x)] < 0:
                bad.append("after %s, mu = %d: the starting point %s is missing from the initial population although no more than mu points were supplied" % (call, mu, x)); break
    if bad: return bad, notes
    par = hdr["parents"]
    if len(par) != mu: return ["after %s: %d parents, mu = %d" % (call, len(par), mu)], notes
    for k, (x, pen, unp, rank) in enumerate(par):
        if tuple(x) not in table: bad.append("after %s, mu = %d: parent %d = %s is not one of the starting points" % (call, mu, k, x)); break
        w = table[tuple(x)]; feas = all(l <= a <= h for a, l, h in zip(x, lo, hi))
        if unp != w or (feas and pen != w):
            bad.append("after %s, mu = %d: parent %d at %s carries (penalized, unpenalized) = (%s, %s), the objective vector of its search point is %s" % (call, mu, k, x, pen, unp, w)); break
    if not bad and [(x, v) for (x, v, w, feas) in g0] != [(x, unp) for (x, pen, unp, rank) in par]:
        bad.append("after %s, mu = %d: solution() is not (search point, unpenalized fitness) of the parents in their order" % (call, mu))
    if not bad and alg in ("SSMOCMA", "SMSEMOA", "NSGA2", "NSGA2C", "NSGA2E", "NSGA3"):      # doInit runs the selection: ranks as defined
        want = py_ranks([pen for (x, pen, unp, rank) in par]); got = [rank for (x, pen, unp, rank) in par]
        if got != want: bad.append("after %s, mu = %d: the parents carry the ranks %s, the rank definition gives %s" % (call, mu, got, want))
        elif alg == "SSMOCMA" and any(a != 1 and b == 1 for a, b in zip(got, got[1:])):
            bad.append("after %s, mu = %d: rank-1 parents are not sorted to the front (ranks %s)" % (call, mu, got))
    return bad, notes

# ------------------------------------------------------------------------------------------------
# stream K: checkpoint / restore
def gen_K(rng, big):
    cases = []
    algs = ["SMSEMOA", "SSMOCMA", "MOCMA", "NSGA2", "NSGA2C", "NSGA2E", "NSGA3", "MOEAD"]
    fns2 = ["ZDT1", "ZDT2", "ZDT3", "DTLZ2"]; fns3 = ["DTLZ2", "DTLZ4", "DTLZ7"]
    for alg in algs:
        for rep in range(4 if big else 2):
            nobj = 2 if rep % 2 == 0 else 3
            fn = rng.choice(fns2 if nobj == 2 else fns3)
            nvar = rng.randint(nobj + 1, 7)
            mu = rng.choice([4, 5, 6, 8] if alg not in ("MOEAD", "NSGA3") else [4, 6, 10])
            steady = alg in STEADY_HV or alg == "MOEAD"
            k = rng.choice([20, 40, 60] if steady else [2, 4, 6]); m = rng.choice([150, 300] if steady else [5, 10])
            if big: m *= 2
            useref = 1 if alg in ("SSMOCMA", "SMSEMOA", "MOCMA", "NSGA2") else 0
            cases.append("K %s %s %d %d %d %d %d %d %d %d" % (alg, fn, nobj, nvar, mu, rng.randint(1, 10 ** 6), k + m, useref, REFVAL[fn], k))
    return cases

def check_K(kcase, kres, ores):
    """kres/ores: (case, hdr, gens, status) of the K run and of the uninterrupted O run -> list of (key suffix, message)"""
    t = kcase.split(); alg = t[1]; k = int(t[10]); steps = int(t[7])
    _, hdr, gens, status = kres; _, ohdr, ogens, ostatus = ores
    if status != "END": return [("run-failed", "checkpoint/restore run of %s did not finish: %s" % (alg, status[:200]))]
    if ostatus != "END": return []                                   # the uninterrupted run is judged by stream O
    if "RESTORE" not in gens: return [("run-failed", "no restore stage in the output")]
    cut = gens.index("RESTORE"); before, after = gens[:cut], gens[cut + 1:]
    out = []
    if before != ogens[:k + 1]:
        out.append(("nondeterministic", "%s: the first %d generations of two runs with the same seed differ" % (alg, k)))
    elif after != ogens[k:]:
        g = next((i for i, (a, b) in enumerate(zip(after, ogens[k:])) if a != b), min(len(after), len(ogens[k:])))
        what = "the restored object reports a different solution set than the object that was written" if g == 0 else \
               "the run continued from the restored object differs from the uninterrupted run from generation %d on" % (k + g)
        out.append(("diverges", "%s written to a text archive after %d steps and read into a fresh object: %s" % (alg, k, what)))
    bad, notes = monitor_O("O " + " ".join(t[1:10]), hdr, before + after[1:], status)
    for b in bad[:1]:
        out.append(("hypervolume-decreased" if "hypervolume" in b else re.sub(r"[\d.eE+-]+", "N", b)[:50], "%s, restored after %d steps: %s" % (alg, k, b)))
    return out

# ------------------------------------------------------------------------------------------------
def main():
    ck = Check(PID)
    big = ck.tier == "thorough"
    ck.trusted = DEFAULT_TRUSTED + [
        "modelled not verified: the 3-D / MD hypervolume-contribution routines (Section variable of the model; compared against an exact integer brute force and against Coq contribs_spec); the plane solver inside NSGA3Indicator::computeNormalizer (its answer is re-derived in the harness by the same statements + the same library solver and handed to the model); std::sort is taken to leave ties in a stable order (libstdc++ insertion sort, <= 16 elements: generated fronts respect the bound), std::partition / std::min_element / heap routines as specified",
        "std::pow / std::abs / sqrt of the C library = OCaml's ( ** ) / abs_float / sqrt (same libm) in the float instances of the models; the theorems hold for arbitrary functions in their place",
        "one canonical uniform draw per random::coinToss / random::uni call (libstdc++ bernoulli_distribution / uniform_real_distribution over generate_canonical); random::discrete is modelled by its results",
        "the rank definition / hv_spec and their lemmas come from C13Model.v / C13Proofs.v",
        "stream N: the objective vector of a starting point is the harness's own evaluation through /repo's benchmark object (table handed to the model as f); the random indices of doInit are the results of random::discrete on a copy of the generator taken when init(function, points) is entered (MOEAD: after the same sampleLatticeUniformly call); init(function) = numInitPoints() calls of proposeStartingPoint + init(function, points) (reconstructed by the harness with the same seed)",
        "benchmark functions ZDT/DTLZ and BoxConstraintHandler::closestFeasible are re-evaluated through /repo's own objects in the harness; ZDT1, ZDT2, DTLZ2 additionally by an independent Python implementation (1e-9)"]
    ck.assumptions = [
        "1 <= mu <= population size (mu = 0 does not terminate, mu > n underflows in the C++; outside the property)",
        "hypervolume monotonicity is claimed only when the indicator is configured with the same fixed reference point the hypervolume is measured against (indicator().setReference(r)); the default configuration (implicit moving reference, extreme points never removed) is outside the claim: decreases there are counted in notes.hv_decrease_noref, not reported",
        "objective vectors are component-wise below the reference point (precondition of the contribution routines)",
        "objective functions are deterministic; PenalizingEvaluator re-evaluations average identical values",
        "NSGA3Indicator validity is proved under n3_finite (all association distances compare below DBL_MAX: no NaN / overflow) and at least one reference direction",
        "CrowdingDistance = definition is proved over Q; an objective that is constant over front + archive (0/0 = NaN in the C++) is outside the rational theorem: compared with the float model, counted in the notes (not part of C14's statement: the selection still marks mu individuals and respects ranks)",
        "the in-box theorems of the variation operators are over Q (division an arbitrary function); NaN/overflow of the double evaluation is outside them and is covered by the run-time monitor (every child coordinate printed by the C++ is a finite number in [lower, upper] when the parents are inside the box)",
        "NSGA3Indicator / MOEAD / RVEA are exercised with mu >= number of objectives only: sampleLatticeUniformly(keep_corners) writes all corner rows into an n-row matrix (heap overflow for n < #objectives, seen under ASan); reported to the lead, not part of the stream",
        "tournament-based optimisers (SMS-EMOA, NSGA-II/III, RVEA) need mu > tournament size 2 (library exception otherwise)",
        "initialisation: a non-empty list of starting points (SIZE_CHECK only: an empty list is undefined behaviour under NDEBUG); a list containing a point outside the box is rejected by every init() with a library exception -- counted in init_lists_with_infeasible_point_rejected_by_exception; with more than mu starting points the code draws mu random copies with replacement (it does not take the first mu points, distinct points may be dropped): stated as a theorem, not judged",
        "HypervolumeIndicator without reference point inside the optimisers: when the split front has fewer than k non-extreme points the extreme points are discarded last (since /repo commit 1a2ef572; before, the request was answered with garbage resp. rejected)"]
    ck.proofs()
    model = extract_model(PID, "C14Extract.v", "c14_driver.ml")
    exe, err = cxx_build("c14_select", [os.path.join(ROOT, "harness", "c14_select.cpp")] + repo_src(*SRC))
    if exe is None:
        ck.oblige("selection harness builds against /repo", False, err); ck.finish()
    varx, err = cxx_build("c14_var", [os.path.join(ROOT, "harness", "c14_var.cpp")] + repo_src("src/Core/Random.cpp"))
    if varx is None:
        ck.oblige("variation-operator harness builds against /repo", False, err); ck.finish()
    loopx, err = cxx_build("c14_loop", [os.path.join(ROOT, "harness", "c14_loop.cpp")] + repo_src("src/Core/Random.cpp"))
    if loopx is None:
        ck.oblige("updatePopulation harness builds against /repo", False, err); ck.finish()
    moo, err = cxx_build("c14_moo", [os.path.join(ROOT, "harness", "c14_moo.cpp")] + repo_src(*SRC_MOO))
    if moo is None:
        ck.oblige("optimizer harness builds against /repo", False, err); ck.finish()
    tmpd = os.path.join(BUILD, "tmp", PID); os.makedirs(tmpd, exist_ok=True)

    # ---- replay / corpus
    corpus = []
    cdir = os.path.join(ROOT, "corpus", PID)
    srcs = [ck.replay] if ck.replay else ([os.path.join(cdir, f) for f in sorted(os.listdir(cdir))] if os.path.isdir(cdir) else [])
    for f in srcs:
        corpus += [l.strip() for l in open(f).read().split("\n") if l.strip() and not l.startswith("#")]
    s_lines = [l for l in corpus if l.startswith("S ") and not (l.split()[1] == "H" and l.split()[5] == "0")]
    f8_lines = [l for l in corpus if l.startswith("S ") and l.split()[1] == "H" and l.split()[5] == "0"]
    p_lines = [l for l in corpus if l.startswith("P ")]
    o_lines = [l for l in corpus if l.startswith("O ")]
    i_lines = [l for l in corpus if l.startswith("I ")]
    v_lines = [l for l in corpus if l[:2] in ("X ", "M ", "T ", "L ")]
    u_lines = [l for l in corpus if l.startswith("U ")]
    k_lines = [l for l in corpus if l.startswith("K ")]
    n_lines = [l for l in corpus if l.startswith("N ")]
    if not ck.replay:
        s_lines += gen_S(ck.rng, big, 6000 if big else 900)
        p_lines += gen_P(ck.rng, 2000 if big else 300)
        i_lines += gen_I(ck.rng, big, 8000 if big else 1500)
        o_lines += gen_O(ck.rng, big)
        # default configuration (no reference point) of the hypervolume-based optimisers with small mu: can they reach
        # smallest(front, k) with fewer than k non-extreme points?  (F8)
        for alg, mu in (("SSMOCMA", 1), ("SSMOCMA", 2), ("SMSEMOA", 3), ("NSGA2", 4), ("MOCMA", 2), ("MOCMA", 5)):
            for s in range(2):
                o_lines.append("O %s DTLZ2 3 5 %d %d 60 0 6" % (alg, mu, ck.rng.randint(1, 10 ** 6)))
        # F8 stream: hypervolume indicator without reference point, small fronts / all-extreme fronts
        for l in gen_S(ck.rng, big, 1500 if big else 400):
            t = l.split()
            if t[1] in ("H", "E"): t[1] = "H"; t[5] = "0"; f8_lines.append(" ".join(t))

    # ---- stream S
    nm, nd, outs = run_S(ck, s_lines, model, exe, tmpd) if s_lines else (0, 0, [])
    ck.oblige("correspondence C14Model.indicator_selection = IndicatorBasedSelection::operator() (oracle read back) on %d populations" % len(s_lines), nm == 0 and nd == 0,
              "%d monitor failures, %d disagreements" % (nm, nd) if nm or nd else "")
    ksplit = sum(1 for o in outs if "K=" in o and int(kv(o)["K"]) > 0)
    inds = {}
    for l in s_lines: inds[l.split()[1]] = inds.get(l.split()[1], 0) + 1

    # ---- stream F8 (separate): no reference point
    f8_bad = 0
    if f8_lines:
        n8, d8, o8 = run_S(ck, f8_lines, model, exe, tmpd, label="F8")
        f8_bad = n8
        ck.notes["f8_cases"] = len(f8_lines); ck.notes["f8_failures"] = n8
        ck.oblige("HypervolumeIndicator without reference point returns valid indices inside IndicatorBasedSelection on %d populations" % len(f8_lines),
                  n8 == 0 or bool(ck.known_hits), "%d failures" % n8 if n8 else "")

    # ---- stream I: the indicator classes next to their models
    if i_lines:
        im, idis, istats = run_I(ck, i_lines, model, exe, tmpd)
        ck.oblige("correspondence C14Ind.eps_lcs / hv_ind_lcs / cd_lcs = AdditiveEpsilonIndicator / HypervolumeIndicator (2-D) / CrowdingDistance ::leastContributors on %d direct calls" % len(i_lines),
                  im == 0 and idis == 0, "%d monitor failures, %d disagreements" % (im, idis) if im or idis else "")
        ck.notes["indicator_cases"] = len(i_lines); ck.notes["indicator_cases_modelled"] = istats.get("modelled", 0)
        ck.notes["crowding_constant_objective_cases"] = istats.get("cd_degenerate", 0)
        ck.notes["crowding_constant_objective_boundary_point_removed"] = len(istats.get("cd_degenerate_boundary_removed", []))
        ck.notes["crowding_constant_objective_sample"] = istats.get("cd_degenerate_boundary_removed", [])[:2]

    # ---- stream V: variation / mating-selection operators next to their models
    if not ck.replay: v_lines += gen_V(ck.rng, big, 6000 if big else 1200, varx, tmpd)
    if v_lines:
        vm, vd, vdegen = run_V(ck, v_lines, model, varx, tmpd)
        ck.oblige("correspondence C14Var.sbx / pm / tournament / elitist = SimulatedBinaryCrossover / PolynomialMutator / TournamentSelection / ElitistSelection on %d calls" % len(v_lines),
                  vm == 0 and vd == 0, "%d monitor failures, %d disagreements" % (vm, vd) if vm or vd else "")
        ck.notes["variation_cases"] = len(v_lines)
        ck.notes["variation_cases_with_degenerate_coordinate_lower_eq_upper"] = len(vdegen)

    # ---- stream U: updatePopulation next to the loop model
    if not ck.replay: u_lines += gen_U(ck.rng, big, 4000 if big else 800)
    if u_lines:
        um, ud = run_U(ck, u_lines, model, loopx, tmpd)
        ck.oblige("correspondence C14Loop.gen_update / ss_update = updatePopulation of NSGA-II<H|E|C> / MOCMA / SMS-EMOA / steady-state MOCMA on %d calls" % len(u_lines),
                  um == 0 and ud == 0, "%d monitor failures, %d disagreements" % (um, ud) if um or ud else "")
        ck.notes["update_population_cases"] = len(u_lines)

    # ---- stream P
    pm = pd = 0
    if p_lines:
        io = run_cases(exe, [[l] for l in p_lines], os.path.join(tmpd, "P_impl.txt"))
        rc, mo, e = run_lines(model, p_lines, os.path.join(tmpd, "P_model.txt"))
        for l, (o, rcb, _), m in zip(p_lines, io, mo):
            o = o[0] if rcb == 0 and o else "CRASH"
            msgs = monitor_P(l, o)
            if msgs:
                pm += 1
                if pm <= 2:
                    cf = ck.write_replay("P_case_%d.txt" % pm, l + "\n")
                    ck.violation("penalizing:" + msgs[0][:40], {"case_file": cf, "case": l, "implementation_output": o, "model_output": m, "monitor": msgs,
                                                               "replay_cmd": "python3 tools/c14.py --replay " + cf}, "spec monitor fails on the implementation: " + msgs[0])
            else:
                a, b = kv(o), kv(m)
                if [float(x) for x in a["unp"].split(",")] != [float(x) for x in b["unp"].split(",")] or \
                   [float(x) for x in a["pen"].split(",")] != [float(x) for x in b["pen"].split(",")] or a["feas"] != b["feas"]:
                    pd += 1
        if pd and not pm:
            ck.violation("correspondence-penalizing", {"broken": "C14Model.penalized_eval vs PenalizingEvaluator"}, "correspondence penalized_eval no longer checks; monitor passes", no_input=True)
        ck.oblige("correspondence C14Model.penalized_eval = PenalizingEvaluator on %d points" % len(p_lines), pm == 0 and pd == 0)

    # ---- stream O
    om = 0; gens_total = 0; noref_dec = 0; per_alg = {}; okeys = set()
    if o_lines:
        res = run_O(ck, o_lines, moo, tmpd)
        for (case, hdr, gens, status) in res:
            bad, notes = monitor_O(case, hdr, gens, status)
            gens_total += len(gens); noref_dec += notes.get("hv_decrease_noref", 0)
            if notes.get("noref_rejected"): ck.notes.setdefault("default_configuration_runs_rejected_by_exception", []).append(case)
            if not int(case.split()[8]) and status.startswith("CRASH"):
                cf = ck.write_replay("F8O_case_%d.txt" % om, case + "\n")
                ck.violation("contribution:no-reference-k-too-large", {"case_file": cf, "case": case, "status": status, "replay_cmd": "python3 tools/c14.py --replay " + cf},
                             "optimizer in its default configuration (no reference point) crashed: %s: %s" % (case, status)); om += 1; continue
            per_alg[case.split()[1]] = per_alg.get(case.split()[1], 0) + len(gens)
            if notes.get("ref_not_dominated"): ck.notes.setdefault("ref_not_dominated_cases", []).append(case)
            if bad:
                key0 = "steady-state:reported-hv-decreases-by-penalty" if "REPORTED unpenalized" in bad[0] else None
                if key0 and ck.match_known(key0):
                    known_o = True
                    if key0 not in okeys:
                        okeys.add(key0)
                        ck.violation(key0, {"case": case, "monitor": bad[:5]}, bad[0])   # prints the KNOWN-FINDING line once
                    continue
                om += 1
                if om <= 3:
                    cf = ck.write_replay("O_case_%d.txt" % om, case + "\n")
                    key = "optimizer:%s:%s" % (case.split()[1], re.sub(r"[\d.eE+-]+", "N", bad[0])[:60])
                    if "REPORTED unpenalized" in bad[0]: key = "steady-state:reported-hv-decreases-by-penalty"
                    if key in okeys: continue
                    okeys.add(key)
                    ck.violation(key, {"case_file": cf, "case": case, "monitor": bad[:5], "replay_cmd": "python3 tools/c14.py --replay " + cf},
                                 "spec monitor fails on the implementation: %s: %s" % (case, bad[0]))
        ck.oblige("per-generation monitors (size, value = objective at closest feasible point, box, hypervolume monotone) on %d optimizer runs" % len(o_lines), om == 0)
        # object history: an optimizer object that completed an earlier run and is initialised again must repeat the run of a
        # fresh object with the same seed, generation by generation
        base = {c: (hdr, gens, status) for (c, hdr, gens, status) in res}
        sel = [c for c in o_lines if not base[c][2].startswith("CRASH") and len(c.split()) == 10][: (60 if big else 18)]
        re_cases = [c + " %d" % (3 + i % 5) for i, c in enumerate(sel)]
        rbad = 0
        for c0, (c, hdr, gens, status) in zip(sel, run_O(ck, re_cases, moo, tmpd, label="OR")):
            h0, g0, s0 = base[c0]
            if (hdr, gens, status) != (h0, g0, s0):
                rbad += 1
                if rbad <= 2:
                    k = next((i for i, (x, y) in enumerate(zip(gens, g0)) if x != y), min(len(gens), len(g0)))
                    cf = ck.write_replay("OR_case_%d.txt" % rbad, c0 + "\n" + c + "\n")
                    ck.violation("optimizer:%s:reinit-determinism" % c.split()[1], {"case_file": cf, "case": [c0, c], "first_differing_generation": k, "status": [s0, status],
                                                                                   "replay_cmd": "build/bin/std/c14_moo " + cf},
                                 "optimizer %s: an object that completed an earlier run and was initialised again does not repeat the run of a fresh object with the same seed (`%s`: first difference at generation %d, status %s vs %s)" % (c.split()[1], c, k, s0[:40], status[:40]))
        ck.oblige("re-initialised optimizer objects repeat the run of fresh objects on %d runs" % len(re_cases), rbad == 0)
        gens_total += sum(len(g) for (_, _, g, _) in [(0, 0, base[c][1], 0) for c in sel])

    # ---- stream N: initialisation with caller-supplied starting points
    if not ck.replay: n_lines += gen_N(ck.rng, big)
    if n_lines:
        nres = run_O(ck, n_lines, moo, tmpd, label="N")
        nbad = 0; nkeys = set(); ncover = {}; nrej = 0; tie = []
        for (case, hdr, gens, status) in nres:
            alg = case.split()[1]; shape = n_shape(case, hdr)
            bad, notes = monitor_N(case, hdr, gens, status)
            gens_total += len(gens)
            if notes.get("rejected"): nrej += 1
            if not bad:
                ncover.setdefault(alg, {}); ncover[alg][shape] = ncover[alg].get(shape, 0) + 1
                if status == "END": tie.append((case, hdr, gens))
                continue
            if "REPORTED unpenalized" in bad[0] and ck.match_known("steady-state:reported-hv-decreases-by-penalty"):
                ck.violation("steady-state:reported-hv-decreases-by-penalty", {"case": case, "monitor": bad[:5]}, bad[0]); continue
            nbad += 1
            key = "init:%s:%s:%s" % (alg, shape, re.sub(r"-?[\d.]+(e[+-]?\d+)?", "N", re.sub(r"\[[^\]]*\]", "V", bad[0]))[:70])
            if key in nkeys or len(nkeys) >= 4: continue
            nkeys.add(key)
            small = case
            if int(case.split()[7]) > 0 and ("after init" in bad[0] or "generation 0 " in bad[0] or "raised / did not finish" in bad[0]):
                t = case.split(); t[7] = "0"; c2 = " ".join(t)          # the state after init suffices: no generations
                r2 = run_O(ck, [c2], moo, tmpd, label="Nshrink")[0]
                b2, _ = monitor_N(c2, r2[1], r2[2], r2[3])
                if b2: small, bad = c2, b2
            cf = ck.write_replay("N_case_%d.txt" % len(nkeys), small + "\n")
            ck.violation(key, {"case_file": cf, "case": small, "shape": shape, "monitor": bad[:5], "replay_cmd": "python3 tools/c14.py --replay " + cf},
                         "spec monitor fails on the implementation: `%s`: %s" % (small[:120], bad[0]))
        # the tie: the implementation ran first; the random indices are read back from its parents and handed to C14Init
        ndis = []; nmodelled = 0
        if tie:
            ml = [n_model_line(c, h) for (c, h, g) in tie]
            rc, mo, err = run_lines(model, [l for l, why in ml if l], os.path.join(tmpd, "N_model.txt"))
            if rc != 0 or len(mo) != sum(1 for l, why in ml if l): raise RuntimeError("model driver failed: " + err[-1000:])
            it = iter(mo)
            for (c, h, g), (l, why) in zip(tie, ml):
                if l is None: ndis.append((c, l, "", [why])); continue
                m = next(it); nmodelled += 1
                d = n_compare(h, g, m)
                if why == "draws":      # a legal outcome of the modelled statements for SOME random indices, not for the ones the generator delivered
                    d.append("random indices: the generator delivers %s to the random::discrete calls of doInit, the reported parents are the starting points %s"
                             % (h.get("draws"), l.split("|")[1].split()))
                if d: ndis.append((c, l, m, d))
        if ndis and nbad == 0:
            c, l, m, d = ndis[0]
            cf = ck.write_replay("N_dis.txt", c + "\n")
            ck.violation("correspondence-init", {"case_file": cf, "case": c, "model_case": l, "model_output": m, "differing": d,
                                                 "broken": "correspondence C14Init (init_parents / ssmocma_init / rvea_init, init_solution) vs init(function, startingPoints) + doInit",
                                                 "replay_cmd": "python3 tools/c14.py --replay " + cf},
                         "correspondence initialisation model vs %s::init no longer checks (%d of %d runs differ in %s, e.g. `%s`); the spec monitor passes on every explored input"
                         % (c.split()[1], len(ndis), len(tie), d, c[:100]), no_input=True)
        ck.oblige("correspondence C14Init.init_parents / ssmocma_init / rvea_init + init_solution = parents and solution() after init(function, startingPoints) / init(function) (random indices read back) on %d initialisations" % nmodelled,
                  not ndis, "%d disagreements" % len(ndis) if ndis else "")
        ck.notes["init_runs_modelled"] = nmodelled
        ck.notes["init_runs_steady_state_mocma_where_sortRankOneToFront_moved_parents"] = sum(
            1 for (c, h, g), (l, why) in zip(tie, ml) if l and c.split()[1] == "SSMOCMA" and
            [tuple(x) for x, w, fe in h["pts"]][:(len(h["pts"]) if len(h["pts"]) <= h["mu"] else 0)] !=
            [tuple(p[0]) for p in h["parents"]][:(len(h["pts"]) if len(h["pts"]) <= h["mu"] else 0)]) if tie else 0
        ck.oblige("initialisation monitors (size, value = objective at the reported point, box; after init: points from the starting list, values of their own point, all points kept when <= mu) on %d runs started through init(function, startingPoints) / init(function)" % len(n_lines), nbad == 0)
        if not ck.replay:
            missing = ["%s/%s" % (a, r) for a in N_ALGS for r in N_REGIMES + ["fewer-than-mu+duplicates", "exactly-mu+duplicates", "more-than-mu+duplicates"]
                       if not ncover.get(a, {}).get(r)]
            missing += ["%s/outside-box" % a for a in N_ALGS if not any("+outside-box" in k for k in ncover.get(a, {}))]
            ck.oblige("every optimizer configuration was initialised in every regime (plain, fewer than / exactly / more than mu starting points, duplicates, outside the box)",
                      not missing or nbad > 0, "not covered: " + ", ".join(missing[:8]) if missing else "")
        ck.notes["init_runs"] = len(n_lines); ck.notes["init_runs_per_algorithm_and_shape"] = ncover
        ck.notes["init_lists_with_infeasible_point_rejected_by_exception"] = nrej

    # ---- stream K: checkpoint / restore
    if not ck.replay: k_lines += gen_K(ck.rng, big)
    if k_lines:
        ref_lines = ["O " + " ".join(l.split()[1:10]) for l in k_lines]
        kres = run_O(ck, k_lines, moo, tmpd, label="K"); ores = run_O(ck, ref_lines, moo, tmpd, label="KO")
        kbad = 0; kseen = set()
        for l, kr, orr in zip(k_lines, kres, ores):
            for suffix, msg in check_K(l, kr, orr):
                key = "restore:%s:%s" % (l.split()[1], suffix)
                # the known phenomenon C14-SSPEN (selection on penalised fitness, reported unpenalised values) also occurs in a continued run
                if "REPORTED unpenalized" in msg and "while the hypervolume of the penalized fitness the selection works on grew" in msg:
                    key = "steady-state:reported-hv-decreases-by-penalty"
                if ck.match_known(key) is None: kbad += 1
                if key in kseen: continue
                kseen.add(key)
                cf = ck.write_replay("K_case_%d.txt" % len(kseen), l + "\n")
                ck.violation(key, {"case_file": cf, "case": l, "uninterrupted_case": "O " + " ".join(l.split()[1:10]), "monitor": [msg],
                                   "replay_cmd": "python3 tools/c14.py --replay " + cf}, "spec monitor fails on the implementation: `%s`: %s" % (l, msg))
            gens_total += sum(1 for g in kr[2] if g != "RESTORE")
        ck.oblige("checkpoint/restore: %d optimizer runs written to a text archive, read into a fresh object and continued equal the uninterrupted runs and keep the per-generation invariants" % len(k_lines), kbad == 0)
        ck.notes["restore_runs"] = len(k_lines); ck.notes["restore_not_serializable"] = ["RVEA (serialize(Archive&) cannot be instantiated; read()/write() are the empty defaults)"]

    ck.cov["evaluations"] = len(s_lines) + len(f8_lines) + len(p_lines) + len(i_lines) + len(v_lines) + len(u_lines) + gens_total
    ck.cov["distinct_nontrivial"] = len(set(l for l, o in zip(s_lines, outs) if "K=" in o and int(kv(o)["K"]) > 0)) + len(set(o_lines))
    ck.cov["rule"] = ("I: %d direct indicator calls (E/H/C/N; fronts with archive as the selection hands them over and arbitrary sets; K in {0,1,|front|,random}; duplicates, ties per objective, constant objective, dyadic coordinates).  "
                      "V: %d operator calls (SBX with injected draws incl. 0, 1/2, 1-2^-53; polynomial mutation / tournament with mt19937 seeds; parents on the box boundary, equal / nearly equal parents, lower = upper, parents outside).  "
                      "U: %d updatePopulation calls (NSGA-II x 3 indicators, MOCMA, SMS-EMOA, steady-state MOCMA).  " % (len(i_lines), len(v_lines), len(u_lines)) +
                      "S: integer populations (n<=14, d in 2..4, coordinates 0..6; random / single front / chain / duplicates), every mu for a third of the populations, "
                      "4 indicators; non-trivial = the indicator had to name K>0 members of a split front.  P: integer points in/outside integer boxes.  "
                      "O: %d optimizer runs (9 configurations of the 7 algorithms x ZDT/DTLZ with 2-3 objectives x mu x seed x steps), every generation checked.  " % len(o_lines) +
                      "N: %d runs started from caller-supplied lists (9 configurations x {init(function); 1, 2, mu-1, mu, mu+1, 2mu, 3mu+1 distinct points; 5 lists with duplicates; 3 lists with a point outside the box})" % len(n_lines))
    ck.cov["samples"] = s_lines[:2] + o_lines[:2]
    if f8_lines: ck.notes["f8_rejected_by_exception"] = sum(1 for o in o8 if o.rstrip().endswith("EXC"))
    ck.notes.update({"selection_cases": len(s_lines), "selection_cases_with_split_front": ksplit, "indicator_mix": inds,
                     "penalizing_cases": len(p_lines), "optimizer_runs": len(o_lines), "optimizer_generations": gens_total,
                     "generations_per_algorithm": per_alg, "hv_decrease_noref": noref_dec})
    ck.finish(explanation="selection theorems hold for any valid indicator; the coded indicators (epsilon, hypervolume 2-D, crowding distance, NSGA-III), the variation operators "
                          "and updatePopulation are modelled as coded, proved, and run next to the C++ on every check (streams I, V, U, field mown of S); "
                          "hypervolume monotonicity is proved for the coded 2-objective HypervolumeIndicator path under the reference-point assumption and monitored on SMS-EMOA / steady-state MO-CMA; "
                          "initialisation from caller-supplied starting points (fewer / as many / more than mu, duplicates, outside the box, plain init) is modelled as coded (C14Init.v), proved consistent "
                          "for every list, mu and oracle, and run next to init(function, points) of all seven optimisers with the generator's own indices (stream N)")

if __name__ == "__main__":
    main()
