#!/usr/bin/env python3
"""C03 (dataset containers) and C12 (cross-validation folds): proofs + correspondence + spec monitor.
usage: c03.py [--prop C03|C12] --tier quick|thorough"""
import os, sys, re
sys.path.insert(0, os.path.dirname(os.path.abspath(__file__)))
from vlib import *

PROP = "C03"
for i, a in enumerate(sys.argv):
    if a == "--prop":
        PROP = sys.argv[i + 1]; del sys.argv[i:i + 2]; break

STREAM = "all"          # --stream basic|share|weighted|all : run only one of the case streams (debugging / replays of one stream)
for i, a in enumerate(sys.argv):
    if a == "--stream":
        STREAM = sys.argv[i + 1]; del sys.argv[i:i + 2]; break

NREG = 4

# ------------------------------------------------------------------ parsing of dumps
def parse_ds(s):
    """'[10:0,11:1|12:2]' -> list of batches of (id,label); None if malformed"""
    if "!" in s or "?" in s: return None
    s = s.strip()[1:-1]
    if s == "": return []
    out = []
    for b in s.split("|"):
        out.append([tuple(int(x) for x in e.split(":")) for e in b.split(",")] if b else [])
    return out

def fields(out):
    """'line -> R0=[..] shape0=(2) folds=..' -> dict"""
    if "->" not in out: return {}
    rhs = out.split("->", 1)[1].strip()
    d = {}
    for t in rhs.split(" "):
        if "=" in t:
            k, v = t.split("=", 1); d[k] = v
        elif t:
            d[t] = True
    return d

def flat(ds): return [e for b in ds for e in b]

# ------------------------------------------------------------------ generator (tracks batch sizes only)
class Gen:
    def __init__(self, rng, prop, big):
        self.r = rng; self.prop = prop; self.big = big
    def case(self):
        r = self.r
        lines = ["C %d" % r.randrange(1, 10**6)]
        sizes = {}                      # reg -> list of batch sizes
        nid = [1]
        def new(reg):
            n = r.choice([1, 2, 3, 4, 5, 6, 7, 8, 9, 10, 12, 13, 16, 17] + ([25, 31, 40] if self.big else []))
            m = r.choice([0, 1, 2, 3, 4, 5, n, n + 1, max(1, n - 1), 7])
            mode = r.random()
            ncl = r.choice([1, 2, 3, 4, 5])
            if mode < 0.3: labs = [r.randrange(ncl) for _ in range(n)]
            elif mode < 0.6: labs = [r.choice([0, ncl]) for _ in range(n)]           # absent classes in between
            else: labs = sorted(r.randrange(ncl) for _ in range(n))
            ids = list(range(nid[0], nid[0] + n)); nid[0] += n
            lines.append("N %d %d %d %s %s" % (reg, n, m, " ".join(map(str, labs)), " ".join(map(str, ids))))
            mm = 256 if m == 0 else m
            b = n // mm + (1 if n % mm else 0); q = n // b; rem = n - b * q
            sizes[reg] = [q + 1 if j < rem else q for j in range(b)]
        new(0)
        nops = r.randint(3, 25 if not self.big else 50)
        for _ in range(nops):
            regs = [k for k in sizes if sizes[k]]
            if not regs: new(0); continue
            g = r.choice(regs); sz = sizes[g]; n = sum(sz)
            x = r.random()
            if self.prop == "C12" and x < 0.55:
                k = r.choice([1, 2, 3, n, max(1, n - 1), max(1, n // 2), 4, 5]); k = max(1, min(k, n))
                m = r.choice([1, 2, 3, 4, 5, 7, n, 256])
                y = r.random()
                if y < 0.2: lines.append("CS %d %d %d" % (g, k, m))
                elif y < 0.45:
                    mode = r.random()
                    idx = [r.randrange(k) for _ in range(n)]
                    if mode < 0.3 and k > 1: idx = [r.choice([0, k - 1]) for _ in range(n)]       # empty folds
                    if k - 1 not in idx: idx[r.randrange(n)] = k - 1
                    lines.append("CI %d %d %d %s" % (g, k, m, " ".join(map(str, idx))))
                elif y < 0.6:
                    first = list(range(n)); r.shuffle(first)
                    second = [r.randrange(k) for _ in range(n)]
                    if k - 1 not in second: second[r.randrange(n)] = k - 1
                    lines.append("CF %d %d %d %s %s" % (g, k, m, " ".join(map(str, first)), " ".join(map(str, second))))
                elif y < 0.85: lines.append("CB %d %d %d" % (g, k, m))
                elif y < 0.95:
                    kb = max(1, min(k, len(sz))); lines.append("CT %d %d" % (g, kb)); continue
                else: lines.append("CR %d %d %d" % (g, k, m))
                sizes[g] = None   # unknown until resolved; regenerate afterwards
                new(g)
                continue
            if x < 0.08: new(r.randrange(NREG))
            elif x < 0.18:
                # random repartition
                parts = []; left = n
                while left > 0:
                    p = r.randint(1, left); parts.append(p); left -= p
                lines.append("P %d %s" % (g, " ".join(map(str, parts)))); sizes[g] = parts
            elif x < 0.28:
                b = r.randrange(len(sz)); k = r.randint(0, sz[b])
                lines.append("S %d %d %d" % (g, b, k))
                if 0 < k < sz[b]: sizes[g] = sz[:b] + [k, sz[b] - k] + sz[b + 1:]
            elif x < 0.36:
                q = r.choice([k for k in range(NREG) if k != g]); b = r.randint(0, len(sz))
                lines.append("L %d %d %d" % (g, q, b)); sizes[g] = sz[:b]; sizes[q] = sz[b:]
            elif x < 0.42 and len(regs) > 1:
                q = r.choice([k for k in regs if k != g])
                lines.append("A %d %d" % (g, q)); sizes[g] = sz + sizes[q]
            elif x < 0.52:
                idx = list(range(n))
                if r.random() < 0.7 or self.prop == "C12": r.shuffle(idx)   # (C12: ids must stay unique to read back fold membership)
                else: idx = [r.randrange(n) for _ in range(n)]    # gather with repetitions is allowed by the code
                lines.append("O %d %s" % (g, " ".join(map(str, idx))))
            elif x < 0.58: lines.append("H %d" % g)
            elif x < 0.66:
                q = r.choice([k for k in range(NREG) if k != g])
                idx = [r.randrange(len(sz)) for _ in range(r.randint(0, len(sz) + 1))]
                if self.prop == "C12": idx = r.sample(range(len(sz)), r.randint(1, len(sz)))
                lines.append("I %d %d %s" % (g, q, " ".join(map(str, idx)))); sizes[q] = [sz[i] for i in idx]
            elif x < 0.69:
                q, t = r.sample([k for k in range(NREG) if k != g], 2)
                idx = r.sample(range(len(sz)), r.randint(0, len(sz)))     # distinct, in any order
                lines.append("K %d %d %d %s" % (g, q, t, " ".join(map(str, idx))))
                sizes[q] = [sz[i] for i in idx]; sizes[t] = [sz[i] for i in range(len(sz)) if i not in idx]
            elif x < 0.74:
                q = r.choice([k for k in range(NREG) if k != g]); k = r.randint(0, n)
                lines.append("T %d %d %d" % (g, q, k))
                acc = 0; L = []; Rr = []
                for s in sz:
                    if acc + s <= k: L.append(s)
                    elif acc >= k: Rr.append(s)
                    else: L.append(k - acc); Rr.append(acc + s - k)
                    acc += s
                sizes[g] = L; sizes[q] = Rr
            elif x < 0.82:
                m = r.choice([1, 2, 3, 4, 256]); lines.append("B %d %d" % (g, m)); sizes[g] = None
                if r.random() < 0.5:
                    q = r.choice([k for k in range(NREG) if k != g])
                    lines.append("Y %d %d %d %d" % (g, q, r.randrange(3), r.randrange(3))); sizes[q] = None
                # batch sizes now depend on labels: start afresh in those registers
                for k in list(sizes):
                    if sizes[k] is None: new(k)
            elif x < 0.88: lines.append("E %d %d" % (g, r.randrange(n)))
            elif x < 0.95:
                p = r.randint(0, n); neg = r.random() < 0.5
                d = r.randint(0, p) if neg else r.randint(0, n - p)
                lines.append("J %d %d %d %d" % (g, p, 1 if neg else 0, d))
            elif x < 0.965:
                # subset of a subset of the view, then toDataset
                q = r.choice([k for k in range(NREG) if k != g])
                i1 = [r.randrange(n) for _ in range(r.randint(1, n + 2))]
                if self.prop == "C12": i1 = r.sample(range(n), r.randint(1, n))
                i2 = [r.randrange(len(i1)) for _ in range(r.randint(1, len(i1) + 2))]
                if self.prop == "C12": i2 = r.sample(range(len(i1)), r.randint(1, len(i1)))
                bs = r.choice([0, 1, 2, 3, len(i2), len(i2) + 1])
                lines.append("W %d %d %d %d %s %s" % (g, q, bs, len(i1), " ".join(map(str, i1)), " ".join(map(str, i2))))
                ni = len(i2)
                if bs == 0 or bs > ni: sizes[q] = [ni]
                else:
                    b = ni // bs + (1 if ni % bs else 0); sizes[q] = [bs] * (b - 1) + [ni - bs * (b - 1)]
            elif x < 0.98:
                q = r.choice([k for k in range(NREG) if k != g])
                idx = [r.randrange(n) for _ in range(r.randint(1, n + 2))]
                if self.prop == "C12": idx = r.sample(range(n), r.randint(1, n))
                bs = r.choice([0, 1, 2, 3, len(idx), len(idx) + 1])
                lines.append("V %d %d %d %s" % (g, q, bs, " ".join(map(str, idx))))
                ni = len(idx)
                if bs == 0 or bs > ni: sizes[q] = [ni]
                else:
                    b = ni // bs + (1 if ni % bs else 0); sizes[q] = [bs] * (b - 1) + [ni - bs * (b - 1)]
            elif not any(l.startswith("F ") for l in lines): lines.append("F %d 700" % g)   # ids stay unique (all ids < 700)
        return lines

# ------------------------------------------------------------------ sharing stream (C03Heap.v): reference simulation, generator, monitor
NH = 8          # handles: 0..5 registers, 6 = dataset kept by the CVFolds object, 7 = dataset kept by the DataView
FD, VD = 6, 7

def py_opt_sizes(n, m):
    if n == 0: return []
    b = (n + m - 1) // m; q = n // b; rem = n - b * q
    return [q + 1] * rem + [q] * (b - rem)

class ShareSim:
    """The documented sharing discipline of shark::Data, written down independently of the Coq model: batches are objects,
    containers hold pointers.  Used by the generator (valid arguments, aimed case splits) and by the spec monitor."""
    def __init__(self, shape0):
        self.heap = {}; self.nxt = 0; self.shape0 = shape0
        self.h = [{"ids": [], "si": "()", "sl": "()"} for _ in range(NH)]
        self.folds = []
    def cont(self, r): return [list(self.heap[i]) for i in self.h[r]["ids"]]
    def sizes(self, r): return [len(self.heap[i]) for i in self.h[r]["ids"]]
    def n(self, r): return sum(self.sizes(r))
    def refc(self, i): return sum(h["ids"].count(i) for h in self.h)
    def indep(self, r): return all(self.refc(i) == 1 for i in self.h[r]["ids"])
    def alloc(self, batches):
        ids = []
        for b in batches:
            self.heap[self.nxt] = list(b); ids.append(self.nxt); self.nxt += 1
        return ids
    def loc(self, r, k):
        for b, sz in enumerate(self.sizes(r)):
            if k < sz: return b, k
            k -= sz
        raise IndexError
    def chunk(self, szs, l):
        out = []; p = 0
        for z in szs: out.append(l[p:p + z]); p += z
        return out
    def apply(self, line):
        """returns 'EXC' when the documented behaviour is the exception of the independence check"""
        t = line.split(); c = t[0][1]; a = list(map(int, t[1:])); H = self.h
        if c == "N":
            r, n, m = a[0], a[1], a[2]; labs = a[3:3 + n]; ids = a[3 + n:3 + 2 * n]
            H[r] = {"ids": self.alloc(self.chunk(py_opt_sizes(n, 256 if m == 0 else m), list(zip(ids, labs)))), "si": self.shape0, "sl": "()"}
        elif c == "C": H[a[1]] = {"ids": list(H[a[0]]["ids"]), "si": H[a[0]]["si"], "sl": H[a[0]]["sl"]}
        elif c == "Z": H[a[0]] = {"ids": [], "si": "()", "sl": "()"}
        elif c == "I": H[a[1]] = {"ids": [H[a[0]]["ids"][i] for i in a[2:]], "si": H[a[0]]["si"], "sl": H[a[0]]["sl"]}
        elif c == "K":
            r, q, tt = a[0], a[1], a[2]; idx = a[3:]; src = H[r]["ids"]
            H[q] = {"ids": [src[i] for i in idx], "si": H[r]["si"], "sl": H[r]["sl"]}
            H[tt] = {"ids": [src[i] for i in range(len(src)) if i not in idx], "si": H[r]["si"], "sl": H[r]["sl"]}
        elif c == "L":
            r, q, b = a
            if not self.indep(r): return "EXC"
            src = H[r]["ids"]
            H[q] = {"ids": src[b:], "si": H[r]["si"], "sl": H[r]["sl"]}; H[r]["ids"] = src[:b]
        elif c == "A": H[a[0]]["ids"] = H[a[0]]["ids"] + H[a[1]]["ids"]
        elif c == "B": H[a[0]]["ids"] = H[a[0]]["ids"] + self.alloc([self.heap[H[a[1]]["ids"][a[2]]]])
        elif c == "W":
            b, j = self.loc(a[0], a[1]); self.heap[H[a[0]]["ids"][b]][j] = (a[2], a[3])
        elif c == "V": self.heap[H[a[0]]["ids"][a[1]]][a[2]] = (a[3], a[4])
        elif c == "M":
            if not self.indep(a[0]): H[a[0]]["ids"] = self.alloc(self.cont(a[0]))
        elif c == "P":
            if not self.indep(a[0]): return "EXC"
            H[a[0]]["ids"] = self.alloc(self.chunk(a[1:], flat(self.cont(a[0]))))
        elif c == "S":
            r, b, k = a
            if not self.indep(r): return "EXC"
            src = self.heap[H[r]["ids"][b]]
            if 0 < k < len(src): H[r]["ids"] = H[r]["ids"][:b] + self.alloc([src[:k], src[k:]]) + H[r]["ids"][b + 1:]
        elif c == "O":
            e = flat(self.cont(a[0])); H[a[0]]["ids"] = self.alloc(self.chunk(self.sizes(a[0]), [e[i] for i in a[1:]]))
        elif c == "G":
            r, k, m = a[0], a[1], a[2]; idx = a[3:]; e = flat(self.cont(r))
            parts = [[e[i] for i in range(len(e)) if idx[i] == p] for p in range(k)]
            batches = []; self.folds = []
            for pt in parts:
                bs = self.chunk(py_opt_sizes(len(pt), m), pt)
                self.folds.append(list(range(len(batches), len(batches) + len(bs)))); batches += bs
            H[r]["ids"] = self.alloc(batches)
            H[FD] = {"ids": list(H[r]["ids"]), "si": H[r]["si"], "sl": H[r]["sl"]}
        elif c in "TU":
            q, p = a; src = H[FD]["ids"]; f = self.folds[p]
            ix = f if c == "U" else [i for i in range(len(src)) if i not in f]
            H[q] = {"ids": [src[i] for i in ix], "si": H[FD]["si"], "sl": H[FD]["sl"]}
        elif c == "D": H[VD] = {"ids": list(H[a[0]]["ids"]), "si": H[a[0]]["si"], "sl": H[a[0]]["sl"]}
        elif c == "E":
            b, j = self.loc(VD, a[0]); self.heap[H[VD]["ids"][b]][j] = (a[1], a[2])
        return None

class GenShare:
    """histories of the sharing stream; every case opens with one of the aimed scenarios (write through a subset that shares
    with the original, write after makeIndependent, write through a fold's training part, empty containers, single-element
    batches) and goes on with random operations"""
    def __init__(self, rng, shape0, big): self.r = rng; self.shape0 = shape0; self.big = big
    def case(self):
        r = self.r; sim = ShareSim(self.shape0); lines = ["C %d" % r.randrange(1, 10**6)]
        nid = [1]; wid = [300]
        def emit(l):
            lines.append(l); return sim.apply(l)
        def new(reg, n=None, m=None):
            n = n or r.choice([1, 2, 3, 4, 5, 6, 7, 8, 9, 10] + ([14, 17] if self.big else []))
            m = m if m is not None else r.choice([1, 2, 3, 4, n, n + 1, 0])
            labs = [r.randrange(3) for _ in range(n)]; ids = list(range(nid[0], nid[0] + n)); nid[0] += n
            emit("XN %d %d %d %s %s" % (reg, n, m, " ".join(map(str, labs)), " ".join(map(str, ids))))
        def wr(reg, k=None):
            k = r.randrange(sim.n(reg)) if k is None else k
            wid[0] += 1; emit("XW %d %d %d %d" % (reg, k, wid[0], r.randrange(3)))
        def nonempty(): return [g for g in range(6) if sim.n(g) > 0]
        sc = r.randrange(7)
        if sc == 0:     # write through a subset that shares with the original (repeated index: the batch twice in one container)
            new(0); nb = len(sim.sizes(0))
            idx = [r.randrange(nb) for _ in range(r.randint(1, nb + 1))]
            emit("XI 0 1 %s" % " ".join(map(str, idx))); wr(1); wr(0)
        elif sc == 1:   # write after makeIndependent, on both sides
            new(0); emit("XC 0 1"); wr(1); emit("XM 1"); wr(1); wr(0); emit("XM 0"); wr(0)
        elif sc == 2:   # write through a fold's training / validation part, through the dataset of the fold object's owner
            new(0); n = sim.n(0); k = r.randint(1, min(4, n)); m = r.choice([1, 2, 3, 256])
            idx = [r.randrange(k) for _ in range(n)]; idx[r.randrange(n)] = k - 1
            emit("XC 0 2"); emit("XG 0 %d %d %s" % (k, m, " ".join(map(str, idx))))
            p = r.randrange(k); emit("XT 1 %d" % p)
            if sim.n(1): wr(1)
            emit("XU 3 %d" % r.randrange(k))
            if sim.n(3): wr(3)
            wr(0); wr(2)
        elif sc == 3:   # empty containers: empty subset, splice at 0 / at the end, cleared register
            new(0); emit("XI 0 1"); nb = len(sim.sizes(0)); emit("XL 0 2 %d" % r.choice([0, nb])); emit("XA 1 2"); emit("XZ 3"); emit("XC 3 4"); emit("XM 4")
            if sim.n(1): wr(1)
        elif sc == 4:   # single-element batches
            new(0, m=1); emit("XC 0 1"); wr(1); emit("XK 0 2 3 %s" % " ".join(map(str, r.sample(range(len(sim.sizes(0))), r.randint(0, len(sim.sizes(0)))))))
            if sim.n(2): wr(2)
            if sim.n(3): wr(3)
        elif sc == 5:   # operations that refuse a shared container, then accept it after makeIndependent
            new(0); emit("XC 0 1"); nb = len(sim.sizes(0))
            emit("XL 0 2 %d" % r.randint(0, nb)); emit("XS 1 0 %d" % r.randint(0, sim.sizes(1)[0])); emit("XP 0 %d" % sim.n(0))
            emit("XM 0"); emit("XL 0 2 %d" % r.randint(0, nb)); emit("XS 1 0 %d" % r.randint(0, sim.sizes(1)[0]))
        else:           # write through a DataView
            new(0); emit("XD 0"); wid[0] += 1; emit("XE %d %d %d" % (r.randrange(sim.n(0)), wid[0], r.randrange(3))); emit("XM 0")
            wid[0] += 1; emit("XE %d %d %d" % (r.randrange(sim.n(VD)), wid[0], r.randrange(3))); wr(0)
        for _ in range(r.randint(4, 22 if not self.big else 45)):
            ne = nonempty()
            if not ne: new(r.randrange(6)); continue
            if sum(len(h["ids"]) for h in sim.h) > 60: emit("XZ %d" % r.choice(ne)); continue
            g = r.choice(ne); sz = sim.sizes(g); n = sum(sz); nb = len(sz); x = r.random()
            others = [k for k in range(6) if k != g]
            if x < 0.06: new(r.randrange(6))
            elif x < 0.16: emit("XC %d %d" % (g, r.choice(others)))
            elif x < 0.19: emit("XZ %d" % g)
            elif x < 0.29: emit("XI %d %d %s" % (g, r.randrange(6), " ".join(str(r.randrange(nb)) for _ in range(r.randint(0, nb + 1)))))
            elif x < 0.34:
                q, t = r.sample(others, 2); emit("XK %d %d %d %s" % (g, q, t, " ".join(map(str, r.sample(range(nb), r.randint(0, nb))))))
            elif x < 0.40: emit("XL %d %d %d" % (g, r.choice(others), r.randint(0, nb)))
            elif x < 0.46: emit("XA %d %d" % (g, r.choice(others)))
            elif x < 0.50:
                q = r.choice(ne); emit("XB %d %d %d" % (g, q, r.randrange(len(sim.sizes(q)))))
            elif x < 0.66: wr(g)
            elif x < 0.72:
                b = r.randrange(nb)
                if sz[b]: wid[0] += 1; emit("XV %d %d %d %d %d" % (g, b, r.randrange(sz[b]), wid[0], r.randrange(3)))
            elif x < 0.80: emit("XM %d" % g)
            elif x < 0.85:
                parts = []; left = n
                while left > 0:
                    pp = r.randint(1, left); parts.append(pp); left -= pp
                emit("XP %d %s" % (g, " ".join(map(str, parts))))
            elif x < 0.89:
                b = r.randrange(nb); emit("XS %d %d %d" % (g, b, r.randint(0, sz[b])))
            elif x < 0.93:
                idx = list(range(n))
                if r.random() < 0.7: r.shuffle(idx)
                else: idx = [r.randrange(n) for _ in range(n)]
                emit("XO %d %s" % (g, " ".join(map(str, idx))))
            elif x < 0.96:
                k = r.randint(1, min(4, n)); m = r.choice([1, 2, 3, 256]); idx = [r.randrange(k) for _ in range(n)]; idx[r.randrange(n)] = k - 1
                emit("XG %d %d %d %s" % (g, k, m, " ".join(map(str, idx))))
            elif x < 0.98 and sim.folds: emit("X%s %d %d" % (r.choice("TU"), r.randrange(6), r.randrange(len(sim.folds))))
            elif x < 0.99: emit("XD %d" % g)
            elif sim.n(VD): wid[0] += 1; emit("XE %d %d %d" % (r.randrange(sim.n(VD)), wid[0], r.randrange(3)))
        return lines

def monitor_share(case, iout, shape0):
    """spec monitor of the sharing stream: the implementation's output against the documented discipline"""
    bad = []; sim = None
    def fail(i, msg): bad.append("line %d `%s`: %s" % (i, case[i][:60], msg))
    for i, (l, o) in enumerate(zip(case, iout)):
        t = l.split(); c = t[0]
        if c == "C": sim = ShareSim(shape0); continue
        d = fields(o)
        if "SIGNAL" in d: fail(i, "fatal signal %s in %s" % (o.split("SIGNAL")[1].strip(), c)); break
        if "STDEXC" in d: fail(i, "non-library exception: " + o.split("->")[1][:80]); break
        a = list(map(int, t[1:]))
        before = [sim.cont(h) for h in range(NH)]
        try:
            want = sim.apply(l)
        except (IndexError, KeyError, ValueError):
            fail(i, "operation outside the generator's domain"); break
        if want == "EXC":
            if "EXC" not in d: fail(i, "%s accepted a container that shares batches (documented: exception 'Container is not Independent')" % c)
            if bad: break
            continue
        if "EXC" in d:
            fail(i, "%s refused with an exception although %s" % (c, "the container is independent" if c[1] in "LPS" else "the operation is inside its documented domain")); break
        try:
            obs = [parse_ds(d["H%d" % h]) for h in range(NH)]
            if any(x is None for x in obs): fail(i, "label batches not aligned with input batches"); break
            after = [sim.cont(h) for h in range(NH)]
            isw = c[1] in "WVE"
            src = VD if c[1] == "E" else a[0]
            for h in range(NH):
                if obs[h] == after[h]: continue
                if isw:
                    if h == src: fail(i, "the written element is not where it was written :: H%d = %s, expected %s" % (h, obs[h], after[h]))
                    elif obs[h] == before[h]: fail(i, "write through H%d is not visible through H%d, which holds the same batch object" % (src, h))
                    elif after[h] == before[h]: fail(i, "write through H%d changed H%d, which shares no batch with it :: %s -> %s" % (src, h, before[h], obs[h]))
                    else: fail(i, "write through H%d: H%d holds unexpected elements :: %s, expected %s" % (src, h, obs[h], after[h]))
                elif after[h] == before[h]: fail(i, "%s changed container H%d which is not its target :: %s -> %s" % (c, h, before[h], obs[h]))
                else: fail(i, "%s: H%d does not hold the documented result :: %s, documented %s" % (c, h, obs[h], after[h]))
                break
            if bad: break
            for h in range(NH):
                if d.get("hs%d" % h) != sim.h[h]["si"] or d.get("hl%d" % h) != sim.h[h]["sl"]:
                    fail(i, "%s: element shape of H%d lost or changed :: %s / label %s, expected %s / %s" % (c, h, d.get("hs%d" % h), d.get("hl%d" % h), sim.h[h]["si"], sim.h[h]["sl"])); break
            if bad: break
            eq = ",".join("%d%d" % (x, y) for x in range(NH) for y in range(x + 1, NH) if sim.h[x]["ids"] and sim.h[x]["ids"] == sim.h[y]["ids"])
            eq = eq + "," if eq else "-"
            if d.get("eqi") != eq or d.get("eql") != eq: fail(i, "operator== (same batch objects) holds for other pairs of containers than documented :: %s / %s, expected %s" % (d.get("eqi"), d.get("eql"), eq)); break
            if c[1] == "G":
                folds = ";".join(",".join(map(str, f)) for f in sim.folds)
                if d.get("folds", "") not in (folds, True if folds == "" else folds): fail(i, "fold batch indices wrong :: %s, expected %s" % (d.get("folds"), folds)); break
        except (KeyError, IndexError, ValueError, TypeError) as ex:
            fail(i, "unparsable/incomplete output (%s): %s" % (type(ex).__name__, o[:120])); break
    return bad

# ------------------------------------------------------------------ weighted stream (C03Weighted.v)
def parse_w(sx):
    """'[10:0:21,11:1:23|12:2:25]' -> batches of (id,label,weight); None if malformed"""
    if "!" in sx or "?" in sx: return None
    sx = sx.strip()[1:-1]
    if sx == "": return []
    out = []
    for b in sx.split("|"):
        row = []
        for e in b.split(","):
            i, l, w = e.split(":"); w = float(w)
            row.append((int(i), int(l), int(w) if w == int(w) else w))
        out.append(row)
    return out

class GenWeighted:
    """histories over 4 registers of WeightedLabeledData: elements are ids, the weight of element id is 2*id+1 (distinct), so a
    weight that leaves its element is visible; uniform weights, subsets, splice, append, repartition, splitBatch, bootstrap"""
    def __init__(self, rng, big): self.r = rng; self.big = big
    def case(self):
        r = self.r; lines = ["C %d" % r.randrange(1, 10**6)]; sizes = {}; nid = [1]
        def new(reg):
            n = r.choice([1, 2, 3, 4, 5, 6, 7, 8, 9, 10, 12] + ([17, 25] if self.big else [])); m = r.choice([0, 1, 2, 3, 4, n, n + 1])
            labs = [r.randrange(3) for _ in range(n)]; ids = list(range(nid[0], nid[0] + n)); nid[0] += n
            lines.append("QN %d %d %d %s %s %s" % (reg, n, m, " ".join(map(str, labs)), " ".join(map(str, ids)), " ".join(str(2 * i + 1) for i in ids)))
            sizes[reg] = py_opt_sizes(n, 256 if m == 0 else m)
        new(0)
        for _ in range(r.randint(3, 18 if not self.big else 40)):
            regs = [k for k in sizes if sizes[k]]
            if not regs: new(0); continue
            g = r.choice(regs); sz = sizes[g]; n = sum(sz); nb = len(sz); x = r.random(); others = [k for k in range(4) if k != g]
            if x < 0.08: new(r.randrange(4))
            elif x < 0.18: q = r.choice(others); lines.append("QU %d %d %d" % (g, q, r.choice([0, 1, 2, 5]))); sizes[q] = list(sz)
            elif x < 0.32:
                q = r.choice(others); idx = [r.randrange(nb) for _ in range(r.randint(0, nb + 1))]
                lines.append("QI %d %d %s" % (g, q, " ".join(map(str, idx)))); sizes[q] = [sz[i] for i in idx]
            elif x < 0.44: q = r.choice(others); b = r.randint(0, nb); lines.append("QL %d %d %d" % (g, q, b)); sizes[g] = sz[:b]; sizes[q] = sz[b:]
            elif x < 0.54 and len(regs) > 1: q = r.choice([k for k in regs if k != g]); lines.append("QA %d %d" % (g, q)); sizes[g] = sz + sizes[q]
            elif x < 0.66:
                parts = []; left = n
                while left > 0:
                    pp = r.randint(1, left); parts.append(pp); left -= pp
                lines.append("QP %d %s" % (g, " ".join(map(str, parts)))); sizes[g] = parts
            elif x < 0.76:
                b = r.randrange(nb); k = r.randint(0, sz[b]); lines.append("QS %d %d %d" % (g, b, k))
                if 0 < k < sz[b]: sizes[g] = sz[:b] + [k, sz[b] - k] + sz[b + 1:]
            elif x < 0.92:
                # bootstrap: default size, size = n, size < n (every element must still be drawable), size > n (must not throw)
                q = r.choice(others); size = r.choice([0, n, max(1, n // 3), 1, 2 * n, n + 3]); lines.append("QB %d %d %d" % (g, q, size)); sizes[q] = list(sz)
            else: lines.append("QX %d" % g)
        return lines

def resolve_w(case, iout):
    """bootstrap: hand the model a draw sequence with the counts the library produced (the result depends on the counts only:
    C03_bootstrap_counts)"""
    res = []
    for l, o in zip(case, iout):
        t = l.split(); new = l
        if t[0] == "QB":
            try:
                ws = [e[2] for e in flat(parse_w(fields(o)["Q%s" % t[2]]))]
                new = l + " " + " ".join(str(i) for i, w in enumerate(ws) for _ in range(int(w)))
            except Exception: new = l
        res.append(new)
    return res

BOOT_STAT = {"small": 0, "beyond": 0}

def monitor_w(case, iout, prop):
    bad = []; Q = {}; sh = {}
    def fail(i, msg): bad.append("line %d `%s`: %s" % (i, case[i][:60], msg))
    for i, (l, o) in enumerate(zip(case, iout)):
        t = l.split(); c = t[0]
        if c == "C": Q = {}; sh = {}; continue
        d = fields(o)
        if "SIGNAL" in d: fail(i, "fatal signal %s in %s" % (o.split("SIGNAL")[1].strip(), c)); break
        if "STDEXC" in d: fail(i, "non-library exception: " + o.split("->")[1][:80]); break
        if "EXC" in d:
            fail(i, "bootstrap:index-range :: library exception in bootstrap(dataset, size)" if c == "QB" else "library exception on an operation inside its documented domain"); break
        a = list(map(int, t[1:])); old = dict(Q); oldsh = dict(sh)
        try:
            for k, v in d.items():
                m = re.match(r"Q(\d)$", k)
                if m:
                    pv = parse_w(v)
                    if pv is None: fail(i, "%s: label / weight batches not aligned with the input batches :: %s" % (k, v[:80])); break
                    Q[int(m.group(1))] = pv
                m = re.match(r"qs(\d)$", k)
                if m: sh[int(m.group(1))] = v
            if bad: break
            for k, v in d.items():
                m = re.match(r"sumw(\d)$", k)
                if m:
                    r_ = int(m.group(1)); want = sum(e[2] for e in flat(Q[r_]))
                    if float(v) != want: fail(i, "sumOfWeights = %s, the weights sum to %s" % (v, want))
                    if flat(Q[r_]):
                        ncl = max(e[1] for e in flat(Q[r_])) + 1; cw = [sum(e[2] for e in flat(Q[r_]) if e[1] == cl) for cl in range(ncl)]
                        if [float(x) for x in d.get("cw%d" % r_, "").split(",")] != [float(x) for x in cw]: fail(i, "classWeight = %s, the class sums are %s" % (d.get("cw%d" % r_), cw))
            if bad: break
            if c == "QN":
                r_, n, m = a[0], a[1], a[2]; labs = a[3:3 + n]; ids = a[3 + n:3 + 2 * n]; ws = a[3 + 2 * n:3 + 3 * n]
                if flat(Q[r_]) != list(zip(ids, labs, ws)): fail(i, "created weighted dataset does not hold (input, label, weight) i at position i")
            elif c == "QU":
                r_, q, w = a
                if [[(e[0], e[1]) for e in b] for b in Q[q]] != [[(e[0], e[1]) for e in b] for b in old[r_]]: fail(i, "uniform-weight construction changed the data")
                if any(e[2] != w for e in flat(Q[q])): fail(i, "uniform-weight construction: a weight differs from %d" % w)
                if sh.get(q) != oldsh.get(r_): fail(i, "element shape lost :: %s -> %s" % (oldsh.get(r_), sh.get(q)))
            elif c == "QI":
                r_, q = a[0], a[1]
                if Q[q] != [old[r_][k] for k in a[2:]]: fail(i, "indexedSubset separated a weight from its element or returned other batches")
                if sh.get(q) != oldsh.get(r_): fail(i, "element shape lost :: %s -> %s" % (oldsh.get(r_), sh.get(q)))
            elif c == "QL":
                r_, q, b = a
                if Q[r_] != old[r_][:b] or Q[q] != old[r_][b:]: fail(i, "splice: left / right are not the batches before / from the cut with their weights")
                if sh.get(q) != oldsh.get(r_) or sh.get(r_) != oldsh.get(r_): fail(i, "element shape lost :: %s -> %s / %s" % (oldsh.get(r_), sh.get(r_), sh.get(q)))
            elif c == "QA":
                if Q[a[0]] != old[a[0]] + old[a[1]]: fail(i, "append is not the concatenation of the weighted batches")
            elif c in ("QP", "QS"):
                if flat(Q[a[0]]) != flat(old[a[0]]): fail(i, "a weight left its element (or order changed)")
                if c == "QP" and [len(b) for b in Q[a[0]]] != a[1:]: fail(i, "batch sizes differ from the requested partitioning")
                if sh.get(a[0]) != oldsh.get(a[0]): fail(i, "element shape lost :: %s -> %s" % (oldsh.get(a[0]), sh.get(a[0])))
            elif c == "QB":
                r_, q, size = a[0], a[1], a[2]; n = len(flat(old[r_])); size = size or n
                if [[(e[0], e[1]) for e in b] for b in Q[q]] != [[(e[0], e[1]) for e in b] for b in old[r_]]: fail(i, "bootstrap changed the data or its batches")
                ws = [e[2] for e in flat(Q[q])]
                if any(w < 0 or w != int(w) for w in ws): fail(i, "bootstrap:index-range :: a bootstrap weight is not a non-negative integer: %s" % ws)
                elif sum(ws) != size: fail(i, "bootstrap:index-range :: bootstrap weights sum to %s, %d draws were requested" % (sum(ws), size))
                if sh.get(q) != oldsh.get(r_): fail(i, "element shape lost :: %s -> %s" % (oldsh.get(r_), sh.get(q)))
                if size < n:
                    BOOT_STAT["small"] += 1
                    if any(w > 0 for w in ws[size:]): BOOT_STAT["beyond"] += 1
            elif c == "QX":
                if d.get("wi") not in (None, "NA"):
                    want = "[" + "|".join(",".join("%d:%s" % (e[0], e[2]) for e in b) for b in Q[a[0]]) + "]"
                    if d["wi"] != want: fail(i, "weightedInputs: inputs and weights are not the ones of the dataset :: %s, expected %s" % (d["wi"], want))
        except (KeyError, IndexError, ValueError, TypeError) as ex:
            fail(i, "unparsable/incomplete output (%s): %s" % (type(ex).__name__, o[:120]))
        if bad: break
    return bad

def valid_w(lines, mout):
    Q = {}
    for l, o in zip(lines, mout):
        t = l.split()
        if t[0] == "C": Q = {}; continue
        if not t[0].startswith("Q"): return False
        if t[0] != "QN":
            regs = [int(t[1])] + ([int(t[2])] if t[0] == "QA" else [])
            if any(not Q.get(r) for r in regs): return False
        for k, v in fields(o).items():
            m = re.match(r"Q(\d)$", k)
            if m: Q[int(m.group(1))] = parse_w(v) if isinstance(v, str) else None
    return True

# ------------------------------------------------------------------ state tracking from implementation output
class Track:
    """register contents as printed by the implementation"""
    def __init__(self): self.R = {}; self.shape = {}
    def update(self, d):
        for k, v in d.items():
            m = re.match(r"R(\d)$", k)
            if m: self.R[int(m.group(1))] = parse_ds(v)
            m = re.match(r"shape(\d)$", k)
            if m: self.shape[int(m.group(1))] = v

def resolve(case, iout):
    """rewrite lines with library-internal random choices into explicit-choice lines for the model"""
    tr = Track(); res = []
    for l, o in zip(case, iout):
        t = l.split(); d = fields(o); c = t[0]
        new = l
        try:
            if c == "H":
                r = int(t[1]); old = flat(tr.R[r]); newe = flat(parse_ds(d["R%d" % r]))
                pos = {}
                for i, e in enumerate(old): pos.setdefault(e, []).append(i)     # duplicates: any unused position
                new = "O %d %s" % (r, " ".join(str(pos[e].pop(0)) for e in newe))
            elif c == "CS":
                r = int(t[1]); old = flat(tr.R[r]); newe = flat(parse_ds(d["R%d" % r]))
                pos = {}
                for i, e in enumerate(old): pos.setdefault(e, []).append(i)
                new = l + " " + " ".join(str(pos[e].pop(0)) for e in newe)
            elif c == "CB":
                r = int(t[1]); old = flat(tr.R[r]); labs = [e[1] for e in old]
                nc = max(labs) + 1 if labs else 0
                cs = [labs.count(k) for k in range(nc)]
                new = l + " %d %s %s" % (nc, " ".join(map(str, cs)), d["rfirst"].replace(",", " "))
            elif c == "CT":
                new = l + " " + d["folds"].replace(";", " ").replace(",", " ")
            elif c == "CR":
                r = int(t[1]); old = flat(tr.R[r]); k = int(t[2])
                foldof = {}
                for p in range(k):
                    v = parse_ds(d.get("val%d" % p, "[]")) or []
                    for e in flat(v): foldof[e[0]] = p
                new = "CR %s %s %s %s" % (t[1], t[2], t[3], " ".join(str(foldof[e[0]]) for e in old))   # createCVIID with the drawn folds
        except Exception as ex:
            new = l   # unresolvable (crash/exception on the implementation side): the model line stays, outputs will differ
        tr.update(d)
        res.append(new)
    return res

# ------------------------------------------------------------------ spec monitor on the implementation output
def ms(l): return sorted(l)

def opt_sizes(n, m):
    """detail::optimalBatchSizes, independent of the Coq model"""
    if n == 0: return []
    b = (n + m - 1) // m; q = n // b; rem = n - b * q
    return [q + 1] * rem + [q] * (b - rem)

def monitor(case, iout, prop):
    bad = []; tr = Track()
    def fail(i, msg): bad.append("line %d `%s`: %s" % (i, case[i][:60], msg))
    for i, (l, o) in enumerate(zip(case, iout)):
        t = l.split(); c = t[0]
        if c == "C": tr = Track(); continue
        d = fields(o)
        if "SIGNAL" in d: fail(i, "fatal signal %s in %s" % (o.split("SIGNAL")[1].strip(), c)); break
        if "STDEXC" in d: fail(i, "non-library exception: " + o.split("->")[1][:80]); break
        if "EXC" in d:
            if c != "Y": fail(i, "library exception on an operation inside its documented domain")
            break
        a = list(map(int, t[1:]))
        old = {k: v for k, v in tr.R.items()}
        oldshape = dict(tr.shape)
        tr.update(d)
        # every printed dataset must be well-formed (labels aligned with inputs)
        for k, v in d.items():
            if re.match(r"(R\d|val\d+|train\d+)$", k) and parse_ds(v) is None:
                fail(i, "%s: label batches not aligned with input batches: %s" % (k, v[:80]))
        if bad: break
        R = tr.R
        try:
            if c == "N":
                r, n, m = a[0], a[1], a[2]; labs = a[3:3 + n]; ids = a[3 + n:3 + 2 * n]
                if flat(R[r]) != list(zip(ids, labs)): fail(i, "created dataset does not hold the range in order")
                mm = 256 if m == 0 else m
                if any(len(b) > mm or len(b) == 0 for b in R[r]): fail(i, "batch size outside [1,max]")
            elif c in ("P", "S"):
                r = a[0]
                if flat(R[r]) != flat(old[r]): fail(i, "elements/order/pairing changed")
                if c == "P" and [len(b) for b in R[r]] != a[1:]: fail(i, "batch sizes differ from the requested partitioning")
                if d.get("shape%d" % r) != oldshape.get(r): fail(i, "repartition/splitBatch: element shape lost: %s -> %s" % (oldshape.get(r), d.get("shape%d" % r)))
            elif c in ("L", "T"):
                r, q = a[0], a[1]
                if flat(R[r]) + flat(R[q]) != flat(old[r]): fail(i, "left ++ right != original")
                if c == "T" and len(flat(R[r])) != a[2]: fail(i, "split point wrong")
                if c == "L" and R[r] != old[r][:a[2]]: fail(i, "splice cut at the wrong batch")
                if d.get("shape%d" % r) != oldshape.get(r) or d.get("shape%d" % q) != oldshape.get(r):
                    fail(i, "splice/splitAtElement: element shape lost: %s -> left %s, right %s" % (oldshape.get(r), d.get("shape%d" % r), d.get("shape%d" % q)))
            elif c == "A":
                r, q = a[0], a[1]
                if R[r] != old[r] + old[q]: fail(i, "append is not concatenation of the batch lists")
            elif c == "O":
                r = a[0]; e = flat(old[r])
                if flat(R[r]) != [e[k] for k in a[1:]]: fail(i, "reorderElements is not the documented gather")
                if [len(b) for b in R[r]] != [len(b) for b in old[r]]: fail(i, "batch structure changed")
                if d.get("shape%d" % r) != oldshape.get(r): fail(i, "reorderElements: element shape lost: %s -> %s" % (oldshape.get(r), d.get("shape%d" % r)))
            elif c == "H":
                r = a[0]
                if ms(flat(R[r])) != ms(flat(old[r])): fail(i, "shuffle changed the multiset of labelled elements")
                if [len(b) for b in R[r]] != [len(b) for b in old[r]]: fail(i, "batch structure changed")
            elif c == "I":
                r, q = a[0], a[1]
                if R[q] != [old[r][k] for k in a[2:]]: fail(i, "indexedSubset does not return the indexed batches")
                if d.get("shape%d" % q) != oldshape.get(r): fail(i, "indexedSubset: element shape lost: %s -> %s" % (oldshape.get(r), d.get("shape%d" % q)))
            elif c == "K":
                r, q, t = a[0], a[1], a[2]; idx = a[3:]
                if R[q] != [old[r][k] for k in idx]: fail(i, "indexedSubset(idx,subset,complement): subset is not the indexed batches")
                if R[t] != [old[r][k] for k in range(len(old[r])) if k not in idx]: fail(i, "indexedSubset(idx,subset,complement): complement is not the remaining batches in order")
                if d.get("shape%d" % q) != oldshape.get(r) or d.get("shape%d" % t) != oldshape.get(r):
                    fail(i, "indexedSubset(idx,subset,complement): element shape lost: %s -> subset %s, complement %s" % (oldshape.get(r), d.get("shape%d" % q), d.get("shape%d" % t)))
            elif c == "B":
                r = a[0]; e = flat(old[r]); want = sorted(e, key=lambda x: x[1])   # stable by class
                if flat(R[r]) != want: fail(i, "repartitionByClass: not the class-stable order")
                if any(len(set(x[1] for x in b)) > 1 for b in R[r]): fail(i, "a batch mixes classes")
                if any(len(b) > a[1] or not b for b in R[r]): fail(i, "batch size outside [1,max]")
            elif c == "Y":
                r, q, z, on = a
                e = flat(old[r]);
                want = [(x[0], 1 if x[1] == on else 0) for x in e if x[1] in (z, on)]
                if "R%d" % q in d and z != on and ms(flat(R[q])) != ms(want): fail(i, "binarySubProblem: wrong elements/labels")
                labs = [x[1] for x in e]
                sortedb = all(b and len(set(x[1] for x in b)) == 1 for b in old[r]) and labs == sorted(labs)
                if sortedb and z != on:
                    # documented precondition holds (class-sorted batches): exact result
                    if z in labs and on in labs:
                        if "R%d" % q not in d: fail(i, "binarySubProblem: no result although both classes are present")
                        elif flat(R[q]) != want: fail(i, "binarySubProblem: not exactly the elements of the two classes in order, relabelled")
                        elif R[q] != [[(x[0], 1 if x[1] == on else 0) for x in b] for b in old[r] if b[0][1] in (z, on)]:
                            fail(i, "binarySubProblem: result batches are not the batches of the two classes")
            elif c == "E":
                r = a[0]; e = flat(R[r])[a[1]]
                if d.get("elem") != "%d:%d" % e or d.get("view") != "%d:%d" % e: fail(i, "element(i)/view[i] != i-th element of the batch sequence")
                if d.get("din") != "%d:%d" % e: fail(i, "inputs().element(i) / labels().element(i) give %s, the i-th element of the batch sequence is %d:%d" % ((d.get("din"),) + e))
                if d.get("crange") != str(len(flat(R[r]))): fail(i, "a const element range converted from elements() iterates %s elements, the dataset has %d" % (d.get("crange"), len(flat(R[r]))))
                if d.get("cidx") != str(a[1]) or d.get("cderef") != str(e[0]): fail(i, "a const element iterator converted from begin()+%d reports index %s / element %s" % (a[1], d.get("cidx"), d.get("cderef")))
            elif c == "J":
                r = a[0]; e = flat(R[r]); idx = a[1] - a[3] if a[2] else a[1] + a[3]
                if int(d["idx"]) != idx: fail(i, "iterator index wrong")
                if idx < len(e) and d["deref"] != "%d:%d" % e[idx]: fail(i, "iterator dereferences %s, element %d is %s" % (d["deref"], idx, e[idx]))
                if idx + 1 < len(e) and d["rt"] != str(e[idx][0]): fail(i, "++ then -- is not the identity")
                if 0 < idx < len(e) and d["prev"] != str(e[idx - 1][0]): fail(i, "-- does not reach the previous element")
                if idx < len(e) and d.get("walk", "-") != "-":
                    wi = idx; want = []
                    for op in (-1, -1, 1, 1, 1, -1):
                        if op < 0:
                            if wi == 0: continue
                            wi -= 1
                        else:
                            if wi + 1 >= len(e): continue
                            wi += 1
                        want.append("%d/%d" % (wi, e[wi][0]))
                    if d["walk"] != ",".join(want): fail(i, "one iterator walked -- -- ++ ++ ++ -- from index %d visits %s (index/element), the elements at those indices are %s" % (idx, d["walk"], ",".join(want)))
            elif c == "V":
                r, q, bs = a[0], a[1], a[2]; e = flat(old[r])
                if flat(R[q]) != [e[k] for k in a[3:]]: fail(i, "toDataset(subset(view)) holds other elements")
                if bs and any(len(b) > bs for b in R[q]): fail(i, "batch larger than requested")
            elif c == "W":
                r, q, bs, n1 = a[0], a[1], a[2], a[3]; e = flat(old[r]); i1 = a[4:4 + n1]; i2 = a[4 + n1:]
                comp = [i1[j] for j in i2]
                if flat(R[q]) != [e[k] for k in comp]: fail(i, "toDataset(subset(subset(view))) holds other elements than the composed indices select")
                if d.get("vidx") != ",".join(map(str, comp)): fail(i, "view index() of a subset of a subset is not the composed index")
                if bs and any(len(b) > bs for b in R[q]): fail(i, "batch larger than requested")
                if any(not b for b in R[q]): fail(i, "empty batch")
            elif c == "F":
                r = a[0]
                if flat(R[r]) != [(x[0] + a[1], x[1]) for x in flat(old[r])] or [len(b) for b in R[r]] != [len(b) for b in old[r]]:
                    fail(i, "transformInputs changed order/labels/batches")
            elif c in ("CS", "CI", "CF", "CB", "CT", "CR"):
                r = a[0]; k = a[1]; e = flat(old[r]); newe = flat(R[r])
                if ms(newe) != ms(e): fail(i, "reorganised set is not a permutation of the original labelled elements")
                vals = [parse_ds(d["val%d" % p]) for p in range(k)]; trs = [parse_ds(d["train%d" % p]) for p in range(k)]
                allv = [x for v in vals for x in flat(v)]
                if ms(allv) != ms(e): fail(i, "validation parts do not partition the data (sizes %s)" % [len(flat(v)) for v in vals])
                for p in range(k):
                    if ms(flat(vals[p]) + flat(trs[p])) != ms(e): fail(i, "training part %d is not the complement of its validation part" % p); break
                vs = [len(flat(v)) for v in vals]
                if c in ("CS", "CB") and max(vs) - min(vs) > 1: fail(i, "fold sizes differ by more than one: %s" % vs)
                if c == "CB":
                    for cl in set(x[1] for x in e):
                        cc = [sum(1 for x in flat(v) if x[1] == cl) for v in vals]
                        if max(cc) - min(cc) > 1: fail(i, "class %d counts per fold differ by more than one: %s" % (cl, cc)); break
                        # the dealing continues across class borders: the n_c mod k extra members of class cl go to the
                        # folds off, off+1, ... (mod k), off = number of members of the smaller classes
                        ncl = sum(1 for x in e if x[1] == cl); off = sum(1 for x in e if x[1] < cl)
                        exp = [ncl // k + (1 if any((off + j) % k == p for j in range(ncl % k)) else 0) for p in range(k)]
                        if cc != exp: fail(i, "class %d counts per fold %s are not the round-robin counts %s" % (cl, cc, exp)); break
                if c == "CI":
                    idx = a[3:]
                    for pos, x in enumerate(e):
                        if x not in flat(vals[idx[pos]]): fail(i, "element %d is not in its requested fold %d" % (pos, idx[pos])); break
                if c == "CF":
                    n = len(e); first = a[3:3 + n]; second = a[3 + n:]
                    for tt in range(n):
                        if e[first[tt]] not in flat(vals[second[tt]]): fail(i, "element %d is not in its requested fold" % first[tt]); break
                if c != "CT":
                    m = a[2]
                    if any(len(b) > m or not b for b in R[r]): fail(i, "batch size outside [1,max]")
                # the harness marks the shapes before the call (label shape (k+3); a default 0-D input shape becomes (k+5))
                wish = oldshape.get(r); wish = "(%d)" % (k + 5) if wish == "()" else wish
                wlsh = "(%d)" % (k + 3)
                if d.get("shape%d" % r) != wish: fail(i, "element shape lost: %s -> %s" % (wish, d.get("shape%d" % r)))
                if d.get("lshape") != wlsh: fail(i, "label shape lost: %s -> %s" % (wlsh, d.get("lshape")))
                for p in range(k):
                    if d.get("vshape%d" % p) != wish or d.get("tshape%d" % p) != wish:
                        fail(i, "fold %d: element shape lost (validation %s, training %s, dataset %s)" % (p, d.get("vshape%d" % p), d.get("tshape%d" % p), wish)); break
                    if d.get("vlshape%d" % p) != wlsh or d.get("tlshape%d" % p) != wlsh:
                        fail(i, "fold %d: label shape lost (validation %s, training %s, dataset %s)" % (p, d.get("vlshape%d" % p), d.get("tlshape%d" % p), wlsh)); break
                folds = [[int(x) for x in f.split(",")] if f else [] for f in d["folds"].split(";")] if d.get("folds") not in (None, True) else [[] for _ in range(k)]
                if len(folds) != k: fail(i, "%d folds instead of %d" % (len(folds), k))
                if c != "CT":
                    # contiguous layout: the batches of fold 0, then fold 1, ...; every fold cut by optimalBatchSizes
                    m = a[2]
                    if [b for v in vals for b in v] != R[r]: fail(i, "the reorganised set is not the validation parts one after the other")
                    nb0 = 0
                    for p in range(k):
                        if folds[p] != list(range(nb0, nb0 + len(vals[p]))): fail(i, "fold %d: batch indices %s are not the next %d batches" % (p, folds[p], len(vals[p]))); break
                        nb0 += len(vals[p])
                        if [len(b) for b in vals[p]] != opt_sizes(len(flat(vals[p])), m): fail(i, "fold %d: batch sizes %s are not optimalBatchSizes(%d,%d)" % (p, [len(b) for b in vals[p]], len(flat(vals[p])), m)); break
                        if trs[p] != [b for q in range(k) if q != p for b in vals[q]]: fail(i, "training part %d is not the batches of the other folds in order" % p); break
                    if c in ("CS", "CB") and vs != [len(e) // k + (1 if p < len(e) % k else 0) for p in range(k)]: fail(i, "fold sizes %s: the first n mod k folds must get one more" % vs)
                    if c in ("CI", "CR", "CF"):
                        if c == "CF": n = len(e); src = a[3:3 + n]; fo = a[3 + n:]
                        elif c == "CI": fo = a[3:]; src = list(range(len(e)))
                        else:
                            pos = {x: j for j, x in enumerate(e)}; src = list(range(len(e))); fo = [None] * len(e)
                            for p in range(k):
                                for x in flat(vals[p]): fo[pos[x]] = p
                        for p in range(k):
                            if flat(vals[p]) != [e[src[tt]] for tt in range(len(e)) if fo[tt] == p]: fail(i, "fold %d does not hold its elements in the order of the index vector" % p); break
                else:
                    nb = len(old[r])
                    if R[r] != old[r]: fail(i, "createCVBatch changed the dataset")
                    if sorted(x for f in folds for x in f) != list(range(nb)): fail(i, "the folds %s are not a partition of the %d batch indices" % (folds, nb))
                    if [len(f) for f in folds] != [nb // k + (1 if p < nb % k else 0) for p in range(k)]: fail(i, "batches per fold %s: the first nb mod k folds must get one more" % [len(f) for f in folds])
                    for p in range(k):
                        if vals[p] != [old[r][j] for j in folds[p]]: fail(i, "validation part %d is not the batches of its fold" % p); break
                        if trs[p] != [old[r][j] for j in range(nb) if j not in folds[p]]: fail(i, "training part %d is not the remaining batches in order" % p); break
        except (KeyError, IndexError, ValueError, TypeError) as ex:
            fail(i, "unparsable/incomplete output (%s): %s" % (type(ex).__name__, o[:120]))
        if bad: break
    return bad

def valid_case(lines, mout):
    """shrunk candidates must stay inside the generator's domain: no operation on an empty register"""
    tr = Track()
    for l, o in zip(lines, mout):
        t = l.split()
        if t[0] == "C": tr = Track(); continue
        if t[0] != "N":
            regs = [int(t[1])] + ([int(t[2])] if t[0] == "A" else [])
            if any(not tr.R.get(r) for r in regs): return False
        tr.update(fields(o))
    return True

def valid_share(lines, mout):
    """shrunk candidates of the sharing stream must stay inside the generator's domain"""
    sim = None
    for l in lines:
        t = l.split()
        if t[0] == "C": sim = ShareSim("()"); continue
        if sim is None or not t[0].startswith("X"): return False
        a = list(map(int, t[1:])); c = t[0][1]
        try:
            regs = {"N": [], "C": [a[0]], "Z": [], "I": [a[0]], "K": [a[0]], "L": [a[0]], "A": [a[0]], "B": [a[0], a[1]], "W": [a[0]], "V": [a[0]],
                    "M": [], "P": [a[0]], "S": [a[0]], "O": [a[0]], "G": [a[0]], "T": [], "U": [], "D": [a[0]], "E": [VD]}[c]
            if any(not sim.h[r]["ids"] for r in regs): return False
            if c in "TU" and a[1] >= len(sim.folds): return False
            if c in "WE" and a[0 if c == "E" else 1] >= sim.n(VD if c == "E" else a[0]): return False
            if c == "V" and (a[1] >= len(sim.sizes(a[0])) or a[2] >= sim.sizes(a[0])[a[1]]): return False
            if c == "P" and sum(a[1:]) != sim.n(a[0]) or c == "P" and 0 in a[1:]: return False
            if c == "O" and (len(a[1:]) != sim.n(a[0]) or any(x >= sim.n(a[0]) for x in a[1:])): return False
            if c == "G" and (len(a[3:]) != sim.n(a[0]) or max(a[3:]) + 1 != a[1]): return False
            if c in "IK" and any(x >= len(sim.sizes(a[0])) for x in a[(2 if c == "I" else 3):]): return False
            if c in "L" and a[2] > len(sim.sizes(a[0])): return False
            if c == "S" and (a[1] >= len(sim.sizes(a[0])) or a[2] > sim.sizes(a[0])[a[1]]): return False
            if c == "B" and a[2] >= len(sim.sizes(a[1])): return False
            sim.apply(l)
        except (IndexError, KeyError, ValueError): return False
    return True

def truncate_rejects(mout):
    for i, o in enumerate(mout):
        if o.endswith("REJECT"): return i
    return None

def main():
    ck = Check(PROP)
    ck.trusted = DEFAULT_TRUSTED + ["modelled not verified: std::shuffle / random::globalRng (the permutation actually drawn is read back from the output and handed to the model as an explicit argument; theorems quantify over all permutations), boost::shared_ptr reference counting itself (the sharing discipline built on it is modelled by C03Heap.v and compared on every line of the sharing stream; in the basic and weighted streams the harness calls makeIndependent() where the API requires it), std::sort in detail::complement (modelled by insertion sort)"]
    ck.assumptions = ["operations respect the documented preconditions (indices in range, partition sums equal the element count, non-empty ranges)"]
    ck.proofs()
    model = extract_model("C03", "C03Extract.v", "c03_driver.ml")
    exe, err = cxx_build("c03_data", [os.path.join(ROOT, "harness", "c03_data.cpp")] + repo_src("src/Core/Random.cpp"))
    if exe is None:
        ck.oblige("harness builds against /repo", False, err); ck.finish()
    big = ck.tier == "thorough"
    total_eval = 0; samples = []; distinct = set(); opmix = {}
    types = ["dense", "uint", "sparse"]
    share_replay = bool(ck.replay) and any(l.startswith("X") for l in open(ck.replay).read().split("\n"))
    weighted_replay = bool(ck.replay) and any(l.startswith("Q") for l in open(ck.replay).read().split("\n"))
    for ty in types:
        if share_replay or weighted_replay or STREAM not in ("all", "basic"): break
        tmpd = os.path.join(BUILD, "tmp", PROP, ty)
        gen = Gen(ck.rng, PROP, big)
        ncases = (250 if ty != "sparse" else 120) if not big else (3000 if ty != "sparse" else 1200)
        cases = []
        cdir = os.path.join(ROOT, "corpus", PROP)
        if ck.replay:
            cases = [[l for l in open(ck.replay).read().split("\n") if l.strip() and not l.startswith("#")]]
        else:
            if os.path.isdir(cdir):
                for f in sorted(os.listdir(cdir)):
                    cases.append([l for l in open(os.path.join(cdir, f)).read().split("\n") if l.strip() and not l.startswith("#")])
            cases += [gen.case() for _ in range(ncases)]
        os.makedirs(tmpd, exist_ok=True)
        r = correspond2(ck, cases, model, exe, ty, tmpd)
        total_eval += sum(len(c) for c in cases)
        for c in cases:
            distinct.add(ty + "|" + "\n".join(c))
            for l in c: opmix[l.split()[0]] = opmix.get(l.split()[0], 0) + 1
        samples.append({"type": ty, "case": cases[-1]})
        if ck.violations: break
    # ---- sharing stream (C03 only): the heap model of C03Heap.v next to the real containers, every handle observed after every operation
    if PROP == "C03" and not ck.violations and STREAM in ("all", "share"):
        for ty in types:
            shape0 = {"dense": "(2)", "sparse": "(7)", "uint": "()"}[ty]
            tmpd = os.path.join(BUILD, "tmp", PROP, "share_" + ty); os.makedirs(tmpd, exist_ok=True)
            gen = GenShare(ck.rng, shape0, big)
            if ck.replay: cases = [[l for l in open(ck.replay).read().split("\n") if l.strip() and not l.startswith("#")]]
            else: cases = [gen.case() for _ in range((160 if ty != "sparse" else 80) if not big else (2000 if ty != "sparse" else 800))]
            if ck.replay and not share_replay: break
            correspond2(ck, cases, model, exe, ty, tmpd, monitor=lambda c, b, prop, sh=shape0: monitor_share(c, b, sh),
                        resolve=lambda c, o: list(c), valid_case=valid_share, what="heap model (C03Heap.v) vs shark::LabeledData sharing histories")
            total_eval += sum(len(c) for c in cases)
            for c in cases:
                distinct.add("share|" + ty + "|" + "\n".join(c))
                for l in c: opmix[l.split()[0]] = opmix.get(l.split()[0], 0) + 1
            samples.append({"type": ty, "stream": "sharing", "case": cases[-1]})
            if ck.violations: break
    # ---- weighted stream (C03 only): WeightedLabeledData next to the list model + C03Weighted.v
    if PROP == "C03" and not ck.violations and STREAM in ("all", "weighted"):
        for ty in types:
            tmpd = os.path.join(BUILD, "tmp", PROP, "weighted_" + ty); os.makedirs(tmpd, exist_ok=True)
            gen = GenWeighted(ck.rng, big)
            if ck.replay: cases = [[l for l in open(ck.replay).read().split("\n") if l.strip() and not l.startswith("#")]]
            else: cases = [gen.case() for _ in range((120 if ty != "sparse" else 60) if not big else (1500 if ty != "sparse" else 600))]
            if ck.replay and not weighted_replay: break
            correspond2(ck, cases, model, exe, ty, tmpd, monitor=monitor_w, resolve=resolve_w, valid_case=valid_w,
                        what="weighted containers (C03Weighted.v) vs shark::WeightedLabeledData")
            total_eval += sum(len(c) for c in cases)
            for c in cases:
                distinct.add("weighted|" + ty + "|" + "\n".join(c))
                for l in c: opmix[l.split()[0]] = opmix.get(l.split()[0], 0) + 1
            samples.append({"type": ty, "stream": "weighted", "case": cases[-1]})
            if ck.violations: break
        # bootstrap(dataset, size) with size < n: every element must be drawable, not only the first `size` ones
        if not ck.replay and not ck.violations:
            okb = BOOT_STAT["small"] < 30 or BOOT_STAT["beyond"] > 0
            if not okb:
                ck.violation("bootstrap:index-range", {"runs_with_size_below_n": BOOT_STAT["small"], "runs_with_a_weight_beyond_size": 0},
                             "bootstrap(dataset, size) with size < n never gave weight to an element with index >= size in %d runs: the indices are not drawn from all n elements" % BOOT_STAT["small"])
            ck.oblige("bootstrap(dataset, size<n) reaches elements with index >= size (%d of %d runs)" % (BOOT_STAT["beyond"], BOOT_STAT["small"]), okb)
    ck.cov["evaluations"] = total_eval
    ck.cov["distinct_nontrivial"] = len(distinct)
    ck.cov["rule"] = "random operation histories over 4 dataset registers of LabeledData<RealVector|unsigned|CompressedRealVector, unsigned> (create, repartition, splitBatch, splice, append, reorder, shuffle, indexedSubset, splitAtElement, repartitionByClass, binarySubProblem, element/iterator access, view->dataset, view subset of subset->dataset, transform%s); element counts 1..17 (40 thorough) aimed at n mod max in {0,1,max-1}, labels with absent classes; distinct = distinct (type, history)" % (", all six CV fold constructors through the model's cv_create/scv_create (createCVIID with the drawn folds read back), validation(i)/training(i) of every fold, element shapes of the set and of every part for the input and the label container" if PROP == "C12" else "")
    if PROP == "C03":
        ck.cov["rule"] += "; SHARING stream: histories over 6 registers + the dataset inside a CVFolds object + the dataset inside a DataView (create, copy, clear, indexedSubset 1/3 arguments, splice, append, push_back, element and batch-element writes, makeIndependent, repartition, splitBatch, reorderElements, createCVIndexed, training/validation parts, view writes) WITHOUT harness-side makeIndependent: every handle, both shapes and the operator== pairs observed after every operation, exceptions of the independence check are observations; aimed openings: write through a sharing subset, write after makeIndependent, write through a fold's training part, empty containers, single-element batches, refused-then-accepted operations, view writes; WEIGHTED stream: WeightedLabeledData with ids as elements and weight 2*id+1 (uniform weights, indexedSubset, splice, append, repartition, splitBatch, weightedInputs for scalar inputs, sumOfWeights, classWeight, bootstrap with sizes 0, n, <n, >n)"
    ck.cov["samples"] = samples
    ck.notes["op_mix"] = opmix
    if STREAM != "all" and not ck.replay: ck.replay = "partial run (--stream %s)" % STREAM     # evidence of a partial run goes to the scratch directory
    ck.finish()

def correspond2(ck, cases, model, exe, ty, tmpd, monitor=None, resolve=None, valid_case=None, what="C03/C12 model vs shark::LabeledData"):
    """impl first, then resolve random choices, then model; decision as in vlib.correspond"""
    monitor = monitor or globals()["monitor"]; resolve = resolve or globals()["resolve"]; valid_case = valid_case or globals()["valid_case"]
    io = run_cases(exe, cases, os.path.join(tmpd, "impl_in.txt"), args=(ty,))
    mcases = []
    for c, (o, rc, e) in zip(cases, io):
        mcases.append(resolve(c, o + [""] * (len(c) - len(o))))
    mo = run_cases(model, mcases, os.path.join(tmpd, "model_in.txt"), args=(ty,))
    def rhs(lines): return [l.split("->", 1)[1].strip() if "->" in l else l for l in lines]
    mon, dis = [], []
    for ci, c in enumerate(cases):
        (b, rcb, eb), (a, rca, ea) = io[ci], mo[ci]
        if rca != 0: raise RuntimeError("model driver failed: " + ea)
        cut = truncate_rejects(a)
        n = len(c) if cut is None else cut
        if rcb != 0 and len(b) < n:
            mon.append((ci, ["implementation crashed (rc=%s) at line %d `%s`" % (rcb, len(b), c[len(b)][:80] if len(b) < len(c) else "")])); continue
        msgs = monitor(c[:n], b[:n], PROP)
        if msgs: mon.append((ci, msgs))
        elif rhs(a[:n]) != rhs(b[:n]): dis.append(ci)
    def one(lines):
        rb, xb, eb = run_lines(exe, lines, os.path.join(tmpd, "s_impl.txt"), args=(ty,))
        ml = resolve(lines, xb + [""] * (len(lines) - len(xb)))
        ra, xa, _ = run_lines(model, ml, os.path.join(tmpd, "s_model.txt"), args=(ty,))
        cut = truncate_rejects(xa); n = len(lines) if cut is None else cut
        if rb != 0 and len(xb) < n: return xa, xb, ["implementation crashed (rc=%s) at line %d `%s`" % (rb, len(xb), lines[len(xb)][:80])], n
        return xa, xb, monitor(lines[:n], xb[:n], PROP), n
    def keyof(msg):
        if "bootstrap:index-range" in msg: return "bootstrap:index-range"
        mc = re.match(r"implementation crashed \(rc=(-?\d+)\) at line \d+ `(\w+)", msg)
        if mc: return "%s:%s:crash rc=%s" % (ty, mc.group(2), mc.group(1))
        key0 = re.sub(r"line \d+ `[^`]*`: ", "", msg).split(" :: ")[0]      # (data details after " :: " are not part of the key)
        opk = re.search(r"`(\w+)", msg)
        return "%s:%s:%s" % (ty, opk.group(1) if opk else "?", re.sub(r"\d+", "N", key0))
    def report(ci, is_mon, want_key=None):
        c = cases[ci]
        def pred(ops):
            xa, xb, m, n = one([c[0]] + ops)
            if not valid_case([c[0]] + ops, xa): return False
            if is_mon: return bool(m) and keyof(m[0]) == want_key
            return (not m) and rhs(xa[:n]) != rhs(xb[:n])
        small = [c[0]] + ddmin(c[1:], pred, max_runs=150)
        xa, xb, m, n = one(small)
        cf = ck.write_replay("case_%s_%d.txt" % (ty, ci), "\n".join(small) + "\n")
        return {"element_type": ty, "case_file": cf, "case": small, "model_output": xa, "implementation_output": xb, "monitor": m,
                "replay_cmd": "python3 tools/c03.py --prop %s --replay %s" % (PROP, cf)}, m
    seen_keys = set()
    for ci, msgs in mon:
        key = keyof(msgs[0])
        if key in seen_keys: continue
        seen_keys.add(key)
        if len(seen_keys) > 6: break
        rp, m = report(ci, True, key)
        msg = (m or msgs)[0]
        ck.violation(key, rp, "spec monitor fails on the implementation [%s]: %s" % (ty, msg))
    if not mon and dis:
        rp, m = report(dis[0], False)
        ck.violation("correspondence", rp, "correspondence %s [%s] no longer checks (%d cases differ); spec monitor passes on every explored input" % (what, ty, len(dis)), no_input=True)
    ck.oblige("correspondence %s [%s] on %d histories" % (what, ty, len(cases)), not mon and not dis,
              "%d monitor failures, %d disagreements" % (len(mon), len(dis)))
    return {"mon": len(mon), "dis": len(dis)}

if __name__ == "__main__":
    main()
