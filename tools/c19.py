#!/usr/bin/env python3
"""C19 — text importers (CSV, LibSVM): proofs (Properties_C19.v) + correspondence of the extracted byte-level
model with the freshly compiled importers on generated files (exact on the numeric forms on which Boost.Spirit
and the model's lexer provably agree; exporters incl. exportSparseData: exported text byte for byte, re-imported dataset line-exact) + spec monitor (well-formedness / exception type / crash / hang /
export-import round trip) on every overload, also under ASan+UBSan.
Every import of the harness goes into a fresh dataset object AND into one that already holds an earlier import (same overload); both
must agree (REUSE-DIFF otherwise).  Batch sizes are 64-bit: {1, 2, n-1, n, n+1, 2^31, 2^32+1, 2^63, SIZE_MAX-1, SIZE_MAX, ...} on every
importer stream; the model takes them as binary numbers (cap at records+1 inside the model, proved neutral); optimalBatchSizes and
initializeBatches are also called directly (OBS/OBI) against their size_t-arithmetic models opt_sizes64 / init_sizes64."""
import os, sys, re, struct, signal
sys.path.insert(0, os.path.dirname(os.path.abspath(__file__)))
from vlib import *

PID = "C19"
HARNESS = os.path.join(ROOT, "harness", "c19_import.cpp")
SRC = ["src/Data/Csv.cpp", "src/Data/SparseData.cpp"]

# ------------------------------------------------------------------------------------------------
# generators

def gen_num(rng, special=0.03):
    """a numeric token on which Spirit's double_ and the model agree exactly: <= 15 significant digits, one rounding"""
    if rng.random() < special:
        return rng.choice(["inf", "-inf", "nan", "NaN", "INF", "-nan", "infinity", "+inf", "nan(ab)"])
    r = rng.random()
    if r < 0.35:
        ip, fp, dot = str(rng.randint(0, 99)), "", False
    elif r < 0.45:
        ip, fp, dot = "0" * rng.randint(0, 2) + str(rng.randint(0, 99999999)), "", rng.random() < 0.3
    else:
        ip = rng.choice(["", "0", str(rng.randint(0, 999)), str(rng.randint(0, 9999999))])
        fp = "".join(rng.choice("0123456789") for _ in range(rng.randint(0 if ip else 1, 15 - len(ip) if len(ip) < 8 else 7)))
        dot = True
    sg = rng.choice(["", "", "", "-", "-", "+"])
    ex = ""
    if rng.random() < 0.3:
        e = rng.randint(-22 + len(fp), 22 - 15 + len(fp)) if rng.random() < 0.8 else rng.randint(-9, 9)
        e = max(min(e, 22 + len(fp) - 15), -22 + len(fp))
        ex = rng.choice("eE") + rng.choice(["", "+"] if e >= 0 else ["-"]) + ("%02d" % abs(e) if rng.random() < 0.5 else str(abs(e)))
        if e < 0 and not ex[1] == "-": ex = ex[0] + "-" + ex[1:]
    return sg + ip + ("." if dot else "") + fp + ex

def gen_label(rng, k=3, binary=False):
    r = rng.random()
    if binary: v = rng.choice([-1, 1]) if rng.random() < 0.85 else rng.choice([0, 2, 3])
    else: v = rng.randint(0, k)
    if r < 0.04: return rng.choice(["-2", "2147483647", "2147483648", "-1", "1.5", "+1", "x"])
    if r < 0.12: return "%d.%s" % (v, "0" * rng.randint(0, 3))
    if r < 0.15 and v >= 0: return "+%d" % v
    return str(v)

SIZE_MAX = 2 ** 64 - 1
def pick_batch(rng, n, small, zero_ok=False):
    """maximumBatchSize / batchSize: the small values as before, and (about 45%) one of {1, 2, n-1, n, n+1, 2^31, 2^32+1, 2^63,
    SIZE_MAX-1, SIZE_MAX}, n = number of records the generator intends to write"""
    if rng.random() < 0.55: return rng.choice(small)
    v = rng.choice([1, 2, n - 1, n, n + 1, 2 ** 31, 2 ** 32 + 1, 2 ** 63, SIZE_MAX - 1, SIZE_MAX, SIZE_MAX - n + 1, SIZE_MAX - n + 2])
    v = min(v, SIZE_MAX)
    return v if v >= 1 or (zero_ok and v == 0) else 1

EOLS = ["\n", "\n", "\n", "\r\n", "\r"]
SEPS = [",", ",", ",", ";", " ", " ", "\t", "|", ":"]

def gen_csv(rng, big=False):
    variant = rng.choice(["data", "cls", "reg"])
    prec = rng.choice("df"); lp = rng.choice("FL")
    sep = rng.choice(SEPS); cm = rng.choice(["#", "#", "%"])
    ncol = rng.randint(1, 6); nrow = rng.randint(1, 12 if not big else 40)
    nout = rng.randint(1, 3)
    mb = pick_batch(rng, nrow, [1, 2, 3, 5, 10, 256])
    binary = rng.random() < 0.3; k = rng.randint(1, 4)
    ws = sep in " \t"
    eol = rng.choice(EOLS); mixed = rng.random() < 0.15
    lines = []
    pad = (lambda: rng.choice(["", "", "", " ", "  ", "\t"])) if not ws else (lambda: rng.choice(["", "", " "]))
    for i in range(nrow):
        nc = ncol if rng.random() > 0.03 else max(0, ncol + rng.choice([-1, 1]))
        cells = []
        for j in range(nc):
            r = rng.random()
            if r < 0.05: cells.append("?")
            elif r < 0.08 and not ws: cells.append("")
            else: cells.append(gen_num(rng))
        if variant == "cls":
            lab = gen_label(rng, k, binary)
            cells = [lab] + cells if lp == "F" else cells + [lab]
        line = (sep if not ws else sep * rng.randint(1, 2)).join(pad() + c + pad() for c in cells)
        if rng.random() < 0.04: line += " " + cm + " trailing comment"
        lines.append(line)
        if rng.random() < 0.06: lines.append(cm + " a comment line, with 1,2,3")
        if rng.random() < 0.02: lines.append("")
    text = ""
    for l in lines: text += l + (rng.choice(EOLS) if mixed else eol)
    if rng.random() < 0.15: text = text.rstrip("\r\n")
    if rng.random() < 0.1: text += rng.choice(["\n", "\n\n", " \n", "\r\n\r\n"])
    if rng.random() < 0.04: text = rng.choice(["", "\n", cm + " only\n", "  ", "\r\n\r\n", " \t \n", cm + "\n" + cm + " 1,2\n"])
    return ["CSV", variant, prec, lp, str(nout), str(ord(sep)), str(ord(cm)), str(mb), rng.choice("sf")], text.encode("latin1")

def gen_scl(rng):
    ty = rng.choice("iufd"); cm = rng.choice("#%")
    toks = []; ntok = rng.randint(0, 14)
    mb = pick_batch(rng, ntok, [1, 2, 3, 7, 256])
    for _ in range(ntok):
        if ty == "i": toks.append(rng.choice([str(rng.randint(-50, 50)), "+7", "2147483647", "-2147483648", "2147483648", "1.5"][: 3 if rng.random() < 0.9 else 6]))
        elif ty == "u": toks.append(rng.choice([str(rng.randint(0, 99)), "4294967295", "4294967296", "-1"][: 1 if rng.random() < 0.9 else 4]))
        elif ty == "f": toks.append(rng.choice(["1.5", "-0.25", "3", "12.125", "0.5e1", "-2e-1" if False else "8", "inf", "1024.0625"]))
        else: toks.append(gen_num(rng))
    text = ""
    for t in toks:
        text += t + rng.choice([" ", " ", "\n", "\t", "\r\n", "  ", " " + cm + "c\n" if rng.random() < 0.2 else " "])
    if rng.random() < 0.3: text = text.rstrip()
    if rng.random() < 0.08:        # no record at all: empty, blank-only, comment-only, white-space-only
        text = rng.choice(["", "\n", "\n\n\n", cm + " only a comment\n", cm + " 1 2 3", "  ", " \t \r\n ", "\n" + cm + " c\n\n"])
    return ["SCL", ty, "44", str(ord(cm)), str(mb), rng.choice("sf")], text.encode("latin1")

def gen_svm(rng, big=False, defect=None):
    variant = rng.choice(["cls", "reg"]); prec = rng.choice("df"); store = rng.choice("vc")
    nrow = rng.randint(1, 10 if not big else 30); base = rng.choice([0, 1, 1, 1])
    maxidx = rng.choice([3, 6, 12, 40] + ([100000] if store == "c" or rng.random() < 0.2 else []))
    binary = rng.random() < 0.4; k = rng.randint(1, 4)
    recs = []
    for i in range(nrow):
        if variant == "cls":
            lab = gen_label(rng, k, binary) if rng.random() < 0.9 else rng.choice(["1e0", "2.5", "10e-1", "-1.0", "0.0", "3e9", "nan"])
        else: lab = gen_num(rng)
        cnt = rng.randint(0, min(5, maxidx))
        idx = sorted(rng.sample(range(base, maxidx + 1), cnt))
        recs.append((lab, [(j, gen_num(rng, 0.01) if rng.random() > 0.1 else "0") for j in idx]))
    if store == "c" and rng.random() < 0.05 and recs:
        recs[-1][1].append((rng.choice([4294967295, 4294967296, 3000000000]), "1"))
    if defect and recs:
        r = rng.randrange(len(recs)); lab, ps = recs[r]
        if defect == "unsorted":
            if len(ps) < 2: ps = [(maxidx, "1"), (max(base, 1), "2")]
            else: a = rng.randrange(len(ps) - 1); ps[a], ps[-1] = ps[-1], ps[a]
        elif defect == "dup":
            if not ps: ps = [(2, "1")]
            ps = ps + [(ps[-1][0], "3")]
        elif defect == "zero":
            ps = [p for p in ps if p[0] != 0]
            ps = (ps or [(3, "1")]) + [(0, "2")]
        recs[r] = (lab, ps)
    sp = lambda: rng.choice([" ", " ", " ", "  ", "\t"])
    eol = rng.choice(["\n", "\n", "\r\n"])
    text = ""
    for lab, ps in recs:
        text += lab + "".join(sp() + "%d%s:%s%s" % (j, rng.choice(["", "", " "]), rng.choice(["", "", " "]), v) for j, v in ps) + rng.choice(["", "", " "]) + eol
        if rng.random() < 0.08: text += "\n"
    if rng.random() < 0.15: text = text.rstrip("\r\n")
    top = max([j for _, ps in recs for j, _ in ps] + [0])
    hi = rng.choice([0, 0, 0, top, top + 3, max(top - 1, 0)]) if top < 200000 else 0
    bs = pick_batch(rng, nrow, [0, 1, 2, 3, 256], zero_ok=True)
    if defect == "empty" or (defect is None and rng.random() < 0.03): text = rng.choice(["", "\n", "\n\n\n"])
    # S|F: the deprecated import_libsvm wrappers of Libsvm.h (they exist for classification data in double precision only)
    return ["SVM", variant, prec, store, str(hi), str(bs), rng.choice("sfSF" if variant == "cls" and prec == "d" else "sf")], text.encode("latin1")

ALPHA = b"0123456789.,;-+eE? \t\r\n#:x|naif%"
def mutate(rng, b, alpha=ALPHA, n=None):
    b = bytearray(b)
    for _ in range(n or rng.randint(1, 3)):
        op = rng.random(); pos = rng.randrange(len(b) + 1)
        if op < 0.3 and b: del b[min(pos, len(b) - 1)]
        elif op < 0.6: b.insert(pos, rng.choice(alpha))
        elif op < 0.85 and b: b[min(pos, len(b) - 1)] = rng.choice(alpha)
        elif op < 0.93 and b:
            a = rng.randrange(len(b)); e = min(len(b), a + rng.randint(1, 6)); b[pos:pos] = b[a:e]
        elif b: del b[pos:]
    return bytes(b)

def noise(rng):
    n = rng.randint(0, 60)
    if rng.random() < 0.5: return bytes(rng.randrange(256) for _ in range(n))
    return bytes(rng.choice(b"0123456789.,-+eE?: \n\r\t#;") for _ in range(n))

def exactness(b, lim=290):
    """exact: Spirit's double_ performs one correctly rounded operation on every number of the text;
       masked: values may differ in the last place (long digit strings / large exponents): structure compared only;
       monitor: the verdict itself may differ (scale() failures of Spirit on |exponent| > 300)"""
    t = b.decode("latin1")
    lvl = "exact"
    for m in re.finditer(r"(\d*)\.?(\d*)(?:[eE]([+-]?\d+))?", t):
        ip, fp, ex = m.group(1), m.group(2), m.group(3)
        if not ip and not fp: continue
        sig = len((ip + fp).lstrip("0"))
        e = int(ex) if ex and len(ex) < 8 else (0 if not ex else 10 ** 6)
        if abs(e) + len(ip) + len(fp) > lim: return "monitor"
        if sig > 15 or abs(e - len(fp)) > 22 or len(ip + fp) > 18: lvl = "masked"
    return lvl

def case_line(head, payload): return " ".join(head + [payload.hex()])

# ------------------------------------------------------------------------------------------------
# round trip cases
def f32(x): return struct.unpack("f", struct.pack("f", x))[0]

def gen_value(rng, prec):
    r = rng.random()
    if r < 0.3: x = float(rng.randint(-20, 20))
    elif r < 0.5: x = rng.randint(-4000, 4000) / 64.0
    elif r < 0.8: x = rng.uniform(-1, 1) * 10 ** rng.randint(-12, 12)
    elif r < 0.9: x = rng.choice([0.1, 1 / 3.0, 1e-300, 1.7e308, 5e-324, 123456789012.0, 0.99999999995, 9.99999999995e9])
    else: x = rng.gauss(0, 1)
    if prec == "f":
        try: x = f32(x)
        except OverflowError: x = 1.0
    return x

def gen_xcsv(rng):
    variant = rng.choice(["data", "cls", "reg"]); prec = rng.choice("df"); lp = rng.choice("FL")
    sep = rng.choice([",", ";", " ", " ", "\t", "\t", "|", ":", "\x0b", "\x0c"] + list(XSEPS)); nout = rng.randint(1, 3)
    if variant == "cls" and sep == ".": sep = "|"       # '.' between a label and a number is outside the domain (cls_sep_ok)
    nrow = rng.randint(1, 8); ncol = rng.randint(1, 5)
    mb = pick_batch(rng, nrow, [1, 2, 3, 256])
    zero_label = rng.random() < 0.9
    labs = [rng.randint(0 if zero_label else 1, 3) for _ in range(nrow)]
    if zero_label: labs[rng.randrange(nrow)] = 0
    rows = []
    for i in range(nrow):
        vals = ["%.10e" % gen_value(rng, prec) for _ in range(ncol)]
        if variant == "cls": l = str(labs[i])
        elif variant == "reg": l = ",".join("%.10e" % gen_value(rng, prec) for _ in range(nout))
        else: l = ""
        rows.append(l + "|" + ",".join(vals))
    return " ".join(["XCSV", variant, prec, lp, str(nout), str(ord(sep)), str(mb), rng.choice("sfsfSF"), ";".join(rows)])

# separators that are special characters in regular expressions / format strings (both label positions); '.', '+', '?' are
# characters of numbers resp. the missing-value mark and still legal separators for the printed scientific tokens
XSEPS = "|*()[]\\^${}/!&~\"'<>=@_`.+?"

def gen_xint(rng):
    """exportCSV of Data<IntVector> / Data<UIntVector>; the text is re-imported as Data<RealVector> and as Data<int|unsigned>"""
    ty = rng.choice("iu"); sep = rng.choice([",", ";", " ", " ", "\t", "|", "\x0b", ":"]); nrow = rng.randint(1, 8); ncol = rng.choice([1, 1, 2, 3, 5])
    mb = pick_batch(rng, nrow, [1, 2, 3, 256])
    def val():
        if ty == "u": return rng.choice([rng.randint(0, 99), rng.randint(0, 4294967295), 4294967295, 0])
        return rng.choice([rng.randint(-99, 99), rng.randint(-2147483648, 2147483647), 2147483647, -2147483648, 0])
    rows = ["|" + ",".join(str(val()) for _ in range(ncol)) for _ in range(nrow)]
    return " ".join(["XINT", ty, str(ord(sep)), str(mb), rng.choice("sf"), ";".join(rows)])

def gen_xsvm(rng):
    variant = rng.choice(["cls", "reg"]); store = rng.choice("vc")
    nrow = rng.randint(1, 8); ncol = rng.randint(1, 6)
    bs = pick_batch(rng, nrow, [0, 1, 2, 256], zero_ok=True)
    zero_label = rng.random() < 0.9; k = rng.randint(1, 3)
    labs = [rng.randint(0 if zero_label else 1, k) for _ in range(nrow)]
    if zero_label: labs[rng.randrange(nrow)] = 0
    rows = []
    for i in range(nrow):
        vals = [("%.17g" % gen_value(rng, "d")) if rng.random() < 0.6 else "0" for _ in range(ncol)]
        l = str(labs[i]) if variant == "cls" else "%.17g" % gen_value(rng, "d")
        rows.append(l + "|" + ",".join(vals))
    return " ".join(["XSVM", variant, store, str(bs), ";".join(rows)])

def gen_obs(rng):
    """detail::optimalBatchSizes(n, m) directly, 64-bit magnitudes for both arguments; at most 300 batches"""
    big = [2 ** 31, 2 ** 32 + 1, 2 ** 63, 2 ** 63 + 5, SIZE_MAX - 1, SIZE_MAX, rng.getrandbits(64), rng.getrandbits(rng.randint(20, 64))]
    while True:
        n = rng.choice([0, 1, 2, 3, 7, 100, rng.randint(0, 5000)] + big)
        m = rng.choice([1, 2, 3, rng.randint(1, 300), n - 1, n, n + 1, n // 2, n // 2 + 1, n // 3 + 1, n // 7 + 1, n // rng.randint(1, 299) + 1,
                        SIZE_MAX - n + 1, SIZE_MAX - n + 2] + big)
        if 1 <= m <= SIZE_MAX and (n + m - 1) // m <= 300: return "OBS %d %d" % (n, m)

def gen_obi(rng):
    """Data<unsigned>(n, 0, b): SharedContainer::initializeBatches, any 64-bit batch size"""
    while True:
        n = rng.choice([0, 1, 2, 3, 7, 100, rng.randint(0, 3000)])
        b = rng.choice([0, 1, 2, 3, rng.randint(1, 300), max(n - 1, 0), n, n + 1, n // 2 + 1, n // 7 + 1, 2 ** 31, 2 ** 32 + 1, 2 ** 63, SIZE_MAX - 1, SIZE_MAX])
        if b == 0 or n // b <= 300: return "OBI %d %d" % (n, b)

# ------------------------------------------------------------------------------------------------
# spec monitor: the property's predicate on the implementation's output line (independent of the model)
def parse_ok(o):
    d = {}
    for t in o.split(" ")[1:]:
        if "=" in t:
            k, v = t.split("=", 1); d[k] = v
    return d

def hexval(h):
    return float("nan") if h == "nan" else struct.unpack(">d", bytes.fromhex(h))[0]

def monitor_line(case, o):
    """returns list of (key, message)"""
    t = case.split(" "); kind = t[0]
    if kind in ("XCSV", "XSVM"): return monitor_roundtrip(t, o)
    if kind in ("OBS", "OBI"): return monitor_sizes(t, o)
    if kind == "XINT": return monitor_xint(t, o)
    site = {"CSV": "csv:" + t[1], "SCL": "csv:scalar-" + t[1], "SVM": "svm:" + t[1] + ":" + ("dense" if t[3] == "v" else "compressed") if kind == "SVM" else ""}[kind]
    if o == "EXC": return []
    if o.startswith("REUSE-DIFF"):
        return [(site + ":reused-target", "importing into a dataset object that already holds data gives a different result than importing into a fresh object: %s" % o[:300])]
    if o.startswith("STDEXC") or o.startswith("UNKEXC"):
        return [(site + ":foreign-exception", "importer failed with %s instead of shark::Exception" % o)]
    if not o.startswith("OK "): return [(site + ":no-output", "no result line: %r" % o[:80])]
    bad = [(site + ":" + k, m) for k, m in wellformed(t, parse_ok(o))]
    if kind == "SVM" and len(t) > 7 and not bad:
        # "element count equal to the number of records": a record of a LibSVM file is a line with at least one non-blank character
        # (counted on the input bytes, independently of the model), whether or not the last one is followed by a line end
        try: text = bytes.fromhex(t[7]).decode("latin1")
        except ValueError: text = None
        import re as _re
        if text is not None and not _re.search(r"\r(?!\n)|[^\x20-\x7e\t\r\n]", text):      # plain text with LF / CRLF line ends only
            want = sum(1 for l in text.split("\n") if l.strip(" \t\r\n"))
            got = int(parse_ok(o)["n"])
            if got != want: bad.append((site + ":record-count", "the file holds %d records (non-blank lines), the imported data set has %d elements" % (want, got)))
    return bad

def wellformed(t, d):
    kind = t[0]; bad = []
    n = int(d["n"]); bs = [int(x) for x in d["b"].split(",")] if d["b"] else []
    recs = d["E"].split(";") if d.get("E") else []
    if len(recs) != n or sum(bs) != n:
        bad.append(("count", "element count %d, %d records printed, batch sizes %s" % (n, len(recs), bs)))
    mb = int(t[7]) if kind == "CSV" else int(t[4]) if kind == "SCL" else int(t[5])
    if kind == "SVM":
        if any(b == 0 for b in bs) and d.get("cls", "-") != "-": bad.append(("empty-batch", "dataset with an empty batch %s" % bs))
        if mb > 0 and any(b > mb for b in bs): bad.append(("batch-size", "batch sizes %s exceed the requested %d" % (bs, mb)))
    else:
        if any(b == 0 or b > mb for b in bs): bad.append(("batch-size", "batch sizes %s not within 1..%d" % (bs, mb)))
    if kind == "SCL": return bad
    dim = d["dim"]
    if dim.startswith("!"): bad.append(("mixed-dimension", "batches of different dimension " + dim)); return bad
    if n == 0: return bad
    dim = int(dim)
    if d["shape"] != "-" and int(d["shape"]) != dim:
        bad.append(("shape-vs-dimension" + (":zero-based" if kind == "SVM" else ""), "reported input shape %s but the elements have dimension %d" % (d["shape"], dim)))
    cls = d.get("cls", "-")
    for r in recs:
        l, v = r.split("|")
        if kind == "SVM":
            prev = -1
            for e in filter(None, v.split(",")):
                i = int(e.split(":")[0])
                if i >= dim: bad.append(("index-out-of-dimension", "stored index %d in an element of dimension %d" % (i, dim))); break
                if i <= prev: bad.append(("unsorted-storage", "stored indices not increasing (%d after %d)" % (i, prev))); break
                prev = i
        else:
            if len(v.split(",") if v else []) != dim: bad.append(("record-dimension", "record with %d values in a dataset of dimension %d" % (len(v.split(",")), dim)))
        if cls not in ("-",) and not cls.startswith("?"):
            if int(l) >= int(cls): bad.append(("label-range", "label %s >= class count %s" % (l, cls)))
        if bad: break
    return bad

def monitor_sizes(t, o):
    """batch-size routines called directly: sizes sum to n, none empty, none above the limit, as equal as possible /
    full batches then the remainder"""
    n, m = int(t[1]), int(t[2])
    site = "batch:optimalBatchSizes" if t[0] == "OBS" else "batch:initializeBatches"
    if not o.startswith("S"): return [(site + ":no-output", "no result: %r" % o[:80])]
    s = [int(x) for x in o[2:].split(",")] if o[2:] else []
    if t[0] == "OBS":
        if sum(s) != n or any(x < 1 or x > m for x in s) or len(s) != (n + m - 1) // m or (s and max(s) - min(s) > 1):
            return [(site + ":sizes", "optimalBatchSizes(%d, %d) = %s" % (n, m, s[:12]))]
    else:
        want = [n] if m == 0 or m > n else [m] * ((n + m - 1) // m - 1) + [n - ((n + m - 1) // m - 1) * m]
        if s != want: return [(site + ":sizes", "Data(%d, element, %d) has batches %s" % (n, m, s[:12]))]
    return []

def monitor_xint(t, o):
    """integer-valued vectors written by exportCSV: the vector importer returns every value; the scalar importer returns the
    values in reading order whenever it accepts the text, and accepts it when the separator is white space or there is one column"""
    site = "csv-export:int-" + t[1]
    parts = o.split(" ## ")
    if len(parts) != 3 or not parts[0].startswith("XI text="):
        return [(site + ":failed", "export of an integer dataset did not succeed: %s" % o[:80])]
    rows = [[int(x) for x in r.split("|")[1].split(",")] for r in t[-1].split(";")]
    flat = [x for r in rows for x in r]
    sep = chr(int(t[2])); bad = []
    for name, part, want in (("vector", parts[1], rows), ("scalar", parts[2], [[x] for x in flat])):
        if part.startswith("REUSE-DIFF"):
            bad.append((site + ":reused-target", "re-import (%s importer) into a dataset that already holds data differs from the import into a fresh object: %s" % (name, part[:200]))); continue
        if part == "EXC":
            if name == "vector" or sep in " \t\x0b\x0c" or len(rows[0]) == 1:
                bad.append((site + ":reimport-failed", "the %s importer rejects the exported text" % name))
            continue
        if not part.startswith("OK "): bad.append((site + ":foreign-exception", "%s importer: %s" % (name, part[:60]))); continue
        d = parse_ok(part); recs = d["E"].split(";") if d["E"] else []
        got = [[hexval(h) for h in r.split("|")[1].split(",")] for r in recs]
        if got != [[float(x) for x in r] for r in want]:
            bad.append((site + ":values", "%s importer reads %s back as %s" % (name, want[:4], got[:4])))
    return bad

def monitor_roundtrip(t, o):
    kind = t[0]
    site = ("csv-export:" + t[1]) if kind == "XCSV" else ("svm-export:" + t[1])
    if not o.startswith("X text="):
        return [(site + ":failed", "export/import of a valid dataset did not succeed: %s" % o[:60])]
    m = re.match(r"X text=(\S*) (.*)$", o)
    rest = m.group(2)
    if rest.startswith("REUSE-DIFF"):
        return [(site + ":reused-target", "re-importing the exported text into a dataset object that already holds data gives a different result than into a fresh object: %s" % rest[:300])]
    if not rest.startswith("OK "): return [(site + ":reimport-failed", "exported text is rejected by the importer: %s" % rest[:40])]
    d = parse_ok(rest)
    rows = t[-1].split(";")
    recs = d["E"].split(";") if d["E"] else []
    if len(recs) != len(rows): return [(site + ":count", "%d records exported, %d read back" % (len(rows), len(recs)))]
    prec = t[2] if kind == "XCSV" else "d"
    digits = 10 if kind == "XCSV" else 5       # operator<< with precision 10 (scientific) / default precision 6 (%g)
    def close(orig, back):
        # equal up to the printed precision: half a unit of the last printed digit (+ a few ulp of the parser)
        if orig != orig: return back != back
        if orig == 0 or back != back or abs(back) == float("inf"): return back == orig
        import math
        unit = 10.0 ** (math.floor(math.log10(abs(orig))) - digits)
        tol = 0.5000001 * unit + 4 * max(abs(orig) * 2.3e-16, 5e-324)
        if prec == "f": tol += abs(orig) * 6e-8
        return abs(back - orig) <= tol
    shift = None
    for row, rec in zip(rows, recs):
        l0, v0 = row.split("|"); l1, v1 = rec.split("|")
        vals0 = [float(x) for x in v0.split(",")]
        if prec == "f": vals0 = [f32(x) for x in vals0]
        if kind == "XSVM":
            got = {int(e.split(":")[0]): hexval(e.split(":")[1]) for e in filter(None, v1.split(","))}
            vals1 = [got.get(j, 0.0) for j in range(len(vals0))]
            if any(j >= len(vals0) for j in got): return [(site + ":extra-entries", "read back entries beyond the exported dimension")]
        else:
            vals1 = [hexval(h) for h in v1.split(",")] if v1 else []
        if len(vals0) != len(vals1) or not all(close(a, b) for a, b in zip(vals0, vals1)):
            return [(site + ":values", "row %s read back as %s (beyond the printed precision)" % (vals0, vals1))]
        if t[1] == "cls":
            if int(l0) != int(l1): shift = (l0, l1)
        elif t[1] == "reg":
            a = [float(x) for x in l0.split(",")]; b = [hexval(h) for h in l1.split(",")]
            if prec == "f": a = [f32(x) for x in a]
            if len(a) != len(b) or not all(close(x, y) for x, y in zip(a, b)): return [(site + ":labels", "label %s read back as %s" % (a, b))]
    if shift:
        return [(site + ":label-shift-when-class-0-absent", "class label %s read back as %s: the importer subtracts the smallest label" % shift)]
    return []

# ------------------------------------------------------------------------------------------------
def run_all(exe, lines, tmp, env=None, args=(), timeout=900):
    """one output line per case; a process that dies is restarted after the dying case: (out|None, rc, stderr)"""
    res = [None] * len(lines); start = 0
    while start < len(lines):
        rc, ol, err = run_lines(exe, lines[start:], tmp, env=env, args=args, timeout=timeout)
        for i, o in enumerate(ol[: len(lines) - start]): res[start + i] = (o, 0, "")
        done = min(len(ol), len(lines) - start)
        if done < len(lines) - start:
            res[start + done] = (None, rc if rc != 0 else -1, err[:2500] + "\n...\n" + err[-1500:] if len(err) > 4000 else err); done += 1
        start += done
    return res

def crash_key(rc, err):
    if rc == -signal.SIGALRM: return "hang", "importer did not return within the time limit"
    m = re.search(r"(ERROR: AddressSanitizer: [\w-]+|runtime error: [^\n]*)", err or "")
    fr = re.search(r"#\d+ 0x\w+ in (\S+) (?:/repo|%s)/((?:src|include)/\S+?):(\d+)" % re.escape(REPO), err or "")
    what = (m.group(1) if m else "died with signal/rc %s" % rc) + (" in %s (%s:%s)" % (fr.group(1), fr.group(2), fr.group(3)) if fr else "")
    return "memory-error" if m else "crash", what

def svm_input_class(b):
    """input-shape class of a LibSVM text (python-side reading of the file, independent of the model)"""
    t = b.decode("latin1")
    lines = [l for l in t.split("\n") if l != ""]
    if not lines: return "empty-input"
    cls = None
    for l in lines:
        idx = [int(x) for x in re.findall(r"(?<![\d.eE+-])(\d+)\s*:", l)]
        if any(b <= a for a, b in zip(idx, idx[1:])):
            cls = "zero-index-not-first" if 0 in idx[1:] else ("unsorted-indices" if cls != "zero-index-not-first" else cls)
    return cls

def unknown_pre(found, ck): return [k for k in found if ck.match_known(k) is None]

def strip_impl(o): return re.sub(r" shape=\S+", "", o)
def strip_model(o): return re.sub(r" coded=\S+", "", o)
def mask(o): return re.sub(r"(?<![0-9a-f])(?:[0-9a-f]{16}|nan)(?![0-9a-f])", "V", o)

def main():
    ck = Check(PID)
    ck.trusted = DEFAULT_TRUSTED + [
        "token <-> double conversion is outside the Coq model: the OCaml driver uses float_of_string (correctly rounded); generated numbers have <= 15 significant digits and |decimal exponent| <= 22 so that Spirit's double_ performs one correctly rounded operation",
        "Boost.Spirit (the grammars are transcribed by hand into the model; the transcription is what the correspondence check tests), libstdc++ iostreams, AddressSanitizer/UBSan runtime"]
    ck.assumptions = [
        "maximumBatchSize >= 1 for the CSV importers (0 divides by zero in optimalBatchSizes: outside the domain, the model says Fault); every value 1..SIZE_MAX is inside the domain and is generated",
        "std::size_t is 64 bit (static_assert in the harness); the number of records of a file is below 2^64",
        "the target dataset of an import is an arbitrary object of the overload's type; the harness uses a fresh one and one filled by an earlier import of three records in two batches through the same overload",
        "numbers whose decimal exponent leaves the range of the target type (|e| > ~300 for double_, > ~30 for float_) are outside the exact comparison: Spirit's scale() fails there and the verdict is only monitored",
        "separator and comment character are not characters of a number ([0-9+-.eE?] and letters of nan/inf), not a line end, and differ from each other",
        "round trip: finite values; exported numbers are compared as printed tokens in the theorem and as doubles by the monitor; class labels below 2^31, feature indices below 2^32 - 1; CSV classification files: the separator is not '.'",
        "LibSVM round trip: stored indices strictly increasing (invariant of compressed vectors); a compressed element keeps its non-zeros only, so the dimension comes back only up to the largest stored index unless highestIndex is passed",
        "memory safety, termination and exception type of the compiled Spirit parsers on arbitrary bytes are observed at run time (ASan+UBSan, SIGALRM), not proved"]
    ck.proofs()
    model = extract_model(PID, "C19Extract.v", "c19_driver.ml")
    srcs = [HARNESS] + repo_src(*SRC)
    exe, err = cxx_build("c19_import", srcs)
    if exe is None:
        ck.oblige("harness builds against /repo", False, err); ck.finish()
    tmpd = os.path.join(BUILD, "tmp", PID); os.makedirs(tmpd, exist_ok=True)
    big = ck.tier == "thorough"; rng = ck.rng
    scale = 6 if big else 1

    # ---- cases: (line, mode) mode in exact|masked|monitor|roundtrip
    cases = []
    def add(head, payload, force=None):
        # Data<float>: Spirit's float_ rejects decimal exponents beyond float range (scale() fails): verdict not modelled there
        lvl = exactness(payload, 30 if head[:2] == ["SCL", "f"] else 290)
        # a forced "masked" never upgrades a text whose verdict is outside the modelled range (float_ exponents > 30)
        cases.append((case_line(head, payload), "monitor" if force == "monitor" or lvl == "monitor" else (force or lvl)))
    def mode_of_line(l):
        t = l.split(" ")
        if t[0] in ("XCSV", "XSVM"): return "roundtrip"
        need = {"CSV": 10, "SCL": 6, "SVM": 8}.get(t[0], 99)     # OBS/OBI: no payload -> exact
        pay = bytes.fromhex(t[-1]) if len(t) >= need and re.fullmatch(r"(?:[0-9a-f]{2})*", t[-1]) else b""
        return exactness(pay, 30 if t[:2] == ["SCL", "f"] else 290)
    def load(path):
        for l in open(path).read().split("\n"):
            if l.strip() and not l.startswith("#"): cases.append((l.strip(), mode_of_line(l.strip())))
    if ck.replay:
        load(ck.replay)
    else:
        cdir = os.path.join(ROOT, "corpus", PID)
        if os.path.isdir(cdir):
            for f in sorted(os.listdir(cdir)): load(os.path.join(cdir, f))
        for _ in range(700 * scale):
            h, p = gen_csv(rng, big); add(h, p)
            if rng.random() < 0.5: add(h, mutate(rng, p))
        for _ in range(150 * scale):
            h, p = gen_scl(rng); add(h, p, "masked" if h[1] == "f" and False else None)
            if rng.random() < 0.4: add(h, mutate(rng, p), "masked" if h[1] == "f" else None)
        for _ in range(500 * scale):
            h, p = gen_svm(rng, big); add(h, p)
            if rng.random() < 0.5: add(h, mutate(rng, p))
        for dfc in ["unsorted", "dup", "zero", "empty"]:      # the input shapes of findings F10/F11, few (they crash)
            for _ in range(4 * scale):
                h, p = gen_svm(rng, False, dfc); add(h, p)
        for _ in range(250 * scale):                            # byte noise on every overload: monitor + sanitizer only
            k = rng.random()
            h = gen_csv(rng)[0] if k < 0.5 else gen_scl(rng)[0] if k < 0.65 else gen_svm(rng)[0]
            add(h, noise(rng) if rng.random() < 0.6 else mutate(rng, (gen_csv(rng)[1] if h[0] != "SVM" else gen_svm(rng)[1]), bytes(range(256)), 6), "monitor")
        for _ in range(200 * scale): cases.append((gen_obs(rng), "exact"))
        for _ in range(80 * scale): cases.append((gen_obi(rng), "exact"))
        for _ in range(100 * scale): cases.append((gen_xint(rng), "exact"))
        for _ in range(300 * scale): cases.append((gen_xcsv(rng), "roundtrip"))
        for _ in range(300 * scale): cases.append((gen_xsvm(rng), "roundtrip"))

    lines = [c for c, _ in cases]
    hargs = ["--timeout=20"]
    mo = run_all(model, lines, os.path.join(tmpd, "model_in.txt"))
    io = run_all(exe, lines, os.path.join(tmpd, "impl_in.txt"), args=hargs)
    for (o, rc, e), l in zip(mo, lines):
        if o is None: raise RuntimeError("model driver failed on: %s (%s)" % (l[:200], e[-300:]))

    # ---- sanitizer run (quick tier too: the ASan objects are cached by content hash)
    asan_out = None
    asan_env = {"ASAN_OPTIONS": "detect_leaks=0:abort_on_error=0:allocator_may_return_null=1:max_allocation_size_mb=4096", "UBSAN_OPTIONS": "print_stacktrace=1"}
    aexe, aerr = cxx_build("c19_import", srcs, flags=ASAN_FLAGS, tag="asan")
    if aexe is None:
        ck.oblige("ASan+UBSan build of the importer harness", False, aerr)
    else:
        sub = list(range(len(lines))) if big else [i for i, (c, m) in enumerate(cases) if m == "monitor" or i % 3 == 0 or c.startswith("SVM")]
        ao = run_all(aexe, [lines[i] for i in sub], os.path.join(tmpd, "asan_in.txt"), env=asan_env, args=["--timeout=60"])
        asan_out = dict(zip(sub, ao))

    # ---- decide
    found = {}          # key -> (case line, message, details)
    disagreements = []
    def note(key, line, msg, extra=None):
        if key not in found: found[key] = (line, msg, extra or {})
    n_exact = n_masked = n_mon = n_rt = n_xsvm = 0; xsvm_levels = {}
    tolerated_unsorted = 0
    for i, ((line, mode), (m_o, _, _), (i_o, rc, err)) in enumerate(zip(cases, mo, io)):
        t = line.split(" ")
        site = {"CSV": "csv:" + t[1], "SCL": "csv:scalar-" + t[1], "SVM": "svm:" + t[1] + ":" + ("dense" if len(t) > 3 and t[3] == "v" else "compressed"),
                "XCSV": "csv-export:" + t[1], "XSVM": "svm-export:" + t[1], "OBS": "batch:optimalBatchSizes", "OBI": "batch:initializeBatches", "XINT": "csv-export:int-" + t[1]}[t[0]]
        shape = ""
        if t[0] == "SVM":
            c = svm_input_class(bytes.fromhex(t[7]) if len(t) > 7 else b"")
            shape = (":" + c) if c else ""
        if i_o is None:
            k, what = crash_key(rc, err)
            note("%s%s:%s" % (site, shape, k), line, "importer %s on this input" % what, {"stderr": err[-1500:]}); continue
        a = asan_out.get(i) if asan_out else None
        if a is not None and a[0] is None:
            k, what = crash_key(a[1], a[2])
            note("%s%s:%s" % (site, shape, k), line, "under ASan+UBSan: %s" % what, {"sanitizer_output": a[2][-2500:]}); continue
        msgs = monitor_line(line, i_o)
        if a is not None and a[0] is not None and a[0] != i_o and not msgs:
            msgs = [(site + shape + ":nondeterministic", "the -O2 build and the sanitizer build return different results: %s vs %s" % (i_o[:120], a[0][:120]))]
        soft = [(k, m) for k, m in msgs if "shape-vs-dimension" in k or "label-shift" in k]   # recorded, the comparison still runs
        for k, m in msgs: note(k if shape == "" or k.count(":zero-based") else k.replace(site, site + shape, 1), line, m, {"implementation_output": i_o[:600]})
        if len(soft) < len(msgs): continue
        if mode == "roundtrip":
            n_rt += 1
            if t[0] == "XCSV":
                lvl = exactness(t[-1].encode())
                if lvl == "exact" and strip_impl(i_o) != m_o: disagreements.append(i)
                elif lvl == "masked" and mask(strip_impl(i_o)) != mask(m_o): disagreements.append(i)
            else:
                # XSVM: export_svm_* = exportSparseData byte for byte (the text is the first field), then the re-import;
                # the values of the text are the printed %g tokens: exactness is decided on the exported text
                mt = re.match(r"X text=([0-9a-f]*) ", i_o)
                lvl = exactness(bytes.fromhex(mt.group(1))) if mt else "exact"
                n_xsvm += 1; xsvm_levels[lvl] = xsvm_levels.get(lvl, 0) + 1
                if lvl == "monitor":
                    if i_o.split(" ")[1] != m_o.split(" ")[1]: disagreements.append(i)       # the exported text still has to agree
                elif lvl == "exact" and strip_impl(i_o) != m_o: disagreements.append(i)
                elif lvl == "masked" and mask(strip_impl(i_o)) != mask(m_o): disagreements.append(i)
            continue
        if mode == "monitor": n_mon += 1; continue
        mm, ii = strip_model(m_o), strip_impl(i_o)
        if t[0] == "SVM" and shape in (":unsorted-indices", ":zero-index-not-first") and ii.startswith("OK "):
            tolerated_unsorted += 1; continue      # well-formed dataset from unsorted records (dense, in range): allowed by the property
        if t[0] == "SVM" and shape == ":empty-input": ii = re.sub(r" b=0 dim=\d+ ", " b= dim=- ", ii)   # one empty batch == no batch
        if mode == "masked": n_masked += 1; mm, ii = mask(mm), mask(ii)
        else: n_exact += 1
        if mm != ii: disagreements.append(i)

    def shrink_payload(line, key):
        """ddmin on the payload bytes, keeping the same violation key (implementation only)"""
        t = line.split(" ")
        if t[0] not in ("CSV", "SCL", "SVM") or len(t[-1]) % 2 or not re.fullmatch(r"[0-9a-f]+", t[-1]) or len(t[-1]) > 4000: return line
        pay = list(bytes.fromhex(t[-1]))
        use_asan = key.endswith("memory-error") and aexe is not None
        def fails(bs):
            l = " ".join(t[:-1] + [bytes(bs).hex()])
            if use_asan: (o, rc, e), = run_all(aexe, [l], os.path.join(tmpd, "s_asan.txt"), env=asan_env, args=["--timeout=60"])
            else: (o, rc, e), = run_all(exe, [l], os.path.join(tmpd, "s_impl.txt"), args=hargs)
            if o is None: return key.endswith(crash_key(rc, e)[0]) or key.endswith("memory-error")
            return any(k.split(":")[-1] == key.split(":")[-1] for k, _ in monitor_line(l, o))
        try:
            if not fails(pay): return line
            small = ddmin(pay, fails, max_runs=150)
        except Exception: return line
        return " ".join(t[:-1] + [bytes(small).hex()])

    for key, (line, msg, extra) in sorted(found.items()):
        small = shrink_payload(line, key)
        cf = ck.write_replay("case_%s.txt" % re.sub(r"\W+", "_", key)[:60], small + "\n")
        t = small.split(" ")
        rp = {"case_file": cf, "case": small, "replay_cmd": "python3 tools/c19.py --replay %s" % cf, "original_case": line}
        if t[0] in ("CSV", "SCL", "SVM") and re.fullmatch(r"(?:[0-9a-f]{2})*", t[-1]): rp["input_text"] = bytes.fromhex(t[-1]).decode("latin1")
        rp.update(extra)
        ck.violation(key, rp, "spec monitor fails on the implementation [%s]: %s" % (key, msg))
    if disagreements:
        i = disagreements[0]; line = cases[i][0]
        cf = ck.write_replay("disagree_%d.txt" % i, line + "\n")
        t = line.split(" ")
        ck.violation("correspondence:" + ":".join(t[:2]), {"case_file": cf, "case": line, "model_output": mo[i][0], "implementation_output": io[i][0],
                                        "input_text": bytes.fromhex(t[-1]).decode("latin1") if t[0] in ("CSV", "SCL", "SVM") and re.fullmatch(r"(?:[0-9a-f]{2})+", t[-1]) else "",
                                        "replay_cmd": "python3 tools/c19.py --replay %s" % cf},
                     "correspondence C19Model vs importers no longer checks (outputs differ on %d cases); the spec monitor passes on every explored input" % len(disagreements), no_input=True)
    if disagreements:
        log("disagreements: %d" % len(disagreements))
        for i in disagreements[:8]: log("  case: %s\n   model: %s\n   impl:  %s" % (cases[i][0][:300], mo[i][0][:300], io[i][0][:300]))
    ck.oblige("correspondence C19Model/C19BigBatch (csv_import_*_into, svm_import_*_into with 64-bit batch sizes, export_*, export_svm_*, crlf, opt_sizes64, init_sizes64) = shark importers/exporters/batch-size routines on %d cases (%d exact, %d value-masked; %d of them LibSVM export->import)" % (n_exact + n_masked + n_rt, n_exact + n_rt, n_masked, n_xsvm),
              not disagreements, "%d disagreements, first: %s" % (len(disagreements), cases[disagreements[0]][0][:160]) if disagreements else "")
    unknown = [k for k in sorted(found) if ck.match_known(k) is None]     # recorded findings do not fail the obligation
    n_reuse = sum(1 for c, m in cases if c.split(" ")[0] in ("CSV", "SCL", "SVM", "XCSV", "XSVM", "XINT"))
    ck.oblige("spec monitor (well-formed dataset or shark::Exception, no crash/hang/foreign exception, round trip, fresh target == reused target on %d imports) on %d cases" % (n_reuse, len(cases)), not unknown,
              "; ".join(unknown)[:280])
    if asan_out is not None:
        ck.oblige("ASan+UBSan run of %d cases without report (outside recorded findings)" % len(asan_out), not any(k.endswith(("memory-error", "crash", "hang")) for k in unknown),
                  "; ".join(k for k in unknown if k.endswith(("memory-error", "crash", "hang")))[:280])
    ck.notes["finding_keys"] = sorted(found)

    kinds = {}
    for c, m in cases: kinds[c.split(" ")[0] + ":" + m] = kinds.get(c.split(" ")[0] + ":" + m, 0) + 1
    verdicts = {"OK": 0, "EXC": 0, "other": 0}
    for (o, rc, e) in io:
        k = "OK" if o and o.startswith(("OK ", "X text=", "XI text=", "S")) and not o.startswith("STDEXC") else "EXC" if o == "EXC" else "other"
        verdicts[k] += 1
    ck.cov["evaluations"] = len(cases) + (len(asan_out) if asan_out else 0)
    ck.cov["distinct_nontrivial"] = len(set(c for c, m in cases if len(c.split(" ")[-1]) >= 12))
    ck.cov["rule"] = ("generated CSV / scalar / LibSVM files (all overloads: data|cls|reg x double|float x label first|last x 6 separators x 2 comment chars x string|file; scalar Data<int|unsigned|float|double> x string|file; "
                      "LibSVM cls|reg x double|float x dense|compressed x highestIndex x stream|file, plus the import_libsvm wrappers) with missing values, comments, mixed line ends, ragged rows, special tokens, record-free inputs (empty, blank, comment-only), "
                      "batch sizes {small, 1, 2, n-1, n, n+1, 2^31, 2^32+1, 2^63, SIZE_MAX-1, SIZE_MAX, SIZE_MAX-n+1, SIZE_MAX-n+2} on every importer stream, every import into a fresh and into a pre-filled target, "
                      "their 1-3 byte mutations, byte noise, direct calls of optimalBatchSizes / initializeBatches with 64-bit arguments, and export->import round trips (CSV: 36 separators incl. blank/tab/VT/FF and | * ( ) [ ] \\ ^ $ { } . + ?, label first|last, LF and CR LF line ends; integer vectors read back by the vector and the scalar importers; LibSVM: dense|compressed x cls|reg, model export_svm_* vs exportSparseData); non-trivial = payload of at least 6 bytes; distinct = distinct case lines; "
                      "every case runs in the -O2 build, a third plus all LibSVM/noise cases (thorough: all) also under ASan+UBSan")
    ck.cov["samples"] = [cases[0][0][:200], cases[len(cases) // 2][0][:200]]
    ck.notes["libsvm_roundtrip_levels"] = xsvm_levels
    ck.notes["case_mix"] = kinds; ck.notes["implementation_verdicts"] = verdicts
    ck.notes["unsorted_records_accepted_wellformed"] = tolerated_unsorted
    ck.notes["sanitizer_cases"] = len(asan_out) if asan_out else 0
    ck.finish()

if __name__ == "__main__":
    main()
