#!/usr/bin/env python3
"""C06 — losses and error functions report the true mean loss and its true gradient.

  proofs          Properties_C06.v (thread ranges tile, merge order irrelevant, error = mean per-element loss for every
                  schedule/batching, equal weights = unweighted, chain rule through weightedParameterDerivative for any model
                  satisfying the C04 contract (instances: linear, two linear layers), regularizer terms, loss table: both code
                  paths agree / batch = sum / gradient, Huber outside the ball, weighted zero-one loss), axiom-free over Q;
                  cross-entropy (log-sum-exp shift, softmax - one_hot, both label encodings), Huber and absolute loss for the
                  polymorphic code over every ordered field with exp/log/sqrt, axiom-free; NegativeAUC as coded (sort, sweep, ties,
                  invert, normalisation) = pair counting with ties one half for every order std::sort may leave equal scores in,
                  independent of batching and element order; SquaredLoss<Sequence,Sequence> (both paths, exception, batch = sum,
                  gradient = derivative, ignored prefix), axiom-free; cross-entropy over R with exp/ln: the coded gradient is the
                  derivative (Coquelicot is_derive / derivable_pt_lim) of the coded value, likewise HuberLoss with sqrt -- these five theorems use the
                  standard-library real axioms, classic and functional extensionality (recorded per theorem in the evidence);
                  NegativeLogLikelihood = minus the mean log-likelihood / mean parameter derivative for every batching, thread count,
                  arrival order and every function in the role of log, axiom-free; calling context (C06Ctx): the shared-sum merge as coded
                  gives the mean loss for every assignment of batch ranges to threads (incl. the call from inside a parallel region),
                  the per-thread-slot variant is refuted, axiom-free
  correspondence  extracted model (exact Q arithmetic; on real data the float instantiation of the Section-polymorphic
                  cross-entropy (both label encodings), HuberLoss and AbsoluteLoss at 1e-12) vs harness/c06_loss.cpp compiled from
                  /repo on the same case lines: regularizers (G), the 10 loss classes on one batch through batch and
                  single-element entry points (L), AbstractLoss::eval(Data,Data) (M), ErrorFunction plain / weighted /
                  regularised / mini-batch with a LinearModel for thread counts 1,2,3,16 and several partitions (E, W, R, B),
                  ErrorFunction with LinearModel >> LinearModel (bilinear in the parameters; N), ZeroOneLoss weighted eval (Z),
                  NegativeAUC incl. ties, absent classes (NaN), the empty data set (exception), unequal batches, thread counts (A;
                  exact when both class sizes are powers of two, else 4e-14), SquaredLoss<Sequence,Sequence> with ignored prefix and
                  fresh / reused gradient objects (S; exact), NegativeLogLikelihood with a one-output LinearModel, several partitions /
                  thread counts, clamped predictions (P; the model's logarithm parameter is the double logarithm embedded into Q, 1e-12).
                  Extreme arguments (X stream, L/M lines): the table losses on magnitudes 1e3, 1e5, 709.75, 745.25 exactly; calling-context
                  stage (harness `ctx` mode): C06Ctx.errfn_ctx with the nested assignment vs ErrorFunction evaluated inside parallel regions
                  (E, R, N lines).
                  Exact on dyadic data (the implementation's double must be the model's rational, or its correctly rounded
                  value when a division by a non power of two is involved; Huber's outer branch: 1e-15).
  spec monitors   evaluated on the implementation's output only, on all anchored classes incl. those without Coq model
                  (models with non-linear activations):
                  derivative-call value = eval value, batch = sum of single-element calls, batch gradient rows = single-element
                  gradients, dataset error = mean of brute-force per-element losses, invariance under re-batching and thread
                  count, equal weights = unweighted, weighted = sum w l / sum w, regularizer adds factor*term exactly, mini-batch
                  value = mean of one batch, central finite differences for loss gradients (w.r.t. prediction) and
                  ErrorFunction gradients (w.r.t. parameters; linear, offset-free, tanh and logistic models), reference
                  log-sum-exp for cross-entropy incl. logits of magnitude 800, brute-force AUC;
                  extreme arguments: cross-entropy family (class / probability-vector labels, one / several outputs, double / single
                  precision) on logits up to 1e5 and next to the exp overflow (709.78) / underflow (745.13) thresholds, the cut-off -200 and
                  zero, right and wrong side of the label, batches mixing extreme and ordinary rows: everything finite, every value =
                  the exact loss, every gradient entry = the exact derivative (60-digit decimal arithmetic), batch = sum (mon_ref);
                  NegativeLogLikelihood on probabilities around its clamp 1e-100, denormal, zero, negative, 1e300 (mon_P);
                  calling context: every data-set evaluation (ErrorFunction plain / mini-batch / weighted / regularised, 1, 2, 3, 7 batches
                  of unequal sizes, AbstractLoss::eval(Data,Data), NegativeLogLikelihood, NegativeAUC, weighted ZeroOneLoss) repeated by ONE
                  thread of `omp parallel num_threads(2|3)` and by EVERY thread at once on its own copy = serial reference = main-thread
                  call, exact on dyadic data, 1e-12 otherwise (mon_ctx).
"""
import os, sys, re, math, random, struct
from fractions import Fraction
from decimal import Decimal, localcontext
sys.path.insert(0, os.path.dirname(os.path.abspath(__file__)))
from vlib import *

PID = "C06"
SRC = ["src/ObjectiveFunctions/DiscreteLoss.cpp", "src/Core/Random.cpp"]
TABLE = ["sq", "sqc", "hinge", "sqhinge", "eps", "sqeps", "huber"]
VV = ("sq", "eps", "sqeps", "huber", "abs", "cev")
CV = ("sqc", "hinge", "sqhinge", "zov", "ce")
DERIV = ("sq", "sqc", "hinge", "sqhinge", "eps", "sqeps", "huber", "ce", "cev")
THREADS = [1, 2, 3, 16]
RTOL = 1e-12
# the harness switches thread counts with omp_set_num_threads (up to 16 on a shared machine): let idle threads sleep instead of spinning
OMPENV = {"OMP_WAIT_POLICY": "PASSIVE", "GOMP_SPINCOUNT": "0"}
STATS = {"auc_exact": 0, "auc_rounded": 0, "fd_entries_checked": 0, "fd_entries_skipped_kink_or_roundoff": 0, "exact_cases": 0, "tolerance_cases": 0, "minibatch_lines": 0}
CEFAM = ("ce", "cev", "cef", "cevf")      # the losses with an exponential formulation (all label / output type variants)
F32 = ("cef", "cevf")                      # single-precision output type: compared at 2e-6
CTXKINDS = "EWRBFNMPZA"                    # lines that evaluate something over a data set: calling-context stage
NAMES = {"cef": "CrossEntropy<unsigned int,FloatVector>", "cevf": "CrossEntropy<FloatVector,FloatVector>", "sq": "SquaredLoss<RealVector,RealVector>", "sqc": "SquaredLoss<RealVector,unsigned int>", "hinge": "HingeLoss", "sqhinge": "SquaredHingeLoss",
         "eps": "EpsilonHingeLoss", "sqeps": "SquaredEpsilonHingeLoss", "huber": "HuberLoss", "abs": "AbsoluteLoss", "ce": "CrossEntropy<unsigned int,RealVector>",
         "cev": "CrossEntropy<RealVector,RealVector>", "zov": "ZeroOneLoss<unsigned int,RealVector>", "zo": "ZeroOneLoss<unsigned int,unsigned int>", "disc": "DiscreteLoss"}


# ------------------------------------------------------------------------------------------------ numbers
def fq(x):
    x = Fraction(x)
    return str(x.numerator) if x.denominator == 1 else "%d/%d" % (x.numerator, x.denominator)

def pq(s):
    if "/" in s:
        a, b = s.split("/"); return Fraction(int(a), int(b))
    try: return Fraction(int(s))
    except ValueError: return Fraction(float.fromhex(s) if "x" in s else float(s))

def fh(s):
    if s in ("nan", "-nan"): return float("nan")
    if s == "inf": return float("inf")
    if s == "-inf": return float("-inf")
    return float.fromhex(s)

def fhl(s):
    return [] if s in ("-", "") else [fh(x) for x in s.split(",")]

def mq(s):
    """model number: [-]hexnum/hexden, or a hex float (cross-entropy)"""
    if "/" in s:
        a, b = s.split("/"); return Fraction(int(a, 16), int(b, 16))
    return fh(s)

def mql(s):
    return [] if s in ("-", "") else [mq(x) for x in s.split(",")]

def toks(line):
    return dict(t.split("=", 1) for t in line.split()[1:] if "=" in t)

def finite(x):
    return not (math.isnan(x) or math.isinf(x))

def close(a, b, scale=0.0, tol=RTOL):
    if a == b: return True
    if math.isnan(a) and math.isnan(b): return True
    if not (finite(a) and finite(b)): return False
    return abs(a - b) <= tol * max(abs(a), abs(b), scale, 1e-300)

def vclose(a, b, tol=RTOL, scale=0.0):
    if len(a) != len(b): return False
    sc = max([abs(x) for x in a + b if finite(x)] + [scale])
    return all(close(x, y, sc, tol) for x, y in zip(a, b))

def fsum_exact(xs):
    return sum((Fraction(x) for x in xs), Fraction(0))

def all_finite(xs):
    return all(finite(x) for x in xs)

def sections(line):
    s = [[]]
    for t in line.split():
        if t == "|": s.append([])
        else: s[-1].append(t)
    return s


# ------------------------------------------------------------------------------------------------ generators
def dyq(rng, lo, hi, dens=(1, 2, 4)):
    d = rng.choice(dens)
    return Fraction(rng.randint(lo * d, hi * d), d)

def partition(rng, n):
    """random composition of n into positive parts"""
    if n == 0: return []
    r = rng.random()
    if r < 0.15: return [n]
    if r < 0.3: return [1] * n
    parts = []; left = n
    while left > 0:
        k = rng.randint(1, max(1, min(left, 1 + n // 2))); parts.append(k); left -= k
    return parts

PYTH = {1: [[1], [3], [-2]], 2: [[3, 4], [-4, 3], [5, 12], [0, 2], [6, -8]], 3: [[1, 2, 2], [2, 3, 6], [0, 3, 4], [-2, 6, 9], [4, 4, 7]]}

def gen_labels(rng, name, n, dim, exact=True, scale=1.0):
    """returns (label tokens, pred tokens, param token, dim, extra section or None)"""
    param = "0"; extra = None
    if name in VV:
        if name in ("eps", "sqeps"): param = fq(rng.choice([0, Fraction(1, 2), 1, 2]))
        if name == "huber": param = fq(rng.choice([Fraction(1, 2), 1, 2, 4]))
        labs, preds = [], []
        for _ in range(n):
            if exact:
                l = [dyq(rng, -3, 3) for _ in range(dim)]
                if name in ("huber", "abs"):
                    v = rng.choice(PYTH[dim]); s = rng.choice([0, Fraction(1, 2), 1, 2, -1, Fraction(1, 4)])
                    p = [a + s * b for a, b in zip(l, v)]
                else:
                    p = [rng.choice([a, a + dyq(rng, -3, 3), dyq(rng, -4, 4)]) for a in l]
                if name == "cev": pass
                labs += [fq(x) for x in l]; preds += [fq(x) for x in p]
            else:
                if name == "cev":
                    w = [rng.random() for _ in range(dim)]; sw = sum(w); l = [x / sw for x in w]
                    if rng.random() < 0.3: l = [1.0 if i == rng.randrange(dim) else 0.0 for i in range(dim)]; l = l if sum(l) == 1.0 else [1.0] + [0.0] * (dim - 1)
                else:
                    l = [rng.gauss(0, 1) * scale for _ in range(dim)]
                p = [rng.gauss(0, 1) * scale for _ in range(dim)]
                if name == "huber" and rng.random() < 0.5: p = [a + rng.gauss(0, 0.2) for a in l]
                labs += [float(x).hex() for x in l]; preds += [float(x).hex() for x in p]
        return labs, preds, param, extra
    if name in CV:
        if name == "zov": param = fq(rng.choice([0, Fraction(1, 2), -1]))
        labs, preds = [], []
        for _ in range(n):
            c = rng.randint(0, 1) if dim == 1 else rng.randrange(dim)
            if name == "sqc" and dim == 1: c = 0
            labs.append(str(c))
            for j in range(dim):
                if exact: preds.append(fq(rng.choice([dyq(rng, -3, 3), Fraction(rng.randint(-2, 2)), dyq(rng, -1, 1, (1, 2))])))
                else: preds.append(float(rng.gauss(0, 1) * scale).hex())
        return labs, preds, param, extra
    if name == "zo":
        return [str(rng.randint(0, 3)) for _ in range(n)], [str(rng.randint(0, 3)) for _ in range(n)], "0", None
    if name == "disc":
        k = rng.choice([2, 3, 4])
        cost = [[0 if i == j else fq(dyq(rng, 0, 5, (1, 2))) for j in range(k)] for i in range(k)]
        return [str(rng.randrange(k)) for _ in range(n)], [str(rng.randrange(k)) for _ in range(n)], str(k), [str(x) for r in cost for x in r]
    raise ValueError(name)

def gen_loss_case(rng, exact=True):
    """L line on the whole data as one batch, then AbstractLoss::eval(Data,Data) on several partitions / thread counts, then (real data) a finite-difference line"""
    if exact: name = rng.choice(["sq", "sqc", "hinge", "sqhinge", "eps", "sqeps", "huber", "abs", "zov", "zo", "disc", "hinge", "sqhinge"])
    else: name = rng.choice(["sq", "sqc", "hinge", "sqhinge", "eps", "sqeps", "huber", "abs", "ce", "ce", "cev", "cev", "ce", "huber", "abs", "cev"])
    dim = rng.choice([1, 2, 3]) if name in VV else (rng.choice([1, 1, 2, 3, 4]) if name in CV else 1)
    if name == "cev": dim = rng.choice([2, 3, 4])
    n = rng.choice([1, 2, 3, 4, 5, 8] if exact else [1, 2, 3, 5, 7, 12])
    scale = 1.0
    if not exact:
        if name in ("ce", "cev"): scale = rng.choice([1, 1, 30, 300, 800])
        else: scale = rng.choice([1, 1, 1, 1e-6, 1e6] + ([1e100] if name in ("sq", "abs", "huber", "eps") else []))
    labs, preds, param, extra = gen_labels(rng, name, n, dim, exact, scale)
    tail = (" | " + " ".join(extra)) if extra else ""
    lines = ["L %s %s %d | %s | %s%s" % (name, param, dim, " ".join(labs), " ".join(preds), tail)]
    for _ in range(rng.randint(2, 4)):
        lines.append("M %s %s %d %d | %s | %s | %s%s" % (name, param, dim, rng.choice(THREADS), " ".join(map(str, partition(rng, n))), " ".join(labs), " ".join(preds), tail))
    if not exact and name in DERIV and scale <= 1e3:
        lines.append("D %s %s %d | %s | %s" % (name, param, dim, " ".join(labs), " ".join(preds)))
    return lines

def gen_ef_case(rng, exact=True, ctx=False):
    """ctx: the stream for the calling-context stage -- 7..12 elements cut into 1, 2, 3 and 7 batches of unequal sizes"""
    name = rng.choice(TABLE if exact else TABLE + ["ce", "ce", "cev"])
    nin = rng.choice([1, 2, 3]); nout = rng.choice([1, 2, 3])
    if name == "cev": nout = rng.choice([2, 3])
    n = rng.choice([1, 2, 3, 4, 6, 8] if exact else [2, 3, 5, 7, 9])
    if ctx: n = rng.choice([7, 8, 9, 10, 12])
    param = "0"
    if name in ("eps", "sqeps"): param = fq(rng.choice([0, Fraction(1, 2), 1]))
    if name == "huber": param = "64" if exact else fq(rng.choice([Fraction(1, 2), 1, 4]))
    if exact:
        params = [fq(dyq(rng, -2, 2, (1, 2))) for _ in range(nin * nout + nout)]
        ins = [fq(rng.choice([Fraction(rng.randint(-3, 3)), dyq(rng, -2, 2, (2,))])) for _ in range(n * nin)]
    else:
        params = [float(rng.gauss(0, 1)).hex() for _ in range(nin * nout + nout)]
        ins = [float(rng.gauss(0, 1)).hex() for _ in range(n * nin)]
    if name in VV:
        if name == "cev":
            labs = []
            for _ in range(n):
                w = [rng.random() for _ in range(nout)]; sw = sum(w); labs += [float(x / sw).hex() for x in w]
        else:
            labs = [fq(dyq(rng, -3, 3)) if exact else float(rng.gauss(0, 1)).hex() for _ in range(n * nout)]
    else:
        labs = [str(rng.randint(0, 1) if nout == 1 else rng.randrange(nout)) for _ in range(n)]
        if name == "sqc" and nout == 1: labs = ["0"] * n
    body = "%s | %s | %s" % (" ".join(params), " ".join(ins), " ".join(labs))
    P = lambda: " ".join(map(str, partition(rng, n)))
    if ctx:
        nbs = []
        def P():
            if not nbs: nbs.extend(rng.sample([1, 2, 3, 7], 4))
            return " ".join(map(str, composition(rng, n, nbs.pop())))
    lines = []
    if exact:
        lines.append("E %s %s 1 %d %d | %d | %s" % (name, param, nin, nout, n, body))
        for _ in range(rng.randint(2, 4)):
            lines.append("E %s %s %d %d %d | %s | %s" % (name, param, rng.choice(THREADS), nin, nout, P(), body))
        c = rng.choice([1, 2, Fraction(1, 2), 3, Fraction(1, 4)])
        lines.append("W %s %s %d %d %d | %s | %s | %s" % (name, param, rng.choice(THREADS), nin, nout, P(), body, " ".join([fq(c)] * n)))
        lines.append("W %s %s %d %d %d | %s | %s | %s" % (name, param, rng.choice(THREADS), nin, nout, P(), body, " ".join(fq(rng.choice([Fraction(1, 2), 1, 2, 4, Fraction(3, 2), 3])) for _ in range(n))))
        for reg in ("one", "two"):
            np_ = nin * nout + nout
            mk = rng.random()
            mask = [] if mk < 0.4 else ([str(rng.randint(0, 1)) for _ in range(np_)] if mk < 0.7 else [fq(rng.choice([0, Fraction(1, 2), 1, 2])) for _ in range(np_)])
            lines.append("R %s %s %d %d %d %s %s | %s | %s | %s" % (name, param, rng.choice(THREADS), nin, nout, reg, fq(rng.choice([0, Fraction(1, 4), Fraction(1, 2), 2])), P(), body, " ".join(mask)))
        lines.append("B %s %s %d %d %d | %s | %s" % (name, param, rng.randint(1, 10 ** 6), nin, nout, P(), body))
    else:
        mt = rng.choice(["lin", "lin", "linno", "tanh", "logistic"])
        if mt == "linno": body = "%s | %s | %s" % (" ".join(params[:nin * nout]), " ".join(ins), " ".join(labs))
        lines.append("F %s %s 1 %d %d %s | %d | %s" % (name, param, nin, nout, mt, n, body))
        for _ in range(rng.randint(1, 3)):
            lines.append("F %s %s %d %d %d %s | %s | %s" % (name, param, rng.choice(THREADS), nin, nout, mt, P(), body))
        c = float(rng.choice([1.0, 0.3, 7.0])).hex()
        lines.append("F %s %s %d %d %d %s | %s | %s | %s" % (name, param, rng.choice(THREADS), nin, nout, mt, P(), body, " ".join([c] * n)))
        lines.append("F %s %s %d %d %d %s | %s | %s | %s" % (name, param, rng.choice(THREADS), nin, nout, mt, P(), body, " ".join(float(rng.uniform(0.1, 3)).hex() for _ in range(n))))
    return lines

def gen_net2_case(rng):
    """ErrorFunction on LinearModel(nin,nh) >> LinearModel(nh,nout), both with offset: exact, several partitions / thread counts"""
    name = rng.choice(TABLE)
    nin = rng.choice([1, 2, 3]); nh = rng.choice([1, 2, 3]); nout = rng.choice([1, 2, 3])
    n = rng.choice([1, 2, 3, 4, 6])
    param = "0"
    if name in ("eps", "sqeps"): param = fq(rng.choice([0, Fraction(1, 2), 1]))
    if name == "huber": param = "1024"
    params = [fq(dyq(rng, -2, 2, (1, 2))) for _ in range(nin * nh + nh + nh * nout + nout)]
    ins = [fq(rng.choice([Fraction(rng.randint(-3, 3)), dyq(rng, -2, 2, (2,))])) for _ in range(n * nin)]
    if name in VV: labs = [fq(dyq(rng, -3, 3)) for _ in range(n * nout)]
    else:
        labs = [str(rng.randint(0, 1) if nout == 1 else rng.randrange(nout)) for _ in range(n)]
        if name == "sqc" and nout == 1: labs = ["0"] * n
    body = "%s | %s | %s" % (" ".join(params), " ".join(ins), " ".join(labs))
    lines = ["N %s %s 1 %d %d %d | %d | %s" % (name, param, nin, nh, nout, n, body)]
    for _ in range(rng.randint(2, 3)):
        lines.append("N %s %s %d %d %d %d | %s | %s" % (name, param, rng.choice(THREADS), nin, nh, nout, " ".join(map(str, partition(rng, n))), body))
    return lines

def gen_reg_case(rng):
    n = rng.randint(1, 6)
    x = [rng.choice([Fraction(0), dyq(rng, -3, 3)]) for _ in range(n)]
    mk = rng.random()
    mask = [] if mk < 0.4 else ([Fraction(rng.randint(0, 1)) for _ in range(n)] if mk < 0.7 else [rng.choice([Fraction(0), Fraction(1, 2), Fraction(1), Fraction(2), Fraction(3, 4)]) for _ in range(n)])
    return ["G %s | %s | %s" % (reg, " ".join(map(fq, mask)), " ".join(map(fq, x))) for reg in ("one", "two")]

def gen_auc_case(rng):
    """NegativeAUC: ties between scores (scores drawn from a small pool), one class absent (the code returns NaN), a single element,
    the empty data set (documented exception), labels > 1 (every label > 0 is positive), class sizes that are powers of two (then
    every double operation of the sweep is exact and the comparison with the model is exact), unequal batches, several thread counts"""
    r = rng.random()
    n = 0 if r < 0.03 else (1 if r < 0.08 else (rng.randint(8, 20) if r < 0.3 else rng.randint(2, 12)))
    labs = [rng.randint(0, 1) for _ in range(n)]
    if n >= 2:
        mode = rng.random()
        if mode < 0.06: labs = [1] * n
        elif mode < 0.12: labs = [0] * n
        elif mode < 0.65:
            P = rng.choice([p for p in (1, 2, 4, 8, 16) if p < n]); N = rng.choice([q for q in (1, 2, 4, 8, 16) if q <= n - P])
            n = P + N; labs = [1] * P + [0] * N; rng.shuffle(labs)
        else:
            if sum(labs) == 0: labs[0] = 1
            if sum(labs) == n: labs[-1] = 0
    if rng.random() < 0.2: labs = [l * rng.choice([1, 2, 3]) for l in labs]
    pool = [dyq(rng, -3, 3, (1, 2)) for _ in range(rng.choice([1, 2, 3, 3, 5, 9, 30]))]
    # prediction columns: 1 (column 0 is the score), 2 (column 1 is the score), 3 (documented exception)
    r = rng.random(); dim = 1 if r < 0.7 else (2 if r < 0.95 else 3)
    sc = [fq(rng.choice(pool)) for _ in range(n * dim)]
    hd = "" if dim == 1 and rng.random() < 0.5 else " %d" % dim
    lines = []
    for inv in (0, 1):
        lines.append("A %d 1%s | %s | %s | %s" % (inv, hd, str(n) if n else "", " ".join(map(str, labs)), " ".join(sc)))
        lines.append("A %d %d%s | %s | %s | %s" % (inv, rng.choice(THREADS), hd, " ".join(map(str, partition(rng, n))), " ".join(map(str, labs)), " ".join(sc)))
    return lines


def gen_seq_case(rng):
    """SquaredLoss<Sequence,Sequence>: batch of sequences of different lengths, the first `ignore` elements of every sequence are
    excluded from the value, so their gradient must be zero; the gradient object may be a reused one"""
    dim = rng.choice([1, 2, 3]); nseq = rng.randint(1, 4)
    ignore = rng.choice([0, 0, 1, 2, 3, 5])
    lens = [rng.randint(1, 7) for _ in range(nseq)]
    if rng.random() < 0.8: lens = [max(l, ignore + 1) for l in lens]        # else: some sequence not longer than `ignore` -> documented exception
    tot = sum(lens) * dim
    labs = [fq(dyq(rng, -3, 3, (1, 2))) for _ in range(tot)]
    preds = [fq(dyq(rng, -3, 3, (1, 2))) for _ in range(tot)]               # predictions differ from the labels inside the ignored prefix too
    return ["S sq %d %d %d | %s | %s | %s" % (ignore, dim, rng.choice([0, 1]), " ".join(map(str, lens)), " ".join(labs), " ".join(preds))]

def mon_S(line, out):
    s = sections(line); hd = s[0]; d = toks(out); ignore = int(hd[2]); dim = int(hd[3])
    lens = [int(x) for x in s[1]]; labs = [pq(x) for x in s[2]]; preds = [pq(x) for x in s[3]]
    what = "SquaredLoss<Sequence,Sequence>(ignore=%d)%s lengths=%s dim=%d" % (ignore, " with a reused gradient object" if hd[4] == "1" else "", s[1], dim)
    if any(l <= ignore for l in lens):
        return [] if "EXC" in out else [("S:seq:no-exception", "%s: a sequence is not longer than the ignored prefix, documented exception expected, got %s" % (what, out[:120]))]
    if "v" not in d: return [("S:seq:exception", "%s: %s" % (what, out[:160]))]
    want_v = Fraction(0); want_g = []; pos = 0
    for l in lens:
        for j in range(l):
            for k in range(dim):
                df = preds[pos] - labs[pos]; pos += 1
                if j >= ignore: want_v += df * df / 2; want_g.append(df)
                else: want_g.append(Fraction(0))
    v, dv = Fraction(fh(d["v"])), Fraction(fh(d["dv"]))
    if v != want_v: return [("S:seq:value", "%s: eval = %s, half the squared distance over the counted elements is %s" % (what, float(v), float(want_v)))]
    if dv != v: return [("S:seq:derivative-value", "%s: evalDerivative returns the value %s, eval returns %s" % (what, float(dv), float(v)))]
    gl = [int(x) for x in d["gl"].split(",")] if d.get("gl") else []
    if gl != lens: return [("S:seq:gradient-shape", "%s: the gradient holds sequences of lengths %s" % (what, gl))]
    g = [Fraction(x) for x in fhl(d["g"])]
    if g != want_g:
        k = next(i for i, (a, b) in enumerate(zip(g, want_g)) if a != b)
        return [("S:seq:gradient", "%s: gradient component %d is %s, the derivative of the returned value w.r.t. that prediction component is %s%s" % (
            what, k, float(g[k]), float(want_g[k]), " (element inside the ignored prefix)" if want_g[k] == 0 else ""))]
    return []

def gen_nll_case(rng):
    """NegativeLogLikelihood with LinearModel(nin,1,offset): dyadic parameters / inputs (the predictions are exact in double and in Q),
    mostly positive predictions, sometimes predictions <= 0 (clamped at 1e-100: log(1e-100), coefficient 0); one reference line
    (one batch, one thread) and several partitions / thread counts of the same data"""
    nin = rng.choice([1, 2, 3]); n = rng.choice([1, 2, 3, 4, 6, 9])
    clamp = rng.random() < 0.25
    w = [dyq(rng, -1, 1, (1, 2, 4)) for _ in range(nin)]; b = dyq(rng, 4, 9, (1, 2)) if not clamp else dyq(rng, -1, 2, (1, 2))
    ins = [fq(rng.choice([Fraction(rng.randint(-3, 3)), dyq(rng, -2, 2, (2,))])) for _ in range(n * nin)]
    body = "%s | %s" % (" ".join(map(fq, w + [b])), " ".join(ins))
    lines = ["P 1 %d | %d | %s" % (nin, n, body)]
    for _ in range(rng.randint(2, 3)):
        lines.append("P %d %d | %s | %s" % (rng.choice(THREADS), nin, " ".join(map(str, partition(rng, n))), body))
    return lines

MINPROB = Fraction(1e-100)

def mon_P(lines, outs):
    """value = -(1/n) sum log(max(p(x), 1e-100)) from both entry points; derivative = -(1/n) sum c(x) (x, 1), c = 1/p or 0 below 1e-100;
    the same for every partition and thread count"""
    bad = []; ref = None
    for line, out in zip(lines, outs):
        s = sections(line); hd = s[0]; d = toks(out); nin = int(hd[2])
        what = "NegativeLogLikelihood(LinearModel(%d,1)) threads=%s batches=%s parameters=%s inputs=%s" % (nin, hd[1], s[1], s[2], s[3])
        if "v" not in d: bad.append(("P:nll:exception", "%s: %s" % (what, out[:160]))); continue
        par = [pq(x) for x in s[2]]; xs = [pq(x) for x in s[3]]; n = len(xs) // nin
        ps = [sum(a * b for a, b in zip(par[:nin], xs[i * nin:(i + 1) * nin])) + par[nin] for i in range(n)]
        want = -math.fsum(math.log(float(max(p_, MINPROB))) for p_ in ps) / n
        wg = [Fraction(0)] * (nin + 1)
        for i, p_ in enumerate(ps):
            if p_ >= MINPROB:
                for j in range(nin): wg[j] -= xs[i * nin + j] / p_ / n
                wg[nin] -= 1 / p_ / n
        v, dv, g = fh(d["v"]), fh(d["dv"]), fhl(d["g"])
        sc = max([abs(math.log(float(max(p_, MINPROB)))) for p_ in ps])
        if not close(v, want, sc, 1e-12): bad.append(("P:nll:value", "%s: eval = %r, -(1/n) sum log(max(p, 1e-100)) = %r" % (what, v, want)))
        elif not close(dv, v, sc, 1e-13): bad.append(("P:nll:derivative-value", "%s: evalDerivative returns %r, eval returns %r" % (what, dv, v)))
        elif len(g) != nin + 1 or not vclose(g, [float(x) for x in wg], 1e-12): bad.append(("P:nll:gradient", "%s: derivative %r, -(1/n) sum (1/p(x)) dp/dtheta = %r" % (what, g, [float(x) for x in wg])))
        elif ref is not None and not (close(v, ref[0], sc, 1e-12) and vclose(g, ref[1], 1e-12)):
            bad.append(("P:nll:batching-threads-invariance", "%s: value %r derivative %r differ from the one-batch one-thread result %r %r" % (what, v, g, ref[0], ref[1])))
        if ref is None: ref = (v, g)
    return bad

def nll_equal(line, mo, io):
    """model (exact rational arithmetic on the double values of log) vs implementation: 1e-12 relative to the largest |log| term"""
    dm, di = toks(mo), toks(io)
    if "MODELEXC" in mo or set(dm) != set(di) or "v" not in dm: return False
    s = sections(line); nin = int(s[0][2]); par = [pq(x) for x in s[2]]; xs = [pq(x) for x in s[3]]
    ps = [sum(a * b for a, b in zip(par[:nin], xs[i * nin:(i + 1) * nin])) + par[nin] for i in range(len(xs) // nin)]
    sc = max([abs(math.log(float(max(p_, MINPROB)))) for p_ in ps] + [1.0])
    for key in ("v", "dv", "g"):
        la, lb = [float(x) for x in mql(dm[key])], fhl(di[key])
        if len(la) != len(lb): return False
        gs = max([abs(x) for x in la] + [0.0])
        if not all(close(x, y, sc if key != "g" else gs, 1e-12) for x, y in zip(la, lb)): return False
    return True

def gen_zw_case(rng):
    n = rng.randint(1, 8); dim = rng.choice([1, 2, 3])
    labs = [str(rng.randint(0, 1) if dim == 1 else rng.randrange(dim)) for _ in range(n)]
    preds = [fq(dyq(rng, -2, 2, (1, 2))) for _ in range(n * dim)]
    thr = fq(rng.choice([0, Fraction(1, 2)]))
    mode = rng.random()
    if mode < 0.3: w = [Fraction(1)] * n
    elif mode < 0.5: w = [rng.choice([Fraction(2), Fraction(1, 2), Fraction(4)])] * n
    else: w = [rng.choice([Fraction(1, 2), Fraction(1), Fraction(2), Fraction(3), Fraction(4)]) for _ in range(n)]
    return ["Z zov %s %d | %s | %s | %s | %s" % (thr, dim, " ".join(map(str, partition(rng, n))), " ".join(labs), " ".join(preds), " ".join(map(fq, w)))]


# ------------------------------------------------------------------------------------------------ extreme arguments
# thresholds of the double exponential: exp overflows above 709.782712893384, underflows to 0 below -745.13; 1 + exp(-z) = 1 from z = 36.04;
# the coded cut-off of the one-output cross-entropy is label*x < -200; single precision: 88.72 / -103.97 / 16.6
XMAGS = [709.78, 709.79, 709.782712893384, 709.7827128933841, 710.0, 720.0, 745.13, 745.14, 746.0, 800.0, 1e3, 1e5, 36.0, 37.5, 199.999, 200.0, 200.001]
XMAGS32 = XMAGS + [88.7, 88.8, 103.9, 104.0, 87.3, 16.6]
XQ = [Fraction(1000), Fraction(100000), Fraction(2839, 4), Fraction(2981, 4), Fraction(710), Fraction(746), Fraction(200)]

def f32r(x):
    return struct.unpack("f", struct.pack("f", x))[0]

def xval(rng, mags):
    m = rng.choice(mags)
    if rng.random() < 0.25: m += rng.uniform(-0.02, 0.02)
    return m if rng.random() < 0.5 else -m

def gen_extreme_case(rng):
    """cross-entropy family (one output, several outputs, class labels and probability-vector labels, double and single precision
    outputs): predictions of magnitude up to 1e3 / 1e5 and next to the overflow / underflow thresholds of exp on the right and on the
    wrong side of the label, zero predictions, batches mixing extreme and ordinary rows; L line (batch and single-element entry
    points, both code paths) and AbstractLoss::eval(Data,Data) on partitions of the same rows"""
    which = rng.choice(["ce1", "ce1", "ce1", "ce", "ce", "cev", "cev", "cef1", "cef", "cevf"])
    name = which.rstrip("1"); dim = 1 if which.endswith("1") else rng.choice([2, 3, 4])
    mags = XMAGS32 if name in F32 else XMAGS
    n = rng.choice([1, 2, 3, 4, 6])
    labs, preds = [], []
    forced = rng.randrange(n)           # at least one extreme row
    for i in range(n):
        r = rng.random(); kind = "x" if (i == forced or r < 0.55) else ("z" if r < 0.67 else "o")
        if kind == "z": row = [rng.choice([0.0, -0.0]) for _ in range(dim)]
        elif kind == "o": row = [rng.gauss(0, 1) * rng.choice([1, 1, 10]) for _ in range(dim)]
        else:
            base = rng.choice([0.0, 1.0, 10.0])
            row = [rng.gauss(0, 1) * base for _ in range(dim)]
            if dim > 1 and rng.random() < 0.15:
                v = xval(rng, mags); row = [v] * dim                      # all logits equal and extreme
            else:
                for j in rng.sample(range(dim), rng.randint(1, dim)): row[j] = xval(rng, mags)
        if name in ("cev", "cevf"):
            m = rng.random()
            if m < 0.35: l = [0.0] * dim; l[rng.randrange(dim)] = 1.0
            elif m < 0.5: l = [1.0 / dim] * dim
            else:
                w = [rng.random() for _ in range(dim)]; sw = sum(w); l = [x / sw for x in w]
            labs += [float(x).hex() for x in l]
        else:
            labs.append(str(rng.randint(0, 1) if dim == 1 else rng.randrange(dim)))
        preds += [float(x).hex() for x in row]
    lines = ["L %s 0 %d | %s | %s" % (name, dim, " ".join(labs), " ".join(preds))]
    if name not in F32:
        for _ in range(2):
            lines.append("M %s 0 %d %d | %s | %s | %s" % (name, dim, rng.choice(THREADS), " ".join(map(str, partition(rng, n))), " ".join(labs), " ".join(preds)))
    return lines

def gen_extreme_exact_case(rng):
    """the table losses without an exponential (squared, hinge family, epsilon-insensitive, Huber, absolute) on the same magnitudes, as
    dyadic rationals: compared exactly with the Q model (whose gradient theorems are proved) and by the exact monitors"""
    name = rng.choice(["sq", "sqc", "hinge", "sqhinge", "eps", "sqeps", "huber", "abs", "hinge", "sqhinge", "huber"])
    dim = rng.choice([1, 2, 3]) if name in VV else rng.choice([1, 1, 2, 3, 4])
    n = rng.choice([1, 2, 3, 4, 6]); param = "0"
    if name in ("eps", "sqeps"): param = fq(rng.choice([0, Fraction(1, 2), 1, 2]))
    if name == "huber": param = fq(rng.choice([Fraction(1, 2), 1, 2, 4]))
    labs, preds = [], []
    forced = rng.randrange(n)
    xq = lambda: rng.choice(XQ) * rng.choice([1, -1])
    for i in range(n):
        r = rng.random(); kind = "x" if (i == forced or r < 0.55) else ("z" if r < 0.67 else "o")
        if name in VV:
            l = [dyq(rng, -3, 3) for _ in range(dim)]
            if name in ("huber", "abs"):     # prediction = label + s * (integer vector of integer length): the square root is exact
                v = rng.choice(PYTH[dim]); s = xq() if kind == "x" else (0 if kind == "z" else rng.choice([0, Fraction(1, 2), 1, 2, -1]))
                p_ = [a + s * b for a, b in zip(l, v)]
            elif kind == "z": p_ = [Fraction(0)] * dim
            elif kind == "x": p_ = [rng.choice([a + xq(), xq(), a]) for a in l]
            else: p_ = [rng.choice([a, a + dyq(rng, -3, 3), dyq(rng, -4, 4)]) for a in l]
            labs += [fq(x) for x in l]; preds += [fq(x) for x in p_]
        else:
            c = rng.randint(0, 1) if dim == 1 else rng.randrange(dim)
            if name == "sqc" and dim == 1: c = 0
            labs.append(str(c))
            row = [Fraction(0)] * dim if kind == "z" else [dyq(rng, -3, 3) for _ in range(dim)]
            if kind == "x":
                for j in rng.sample(range(dim), rng.randint(1, dim)): row[j] = xq()
            preds += [fq(x) for x in row]
    lines = ["L %s %s %d | %s | %s" % (name, param, dim, " ".join(labs), " ".join(preds))]
    for _ in range(2):
        lines.append("M %s %s %d %d | %s | %s | %s" % (name, param, dim, rng.choice(THREADS), " ".join(map(str, partition(rng, n))), " ".join(labs), " ".join(preds)))
    return lines

def gen_nll_extreme_case(rng):
    """NegativeLogLikelihood (no exponential, but a logarithm with a clamp at 1e-100): LinearModel(1,1) with weight 1 and offset 0, so the
    model's prediction IS the input: probabilities at, just below and just above the clamp, denormal, zero, negative, huge, mixed with
    ordinary ones.  Monitored only (mon_P); the inputs are not dyadic rationals of moderate size, so the Q model is not run."""
    n = rng.choice([1, 2, 3, 4, 6])
    c = 1e-100
    pool = [c, math.nextafter(c, 0.0), math.nextafter(c, 1.0), 1e-101, 1e-99, 1e-300, 5e-324, 0.0, -1.0, -1e-100, 1e300, 1.7976931348623157e308, 1.0, 1e-50]
    xs = [rng.choice(pool) if rng.random() < 0.6 else rng.uniform(0.05, 3.0) for _ in range(n)]
    body = "1 0 | %s" % " ".join(float(x).hex() for x in xs)
    lines = ["P 1 1 | %d | %s" % (n, body)]
    for _ in range(2):
        lines.append("P %d 1 | %s | %s" % (rng.choice(THREADS), " ".join(map(str, partition(rng, n))), body))
    return lines

def composition(rng, n, nb):
    """n elements in nb batches of unequal sizes (where that is possible)"""
    nb = max(1, min(nb, n)); parts = [n]
    for _ in range(30):
        cuts = sorted(rng.sample(range(1, n), nb - 1)); parts = [b - a for a, b in zip([0] + cuts, cuts + [n])]
        if nb == 1 or nb == n or len(set(parts)) > 1: break
    return parts

def ce_reference(name, dim, labs, preds):
    """the mathematically exact loss and its derivative w.r.t. the prediction for every row, evaluated with 60 significant digits
    (decimal arithmetic; every double is an exact decimal): returns [(loss, gradient row, largest |logit|)] as doubles"""
    out = []
    with localcontext() as cx:
        cx.prec = 60
        one = Decimal(1)
        for i in range(len(preds) // dim):
            p = [Decimal(x) for x in preds[i * dim:(i + 1) * dim]]
            if name in ("ce", "cef") and dim == 1:
                y = 2 * int(labs[i]) - 1; z = -y * p[0]                                   # ln(1 + exp(-y x))
                loss = (z + (one + (-z).exp()).ln()) if z > 0 else (one + z.exp()).ln()
                grad = [-y / (one + (-z).exp())]                                          # -y (1 - sigmoid(y x)) = -y / (1 + exp(y x))
            else:
                m = max(p); e = [(x - m).exp() for x in p]; s = sum(e); lse = s.ln() + m
                if name in ("ce", "cef"):
                    c = int(labs[i]); loss = lse - p[c]; grad = [a / s - (1 if j == c else 0) for j, a in enumerate(e)]
                else:
                    tl = [Decimal(x) for x in labs[i * dim:(i + 1) * dim]]
                    loss = lse - sum(a * b for a, b in zip(tl, p)); grad = [a / s - b for a, b in zip(e, tl)]
            out.append((float(loss), [float(g) for g in grad], max(abs(float(x)) for x in p)))
    return out

def mon_ref(line, out):
    """cross-entropy family on one batch: everything finite (the exact values are representable), every reported value = the exact
    loss, every reported gradient = the exact derivative of the loss (batch and single-element entry points, both code paths)"""
    s = sections(line); hd = s[0]; name = hd[1]; d = toks(out)
    if name not in CEFAM or "v" not in d or d.get("dv", "-") == "-": return []
    dim = int(hd[3]); f32 = name in F32
    rd = (lambda x: f32r(x)) if f32 else (lambda x: x)
    try:
        preds = [rd(float(pq(x))) for x in s[2]]
        labs = [int(x) for x in s[1]] if name in ("ce", "cef") else [rd(float(pq(x))) for x in s[1]]
    except (OverflowError, ValueError):
        return []
    if not all_finite(preds) or max([abs(x) for x in preds] + [0.0]) > 1e6: return []
    ref = ce_reference(name, dim, labs, preds); n = len(ref)
    v, dv = fh(d["v"]), fh(d["dv"]); ev, edv, g, eg = fhl(d["ev"]), fhl(d["edv"]), fhl(d["g"]), fhl(d["eg"])
    tol = 2e-6 if f32 else RTOL
    row = lambda i: "element %d (label %s, prediction %s)" % (i, s[1][i] if name in ("ce", "cef") else [float(pq(x)) for x in s[1][i * dim:(i + 1) * dim]], preds[i * dim:(i + 1) * dim])
    if len(ev) != n or len(edv) != n or len(g) != n * dim or len(eg) != n * dim:
        return ["L:%s:shape| %s: %d elements, got %d / %d values and %d / %d gradient entries" % (name, shape(line), n, len(ev), len(edv), len(g), len(eg))]
    tot = math.fsum(r[0] for r in ref)
    for what, xs, per in (("eval on the batch", [v], 0), ("evalDerivative on the batch (value)", [dv], 0), ("single-element eval", ev, 1),
                          ("single-element evalDerivative (value)", edv, 1), ("batch gradient", g, dim), ("single-element gradient", eg, dim)):
        for j, x in enumerate(xs):
            if finite(x): continue
            if per == 0: return ["L:%s:not-finite| %s: %s returns %r; the sum of the exact element losses is %r (labels %s, predictions %s)" % (name, shape(line), what, x, tot, s[1], preds)]
            i = j // per
            return ["L:%s:not-finite| %s: %s returns %r at %s; the exact loss is %r and its derivative w.r.t. the prediction %r" % (name, shape(line), what, x, row(i), ref[i][0], ref[i][1])]
    for i, (l_, gr, sc) in enumerate(ref):
        for what, x in (("single-element eval", ev[i]), ("single-element evalDerivative", edv[i])):
            if abs(x - l_) > tol * max(1.0, sc, abs(l_)):
                return ["L:%s:value-vs-exact| %s: %s returns %r at %s, the loss evaluated with 60 digits is %r" % (name, shape(line), what, x, row(i), l_)]
        for what, xs in (("batch evalDerivative", g), ("single-element evalDerivative", eg)):
            for j in range(dim):
                if abs(xs[i * dim + j] - gr[j]) > tol:
                    return ["L:%s:gradient-is-not-derivative| %s: %s returns the gradient entry %r for output %d of %s, the derivative of the loss w.r.t. that output (60 digits) is %r" % (
                        name, shape(line), what, xs[i * dim + j], j, row(i), gr[j])]
    tsc = math.fsum(max(1.0, r[2], abs(r[0])) for r in ref)
    for what, x in (("eval", v), ("evalDerivative", dv)):
        if abs(x - tot) > tol * tsc:
            return ["L:%s:batch-value-vs-exact| %s: %s on the batch returns %r, the sum of the exact element losses is %r" % (name, shape(line), what, x, tot)]
    STATS["extreme_reference_rows"] = STATS.get("extreme_reference_rows", 0) + n
    return []


# ------------------------------------------------------------------------------------------------ calling-context stage
CTXWHAT = {"c2o": "one thread of a parallel region of 2 threads (the other idle)", "c3o": "one thread of a parallel region of 3 threads (the others idle)",
           "c2a": "every thread of a parallel region of 2 threads at the same time, each on its own instance", "c3a": "every thread of a parallel region of 3 threads at the same time, each on its own instance"}
CTXERR = ("EXC", "STDEXC", "UNKEXC", "NOTRUN")

def ctx_parse(sv):
    """`v:dv:g` or a single value -> list of floats, or the exception marker"""
    if sv in CTXERR: return sv
    parts = sv.split(":")
    if len(parts) == 1: return [fh(parts[0])]
    return [fh(parts[0]), fh(parts[1])] + fhl(parts[2])

def ctx_same(a, b, exact):
    if isinstance(a, str) or isinstance(b, str): return a == b
    if len(a) != len(b): return False
    if exact: return all(x == y or (math.isnan(x) and math.isnan(y)) for x, y in zip(a, b))
    if len(a) <= 2: return all(close(x, y, 0, RTOL) for x, y in zip(a, b))
    return all(close(x, y, 0, RTOL) for x, y in zip(a[:2], b[:2])) and vclose(a[2:], b[2:], RTOL)

def ctx_main_values(line, out):
    """the result of the call from the main thread in the form of ctx_parse"""
    d = toks(out); k = line[0]
    if out.split()[1:2] in (["EXC"], ["STDEXC"]): return out.split()[1]
    try:
        if k in "EWRBFNP": return [fh(d["v"]), fh(d["dv"])] + fhl(d["g"])
        return [fh(d[{"M": "m", "Z": "z", "A": "a"}[k]])]
    except KeyError:
        return None

def ctx_what(line):
    k = line[0]
    if k in "EWRBFN": return "ErrorFunction %s" % shape(line)
    if k == "M": return "AbstractLoss::eval(Data,Data) %s" % shape(line)
    if k == "P": s = sections(line); return "NegativeLogLikelihood threads=%s batches=%s" % (s[0][1], ",".join(s[1]))
    if k == "Z": return "ZeroOneLoss::eval(Data,Data,weights) batches=%s" % ",".join(sections(line)[1])
    return "NegativeAUC batches=%s" % ",".join(sections(line)[1])

def ctx_fmt(x):
    if isinstance(x, str): return x
    if len(x) == 1: return "%r" % x[0]
    return "eval = %r, evalDerivative value = %r, derivative = %r" % (x[0], x[1], x[2:])

def mon_ctx(line, main_out, ctx_out):
    """the result must not depend on the calling context: evaluated inside a parallel region (by one thread, by all threads on their own
    copies) = serial reference = the call from the main thread; exact on exactly representable data, 1e-12 otherwise.
    returns (messages, team sizes ok)"""
    k = line[0]
    if k not in CTXKINDS: return [], True
    name = line.split()[1] if k in "EWRBFNM" else {"P": "nll", "Z": "zov", "A": "auc"}[k]
    main = ctx_main_values(line, main_out)
    if ctx_out.split()[1:2] == ["-"] or "cs" not in toks(ctx_out):
        # nothing was evaluated: legitimate only if the call from the main thread failed as well
        if isinstance(main, list): return ["%s:%s:calling-context-missing| %s: evaluated from the main thread but not in the calling-context stage: %s" % (k, name, ctx_what(line), ctx_out[:100])], True
        return [], True
    d = toks(ctx_out)
    if d.get("ck") != "2,3,2,3": return [], False
    hd0 = sections(line)[0]
    exact = k in "ZA" or (k != "P" and not any(("x" in t_ or "." in t_) for t_ in line.split() if t_ not in hd0))
    ref = ctx_parse(d["cs"])
    bad = []
    if main is not None and not ctx_same(ref, main, exact):
        bad.append("%s:%s:calling-context| %s: a fresh instance evaluated from the main thread with one OpenMP thread gives %s, the call of the normal pass gave %s" % (k, name, ctx_what(line), ctx_fmt(ref), ctx_fmt(main)))
    for key in ("c2o", "c3o", "c2a", "c3a"):
        for ti, sv in enumerate(d[key].split(";")):
            got = ctx_parse(sv)
            if got == "NOTRUN": return [], False
            if not ctx_same(got, ref, exact):
                bad.append("%s:%s:calling-context| %s evaluated by %s%s: %s; serial reference (main thread): %s" % (
                    k, name, ctx_what(line), CTXWHAT[key], (" -- thread %d" % ti) if key[2] == "a" else "", ctx_fmt(got), ctx_fmt(ref)))
                break
        if bad: break
    return bad, True

def ctx_model_equal(line, mo, io):
    """extracted C06Ctx model (E, R, N lines on rational data) vs implementation, all contexts"""
    if mo.split()[1:2] == ["-"]: return True
    if "MODELEXC" in mo: return False
    dm, di = toks(mo), toks(io)
    loose = line.split()[1] == "huber"
    for key in ("cs", "c2o", "c3o", "c2a", "c3a"):
        if key not in di or key not in dm: return False
        ms, xs = dm[key].split(";"), di[key].split(";")
        if len(ms) != len(xs): return False
        for a, b in zip(ms, xs):
            if b in CTXERR: return False
            pa, pb = a.split(":"), b.split(":")
            if len(pa) != 3 or len(pb) != 3: return False
            la, lb = [mq(pa[0]), mq(pa[1])] + mql(pa[2]), [fh(pb[0]), fh(pb[1])] + fhl(pb[2])
            if len(la) != len(lb) or not all(num_equal(x, y, loose) for x, y in zip(la, lb)): return False
    return True


# ------------------------------------------------------------------------------------------------ spec monitors (implementation output only)
def shape(line):
    s = sections(line); hd = s[0]
    if hd[0] in ("L", "D"): return "%s dim=%s n=%d" % (NAMES.get(hd[1], hd[1]), hd[3], len(s[1]) if hd[1] not in VV + ("cevf",) else len(s[1]) // max(1, int(hd[3])))
    if hd[0] == "M": return "%s dim=%s threads=%s batches=%s" % (NAMES.get(hd[1], hd[1]), hd[3], hd[4], ",".join(s[1]))
    if hd[0] == "N": return "%s threads=%s LinearModel(%s,%s)>>LinearModel(%s,%s) batches=%s" % (NAMES.get(hd[1], hd[1]), hd[3], hd[4], hd[5], hd[5], hd[6], ",".join(s[1]))
    if hd[0] in ("E", "W", "R", "F", "B"): return "%s threads/seed=%s nin=%s nout=%s%s batches=%s" % (NAMES.get(hd[1], hd[1]), hd[3], hd[4], hd[5], (" " + " ".join(hd[6:])) if len(hd) > 6 else "", ",".join(s[1]))
    return " ".join(hd)

def mon_L(line, out, tol):
    """one batch: derivative-call value = eval value, batch = sum of elements, gradient rows = element gradients"""
    hd = sections(line)[0]; name = hd[1]; d = toks(out); bad = []
    if "v" not in d: return ["L:%s:exception| loss call failed on `%s`: %s" % (name, shape(line), out[:200])]
    v = fh(d["v"]); ev = fhl(d["ev"])
    if name in F32: tol = 2e-6          # single-precision arithmetic inside the loss
    exact = tol == 0
    eq = (lambda a, b, sc=0.0: a == b or (math.isnan(a) and math.isnan(b))) if exact else (lambda a, b, sc=0.0: close(a, b, sc, tol))
    sc = max([abs(x) for x in ev if finite(x)] + [0.0])
    if name in CEFAM:
        # log-sum-exp minus the label logit: the result is a difference of numbers of the size of the logits (conditioning, not a defect)
        try: sc = max([sc] + [abs(float(pq(x))) for x in sections(line)[2]])
        except (OverflowError, ValueError): pass
    if all_finite(ev) and finite(v):
        sev = float(fsum_exact(ev)) if ev else 0.0
        if not eq(v, sev, sc): bad.append("L:%s:batch-vs-elements| %s: eval on the batch = %r but the sum of the single-element evals = %r" % (name, shape(line), v, sev))
    if d["dv"] != "-":
        dv = fh(d["dv"]); edv = fhl(d["edv"]); g = fhl(d["g"]); eg = fhl(d["eg"])
        if not eq(dv, v, sc): bad.append("L:%s:paths| %s: evalDerivative returns %r, eval returns %r" % (name, shape(line), dv, v))
        if all_finite(edv) and finite(dv) and not eq(dv, float(fsum_exact(edv)) if edv else 0.0, sc):
            bad.append("L:%s:batch-vs-elements-derivative| %s: evalDerivative on the batch returns %r, sum of single-element evalDerivative values %r" % (name, shape(line), dv, float(fsum_exact(edv))))
        if not (g == eg if exact else vclose(g, eg, tol)): bad.append("L:%s:gradient-rows| %s: batch gradient rows differ from the single-element gradients" % (name, shape(line)))
        if any(not eq(a, b, sc) for a, b in zip(ev, edv)): bad.append("L:%s:paths-single| %s: single-element evalDerivative values %r differ from single-element eval values %r" % (name, shape(line), edv, ev))
    # reference values computed here (cross-entropy through a stable log-sum-exp, the others by their definition)
    ref = ref_losses(line)
    if ref is not None and len(ref) == len(ev):
        for i, (a, b) in enumerate(zip(ev, ref)):
            if not close(a, b, 1e-300, 1e-9) and not (abs(a - b) < 1e-12):
                bad.append("L:%s:reference| %s: element %d has loss %r, definition gives %r" % (name, shape(line), i, a, b)); break
    return bad

def ref_losses(line):
    s = sections(line); name = s[0][1]; dim = int(s[0][3])
    try:
        preds = [float(pq(x)) for x in s[2]]
        if name == "ce":
            labs = [int(x) for x in s[1]]; out = []
            for i, c in enumerate(labs):
                p = preds[i * dim:(i + 1) * dim]
                if dim == 1:
                    z = -(2.0 * c - 1) * p[0]
                    out.append(z + math.log1p(math.exp(-z)) if z > 0 else math.log1p(math.exp(z)))
                else:
                    m = max(p); out.append(m + math.log(math.fsum(math.exp(x - m) for x in p)) - p[c])
            return out
        if name == "cev":
            labs = [float(pq(x)) for x in s[1]]; out = []
            for i in range(len(preds) // dim):
                p = preds[i * dim:(i + 1) * dim]; l = labs[i * dim:(i + 1) * dim]; m = max(p)
                out.append(m + math.log(math.fsum(math.exp(x - m) for x in p)) - math.fsum(a * b for a, b in zip(l, p)))
            return out
        if name == "abs":
            labs = [float(pq(x)) for x in s[1]]
            return [math.sqrt(math.fsum((a - b) ** 2 for a, b in zip(preds[i * dim:(i + 1) * dim], labs[i * dim:(i + 1) * dim]))) for i in range(len(preds) // dim)]
    except (OverflowError, ValueError):
        return None
    return None

def mon_D(line, out):
    hd = sections(line)[0]; name = hd[1]; d = toks(out)
    if "fd" not in d: return ["D:%s:exception| `%s`: %s" % (name, shape(line), out[:200])]
    g, f1, f2, v = fhl(d["g"]), fhl(d["fd"]), fhl(d["fd2"]), fh(d["v"])
    for j, (a, b, c) in enumerate(zip(g, f1, f2)):
        if not (finite(b) and finite(c) and finite(v)): continue
        if abs(b - c) > 1e-6 * max(1.0, abs(b)) + 3e-9 * abs(v):      # kink or round-off: the two step sizes disagree
            STATS["fd_entries_skipped_kink_or_roundoff"] += 1; continue
        STATS["fd_entries_checked"] += 1
        if abs(a - b) > 1e-5 * max(1.0, abs(a), abs(b)) + 3e-10 * abs(v):
            return ["D:%s:gradient-vs-finite-differences| %s: gradient entry %d = %r, central difference of eval = %r (h=2^-17) / %r (h=2^-20)" % (name, shape(line), j, a, b, c)]
    return []

def per_batch(xs, sizes):
    out, p = [], 0
    for s in sizes: out.append(xs[p:p + s]); p += s
    return out

def mon_case(lines, outs):
    """the property's predicates on one case (header line = reference configuration)"""
    bad = []
    kind = lines[0][0]
    hd0 = sections(lines[0])[0]
    exact = not any(("x" in t or "." in t) for t in lines[0].split() if t not in hd0)
    tol = 0 if exact else RTOL
    STATS["exact_cases" if exact else "tolerance_cases"] += 1
    base = toks(outs[0])
    for line, out in zip(lines, outs):
        s = sections(line); hd = s[0]; k = hd[0]; d = toks(out)
        if k != "A" and (out.split()[1:2] in (["EXC"], ["STDEXC"]) or (k not in "G" and "v" not in d and "m" not in d and "z" not in d)):
            bad.append("%s:%s:exception| `%s`: %s" % (k, hd[1], shape(line), out[:200])); continue
        if k == "L": bad += mon_L(line, out, tol); bad += mon_ref(line, out)
        elif k == "D": bad += mon_D(line, out)
        elif k == "M":
            v = fh(base["v"]); n = len(fhl(base["ev"])); m = fh(d["m"])
            if n and finite(v):
                want = float(Fraction(v) / n)
                msc = 0.0
                if hd[1] in ("ce", "cev"):      # conditioning of log-sum-exp minus label logit, see mon_L
                    try: msc = max(abs(float(pq(x))) for x in s[3])
                    except (OverflowError, ValueError): pass
                if not (m == want if exact else close(m, want, msc, RTOL)):
                    bad.append("M:%s:dataset-mean| AbstractLoss::eval(Data,Data) %s = %r, but (loss on all elements)/n = %r" % (hd[1], shape(line), m, want))
        elif k in ("E", "W", "R", "F", "N"):
            v, dv, g = fh(d["v"]), fh(d["dv"]), fhl(d["g"]); el = fhl(d["el"]); n = len(el)
            weights = [pq(x) for x in s[5]] if (k == "W" or (k == "F" and len(s) > 5)) else None
            name = hd[1]
            if not close(dv, v, 0, max(tol, 0)) and not (dv == v): bad.append("%s:%s:paths| ErrorFunction %s: evalDerivative returns %r, eval returns %r" % (k, name, shape(line), dv, v))
            pv, pg = v, g
            if k == "R":
                pv, pdv, pg = fh(d["pv"]), fh(d["pdv"]), fhl(d["pg"]); rv, rdv, rg = fh(d["rv"]), fh(d["rdv"]), fhl(d["rg"])
                lam = pq(hd[7]); x = [pq(t) for t in s[2]]; mask = [pq(t) for t in s[5]] if len(s) > 5 and s[5] else []
                if hd[6] == "one":
                    wrv = sum(abs(a * (mask[i] if mask else 1)) for i, a in enumerate(x)); wrg = [((a > 0) - (a < 0)) * (mask[i] if mask else 1) for i, a in enumerate(x)]
                else:
                    wrv = sum((mask[i] if mask else 1) * a * a for i, a in enumerate(x)) / 2; wrg = [(mask[i] if mask else 1) * a for i, a in enumerate(x)]
                if Fraction(rv) != wrv or [Fraction(a) for a in rg] != wrg or rdv != rv:
                    bad.append("R:%s:regularizer-term| %sNormRegularizer mask=%s at %s: value %r / derivative-call value %r / gradient %r, stated term %s / %s" % (hd[6], hd[6], s[5] if len(s) > 5 else [], s[2], rv, rdv, rg, float(wrv), [float(a) for a in wrg]))
                wv = Fraction(pv) + lam * Fraction(rv); wg = [Fraction(a) + lam * Fraction(b) for a, b in zip(pg, rg)]
                if not (finite(v) and finite(pv)) or not (close(v, float(wv), 0, 1e-15) and close(dv, float(wv), 0, 1e-15) and all(close(a, float(b), 0, 1e-15) for a, b in zip(g, wg)) and len(g) == len(wg)):
                    bad.append("R:%s:regularizer-added| ErrorFunction::setRegularizer(%s, %s-norm) %s: regularised value %r / gradient %r is not error + factor*term = %r / %r" % (name, hd[7], hd[6], shape(line), v, g, float(wv), [float(a) for a in wg]))
            # dataset error = mean of the brute-force per-element losses (weighted: sum w l / sum w)
            if n and all_finite(el) and finite(pv):
                if weights is None: want = fsum_exact(el) / n
                else: want = sum((w * Fraction(l) for w, l in zip(weights, el)), Fraction(0)) / sum(weights)
                sc = max(abs(x) for x in el)
                if not (pv == float(want) if exact else close(pv, float(want), sc, RTOL)):
                    bad.append("%s:%s:mean-loss| ErrorFunction %s: value %r, %smean of the per-element losses %r" % (k, name, shape(line), pv, "weighted " if weights else "", float(want)))
            # invariance: same value / gradient as the reference configuration (one batch, one thread, no weights) of this case
            eqw = weights is not None and len(set(weights)) == 1
            if line is not lines[0] and (weights is None or eqw) and "g" in base:
                bv, bg = fh(base["v"]), fhl(base["g"])
                ex = exact and (weights is None or (weights[0].numerator == 1 and weights[0].denominator & (weights[0].denominator - 1) == 0) or weights[0] in (1, 2, 4))
                okv = (pv == bv) if ex else close(pv, bv, 0, RTOL if not exact else 1e-15)
                okg = (pg == bg) if ex else vclose(pg, bg, RTOL if not exact else 1e-15)
                if not (okv and okg):
                    what = "equal-weights" if eqw else "batching-threads"
                    bad.append("%s:%s:%s-invariance| ErrorFunction %s: value %r gradient %r differ from the single-batch single-thread %sresult %r %r" % (k, name, what, shape(line), pv, pg, "unweighted " if eqw else "", bv, bg))
            if k == "F" and "fd" in d:
                f1, f2 = fhl(d["fd"]), fhl(d["fd2"])
                for j, (a, b, c) in enumerate(zip(g, f1, f2)):
                    if not (finite(b) and finite(c)): continue
                    if abs(b - c) > 1e-6 * max(1.0, abs(b)) + 3e-9 * abs(v):
                        STATS["fd_entries_skipped_kink_or_roundoff"] += 1; continue
                    STATS["fd_entries_checked"] += 1
                    if abs(a - b) > 1e-5 * max(1.0, abs(a), abs(b)) + 3e-10 * abs(v):
                        bad.append("F:%s:%s:gradient-vs-finite-differences| ErrorFunction %s: derivative entry %d = %r, central difference of eval = %r / %r" % (name, hd[6], shape(line), j, a, b, c)); break
        elif k == "B":
            el = fhl(base["el"]); sizes = [int(x) for x in s[1]]
            cands = [float(fsum_exact(b) / len(b)) for b in per_batch(el, sizes) if b]
            v, dv = fh(d["v"]), fh(d["dv"])
            if v not in cands or dv not in cands:
                bad.append("B:%s:minibatch-mean| ErrorFunction(useMiniBatches) %s: eval %r / evalDerivative %r is not the mean loss of one of the batches %r" % (hd[1], shape(line), v, dv, cands))
        elif k == "G":
            x = [pq(t) for t in s[2]]; mask = [pq(t) for t in s[1]]
            if hd[1] == "one":
                wrv = sum(abs(a * (mask[i] if mask else 1)) for i, a in enumerate(x)); wrg = [((a > 0) - (a < 0)) * (mask[i] if mask else 1) for i, a in enumerate(x)]
            else:
                wrv = sum((mask[i] if mask else 1) * a * a for i, a in enumerate(x)) / 2; wrg = [(mask[i] if mask else 1) * a for i, a in enumerate(x)]
            if "v" not in d or Fraction(fh(d["v"])) != wrv or fh(d["dv"]) != fh(d["v"]) or [Fraction(a) for a in fhl(d["g"])] != wrg:
                bad.append("G:%s:regularizer-term| %sNormRegularizer mask=%s at %s: got %s, stated value %s gradient %s" % (hd[1], hd[1], s[1], s[2], out, float(wrv), [float(a) for a in wrg]))
        elif k == "A":
            labs = [int(x) for x in s[2]]; dim = int(hd[3]) if len(hd) > 3 else 1
            sc = [pq(x) * (-1 if hd[1] == "1" else 1) for x in s[3]][min(dim, 2) - 1::dim]        # column 0 of 1, column 1 of 2 columns
            pos = [x for x, l in zip(sc, labs) if l > 0]; neg = [x for x, l in zip(sc, labs) if l == 0]
            what = "NegativeAUC(invert=%s) threads=%s batches=%s labels=%s predictions(%d column%s)=%s" % (hd[1], hd[2], s[1], s[2], dim, "s" if dim > 1 else "", s[3])
            if not labs or dim > 2:
                if out.split()[1:2] != ["EXC"]: bad.append("A:auc:empty| %s: %s, documented exception expected, got %s" % (what, "empty data set" if not labs else "more than two columns", out[:80]))
            elif "a" not in d:
                bad.append("A:auc:exception| %s: %s" % (what, out[:160]))
            elif not pos or not neg:
                # pair counting is 0/0 here: the code as written returns NaN (no test, no exception); any number would be an invention
                if not math.isnan(fh(d["a"])): bad.append("A:auc:undefined| %s: one class is absent (0/0), the call returns the number %r" % (what, fh(d["a"])))
            else:
                want = -sum(Fraction(1) if a > b else (Fraction(1, 2) if a == b else Fraction(0)) for a in pos for b in neg) / (len(pos) * len(neg))
                a = fh(d["a"])
                if not close(a, float(want), 1.0, 1e-12):
                    bad.append("A:auc| %s: %r, pair counting -(#{s_p > s_n} + #{s_p = s_n}/2)/(#pos #neg) gives %r" % (what, a, float(want)))
    return bad

def mon_Z(line, out):
    s = sections(line); hd = s[0]; d = toks(out); dim = int(hd[3]); thr = pq(hd[2])
    if "z" not in d: return [("Z:exception", "ZeroOneLoss::eval(Data,Data,weights) `%s`: %s" % (line, out))]
    labs = [int(x) for x in s[2]]; preds = [pq(x) for x in s[3]]; w = [pq(x) for x in s[4]]; n = len(labs)
    errs = []
    for i, c in enumerate(labs):
        p = preds[i * dim:(i + 1) * dim]
        if dim == 1: errs.append(0 if int(p[0] > thr) == c else 1)
        else: errs.append(1 if any(p[j] >= p[c] for j in range(dim) if j != c) else 0)
    z = Fraction(fh(d["z"]))
    by_count = sum(a * b for a, b in zip(w, errs)) / n
    by_weight = sum(a * b for a, b in zip(w, errs)) / sum(w)
    unweighted = Fraction(sum(errs), n)
    # the weighted mean error sum(w*e)/sum(w) (the convention of WeightedErrorFunction: equal weights reproduce the
    # unweighted value); numerator and denominator are exact in double for the generated dyadic weights, so the
    # implementation's value is the correctly rounded quotient (one ulp of slack)
    rounded = lambda q: abs(z - q) <= Fraction(1, 2 ** 52) * abs(q)
    if not rounded(by_weight):
        return [("Z:weight-index" if not rounded(by_count) else "Z:equal-weights", "ZeroOneLoss<unsigned int,RealVector>::eval(targets, predictions, weights) batches=%s labels=%s predictions=%s threshold=%s weights=%s returns %s; per-element errors %s give the weighted mean error sum(w*e)/sum(w) = %s (sum(w*e)/n = %s)" % (
            s[1], s[2], s[3], hd[2], s[4], float(z), errs, float(by_weight), float(by_count)))]
    if len(set(w)) == 1 and not rounded(unweighted):
        return [("Z:equal-weights", "ZeroOneLoss<unsigned int,RealVector>::eval(targets, predictions, weights) with all weights = %s returns %s, the unweighted mean error is %s (normalised by the number of elements instead of the weight sum)" % (w[0], float(z), float(unweighted)))]
    return []


# ------------------------------------------------------------------------------------------------ model vs implementation
def num_equal(m, x, loose, scale=0.0):
    """m: model value (Fraction, or float for the float-instantiated polymorphic losses), x: implementation double"""
    if isinstance(m, float): return close(m, x, scale, RTOL)
    if not finite(x): return False
    if Fraction(x) == m: return True
    try:
        if float(m) == x: return True           # correctly rounded quotient (division by a non power of two)
    except OverflowError:
        return False
    # a division by a non power of two happened (the exact value is not a dyadic rational): later operations round again
    inexact = m.denominator & (m.denominator - 1) != 0
    return (loose or inexact) and abs(Fraction(x) - m) <= Fraction(1, 10 ** 15) * max(abs(m), 1)

def auc_equal(line, mo, io):
    """NegativeAUC, model (exact rational | nan | EXC) vs implementation: exact when both class sizes are powers of two (then FP/N, TP/P
    and everything built from them is exact in double); otherwise the divisions round and the sum of at most 21 trapezoids is compared at 4e-14"""
    if "EXC" in mo.split()[1:2] or "EXC" in io.split()[1:2]: return mo.split()[1:2] == io.split()[1:2]
    dm, di = toks(mo), toks(io)
    if "a" not in dm or "a" not in di: return False
    x = fh(di["a"])
    if dm["a"] == "nan": return math.isnan(x)
    if not finite(x): return False
    m = mq(dm["a"])
    labs = [int(t) for t in sections(line)[2]]; P = sum(1 for l in labs if l > 0); N = len(labs) - P
    if P & (P - 1) == 0 and N & (N - 1) == 0:
        STATS["auc_exact"] += 1; return Fraction(x) == m
    STATS["auc_rounded"] += 1
    # a priori bound: every trapezoid carries an absolute error <= ~4 ulp(1) (two rounded quotients, their difference, the product), at most
    # 21 trapezoids and as many additions: <= ~105 * 2^-53 = 1.2e-14; compared at 4e-14
    return abs(Fraction(x) - m) <= Fraction(4, 10 ** 14)

def seq_equal(line, mo, io):
    """SquaredLoss<Sequence,Sequence>, model vs implementation: exact (dyadic data)"""
    if "EXC" in mo.split()[1:2] or "EXC" in io.split()[1:2]: return mo.split()[1:2] == io.split()[1:2]
    dm, di = toks(mo), toks(io)
    if set(dm) != set(di) or "MODELEXC" in mo: return False
    if dm["gn"] != di["gn"] or dm["gl"] != di["gl"]: return False
    for key in ("v", "dv", "g"):
        la, lb = mql(dm[key]), fhl(di[key])
        if len(la) != len(lb) or any(not finite(y) or Fraction(y) != x for x, y in zip(la, lb)): return False
    return True

def line_equal(line, mo, io):
    k = line[0]
    if k == "A": return auc_equal(line, mo, io)     # every A line is modelled
    if mo.split()[1:2] == ["-"]: return True          # not modelled
    if "MODELEXC" in mo: return False
    dm, di = toks(mo), toks(io)
    loose = " huber " in line[:12] or line.split()[1] == "huber"
    # HuberLoss gradient on real data: remora evaluates delta/norm*(p - l) as (delta/norm)*p - (delta/norm)*l, so the
    # rounding error of a gradient entry is relative to |p|, |l| (the conditioning of the expression), not to |p - l|
    gscale = 0.0
    if k == "L" and loose and "x" in line:
        try: gscale = max([abs(float(pq(t))) for sec_ in sections(line)[1:3] for t in sec_ if finite(float(pq(t)))] + [0.0])
        except (OverflowError, ValueError): gscale = 0.0
    if k == "B":
        cands = []
        for key, val in dm.items():
            a, b, c = val.split(":"); cands.append((mq(a), mq(b), mql(c)))
        if "v" not in di: return False
        v, dv, g = fh(di["v"]), fh(di["dv"]), fhl(di["g"])
        okv = any(num_equal(c[0], v, loose) for c in cands)
        okd = any(num_equal(c[1], dv, loose) and len(c[2]) == len(g) and all(num_equal(a, b, loose) for a, b in zip(c[2], g)) for c in cands)
        return okv and okd
    if set(dm) != set(di) - ({"el"} if False else set()):
        if set(dm) - set(di) or (set(di) - set(dm)) - {"fd", "fd2"}: return False
    for key in dm:
        a, b = dm[key], di.get(key)
        if b is None: return False
        if a == "-" or b == "-":
            if a != b: return False
            continue
        la, lb = mql(a), fhl(b)
        if len(la) != len(lb) or not all(num_equal(x, y, loose, gscale if key in ("g", "eg") else 0.0) for x, y in zip(la, lb)): return False
    return True

def compare_case(lines, mo, io):
    return len(mo) == len(io) == len(lines) and all(line_equal(l, a, b) for l, a, b in zip(lines, mo, io))


# ------------------------------------------------------------------------------------------------ main
def main():
    ck = Check(PID)
    ck.trusted = DEFAULT_TRUSTED + [
        "modelled not verified: the OpenMP runtime delivers one of the modelled schedules (contiguous batch ranges per thread, critical-region merges in some order); libm exp/log/sqrt; remora expression templates (sum, norm_sqr, max) compute the sums the model writes as folds",
        "cross-entropy (both label encodings), HuberLoss and AbsoluteLoss on real data are compared through the float instantiation of the Section-polymorphic model functions (OCaml IEEE doubles, same libm) at 1e-12 and against a log-sum-exp reference at 1e-9; the theorems about these functions hold over every ordered field with exp/log/sqrt laws (the reals are one), not about IEEE rounding",
        "the chain-rule theorem for any model needs the model contract (C04: weightedParameterDerivative additive over the batch + adjoint identity); it is proved here for LinearModel and LinearModel >> LinearModel and assumed (finite-difference monitor only) for models with non-linear activations",
        "NegativeAUC: the model sorts with insertion sort, std::sort may order equal scores differently -- C06_auc_sweep_any_sorted_permutation proves the sweep gives the same value for every non-increasing arrangement; the model returns NaN exactly when a class is absent (the C++ computes 0.0/0.0) and the exact rational otherwise; the C++ value is compared exactly when both class sizes are powers of two (all double operations exact) and at 4e-14 absolute otherwise (FP/double(N), TP/double(P) round; a priori error bound 1.2e-14 for at most 21 score groups)",
        "NegativeLogLikelihood: the Coq model is parametric in the logarithm (the theorems hold for every function); the extracted model is run with lg(q) = the double nearest to q, std log, result read back as a rational, and compared with the C++ at 1e-12 relative to the largest |log| term; only LinearModel(nin,1) is tied, other models enter the theorem through the hypothesis that weightedParameterDerivative is a sum over the batch",
        "the real-number theorems about cross-entropy and HuberLoss (is_derive) are about the model's code read over R with exp/ln, not about IEEE doubles; they depend on ClassicalDedekindReals.sig_forall_dec, ClassicalDedekindReals.sig_not_dec, Classical_Prop.classic, FunctionalExtensionality.functional_extensionality_dep",
        "calling-context stage: the harness requests its teams with the num_threads clause after omp_set_dynamic(0) / omp_set_max_active_levels(1) and reports the team sizes it got (obligation); inside a region the library's own loop runs on an inner team of one thread -- nested parallelism switched on, and other OpenMP runtimes than libgomp, are not exercised; the three instances of a line share the stateless loss object",
        "extreme-argument reference: Python decimal arithmetic with 60 significant digits (exp, ln) on the exact decimal expansion of the doubles / floats handed to the loss; compared at 1e-12 (2e-6 for the single-precision variants) relative to max(1, largest |logit| of the row) for values and absolutely for gradient entries (|gradient| <= 1)",
        "finite-difference monitors use central differences with steps 2^-17 and 2^-20 (entries where the two disagree, i.e. kinks, are skipped) at 1e-5 relative"]
    ck.assumptions = [
        "datasets are non-empty (ErrorFunctionImpl divides by the number of batches/elements; zero batches is an integer division by zero in the C++)",
        "labels respect the documented ranges (class label < number of outputs; binary label in {0,1} for one output); SIZE_CHECKs vanish under NDEBUG",
        "regularizer masks are non-negative (OneNormRegularizer returns |x_i m_i| as value but sign(x_i)*m_i as gradient: inconsistent for negative mask entries)",
        "gradient theorems exclude kinks by explicit side conditions; at a kink the implementation's choice (strict `> 0` tests) is compared with the model on exact data",
        "weights of the weighted error function are positive; equal-weight theorem for any common non-zero weight",
        "NegativeAUC: labels are class labels (every label > 0 is positive), scores are finite and different from -DBL_MAX, predictions have one column; with an absent class the pair-counting value is 0/0 and the code returns NaN (accepted as the coded behaviour, any number would be flagged)",
        "SquaredLoss<Sequence,Sequence>: label and prediction sequences have equal lengths and element sizes (SIZE_CHECKs vanish under NDEBUG)",
        "exact comparison uses dyadic rationals small enough that every double operation of the implementation is exact except final divisions by non powers of two (then the correctly rounded quotient is required)"]
    ck.proofs()
    model = extract_model(PID, "C06Extract.v", "c06_driver.ml")
    exe, err = cxx_build("c06_loss", [os.path.join(ROOT, "harness", "c06_loss.cpp")] + repo_src(*SRC))
    if exe is None:
        ck.oblige("harness builds against /repo", False, err); ck.finish()
    tmpd = os.path.join(BUILD, "tmp", PID); os.makedirs(tmpd, exist_ok=True)
    big = ck.tier == "thorough"; rng = ck.rng
    rng2 = random.Random(ck.seed * 7919 + 6064)      # streams added in the fourth round

    zcases = []
    if ck.replay:
        lines = [l for l in open(ck.replay).read().split("\n") if l.strip() and not l.startswith("#")]
        zcases = [[l] for l in lines if l.startswith("Z ")]
        lines = [l for l in lines if not l.startswith("Z ") and not l.startswith("S ") and not l.startswith("P ")]
        cases = [lines] if lines else []
    else:
        k = 8 if big else 1
        cases = []
        cdir = os.path.join(ROOT, "corpus", PID)
        if os.path.isdir(cdir):
            for f in sorted(os.listdir(cdir)):
                ls = [l for l in open(os.path.join(cdir, f)).read().split("\n") if l.strip() and not l.startswith("#")]
                (zcases if ls and ls[0].startswith("Z ") else cases).append(ls)
        cases += [gen_loss_case(rng, True) for _ in range(500 * k)]
        cases += [gen_loss_case(rng, False) for _ in range(300 * k)]
        cases += [gen_ef_case(rng, True) for _ in range(350 * k)]
        cases += [gen_ef_case(rng, False) for _ in range(200 * k)]
        cases += [gen_net2_case(rng) for _ in range(150 * k)]
        cases += [gen_reg_case(rng) for _ in range(100 * k)]
        cases += [gen_auc_case(rng) for _ in range(100 * k)]
        zcases += [gen_zw_case(rng) for _ in range(100 * k)]
        # fourth round: extreme arguments (cross-entropy family; the other table losses exactly) and the calling-context stream
        cases += [gen_extreme_case(rng2) for _ in range(300 * k)]
        cases += [gen_extreme_exact_case(rng2) for _ in range(150 * k)]
        cases += [gen_ef_case(rng2, True, ctx=True) for _ in range(60 * k)]
        cases += [gen_ef_case(rng2, False, ctx=True) for _ in range(40 * k)]

    def search(dcases):
        out = []
        for c in dcases:
            k0 = c[0][0]
            for _ in range(150):
                if k0 == "L" and c[0].split()[1] in CEFAM: out.append(gen_extreme_case(rng2))
                elif k0 == "L": out.append(gen_loss_case(rng, True) if _ % 3 else gen_extreme_exact_case(rng2))
                elif k0 in "EWRB": out.append(gen_ef_case(rng, True))
                elif k0 == "N": out.append(gen_net2_case(rng))
                elif k0 == "G": out.append(gen_reg_case(rng))
                elif k0 == "A": out.append(gen_auc_case(rng))
                else: out.append(gen_loss_case(rng, False))
        return out

    def run_impl(lines):
        rc, ol, e = run_lines(exe, lines, os.path.join(tmpd, "s_impl.txt"), env=OMPENV)
        if rc != 0 or len(ol) != len(lines):
            return ol, ["%s:crash| implementation crashed/stopped after %d of %d lines (rc=%s) on `%s` %s" % (lines[min(len(ol), len(lines) - 1)][0], len(ol), len(lines), rc, shape(lines[min(len(ol), len(lines) - 1)]), e.strip()[-200:])]
        return ol, mon_case(lines, ol)

    def report_monitor(c, msgs, how=""):
        key = msgs[0].split("|")[0]
        small = c
        if len(c) > 2:
            small = [c[0]] + ddmin(c[1:], lambda ops: any(m.split("|")[0] == key for m in run_impl([c[0]] + ops)[1]), max_runs=60)
            if not any(m.split("|")[0] == key for m in run_impl(small)[1]): small = c
        if len(small) > 1 and any(m.split("|")[0] == key for m in run_impl(small[:1])[1]): small = small[:1]
        ol, m = run_impl(small)
        rc, ml, _ = run_lines(model, small, os.path.join(tmpd, "s_model.txt"))
        cf = ck.write_replay("case_%d.txt" % len(ck.violations), "\n".join(small) + "\n")
        msg = ([x for x in m if x.split("|")[0] == key] or msgs)[0]
        ck.violation(key, {"case_file": cf, "case": small, "implementation_output": ol, "model_output": ml, "monitor": m, "replay_cmd": "python3 tools/c06.py --replay %s" % cf},
                     "spec monitor fails on the implementation%s: %s" % (how, msg.split("|", 1)[1].strip()))

    ndis = 0; nmon = 0; first = None; seen_keys = set()
    if cases:
        mo = run_cases(model, cases, os.path.join(tmpd, "model_in.txt"))
        io = run_cases(exe, cases, os.path.join(tmpd, "impl_in.txt"), env=OMPENV)
        for ci, c in enumerate(cases):
            (a, rca, ea), (b, rcb, eb) = mo[ci], io[ci]
            if rca != 0: raise RuntimeError("model driver failed on case %d: %s" % (ci, ea))
            if rcb != 0 or len(b) != len(c):
                msgs = ["%s:crash| implementation crashed/stopped after %d of %d lines (rc=%s) %s" % (c[min(len(b), len(c) - 1)][0], len(b), len(c), rcb, eb.strip()[-200:])]
            else:
                msgs = mon_case(c, b)
            if msgs:
                key = msgs[0].split("|")[0]
                if ck.match_known(key) is None: nmon += 1
                if key not in seen_keys and len(seen_keys) < 5:
                    seen_keys.add(key); report_monitor(c, msgs)
            elif not compare_case(c, a, b):
                ndis += 1
                if first is None: first = ci
        if ndis and not nmon:
            c = cases[first]; a, b = mo[first][0], io[first][0]
            # the correspondence broke without a failing input so far: search near the disagreeing cases
            extra = search([cases[ci] for ci in range(len(cases)) if io[ci][1] == 0 and len(io[ci][0]) == len(cases[ci]) and not compare_case(cases[ci], mo[ci][0], io[ci][0])][:4])
            eo = run_cases(exe, extra, os.path.join(tmpd, "search_in.txt"), env=OMPENV); found = False
            for xc, (xb, rcx, ex) in zip(extra, eo):
                msgs = ["%s:crash| implementation crashed (rc=%s)" % (xc[0][0], rcx)] if rcx != 0 or len(xb) != len(xc) else mon_case(xc, xb)
                if msgs:
                    report_monitor(xc, msgs, " (found by search after the correspondence broke)"); found = True; break
            ck.notes["search_cases"] = len(extra)
            if not found:
                j = next(i for i, (l, x, y) in enumerate(zip(c, a, b)) if not line_equal(l, x, y))
                small = [c[0]] + ([c[j]] if j else [])
                cf = ck.write_replay("case_%d.txt" % first, "\n".join(small) + "\n")
                ck.violation("correspondence", {"case_file": cf, "case": small, "line": c[j], "model_output": a[j], "implementation_output": b[j], "broken": "correspondence C06Model vs /repo",
                                                "replay_cmd": "python3 tools/c06.py --replay %s" % cf},
                             "correspondence C06Model vs /repo no longer checks (outputs differ on %d cases, first: `%s`); the spec monitors pass on every explored input" % (ndis, shape(c[j])), no_input=True)
    ck.oblige("correspondence C06Model = /repo (exact on dyadic data; cross-entropy float model 1e-12) and spec monitors on %d cases" % len(cases), ndis == 0 and nmon == 0,
              "" if not (ndis or nmon) else "%d monitor failures, %d disagreements" % (nmon, ndis))
    ck.notes["disagreements"] = ndis; ck.notes["monitor_failures"] = nmon

    # ---------------- ZeroOneLoss weighted eval: model zow_eval (exact; the implementation must return the correctly rounded quotient) + spec monitor
    zo = run_cases(exe, zcases, os.path.join(tmpd, "z_in.txt"), env=OMPENV) if zcases else []
    zm = run_cases(model, zcases, os.path.join(tmpd, "z_model_in.txt")) if zcases else []
    zfail = 0; zknown = 0; seen = set(); zdis = []
    for ci, (c, (o, rc, e)) in enumerate(zip(zcases, zo)):
        msgs = [("Z:crash", "implementation crashed on `%s`" % c[0])] if rc != 0 or len(o) != 1 else mon_Z(c[0], o[0])
        if not msgs and not (zm[ci][1] == 0 and len(zm[ci][0]) == 1 and line_equal(c[0], zm[ci][0][0], o[0])): zdis.append(ci)
        for key, msg in msgs[:1]:
            if ck.match_known(key) is None: zfail += 1
            else: zknown += 1
            if key not in seen:
                seen.add(key)
                cf = ck.write_replay("z_%s.txt" % key.split(":")[1], c[0] + "\n")
                ck.violation(key, {"case_file": cf, "case": c, "implementation_output": o, "monitor": msg, "replay_cmd": "python3 tools/c06.py --replay %s" % cf},
                             "spec monitor fails on the implementation: " + msg)
    if zdis and not zfail:
        ci = zdis[0]; c = zcases[ci]
        cf = ck.write_replay("z_corr_%d.txt" % ci, c[0] + "\n")
        ck.violation("correspondence", {"case_file": cf, "case": c, "model_output": zm[ci][0], "implementation_output": zo[ci][0], "broken": "correspondence C06Model.zow_eval vs /repo",
                                        "replay_cmd": "python3 tools/c06.py --replay %s" % cf},
                     "correspondence C06Model.zow_eval vs ZeroOneLoss::eval(Data,Data,weights) no longer checks (outputs differ on %d cases, first: `%s`: model %s, implementation %s); the spec monitor passes" % (len(zdis), c[0], zm[ci][0], zo[ci][0]), no_input=True)
    ck.oblige("ZeroOneLoss<unsigned int,RealVector>::eval(Data,Data,weights) = C06Model.zow_eval = weighted mean of the per-element errors on %d cases" % len(zcases), zfail == 0 and not zdis,
              "" if zfail == 0 and not zdis else "%d cases fail the monitor, %d disagree with the model" % (zfail, len(zdis)))
    ck.notes["failures_matching_known_findings"] = zknown

    # ---------------- SquaredLoss<Sequence,Sequence>: model C06ExtModel.seq_eval / seq_evald (exact) + spec monitor
    # (value, derivative value, gradient incl. the ignored prefix, reused gradient objects, documented exception)
    scases = []
    if not ck.replay:
        scases = [gen_seq_case(rng) for _ in range(150 * (8 if big else 1))]
    else:
        scases = [[l] for l in open(ck.replay).read().split("\n") if l.startswith("S ")]
    so = run_cases(exe, scases, os.path.join(tmpd, "s_in.txt"), env=OMPENV) if scases else []
    sm = run_cases(model, scases, os.path.join(tmpd, "s_model_in.txt")) if scases else []
    sfail = 0; seen = set(); sdis = []
    for ci, (c, (o, rc, e)) in enumerate(zip(scases, so)):
        msgs = [("S:seq:crash", "implementation crashed on `%s`" % c[0])] if rc != 0 or len(o) != 1 else mon_S(c[0], o[0])
        if not msgs and not (sm[ci][1] == 0 and len(sm[ci][0]) == 1 and seq_equal(c[0], sm[ci][0][0], o[0])): sdis.append(ci)
        for key, msg in msgs[:1]:
            if ck.match_known(key) is None: sfail += 1
            if key not in seen:
                seen.add(key)
                cf = ck.write_replay("s_%s.txt" % key.split(":")[2], c[0] + "\n")
                ck.violation(key, {"case_file": cf, "case": c, "implementation_output": o, "model_output": sm[ci][0], "monitor": msg, "replay_cmd": "python3 tools/c06.py --replay %s" % cf},
                             "spec monitor fails on the implementation: " + msg)
    if sdis and not sfail:
        ci = sdis[0]; c = scases[ci]
        cf = ck.write_replay("s_corr_%d.txt" % ci, c[0] + "\n")
        ck.violation("correspondence", {"case_file": cf, "case": c, "model_output": sm[ci][0], "implementation_output": so[ci][0], "broken": "correspondence C06ExtModel.seq_eval/seq_evald vs /repo",
                                        "replay_cmd": "python3 tools/c06.py --replay %s" % cf},
                     "correspondence C06ExtModel.seq_eval/seq_evald vs SquaredLoss<Sequence,Sequence> no longer checks (outputs differ on %d cases, first: `%s`: model %s, implementation %s); the spec monitor passes" % (len(sdis), c[0], sm[ci][0], so[ci][0]), no_input=True)
    if scases:
        ck.oblige("SquaredLoss<Sequence,Sequence> = C06ExtModel.seq_eval / seq_evald exactly; value = evalDerivative value = half squared distance over the counted elements, gradient = derivative (zero on the ignored prefix), fresh and reused gradient objects, on %d cases" % len(scases),
                  sfail == 0 and not sdis, "" if sfail == 0 and not sdis else "%d cases fail the monitor, %d disagree with the model" % (sfail, len(sdis)))

    # ---------------- NegativeLogLikelihood: model C06ExtModel.nll_eval / nll_evald (log = the double logarithm embedded into Q) + spec monitor
    pcases = []
    if not ck.replay:
        pcases = [gen_nll_case(rng) for _ in range(120 * (8 if big else 1))]
    else:
        pl = [l for l in open(ck.replay).read().split("\n") if l.startswith("P ")]
        pcases = [pl] if pl else []
    po = run_cases(exe, pcases, os.path.join(tmpd, "p_in.txt"), env=OMPENV) if pcases else []
    pm = run_cases(model, pcases, os.path.join(tmpd, "p_model_in.txt")) if pcases else []
    pfail = 0; seen = set(); pdis = []
    for ci, (c, (o, rc, e)) in enumerate(zip(pcases, po)):
        msgs = [("P:nll:crash", "implementation crashed on `%s`" % c[0])] if rc != 0 or len(o) != len(c) else mon_P(c, o)
        if not msgs and not (pm[ci][1] == 0 and len(pm[ci][0]) == len(c) and all(nll_equal(l, a, b) for l, a, b in zip(c, pm[ci][0], o))): pdis.append(ci)
        for key, msg in msgs[:1]:
            if ck.match_known(key) is None: pfail += 1
            if key not in seen:
                seen.add(key)
                cf = ck.write_replay("p_%s.txt" % key.split(":")[2], "\n".join(c) + "\n")
                ck.violation(key, {"case_file": cf, "case": c, "implementation_output": o, "model_output": pm[ci][0], "monitor": msg, "replay_cmd": "python3 tools/c06.py --replay %s" % cf},
                             "spec monitor fails on the implementation: " + msg)
    if pdis and not pfail:
        ci = pdis[0]; c = pcases[ci]
        cf = ck.write_replay("p_corr_%d.txt" % ci, "\n".join(c) + "\n")
        ck.violation("correspondence", {"case_file": cf, "case": c, "model_output": pm[ci][0], "implementation_output": po[ci][0], "broken": "correspondence C06ExtModel.nll_eval/nll_evald vs /repo",
                                        "replay_cmd": "python3 tools/c06.py --replay %s" % cf},
                     "correspondence C06ExtModel.nll_eval/nll_evald vs NegativeLogLikelihood no longer checks (outputs differ on %d cases, first: `%s`: model %s, implementation %s); the spec monitor passes" % (len(pdis), c[0], pm[ci][0], po[ci][0]), no_input=True)
    if pcases:
        ck.oblige("NegativeLogLikelihood (LinearModel with one output) = C06ExtModel.nll_eval / nll_evald at 1e-12; value = -(mean log max(p, 1e-100)) from both entry points, derivative = -(mean (1/p) dp/dtheta), invariant under partition and thread count, on %d cases" % len(pcases),
                  pfail == 0 and not pdis, "" if pfail == 0 and not pdis else "%d cases fail the monitor, %d disagree with the model" % (pfail, len(pdis)))

    # ---------------- NegativeLogLikelihood on extreme probabilities (clamp at 1e-100, denormal, zero, negative, huge): spec monitor only
    pxcases = [] if ck.replay else [gen_nll_extreme_case(rng2) for _ in range(80 * (8 if big else 1))]
    pxo = run_cases(exe, pxcases, os.path.join(tmpd, "px_in.txt"), env=OMPENV) if pxcases else []
    pxfail = 0; seen = set()
    for ci, (c, (o, rc, e)) in enumerate(zip(pxcases, pxo)):
        msgs = [("P:nll:crash", "implementation crashed on `%s`" % c[0])] if rc != 0 or len(o) != len(c) else mon_P(c, o)
        for key, msg in msgs[:1]:
            if ck.match_known(key) is None: pxfail += 1
            if key not in seen:
                seen.add(key)
                cf = ck.write_replay("px_%s.txt" % key.split(":")[2], "\n".join(c) + "\n")
                ck.violation(key, {"case_file": cf, "case": c, "implementation_output": o, "monitor": msg, "replay_cmd": "python3 tools/c06.py --replay %s" % cf},
                             "spec monitor fails on the implementation (extreme probabilities): " + msg)
    if pxcases:
        ck.oblige("NegativeLogLikelihood on probabilities at / below / above the clamp 1e-100, denormal, zero, negative, 1e300, DBL_MAX: value and derivative as stated, both entry points, every partition and thread count, on %d cases" % len(pxcases), pxfail == 0, "" if pxfail == 0 else "%d cases fail the monitor" % pxfail)

    # ---------------- calling-context stage: every line that evaluates something over a data set, again from inside parallel regions
    ran = []
    for cs_, outs_ in ((cases, io if cases else []), (zcases, zo), (pcases, po), (pxcases, pxo)):
        for c, (o, rc, e) in zip(cs_, outs_):
            if rc == 0 and len(o) == len(c) and any(l[0] in CTXKINDS for l in c): ran.append((c, o))
    cfail = 0; cdis = []; teams_ok = True; nctx = 0
    if ran:
        flat_l = [l for c, o in ran for l in c]; flat_o = [x for c, o in ran for x in o]; owner = [c for c, o in ran for l in c]
        rcx, xo, ex = run_lines(exe, flat_l, os.path.join(tmpd, "ctx_in.txt"), env=OMPENV, args=("ctx", "256"))
        if rcx != 0 or len(xo) != len(flat_l):
            # the stage died: repeat line by line to find the case
            po1 = run_cases(exe, [c for c, o in ran], os.path.join(tmpd, "ctx1_in.txt"), env=OMPENV, args=("ctx", "1"))
            xo = []
            for (c, o), (o1, rc1, e1) in zip(ran, po1):
                if rc1 != 0 or len(o1) != len(c):
                    if cfail == 0:
                        cf = ck.write_replay("ctx_crash.txt", "\n".join(c) + "\n")
                        ck.violation("%s:calling-context-crash" % c[0][0], {"case_file": cf, "case": c, "stderr": e1, "replay_cmd": "python3 tools/c06.py --replay %s" % cf},
                                     "the implementation crashes (rc=%s) when `%s` ... is evaluated inside a parallel region (harness/c06_loss.cpp ctx stage) %s" % (rc1, shape(c[0]), e1.strip()[-200:]))
                    cfail += 1; xo += ["%s -" % l[0] for l in c]
                else: xo += o1
        rcm, xm, em = run_lines(model, flat_l, os.path.join(tmpd, "ctx_model_in.txt"), args=("ctx", "0"))
        if rcm != 0 or len(xm) != len(flat_l): raise RuntimeError("model driver failed in the calling-context stage: %s" % em[-300:])
        seen = set()
        for l, o, x, m_, c in zip(flat_l, flat_o, xo, xm, owner):
            if l[0] not in CTXKINDS: continue
            msgs, tok = mon_ctx(l, o, x)
            teams_ok = teams_ok and tok
            if "cs=" in x: nctx += 1
            if msgs:
                key = msgs[0].split("|")[0]
                if ck.match_known(key) is None: cfail += 1
                if key not in seen and len(seen) < 4:
                    seen.add(key)
                    small = [l] if l is c[0] or l[0] not in "BM" else [c[0], l]      # B and M lines are read against the header line of their case
                    rc1, o1, _ = run_lines(exe, small, os.path.join(tmpd, "s_ctx.txt"), env=OMPENV, args=("ctx", "256"))
                    cf = ck.write_replay("ctx_%d.txt" % len(ck.violations), "\n".join(small) + "\n")
                    ck.violation(key, {"case_file": cf, "case": small, "main_thread_output": o, "calling_context_output": x, "calling_context_output_alone": o1, "model_output": m_,
                                       "replay_cmd": "python3 tools/c06.py --replay %s" % cf},
                                 "spec monitor fails on the implementation (calling context): " + msgs[0].split("|", 1)[1].strip())
            elif tok and not ctx_model_equal(l, m_, x): cdis.append((l, m_, x))
        if cdis and not cfail:
            l, m_, x = cdis[0]
            cf = ck.write_replay("ctx_corr.txt", l + "\n")
            ck.violation("correspondence", {"case_file": cf, "case": [l], "model_output": m_, "implementation_output": x, "broken": "correspondence C06Ctx (errfn_ctx) vs /repo",
                                            "replay_cmd": "python3 tools/c06.py --replay %s" % cf},
                         "correspondence C06Ctx.errfn_ctx vs ErrorFunction inside a parallel region no longer checks (outputs differ on %d lines, first: `%s`); the spec monitor passes" % (len(cdis), shape(l)), no_input=True)
        ck.oblige("calling-context stage: the parallel regions of the harness had the requested team sizes 2,3,2,3 (num_threads clause, independent of OMP_NUM_THREADS)", teams_ok,
                  "" if teams_ok else "the OpenMP runtime did not deliver the requested teams (OMP_THREAD_LIMIT?)")
        ck.oblige("calling context: ErrorFunction (plain, mini-batch, weighted, regularised; linear, two-layer, tanh, logistic models), AbstractLoss::eval(Data,Data), ZeroOneLoss weighted eval, NegativeAUC, "
                  "NegativeLogLikelihood evaluated by one thread of a parallel region of 2 / 3 threads and by every thread at the same time on its own copy = serial reference = call from the main thread "
                  "(exact on dyadic data, 1e-12 otherwise); C06Ctx.errfn_ctx (nested assignment) = /repo on the E, R, N lines; %d lines" % nctx, cfail == 0 and not cdis,
                  "" if cfail == 0 and not cdis else "%d lines fail the monitor, %d disagree with the model" % (cfail, len(cdis)))
    ck.notes["calling_context_lines"] = nctx

    # ---------------- coverage
    allc = cases + zcases + scases + pcases + pxcases
    flat = [l for c in allc for l in c]
    kinds = {}
    for l in flat: kinds[l[0]] = kinds.get(l[0], 0) + 1
    def nontrivial(l):
        s = sections(l)
        if l[0] in "LDM": return len(s[2] if l[0] != "M" else s[3]) >= 2
        if l[0] in "EWRFBN": return len(s[3]) // max(1, int(s[0][4])) >= 2
        return len(s[-1]) >= 2
    ck.cov["evaluations"] = len(flat)
    ck.cov["distinct_nontrivial"] = len(set(l for l in flat if nontrivial(l)))
    ck.cov["rule"] = ("one evaluation = one case line executed by the harness compiled from /repo (a loss on one batch through 4 entry points, AbstractLoss::eval on a partitioned dataset, "
                      "ErrorFunction eval+evalDerivative in one configuration of loss x model x partition x thread count x weights/regularizer/mini-batch, a regularizer, NegativeAUC, "
                      "ZeroOneLoss weighted eval, SquaredLoss<Sequence,Sequence> eval+evalDerivative on one batch of sequences, NegativeLogLikelihood eval+evalDerivative in one partition x thread count); non-trivial = at least two elements (parameters for G); distinct = distinct case lines; the calling-context stage repeats every data-set line 8 more times inside parallel regions (calling_context_lines), not counted here")
    ck.cov["samples"] = [c[:2] for c in (cases[:1] + cases[len(cases) // 2:len(cases) // 2 + 1] + zcases[:1])]
    ck.cov["traces_validated_against_impl"] = len(cases)
    ck.notes["line_kinds"] = kinds
    ck.notes["losses"] = sorted(set(l.split()[1] for l in flat if l[0] in "LMDEWRFB"))
    ck.notes["thread_counts"] = THREADS
    ck.notes["monitor_stats"] = dict(STATS)
    ck.finish()


if __name__ == "__main__":
    main()
