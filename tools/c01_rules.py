#!/usr/bin/env python3
"""C01: rule-table correspondence between the C++ rewrite table
include/shark/LinAlg/BLAS/detail/expression_optimizers.hpp and the Gallina model coq/theories/C01Opt.v.

scrape_cxx(repo_root)   -> sorted list of (optimizer, pattern): every `struct <name>_optimizer<args>{`
                           partial specialisation and every primary template `struct <name>_optimizer{`
                           that has a body (pattern "default").  Comments (`//...`, `//~ ...`, `/*...*/`)
                           and forward declarations (`struct X;`, `struct X<...>;`) are ignored.
scrape_model(path)      -> sorted list of (optimizer, pattern) from the `(* ARM <optimizer> <pattern> *)` markers.
compare(repo_root,path) -> (missing_in_model, missing_in_cxx)   (multiset differences, sorted lists)

Canonical pattern: the template-argument list of the specialisation, all white space removed, every
identifier that is a template parameter of *this* specialisation (taken from the `template<...>` header
directly in front of `struct`) replaced by `_`.   vector_repeater<V, row_major>  ->  vector_repeater<_,row_major>
No side effects on import."""
import os
import re
import sys
from collections import Counter

HEADER = "include/shark/LinAlg/BLAS/detail/expression_optimizers.hpp"
_IDENT = re.compile(r"[A-Za-z_]\w*")


def strip_comments(src):
    """remove /*...*/ and //... comments (string/char literals do not occur in this header, but are respected)"""
    out = []
    i, n = 0, len(src)
    while i < n:
        c = src[i]
        if src.startswith("//", i):
            j = src.find("\n", i)
            i = n if j < 0 else j          # keep the newline
        elif src.startswith("/*", i):
            j = src.find("*/", i + 2)
            out.append(" ")
            i = n if j < 0 else j + 2
        elif c == '"' or c == "'":
            j = i + 1
            while j < n and src[j] != c:
                j += 2 if src[j] == "\\" else 1
            out.append(src[i:j + 1])
            i = j + 1
        else:
            out.append(c)
            i += 1
    return "".join(out)


def _balanced(src, i):
    """src[i] == '<': return index just after the matching '>'"""
    assert src[i] == "<"
    depth = 0
    while i < len(src):
        if src[i] == "<":
            depth += 1
        elif src[i] == ">":
            depth -= 1
            if depth == 0:
                return i + 1
        elif src[i] in "{};":
            raise ValueError("unbalanced template argument list")
        i += 1
    raise ValueError("unbalanced template argument list")


def _split_top(s):
    parts, depth, cur = [], 0, []
    for ch in s:
        if ch in "<(":
            depth += 1
        elif ch in ">)":
            depth -= 1
        if ch == "," and depth == 0:
            parts.append("".join(cur))
            cur = []
        else:
            cur.append(ch)
    if "".join(cur).strip():
        parts.append("".join(cur))
    return parts


def _template_params(src, struct_pos):
    """names of the parameters of the `template<...>` header that directly precedes position struct_pos"""
    head = src[:struct_pos].rstrip()
    if not head.endswith(">"):
        return None
    # walk back to the matching '<'
    depth, i = 0, len(head) - 1
    while i >= 0:
        if head[i] == ">":
            depth += 1
        elif head[i] == "<":
            depth -= 1
            if depth == 0:
                break
        i -= 1
    if i < 0 or not head[:i].rstrip().endswith("template"):
        return None
    names = set()
    for p in _split_top(head[i + 1:-1]):
        p = p.split("=")[0]
        ids = _IDENT.findall(p)
        if ids and ids[-1] not in ("class", "typename"):
            names.add(ids[-1])
    return names


def canon(args, params):
    args = re.sub(r"\s+", "", args)
    return _IDENT.sub(lambda m: "_" if m.group(0) in params else m.group(0), args)


def scrape_cxx_text(src):
    src = strip_comments(src)
    rules = []
    for m in re.finditer(r"\bstruct\s+(\w+_optimizer)\b", src):
        name = m.group(1)
        i = m.end()
        while i < len(src) and src[i].isspace():
            i += 1
        args = None
        if i < len(src) and src[i] == "<":
            j = _balanced(src, i)
            args = src[i + 1:j - 1]
            i = j
            while i < len(src) and src[i].isspace():
                i += 1
        if i >= len(src) or src[i] == ";":
            continue                        # forward declaration
        if src[i] not in "{:":
            continue                        # not a class definition (e.g. elaborated type specifier)
        params = _template_params(src, m.start())
        if params is None:
            raise ValueError("struct %s without template header" % name)
        rules.append((name, "default" if args is None else canon(args, params)))
    return sorted(rules)


def scrape_cxx(repo_root):
    with open(os.path.join(repo_root, HEADER), encoding="utf-8", errors="replace") as f:
        return scrape_cxx_text(f.read())


def scrape_model(path):
    with open(path, encoding="utf-8") as f:
        txt = f.read()
    return sorted(re.findall(r"\(\* ARM (\S+) (\S+) \*\)", txt))


def scrape_broken(path):
    """arms of the model that carry a BROKEN-IN-CXX / DEFECT-IN-CXX marker: {(optimizer, pattern): [markers]}"""
    with open(path, encoding="utf-8") as f:
        lines = f.read().splitlines()
    out, cur = {}, None
    for ln in lines:
        m = re.search(r"\(\* ARM (\S+) (\S+) \*\)", ln)
        if m:
            cur = (m.group(1), m.group(2))
            continue
        m = re.search(r"\(\* ((?:BROKEN|DEFECT)-IN-CXX): (.*?)(?:\*\))?\s*$", ln)
        if m and cur is not None:
            out.setdefault(cur, []).append(m.group(1) + ": " + m.group(2).strip())
        elif ln.lstrip().startswith("|"):
            cur = None
    return out


def compare(repo_root, model_path):
    cxx, mod = Counter(scrape_cxx(repo_root)), Counter(scrape_model(model_path))
    return sorted((cxx - mod).elements()), sorted((mod - cxx).elements())


def main(argv):
    here = os.path.dirname(os.path.abspath(__file__))
    repo = os.environ.get("VERIF_REPO", "/repo")
    model = os.path.join(here, "..", "coq", "theories", "C01Opt.v")
    if len(argv) > 1:
        repo = argv[1]
    if len(argv) > 2:
        model = argv[2]
    cxx, mod = scrape_cxx(repo), scrape_model(model)
    print("C++ specialisations (%d):" % len(cxx))
    for r in cxx:
        print("  %s %s" % r)
    print("model arms (%d):" % len(mod))
    for r in mod:
        print("  %s %s" % r)
    mm, mc = compare(repo, model)
    print("missing in model (%d): %s" % (len(mm), mm))
    print("missing in C++ (%d): %s" % (len(mc), mc))
    ok = not mm and not mc and len(cxx) > 0
    print("RULE TABLE %s" % ("EQUAL" if ok else "DIFFERS"))
    return 0 if ok else 1


if __name__ == "__main__":
    sys.exit(main(sys.argv))
