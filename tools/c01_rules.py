#!/usr/bin/env python3
"""C01: rule-table correspondence between the C++ rewrite table
include/shark/LinAlg/BLAS/detail/expression_optimizers.hpp and the Gallina model coq/theories/C01Opt.v.

scrape_cxx(repo_root)   -> sorted list of (optimizer, pattern): every `struct <name>_optimizer<args>{`
                           partial specialisation and every primary template `struct <name>_optimizer{`
                           that has a body (pattern "default").  Comments (`//...`, `//~ ...`, `/*...*/`)
                           and forward declarations (`struct X;`, `struct X<...>;`) are ignored.
scrape_model(path)      -> sorted list of (optimizer, pattern) from the `(* ARM <optimizer> <pattern> *)` markers.
compare(repo_root,path) -> (missing_in_model, missing_in_cxx)   (multiset differences, sorted lists)

Canonical pattern: the template-argument list of the specialisation, all white space removed, every
identifier that is a template parameter of *this* specialisation (taken from the `template<...>` header
directly in front of `struct`) replaced by `_`.   vector_repeater<V, row_major>  ->  vector_repeater<_,row_major>

RULE BODIES (second tie, `compare_bodies`).  The set comparison above only sees that a specialisation EXISTS.  The body
of every specialisation - its typedefs and the statements of `create` - is translated here into a small expression
tree (C++ subset: calls, member calls, scoped names, arithmetic / comparison / ?: , `auto` locals,
REMORA_RANGE_CHECK preconditions) and INTERPRETED on concrete expression terms: `X::create(...)` of a typedef'd
optimizer dispatches on the operand's class exactly like the C++ partial specialisations (most specialised pattern;
no rule = the proxy is just formed), `type(...)` builds the node of the typedef'd expression class INCLUDING its
orientation template argument (`Orientation`, `typename Orientation::transposed_orientation`, `row_major`,
`column_major`, `!B`), `Orientation::index_M / index_m` are read from detail/structure.hpp.  The resulting term is
compared with what the EXTRACTED rewrite table C01Opt.v (the functions of the C01_opt_*_sound theorems, run by
ocaml/c01_driver.ml, command `O`) returns for the same instance: instances of every rule with both orientations,
non-square shapes, pairwise different index values and structured children.  A changed index expression, repetition
count, orientation or argument order in a rule body changes the term and breaks the obligation; so does a body that
can no longer be translated, and a rule that no instance exercises.
Trusted (hand-written tables below): constructor argument order and accessor names of the expression classes.
No side effects on import."""
import os
import re
import sys
from collections import Counter

HEADER = "include/shark/LinAlg/BLAS/detail/expression_optimizers.hpp"
_IDENT = re.compile(r"[A-Za-z_]\w*")


def strip_comments(src):
    """remove /*...*/ and //... comments (string/char literals do not occur in this header, but are respected)"""
    out = []
    i, n = 0, len(src)
    while i < n:
        c = src[i]
        if src.startswith("//", i):
            j = src.find("\n", i)
            i = n if j < 0 else j          # keep the newline
        elif src.startswith("/*", i):
            j = src.find("*/", i + 2)
            out.append(" " + "\n" * src.count("\n", i, n if j < 0 else j))     # line numbers stay those of the file
            i = n if j < 0 else j + 2
        elif c == '"' or c == "'":
            j = i + 1
            while j < n and src[j] != c:
                j += 2 if src[j] == "\\" else 1
            out.append(src[i:j + 1])
            i = j + 1
        else:
            out.append(c)
            i += 1
    return "".join(out)


def _balanced(src, i):
    """src[i] == '<': return index just after the matching '>'"""
    assert src[i] == "<"
    depth = 0
    while i < len(src):
        if src[i] == "<":
            depth += 1
        elif src[i] == ">":
            depth -= 1
            if depth == 0:
                return i + 1
        elif src[i] in "{};":
            raise ValueError("unbalanced template argument list")
        i += 1
    raise ValueError("unbalanced template argument list")


def _split_top(s):
    parts, depth, cur = [], 0, []
    for ch in s:
        if ch in "<(":
            depth += 1
        elif ch in ">)":
            depth -= 1
        if ch == "," and depth == 0:
            parts.append("".join(cur))
            cur = []
        else:
            cur.append(ch)
    if "".join(cur).strip():
        parts.append("".join(cur))
    return parts


def _template_params(src, struct_pos):
    """names of the parameters of the `template<...>` header that directly precedes position struct_pos"""
    head = src[:struct_pos].rstrip()
    if not head.endswith(">"):
        return None
    # walk back to the matching '<'
    depth, i = 0, len(head) - 1
    while i >= 0:
        if head[i] == ">":
            depth += 1
        elif head[i] == "<":
            depth -= 1
            if depth == 0:
                break
        i -= 1
    if i < 0 or not head[:i].rstrip().endswith("template"):
        return None
    names = set()
    for p in _split_top(head[i + 1:-1]):
        p = p.split("=")[0]
        ids = _IDENT.findall(p)
        if ids and ids[-1] not in ("class", "typename"):
            names.add(ids[-1])
    return names


def canon(args, params):
    args = re.sub(r"\s+", "", args)
    return _IDENT.sub(lambda m: "_" if m.group(0) in params else m.group(0), args)


def scrape_cxx_text(src):
    src = strip_comments(src)
    rules = []
    for m in re.finditer(r"\bstruct\s+(\w+_optimizer)\b", src):
        name = m.group(1)
        i = m.end()
        while i < len(src) and src[i].isspace():
            i += 1
        args = None
        if i < len(src) and src[i] == "<":
            j = _balanced(src, i)
            args = src[i + 1:j - 1]
            i = j
            while i < len(src) and src[i].isspace():
                i += 1
        if i >= len(src) or src[i] == ";":
            continue                        # forward declaration
        if src[i] not in "{:":
            continue                        # not a class definition (e.g. elaborated type specifier)
        params = _template_params(src, m.start())
        if params is None:
            raise ValueError("struct %s without template header" % name)
        rules.append((name, "default" if args is None else canon(args, params)))
    return sorted(rules)


def scrape_cxx(repo_root):
    with open(os.path.join(repo_root, HEADER), encoding="utf-8", errors="replace") as f:
        return scrape_cxx_text(f.read())


def scrape_model(path):
    with open(path, encoding="utf-8") as f:
        txt = f.read()
    return sorted(re.findall(r"\(\* ARM (\S+) (\S+) \*\)", txt))


def scrape_broken(path):
    """arms of the model that carry a BROKEN-IN-CXX / DEFECT-IN-CXX marker: {(optimizer, pattern): [markers]}"""
    with open(path, encoding="utf-8") as f:
        lines = f.read().splitlines()
    out, cur = {}, None
    for ln in lines:
        m = re.search(r"\(\* ARM (\S+) (\S+) \*\)", ln)
        if m:
            cur = (m.group(1), m.group(2))
            continue
        m = re.search(r"\(\* ((?:BROKEN|DEFECT)-IN-CXX): (.*?)(?:\*\))?\s*$", ln)
        if m and cur is not None:
            out.setdefault(cur, []).append(m.group(1) + ": " + m.group(2).strip())
        elif ln.lstrip().startswith("|"):
            cur = None
    return out


def compare(repo_root, model_path):
    cxx, mod = Counter(scrape_cxx(repo_root)), Counter(scrape_model(model_path))
    return sorted((cxx - mod).elements()), sorted((mod - cxx).elements())


# =====================================================================================================
# rule bodies: translation of every `create` and interpretation on concrete terms
# =====================================================================================================
STRUCTURE_HEADER = "include/shark/LinAlg/BLAS/detail/structure.hpp"


class Untranslatable(Exception):
    pass


class Precondition(Exception):
    """a REMORA_RANGE_CHECK of the rule does not hold for the instance (the rule is only specified inside it)"""


class Rule:
    def __init__(self, name, pattern, args, tparams, typedefs, params, stmts, line):
        self.name, self.pattern, self.args, self.tparams = name, pattern, args, tparams
        self.typedefs, self.params, self.stmts, self.line = typedefs, params, stmts, line
        self.fired = 0

    def __repr__(self): return "%s %s" % (self.name, self.pattern)


def _match_brace(src, i, op="{", cl="}"):
    """src[i] == op: index just after the matching closer"""
    depth = 0
    while i < len(src):
        if src[i] == op: depth += 1
        elif src[i] == cl:
            depth -= 1
            if depth == 0: return i + 1
        i += 1
    raise Untranslatable("unbalanced %s%s" % (op, cl))


# ---- C++ expression subset
_TOK = re.compile(r"\s*(?:(\d+)|([A-Za-z_]\w*)|(::|&&|\|\||==|!=|<=|>=|[()<>,.?:!+\-*]))")


def _tokens(text):
    out, i = [], 0
    text = text.strip()
    while i < len(text):
        m = _TOK.match(text, i)
        if not m or m.end() == i: raise Untranslatable("cannot tokenize %r" % text[i:i + 30])
        out.append(("num", int(m.group(1))) if m.group(1) else ("id", m.group(2)) if m.group(2) else ("op", m.group(3)))
        i = m.end()
        while i < len(text) and text[i].isspace(): i += 1
    return out


class _Parser:
    def __init__(self, text): self.t = _tokens(text); self.i = 0
    def peek(self): return self.t[self.i] if self.i < len(self.t) else ("eof", None)
    def eat(self, kind=None, val=None):
        tk = self.peek()
        if (kind and tk[0] != kind) or (val is not None and tk[1] != val): raise Untranslatable("expected %s %s, got %r" % (kind, val, tk))
        self.i += 1; return tk
    def isop(self, *vals): tk = self.peek(); return tk[0] == "op" and tk[1] in vals
    def parse(self):
        e = self.cond()
        if self.peek()[0] != "eof": raise Untranslatable("trailing tokens %r" % (self.t[self.i:],))
        return e
    def cond(self):
        c = self.binary(0)
        if self.isop("?"):
            self.eat(); a = self.cond(); self.eat("op", ":"); b = self.cond(); return ("cond", c, a, b)
        return c
    LEVELS = [("||",), ("&&",), ("==", "!="), ("<", ">", "<=", ">="), ("+", "-"), ("*",)]
    def binary(self, lvl):
        if lvl == len(self.LEVELS): return self.unary()
        e = self.binary(lvl + 1)
        while self.isop(*self.LEVELS[lvl]):
            op = self.eat()[1]; e = ("bin", op, e, self.binary(lvl + 1))
        return e
    def unary(self):
        if self.isop("!", "-"): op = self.eat()[1]; return ("un", op, self.unary())
        return self.postfix()
    def postfix(self):
        e = self.primary()
        while True:
            if self.isop("("):
                self.eat(); args = []
                if not self.isop(")"):
                    args.append(self.cond())
                    while self.isop(","): self.eat(); args.append(self.cond())
                self.eat("op", ")"); e = ("call", e, args)
            elif self.isop("."):
                self.eat(); e = ("member", e, self.eat("id")[1])
            else: return e
    def primary(self):
        tk = self.peek()
        if tk[0] == "num": self.eat(); return ("num", tk[1])
        if tk[0] == "op" and tk[1] == "(":
            self.eat(); e = self.cond(); self.eat("op", ")"); return e
        if tk[0] == "id":
            if tk[1] == "typename": self.eat()
            parts = [self.eat("id")[1]]
            while self.isop("::"): self.eat(); parts.append(self.eat("id")[1])
            return ("name", tuple(parts))
        raise Untranslatable("unexpected token %r" % (tk,))


def parse_expr(text): return _Parser(text).parse()


def _param_name(ptxt):
    ptxt = ptxt.strip()
    m = re.search(r"([A-Za-z_]\w*)\s*$", ptxt)
    if not m: return None
    before = ptxt[:m.start()].rstrip()
    if not before or before.endswith("::") or m.group(1) in ("const", "size_t"): return None
    return m.group(1)


def scrape_rule_bodies_text(src):
    """every optimizer (partial) specialisation / primary template with a body: Rule objects in source order"""
    src = strip_comments(src); rules = []
    for m in re.finditer(r"\bstruct\s+(\w+_optimizer)\b", src):
        name = m.group(1); i = m.end()
        while src[i].isspace(): i += 1
        args = None
        if src[i] == "<":
            j = _balanced(src, i); args = src[i + 1:j - 1]; i = j
            while src[i].isspace(): i += 1
        if src[i] == ";" or src[i] not in "{:": continue
        params = _template_params(src, m.start())
        if params is None: raise Untranslatable("struct %s without template header" % name)
        head = src[:m.start()].rstrip(); k = head.rindex("template")
        tparams = {}
        for p in _split_top(head[head.index("<", k) + 1:-1]):
            ids = _IDENT.findall(p.split("=")[0]); tparams[ids[-1]] = ids[0]          # name -> class | bool | typename
        b0 = src.index("{", i); b1 = _match_brace(src, b0); body = src[b0 + 1:b1 - 1]
        line = src.count("\n", 0, m.start()) + 1
        cm = re.search(r"\bstatic\b[^;{(]*?\bcreate\s*\(", body)
        if not cm: raise Untranslatable("%s<%s>: no static create" % (name, args))
        p0 = cm.end() - 1; p1 = _match_brace(body, p0, "(", ")")
        cparams = [_param_name(x) for x in _split_top(body[p0 + 1:p1 - 1])]
        c0 = body.index("{", p1); c1 = _match_brace(body, c0)
        stmts = []
        for st in body[c0 + 1:c1 - 1].split(";"):
            st = " ".join(st.split())
            if not st: continue
            mm = re.match(r"return\s+(.*)$", st)
            if mm: stmts.append(("return", parse_expr(mm.group(1)))); continue
            mm = re.match(r"REMORA_(?:RANGE|SIZE)_CHECK\s*\((.*)\)$", st)
            if mm: stmts.append(("require", parse_expr(mm.group(1)))); continue
            mm = re.match(r"(?:auto|std::size_t|size_t)\s+(\w+)\s*=\s*(.*)$", st)
            if mm: stmts.append(("let", mm.group(1), parse_expr(mm.group(2)))); continue
            raise Untranslatable("%s<%s>: statement %r" % (name, args, st))
        typedefs = {}
        for tm in re.finditer(r"\btypedef\s+(.+?)\s*\b(\w+)\s*;", body[:cm.start()] + " " + body[c1:], re.S):
            typedefs[tm.group(2)] = " ".join(tm.group(1).split())
        pat = "default" if args is None else canon(args, params)
        rules.append(Rule(name, pat, None if args is None else [re.sub(r"\s+", "", a) for a in _split_top(args)], tparams, typedefs, cparams, stmts, line))
    return rules


def scrape_orientations_text(src):
    """{'row_major': {'index_M': 0, 'index_m': 1, 'transposed': 'column_major'}, 'column_major': ...} from structure.hpp:
    which of its two arguments index_M / index_m returns"""
    src = strip_comments(src); out = {}
    for o in ("row_major", "column_major"):
        m = re.search(r"\bstruct\s+%s\s*:" % o, src)
        if not m: raise Untranslatable("struct %s not found in structure.hpp" % o)
        b0 = src.index("{", m.end()); body = src[b0:_match_brace(src, b0)]
        d = {}
        for f in ("index_M", "index_m"):
            fm = re.search(r"\b%s\s*\(([^)]*)\)\s*\{\s*return\s+(\w+)\s*;\s*\}" % f, body)
            if not fm: raise Untranslatable("%s::%s not found" % (o, f))
            ps = _split_top(fm.group(1)); pos = [k for k, p in enumerate(ps) if re.search(r"\b%s\b" % fm.group(2), p)]
            if len(ps) != 2 or len(pos) != 1: raise Untranslatable("%s::%s: cannot tell which argument is returned" % (o, f))
            d[f] = pos[0]
        tm = re.search(r"\btypedef\s+(\w+)\s+transposed_orientation\s*;", body)
        if not tm: raise Untranslatable("%s::transposed_orientation not found" % o)
        d["transposed"] = tm.group(1); out[o] = d
    return out


# ---- expression classes <-> terms of the model (hand-written: constructor argument order / accessors of
#      detail/vector_expression_classes.hpp, detail/matrix_expression_classes.hpp)
CLASS_HEAD = {"vector_scalar_multiply": "VScale", "vector_addition": "VAdd", "vector_unary": "VUn", "vector_binary": "VBin",
              "matrix_vector_prod": "VMv", "matrix_row_transform": "VFold", "scalar_vector": "VConst", "unit_vector": "VUnit",
              "vector_concat": "VConcat", "matrix_scalar_multiply": "MScale", "matrix_addition": "MAdd", "matrix_unary": "MUn",
              "matrix_binary": "MBin", "outer_product": "MOuter", "matrix_matrix_prod": "MProd", "vector_repeater": "MRepeat",
              "scalar_matrix": "MConst", "diagonal_matrix": "MDiagM", "matrix_concat": "MConcat", "vector_set": "vector_set"}
CONSTRUCT = {   # class -> function(ctor args, template args evaluated) -> term
    "vector_scalar_multiply": lambda a, t: ("VScale", a[1], a[0]), "vector_addition": lambda a, t: ("VAdd", a[0], a[1]),
    "vector_unary": lambda a, t: ("VUn", a[1], a[0]), "vector_binary": lambda a, t: ("VBin", a[2], a[0], a[1]),
    "matrix_vector_prod": lambda a, t: ("VMv", a[2], a[0], a[1]), "matrix_row_transform": lambda a, t: ("VFold", a[1], a[2], a[0]),
    "scalar_vector": lambda a, t: ("VConst", a[0], a[1]), "unit_vector": lambda a, t: ("VUnit", a[0], a[1], a[2]),
    "vector_concat": lambda a, t: ("VConcat", a[0], a[1]), "matrix_scalar_multiply": lambda a, t: ("MScale", a[1], a[0]),
    "matrix_addition": lambda a, t: ("MAdd", a[0], a[1]), "matrix_unary": lambda a, t: ("MUn", a[1], a[0]),
    "matrix_binary": lambda a, t: ("MBin", a[2], a[0], a[1]), "outer_product": lambda a, t: ("MOuter", a[0], a[1]),
    "matrix_matrix_prod": lambda a, t: ("MProd", a[2], a[0], a[1]),
    "vector_repeater": lambda a, t: ("MRepeat", t[1] == "column_major", a[0], a[1]),
    "scalar_matrix": lambda a, t: ("MConst", a[0], a[1], a[2]), "diagonal_matrix": lambda a, t: ("MDiagM", a[0]),
    "matrix_concat": lambda a, t: ("MConcat", t[2], a[0], a[1]),
}
CTOR_ARITY = {"vector_scalar_multiply": 2, "vector_addition": 2, "vector_unary": 2, "vector_binary": 3, "matrix_vector_prod": 3,
              "matrix_row_transform": 3, "scalar_vector": 2, "unit_vector": 3, "vector_concat": 2, "matrix_scalar_multiply": 2,
              "matrix_addition": 2, "matrix_unary": 2, "matrix_binary": 3, "outer_product": 2, "matrix_matrix_prod": 3,
              "vector_repeater": 2, "scalar_matrix": 3, "diagonal_matrix": 1, "matrix_concat": 2}
ACCESS = {      # (head, accessor) -> position in the term
    ("VScale", "expression"): 2, ("VScale", "scalar"): 1, ("VAdd", "lhs"): 1, ("VAdd", "rhs"): 2, ("VUn", "expression"): 2,
    ("VUn", "functor"): 1, ("VBin", "lhs"): 2, ("VBin", "rhs"): 3, ("VBin", "functor"): 1, ("VMv", "matrix"): 2, ("VMv", "vector"): 3,
    ("VMv", "alpha"): 1, ("VFold", "matrix"): 3, ("VFold", "f"): 1, ("VFold", "g"): 2, ("VConst", "scalar"): 2, ("VUnit", "scalar"): 3,
    ("VUnit", "index"): 2, ("VConcat", "lhs"): 1, ("VConcat", "rhs"): 2, ("MScale", "expression"): 2, ("MScale", "scalar"): 1,
    ("MAdd", "lhs"): 1, ("MAdd", "rhs"): 2, ("MUn", "expression"): 2, ("MUn", "functor"): 1, ("MBin", "lhs"): 2, ("MBin", "rhs"): 3,
    ("MBin", "functor"): 1, ("MOuter", "lhs"): 1, ("MOuter", "rhs"): 2, ("MProd", "lhs"): 2, ("MProd", "rhs"): 3, ("MProd", "alpha"): 1,
    ("MRepeat", "expression"): 2, ("MRepeat", "num_repetitions"): 3, ("MConst", "scalar"): 3, ("MDiagM", "expression"): 1,
    ("MConcat", "lhs"): 2, ("MConcat", "rhs"): 3, ("vector_set", "expression"): 2,
}
SURFACE = {"vector_range_optimizer": "VRange", "matrix_transpose_optimizer": "MTrans", "matrix_row_optimizer": "VRow",
           "matrix_diagonal_optimizer": "VDiag", "matrix_range_optimizer": "MRange", "matrix_rows_optimizer": "MRows"}
MODEL_CALL = {  # optimizer -> model function and the order of create's arguments in it
    "vector_range_optimizer": ("opt_vrange", (0, 1, 2)), "matrix_transpose_optimizer": ("opt_mtrans", (0,)),
    "matrix_row_optimizer": ("opt_mrow", (0, 1)), "matrix_diagonal_optimizer": ("opt_mdiag", (0,)),
    "matrix_range_optimizer": ("opt_mrange", (0, 1, 2, 3, 4)), "matrix_rows_optimizer": ("opt_mrows", (0, 1, 2)),
    "vector_scalar_multiply_optimizer": ("opt_vscale", (1, 0)), "matrix_scalar_multiply_optimizer": ("opt_mscale", (1, 0)),
    "matrix_vector_prod_optimizer": ("opt_mvprod", (0, 1)), "matrix_matrix_prod_optimizer": ("opt_mmprod", (0, 1)),
    "vector_unary_optimizer": ("opt_vunary", (0, 1)), "matrix_unary_optimizer": ("opt_munary", (0, 1)),
    "fold_vector_set_optimizer": ("opt_fold_set", None),
}
BFUNS = ("BMul", "BMin", "BMax")


def _is_bfun(f): return f in BFUNS or (isinstance(f, tuple) and f[0] == "BCompose")


class Table:
    """the translated rule table, executable on terms (tuples as in tools/c01_gen.py)"""
    def __init__(self, rules, orient, store, gen):
        self.rules, self.orient, self.store, self.G = rules, orient, store, gen
        self.by_opt = {}
        for r in rules: self.by_opt.setdefault(r.name, []).append(r)

    # -- matching of one template-argument pattern against an operand
    def match_arg(self, rule, arg, val, bind):
        """specificity (0 = bare template parameter) or None"""
        if arg in rule.tparams: return 0
        m = re.match(r"(\w+)<(.*)>$", arg)
        if not m: raise Untranslatable("pattern argument %r of %r" % (arg, rule))
        cls, targs = m.group(1), _split_top(m.group(2))
        head = CLASS_HEAD.get(cls)
        if head is None: raise Untranslatable("unknown expression class %s in %r" % (cls, rule))
        if not (isinstance(val, tuple) and val and val[0] == head): return None
        spec = 1
        if cls in ("vector_repeater", "vector_set"):
            o = targs[1]; have = "column_major" if val[1] else "row_major"
            if o in rule.tparams: bind[o] = have
            elif o != have: return None
            else: spec = 2
        elif cls == "scalar_matrix" and targs[2] in rule.tparams: bind[targs[2]] = bind.get("__scalar_matrix_orientation", "row_major")
        elif cls == "matrix_concat":
            if targs[2] in rule.tparams: bind[targs[2]] = val[1]
            else: raise Untranslatable("matrix_concat pattern %r" % arg)
        return spec

    def select(self, opt, args):
        cands = []
        for r in self.by_opt.get(opt, []):
            if r.args is None: cands.append(((-1,), r, {})); continue
            bind = {}; sp = []
            for k, a in enumerate(r.args):
                if k >= len(args): sp = None; break
                x = self.match_arg(r, a, args[k], bind)
                if x is None: sp = None; break
                sp.append(x)
            if sp is not None: cands.append((tuple(sp), r, bind))
        if not cands: return None, None
        best = [c for c in cands if all(len(c[0]) == len(d[0]) and all(x >= y for x, y in zip(c[0], d[0])) or d[0] == (-1,) for d in cands)]
        if len(best) != 1: raise Untranslatable("ambiguous specialisations of %s: %s" % (opt, [str(c[1]) for c in cands]))
        return best[0][1], best[0][2]

    def dispatch(self, opt, args):
        rule, bind = self.select(opt, args)
        if rule is None:
            if opt not in SURFACE: raise Untranslatable("no rule and no surface form for %s" % opt)
            return (SURFACE[opt],) + tuple(args)
        rule.fired += 1
        if len(args) != len(rule.params): raise Untranslatable("%r: create takes %d arguments, called with %d" % (rule, len(rule.params), len(args)))
        env = {n: v for n, v in zip(rule.params, args) if n}
        env.update(("\0" + k, v) for k, v in bind.items())
        for st in rule.stmts:
            if st[0] == "let": env[st[1]] = self.ev(rule, env, st[2])
            elif st[0] == "require":
                if not self.ev(rule, env, st[1]): raise Precondition(str(rule))
            else: return self.ev(rule, env, st[1])
        raise Untranslatable("%r: no return" % rule)

    # -- types
    def resolve(self, rule, name, seen=()):
        """typedef name -> ('opt', optimizer) | ('class', cls, [targs]) | ('functor', kind) | ('alias', text)"""
        if name in seen or name not in rule.typedefs: return ("alias", name)
        txt = re.sub(r"\btypename\s+", "", rule.typedefs[name]).strip()
        fm = re.search(r"::\s*template\s+(\w+)\s*<", txt)
        if fm: return ("functor", fm.group(1))
        m = re.match(r"(\w+)\s*(?:<(.*)>)?\s*(::\s*\w+)?$", txt, re.S)
        if not m: raise Untranslatable("%r: typedef %s = %s" % (rule, name, txt))
        base, targs, member = m.group(1), m.group(2), m.group(3)
        if member: return ("alias", txt)                      # typename X::type, V::const_closure_type, ...
        if base.endswith("_optimizer"): return ("opt", base)
        if base in CONSTRUCT: return ("class", base, [t.strip() for t in _split_top(targs or "")])
        if targs is None: return self.resolve(rule, base, seen + (name,))
        raise Untranslatable("%r: typedef %s = %s" % (rule, name, txt))

    def targ(self, rule, env, t):
        """value of a template argument that the model's term depends on (orientation, bool); None otherwise"""
        t = re.sub(r"\btypename\s+", "", t).replace(" ", "")
        if t in ("row_major", "column_major"): return t
        if t.endswith("::transposed_orientation"):
            o = self.targ(rule, env, t[:-len("::transposed_orientation")]); return self.orient[o]["transposed"] if o else None
        if t.startswith("!"):
            v = self.targ(rule, env, t[1:]); return (not v) if isinstance(v, bool) else None
        return env.get("\0" + t)

    # -- expressions
    def ev(self, rule, env, e):
        k = e[0]
        if k == "num": return e[1]
        if k == "name":
            if len(e[1]) == 1 and e[1][0] in env: return env[e[1][0]]
            raise Untranslatable("%r: free name %s" % (rule, "::".join(e[1])))
        if k == "un":
            v = self.ev(rule, env, e[2]); return (not v) if e[1] == "!" else -v
        if k == "bin":
            a, b = self.ev(rule, env, e[2]), self.ev(rule, env, e[3]); op = e[1]
            if op in ("+", "-", "*") and not (isinstance(a, int) and isinstance(b, int)): raise Untranslatable("%r: arithmetic on %r %r" % (rule, a, b))
            return {"+": lambda: a + b, "-": lambda: a - b, "*": lambda: a * b, "&&": lambda: bool(a) and bool(b), "||": lambda: bool(a) or bool(b),
                    "==": lambda: a == b, "!=": lambda: a != b, "<": lambda: a < b, ">": lambda: a > b, "<=": lambda: a <= b, ">=": lambda: a >= b}[op]()
        if k == "cond": return self.ev(rule, env, e[2]) if self.ev(rule, env, e[1]) else self.ev(rule, env, e[3])
        if k == "member": raise Untranslatable("%r: data member access" % rule)
        if k == "call":
            f, args = e[1], [self.ev(rule, env, a) for a in e[2]]
            if f[0] == "member": return self.accessor(rule, self.ev(rule, env, f[1]), f[2], args)
            if f[0] == "name":
                nm = f[1]
                if nm in (("std", "min"), ("min",)): return min(args)
                if nm in (("std", "max"), ("max",)): return max(args)
                if nm == ("inner_prod",): return sum(x * y for x, y in zip(self.G.vden(self.store, args[0]), self.G.vden(self.store, args[1])))
                if nm == ("sum",): return sum(self.G.vden(self.store, args[0]))
                if nm[-1] == "value_type" and len(args) == 1: return args[0]
                if len(nm) == 2 and nm[1] in ("index_M", "index_m"):
                    o = self.targ(rule, env, nm[0])
                    if o is None: raise Untranslatable("%r: orientation %s unknown" % (rule, nm[0]))
                    return args[self.orient[o][nm[1]]]
                if len(nm) == 2 and nm[1] == "create":
                    r = self.resolve(rule, nm[0])
                    if r[0] != "opt": raise Untranslatable("%r: %s::create is not an optimizer" % (rule, nm[0]))
                    return self.dispatch(r[1], args)
                if len(nm) == 1 and nm[0] not in env:
                    r = self.resolve(rule, nm[0])
                    if r[0] == "class":
                        if len(args) != CTOR_ARITY[r[1]]: raise Untranslatable("%r: %s constructed with %d arguments" % (rule, r[1], len(args)))
                        return CONSTRUCT[r[1]](args, [self.targ(rule, env, t) for t in r[2]])
                    if r[0] == "functor":
                        if r[1] == "multiply" and not args: return "BMul"
                        if r[1] == "multiply_scalar" and len(args) == 1: return ("FMulScalar", args[0])
                        if r[1] == "compose" and len(args) == 2: return ("BCompose" if _is_bfun(args[0]) else "FCompose", args[0], args[1])
                    raise Untranslatable("%r: call of %s (%r)" % (rule, nm[0], r))
            fv = self.ev(rule, env, f)           # element access e(i) on a vector expression value
            if isinstance(fv, tuple) and fv and fv[0] in self.G.VEC_HEADS and len(args) == 1: return self.G.vden(self.store, fv)[args[0]]
            raise Untranslatable("%r: call %r" % (rule, f))
        raise Untranslatable("%r: expression %r" % (rule, e))

    def accessor(self, rule, obj, name, args):
        if args: raise Untranslatable("%r: member %s with arguments" % (rule, name))
        if not (isinstance(obj, tuple) and obj): raise Untranslatable("%r: member %s of %r" % (rule, name, obj))
        if name == "size" and obj[0] in self.G.VEC_HEADS: return self.G.vsize(obj)
        if name in ("size1", "size2") and obj[0] not in self.G.VEC_HEADS and obj[0] != "vector_set": return self.G.mshape(obj)[0 if name == "size1" else 1]
        pos = ACCESS.get((obj[0], name))
        if pos is None: raise Untranslatable("%r: %s has no accessor %s()" % (rule, obj[0], name))
        return obj[pos]


# ---- instances
class Instances:
    """terms over the expression classes the table has rules for + containers and dense proxies of them (no rule)"""
    def __init__(self, rng): self.rng = rng; self.vecs = {}; self.mats = {}
    def c(self): return self.rng.choice([-3, -2, 2, 3, 5])
    def vleaf(self, n):
        k = self.rng.randrange(2); self.vecs[(n, k)] = True; x = ("VVar", 10 * n + k, n)
        return x if self.rng.random() < 0.8 or n < 1 else ("VRange", ("VVar", 10 * (n + 2) + k, n + 2), 1, n + 1) if not self.vecs.__setitem__((n + 2, k), True) else x
    def mleaf(self, r, c):
        k = self.rng.randrange(2); u = self.rng.random()
        if u < 0.75: self.mats[(r, c, k)] = True; return ("MVar", 100 * r + 10 * c + k, r, c)
        self.mats[(c, r, k)] = True; return ("MTrans", ("MVar", 100 * c + 10 * r + k, c, r))
    def ufun(self): return self.rng.choice(["FAbs", "FSqr", ("FMulScalar", 2)])
    def bfun(self): return self.rng.choice(["BMul", "BMin", "BMax"])
    def vec(self, n, d, cls=None):
        rng = self.rng
        cls = cls or (rng.choice(["leaf", "leaf", "vector_scalar_multiply", "vector_addition", "vector_unary", "vector_binary", "scalar_vector", "unit_vector",
                                  "matrix_vector_prod", "matrix_row_transform", "vector_concat"]) if d > 0 else "leaf")
        if cls == "leaf": return self.vleaf(n)
        if cls == "vector_scalar_multiply": return ("VScale", self.c(), self.vec(n, d - 1))
        if cls == "vector_addition": return ("VAdd", self.vec(n, d - 1), self.vec(n, d - 1))
        if cls == "vector_unary": return ("VUn", self.ufun(), self.vec(n, d - 1))
        if cls == "vector_binary": return ("VBin", self.bfun(), self.vec(n, d - 1), self.vec(n, d - 1))
        if cls == "scalar_vector": return ("VConst", n, self.c())
        if cls == "unit_vector": return ("VUnit", n, rng.randrange(max(n, 1)), self.c())
        if cls == "matrix_vector_prod": k = rng.randint(2, 4); return ("VMv", rng.choice([1, 2, -3]), self.mat(n, k, d - 1), self.vec(k, d - 1))
        if cls == "matrix_row_transform": return ("VFold", rng.choice(["KSum", "KMax", "KMin"]), rng.choice(["FId", "FAbs"]), self.mat(n, rng.randint(2, 4), d - 1))
        if cls == "vector_concat": a = rng.randint(0, n); return ("VConcat", self.vec(a, d - 1), self.vec(n - a, d - 1))
        raise Untranslatable("no instance generator for class %s" % cls)
    def mat(self, r, c, d, cls=None, cm=None):
        rng = self.rng
        cls = cls or (rng.choice(["leaf", "leaf", "matrix_scalar_multiply", "matrix_addition", "matrix_unary", "matrix_binary", "scalar_matrix", "outer_product",
                                  "matrix_matrix_prod", "vector_repeater", "vector_repeater", "matrix_concat"] + (["diagonal_matrix"] if r == c else [])) if d > 0 else "leaf")
        if cls == "leaf": return self.mleaf(r, c)
        if cls == "matrix_scalar_multiply": return ("MScale", self.c(), self.mat(r, c, d - 1))
        if cls == "matrix_addition": return ("MAdd", self.mat(r, c, d - 1), self.mat(r, c, d - 1))
        if cls == "matrix_unary": return ("MUn", self.ufun(), self.mat(r, c, d - 1))
        if cls == "matrix_binary": return ("MBin", self.bfun(), self.mat(r, c, d - 1), self.mat(r, c, d - 1))
        if cls == "scalar_matrix": return ("MConst", r, c, self.c())
        if cls == "outer_product": return ("MOuter", self.vec(r, d - 1), self.vec(c, d - 1))
        if cls == "matrix_matrix_prod": k = rng.randint(2, 4); return ("MProd", rng.choice([1, 2, -3]), self.mat(r, k, d - 1), self.mat(k, c, d - 1))
        if cls == "vector_repeater":
            cm = (rng.random() < 0.5) if cm is None else cm
            return ("MRepeat", True, self.vec(r, d - 1), c) if cm else ("MRepeat", False, self.vec(c, d - 1), r)
        if cls == "diagonal_matrix":
            if r != c: raise Untranslatable("diagonal instance of non-square shape")
            return ("MDiagM", self.vec(r, d - 1))
        if cls == "matrix_concat":
            rt = (rng.random() < 0.5) if cm is None else cm
            if (c if rt else r) < 2: return self.mleaf(r, c) if cm is None else ("MConcat", rt, self.mleaf(r, c), self.mleaf(0 if not rt else r, 0 if rt else c))
            if rt: a = rng.randint(1, c - 1); return ("MConcat", True, self.mat(r, a, d - 1), self.mat(r, c - a, d - 1))
            a = rng.randint(1, r - 1); return ("MConcat", False, self.mat(a, c, d - 1), self.mat(r - a, c, d - 1))
        raise Untranslatable("no instance generator for class %s" % cls)

    def interval(self, n):
        """0 <= a <= b <= n, non-trivial most of the time"""
        rng = self.rng
        if rng.random() < 0.12: a = rng.randint(0, n); return a, a
        if rng.random() < 0.1: return 0, n
        L = rng.randint(1, max(1, n - 1)); a = rng.randint(0, n - L); return a, a + L

    def operand(self, rule, k, kind, shape, d):
        """operand k of an instance of `rule` (kind 'v' | 'm'), of the class its pattern names"""
        arg = None if rule.args is None else rule.args[k]
        if arg is None or arg in rule.tparams:      # general pattern: containers / dense proxies (select this rule), or anything
            d = 0 if self.rng.random() < 0.6 else d
            return self.vec(shape, d) if kind == "v" else self.mat(shape[0], shape[1], d)
        m = re.match(r"(\w+)<(.*)>$", arg); cls = m.group(1); targs = _split_top(m.group(2)); cm = None
        if cls in ("vector_repeater", "vector_set") and targs[1] in ("row_major", "column_major"): cm = targs[1] == "column_major"
        if cls == "vector_set": return ("vector_set", self.rng.random() < 0.5 if cm is None else cm, self.mat(shape[0], shape[1], d))
        return self.vec(shape, d + 1, cls) if kind == "v" else self.mat(shape[0], shape[1], d + 1, cls, cm)

    def instance(self, rule, d):
        """argument list of rule.name::create for one instance matching the rule's pattern"""
        rng = self.rng; o = rule.name
        n = rng.randint(3, 6); r, c = rng.choice([(3, 5), (5, 3), (4, 6), (6, 4), (2, 5), (4, 4), (3, 3)])
        sq = rule.args and any(a.startswith("diagonal_matrix") for a in rule.args)
        if sq: r = c = rng.randint(3, 5)
        if o == "vector_range_optimizer": a, b = self.interval(n); return [self.operand(rule, 0, "v", n, d), a, b]
        if o in ("matrix_transpose_optimizer", "matrix_diagonal_optimizer"): return [self.operand(rule, 0, "m", (r, c), d)]
        if o == "matrix_row_optimizer": return [self.operand(rule, 0, "m", (r, c), d), rng.randrange(r)]
        if o == "matrix_range_optimizer":
            a, b = self.interval(r); c0, d0 = self.interval(c)
            if sq and rng.random() < 0.7: c0, d0 = a, b
            return [self.operand(rule, 0, "m", (r, c), d), a, b, c0, d0]
        if o == "matrix_rows_optimizer": a, b = self.interval(r); return [self.operand(rule, 0, "m", (r, c), d), a, b]
        if o == "vector_scalar_multiply_optimizer": return [self.operand(rule, 0, "v", n, d), self.c()]
        if o == "matrix_scalar_multiply_optimizer": return [self.operand(rule, 0, "m", (r, c), d), self.c()]
        if o == "matrix_vector_prod_optimizer": return [self.operand(rule, 0, "m", (r, c), d), self.operand(rule, 1, "v", c, d)]
        if o == "matrix_matrix_prod_optimizer": k = rng.randint(2, 4); return [self.operand(rule, 0, "m", (r, k), d), self.operand(rule, 1, "m", (k, c), d)]
        if o == "vector_unary_optimizer": return [self.operand(rule, 0, "v", n, d), self.ufun()]
        if o == "matrix_unary_optimizer": return [self.operand(rule, 0, "m", (r, c), d), self.ufun()]
        if o == "fold_vector_set_optimizer": return [self.operand(rule, 0, "m", (r, c), d), rng.choice(["KSum", "KMax", "KMin"]), rng.choice(["FId", "FAbs"])]
        raise Untranslatable("no instance generator for optimizer %s" % o)


def _sx(t):
    if isinstance(t, tuple): return "(" + " ".join(_sx(x) for x in t) + ")"
    if isinstance(t, bool): return "true" if t else "false"
    return str(t)


def model_call(opt, args):
    fn, order = MODEL_CALL[opt]
    if fn == "opt_fold_set": return (fn, args[0][1], args[1], args[2], args[0][2])
    return (fn,) + tuple(args[k] for k in order)


def compare_bodies(repo_root, model_exe, tmpdir, seed=0, per_rule=10):
    """translate the rule bodies of the header, run them and the extracted table on instances of every rule.
    Returns dict: ok, rules, instances, skipped_precondition, mismatches [..], untranslatable [..], not_exercised [..]"""
    import random, subprocess
    sys.path.insert(0, os.path.dirname(os.path.abspath(__file__)))
    import c01_gen as G
    res = {"ok": False, "rules": 0, "instances": 0, "skipped_precondition": 0, "mismatches": [], "untranslatable": [], "not_exercised": []}
    try:
        with open(os.path.join(repo_root, HEADER), encoding="utf-8", errors="replace") as f: rules = scrape_rule_bodies_text(f.read())
        with open(os.path.join(repo_root, STRUCTURE_HEADER), encoding="utf-8", errors="replace") as f: orient = scrape_orientations_text(f.read())
    except (Untranslatable, ValueError) as ex:
        res["untranslatable"].append("header: %s" % ex); return res
    res["rules"] = len(rules); res["orientation_index_functions"] = orient
    rng = random.Random(seed * 31 + 5); inst = Instances(rng); cases = []
    for rule in rules:
        if rule.name not in MODEL_CALL: res["untranslatable"].append("%r: optimizer not in the model" % rule); continue
        for k in range(per_rule):
            try: cases.append((rule, inst.instance(rule, 1 if k % 2 else 0)))
            except Untranslatable as ex: res["untranslatable"].append("%r: %s" % (rule, ex)); break
    # the store: every container the instances mention, filled with a fixed pattern of pairwise different small values
    store = G.Env(); lines = []
    def names(t):
        if isinstance(t, tuple):
            if t and t[0] == "VVar": yield ("v", t[1], t[2])
            elif t and t[0] == "MVar": yield ("m", t[1], t[2], t[3])
            else:
                for x in t: yield from names(x)
    decls = sorted(set(d for _, args in cases for d in names(tuple(args))))
    for d in decls:
        if d[0] == "v":
            store.v[d[1]] = [((5 * i + 3 * d[1]) % 11) - 5 for i in range(d[2])]; lines.append("D v %d %d" % (d[1], d[2]))
            lines += ["Q SSetV %d %d %d" % (d[1], i, x) for i, x in enumerate(store.v[d[1]])]
        else:
            store.m[d[1]] = [[((7 * i + 4 * j + d[1]) % 9) - 4 for j in range(d[3])] for i in range(d[2])]; lines.append("D m %d %d %d" % (d[1], d[2], d[3]))
            lines += ["Q SSetM %d %d %d %d" % (d[1], i, j, x) for i, row in enumerate(store.m[d[1]]) for j, x in enumerate(row)]
    table = Table(rules, orient, store, G); mine = []
    for rule, args in cases:
        try:
            # (an operand drawn for a general pattern may select a more specialised rule: still a valid instance; which
            #  rules were exercised is counted where they fire)
            mine.append(_sx(table.dispatch(rule.name, args)))
        except Precondition: mine.append(None); res["skipped_precondition"] += 1
        except (Untranslatable, G.Reject, IndexError, KeyError, TypeError, ValueError) as ex:
            mine.append(None); res["untranslatable"].append("%r on %s: %s: %s" % (rule, _sx(model_call(rule.name, args)), type(ex).__name__, ex))
        lines.append("O " + _sx(model_call(rule.name, args)))
    os.makedirs(tmpdir, exist_ok=True); path = os.path.join(tmpdir, "rule_instances.txt")
    with open(path, "w") as f: f.write("\n".join(lines) + "\n")
    p = subprocess.run([model_exe, path], capture_output=True, text=True, timeout=600)
    out = [l[2:] for l in p.stdout.split("\n") if l.startswith("O ")]
    if p.returncode != 0 or len(out) != len(cases):
        res["untranslatable"].append("model driver: rc=%s, %d answers for %d instances: %s" % (p.returncode, len(out), len(cases), p.stderr[-300:])); return res
    bad = []
    for (rule, args), a, b in zip(cases, mine, out):
        if a is None: continue
        res["instances"] += 1
        if a != b: bad.append((rule, args, a, b))
    # smallest instances first: there the rule that was dispatched first is (most likely) the one that differs
    bad.sort(key=lambda x: len(_sx(model_call(x[0].name, x[1]))))
    for rule, args, a, b in bad:
        if len(res["mismatches"]) < 12:
            sel, _ = table.select(rule.name, args)
            res["mismatches"].append({"rule": "%s<%s> (expression_optimizers.hpp:%d)" % (sel.name, sel.pattern, sel.line), "instance": _sx(model_call(rule.name, args)),
                                      "translated_from_cxx": a, "extracted_model": b})
        else: res["mismatches"].append(None)
    res["not_exercised"] = [str(r) for r in rules if r.name in MODEL_CALL and not r.fired]
    res["fired"] = {str(r): r.fired for r in rules}
    res["ok"] = not res["mismatches"] and not res["untranslatable"] and not res["not_exercised"] and res["instances"] > 0
    return res


def main(argv):
    here = os.path.dirname(os.path.abspath(__file__))
    repo = os.environ.get("VERIF_REPO", "/repo")
    model = os.path.join(here, "..", "coq", "theories", "C01Opt.v")
    if len(argv) > 1:
        repo = argv[1]
    if len(argv) > 2:
        model = argv[2]
    cxx, mod = scrape_cxx(repo), scrape_model(model)
    print("C++ specialisations (%d):" % len(cxx))
    for r in cxx:
        print("  %s %s" % r)
    print("model arms (%d):" % len(mod))
    for r in mod:
        print("  %s %s" % r)
    mm, mc = compare(repo, model)
    print("missing in model (%d): %s" % (len(mm), mm))
    print("missing in C++ (%d): %s" % (len(mc), mc))
    ok = not mm and not mc and len(cxx) > 0
    print("RULE TABLE %s" % ("EQUAL" if ok else "DIFFERS"))
    return 0 if ok else 1


if __name__ == "__main__":
    sys.exit(main(sys.argv))
