#!/usr/bin/env python3
"""C12 (cross-validation folds): the check lives in tools/c03.py (shared dataset model, harness and driver);
this wrapper runs it with --prop C12.  usage: c12.py --tier quick|thorough [--replay FILE]"""
import os, sys
here = os.path.dirname(os.path.abspath(__file__))
os.execv(sys.executable, [sys.executable, os.path.join(here, "c03.py"), "--prop", "C12"] + sys.argv[1:])
