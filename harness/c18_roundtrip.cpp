// C18 serialization round-trip harness: driver.
//
//   c18_roundtrip --list          prints "CLASS VARIANT" for every supported case
//   c18_roundtrip <casefile>      each non-empty line "CLASS FORMAT SEED VARIANT" (FORMAT in {text,bin})
//
// For every input line exactly one output line, flushed immediately:
//   CLASS FORMAT SEED VARIANT OK n=<number of observables compared> [note=<case specific output without blanks>]
//   CLASS FORMAT SEED VARIANT DIFF <observable>: orig=<value> restored=<value> [also=<obs>|<obs>...] [then=CRASH-sig=<n>]
//        the FIRST differing observable; also= lists (index-stripped, distinct, at most 12) the further observables that
//        both objects report with different values; then= : the case crashed later, the difference was recorded before
//   CLASS FORMAT SEED VARIANT EXC <message>
//   CLASS FORMAT SEED VARIANT SKIP unknown-case
//   CLASS FORMAT SEED VARIANT CRASH sig=<n>      (fatal signal inside the case)
// After a CRASH line the process image may be corrupted, therefore the driver re-executes itself
// (internal third argument: number of input lines already consumed) and continues with the next line.
// The prefix "CLASS FORMAT SEED VARIANT " is written and flushed BEFORE the case runs, so that a hard
// crash that cannot be recovered is still attributable to the (then unterminated) last line.
#include "c18_rt.h"

#include <csetjmp>
#include <csignal>
#include <cstdlib>
#include <exception>
#include <fstream>
#include <iostream>
#include <map>
#include <unistd.h>

using namespace c18;

static sigjmp_buf g_jmp;
static volatile sig_atomic_t g_inCase = 0;
static volatile sig_atomic_t g_sig = 0;

static void onSignal(int sig) {
	if (g_inCase) {
		g_sig = sig;
		siglongjmp(g_jmp, 1);
	}
	static const char msg[] = "CRASH outside-case\n";
	ssize_t r = write(1, msg, sizeof msg - 1); (void)r;
	_exit(3);
}

// observable name without indices: eval[0][1] -> eval
static std::string stripIdx(std::string const& n) {
	std::string r; int d = 0;
	for (std::size_t i = 0; i != n.size(); ++i) {
		if (n[i] == '[') ++d;
		else if (n[i] == ']') { if (d) --d; }
		else if (!d) r += n[i];
	}
	return r;
}

// compares the two observable lists; "" when they agree completely
static std::string compareObs(Obs const& a, Obs const& b, bool complete, std::size_t& nCompared) {
	std::size_t n = a.items.size() < b.items.size() ? a.items.size() : b.items.size();
	nCompared = n;
	std::size_t k = 0;
	for (; k != n; ++k)
		if (a.items[k].first != b.items[k].first || a.items[k].second != b.items[k].second) break;
	std::string result;
	if (k != n) {
		if (a.items[k].first == b.items[k].first)
			result = "DIFF " + a.items[k].first + ": orig=" + a.items[k].second + " restored=" + b.items[k].second;
		else // the two observable lists diverge structurally (e.g. different sizes reported earlier)
			result = "DIFF " + a.items[k].first + ": orig=" + a.items[k].second + " restored=<" + b.items[k].first + "=" + b.items[k].second + ">";
	} else if (complete && a.items.size() != b.items.size()) {
		bool aLonger = a.items.size() > b.items.size();
		std::pair<std::string, std::string> const& e = aLonger ? a.items[n] : b.items[n];
		result = "DIFF " + e.first + ": orig=" + (aLonger ? e.second : std::string("<absent>")) + " restored=" + (aLonger ? std::string("<absent>") : e.second);
	}
	if (result.empty()) return result;
	// further observables reported by BOTH objects with different values (looked up by name: the lists may have diverged)
	std::map<std::string, std::string> bm;
	for (std::size_t i = 0; i != b.items.size(); ++i) bm.insert(b.items[i]);
	std::string first = stripIdx(k < a.items.size() ? a.items[k].first : std::string());
	std::vector<std::string> also;
	for (std::size_t i = 0; i != a.items.size(); ++i) {
		std::map<std::string, std::string>::const_iterator it = bm.find(a.items[i].first);
		if (it == bm.end() || it->second == a.items[i].second) continue;
		std::string nm = stripIdx(a.items[i].first);
		if (nm == first) continue;
		bool seen = false;
		for (std::size_t j = 0; j != also.size(); ++j) seen = seen || also[j] == nm;
		if (!seen && also.size() < 12) also.push_back(nm);
	}
	if (!also.empty()) {
		result += " also=";
		for (std::size_t j = 0; j != also.size(); ++j) result += (j ? "|" : "") + also[j];
	}
	return result;
}

static std::string oneLine(std::string s) {
	for (std::size_t i = 0; i != s.size(); ++i) if (s[i] == '\n' || s[i] == '\r') s[i] = ' ';
	if (s.size() > 300) s.resize(300);
	return s;
}

int main(int argc, char** argv) {
	std::vector<Case> cases;
	registerModels(cases);
	registerKernels(cases);
	registerData(cases);
	registerOpt(cases);
	registerExtra(cases);
	registerMoo(cases);
	registerStream(cases);
	registerMore(cases);

	if (argc != 2 && argc != 3) {
		std::cerr << "usage: c18_roundtrip --list | <casefile>\n";
		return 2;
	}
	unsigned long skipLines = (argc == 3) ? std::strtoul(argv[2], 0, 10) : 0; // internal: resume after a crash
	if (std::string(argv[1]) == "--list") {
		for (std::size_t i = 0; i != cases.size(); ++i) std::cout << cases[i].cls << " " << cases[i].variant << "\n";
		return 0;
	}
	std::ifstream in(argv[1]);
	if (!in) { std::cerr << "cannot open " << argv[1] << "\n"; return 2; }

	struct sigaction sa;
	std::memset(&sa, 0, sizeof sa);
	sa.sa_handler = onSignal;
	sigemptyset(&sa.sa_mask);
	sa.sa_flags = SA_NODEFER;
	sigaction(SIGSEGV, &sa, 0);
	sigaction(SIGFPE, &sa, 0);
	sigaction(SIGBUS, &sa, 0);
	sigaction(SIGABRT, &sa, 0);
	sigaction(SIGILL, &sa, 0);

	std::string line;
	unsigned long lineNo = 0;
	while (std::getline(in, line)) {
		++lineNo;
		if (lineNo <= skipLines) continue;
		std::istringstream ls(line);
		std::string cls, fmt, seedStr, variant;
		if (!(ls >> cls)) continue; // empty line
		ls >> fmt >> seedStr >> variant;
		std::cout << cls << " " << fmt << " " << seedStr << " " << variant << " " << std::flush;

		bool seedOk = !seedStr.empty() && seedStr.find_first_not_of("0123456789") == std::string::npos;
		Case const* found = 0;
		for (std::size_t i = 0; i != cases.size(); ++i)
			if (cases[i].cls == cls && cases[i].variant == variant) { found = &cases[i]; break; }
		if (!found || !seedOk || (fmt != "text" && fmt != "bin")) {
			std::cout << "SKIP unknown-case" << std::endl;
			continue;
		}
		std::uint64_t seed = std::strtoull(seedStr.c_str(), 0, 10);

		std::string result;
		// the context lives on the heap and outlives a crash of the case: what was recorded before is still compared
		Ctx* volatile ctxp = new Ctx(fmt == "bin", seed);
		if (sigsetjmp(g_jmp, 1) == 0) {
			g_inCase = 1;
			try {
				Ctx& ctx = *ctxp;
				found->fn(ctx, variant);
				std::size_t n = 0;
				result = compareObs(ctx.A, ctx.B, true, n);
				if (result.empty()) result = "OK n=" + std::to_string(n);
				if (!ctx.note.empty()) result += " note=" + ctx.note;
			} catch (std::exception const& e) {
				result = "EXC " + oneLine(e.what());
				if (result == "EXC ") result = "EXC (empty-what)";
			} catch (...) {
				result = "EXC unknown-exception-type";
			}
			g_inCase = 0;
			delete ctxp;
		} else {
			g_inCase = 0;
			result = "CRASH sig=" + std::to_string((int)g_sig);
			// a difference recorded before the crash is the more precise report (the context is leaked on purpose)
			std::size_t n = 0;
			std::string d = compareObs(ctxp->A, ctxp->B, false, n);
			if (!d.empty()) result = d + " then=CRASH-sig=" + std::to_string((int)g_sig);
		}
		std::cout << result << std::endl;
		if (result.compare(0, 5, "CRASH") == 0 || result.find(" then=CRASH-sig=") != std::string::npos) {
			// continue in a clean process image
			std::string n = std::to_string(lineNo);
			char* args[4] = {argv[0], argv[1], const_cast<char*>(n.c_str()), 0};
			execv("/proc/self/exe", args);
			// exec failed: carry on in this process
		}
	}
	return 0;
}
