// C02 linear solvers and decompositions of remora (solve / inv expressions, cholesky, pivoting LU,
// symmetric eigen decomposition, pivoted cholesky, potrf).  One output line per input line.
// Numbers in the case file: integer, dyadic fraction p/q, or C hex float; '|' tokens are separators.
// Orientation letters r/c = storage of that operand (remora::row_major / column_major).
//   S tag side ao rhs bo n m | A | B      X = solve(A,B,tag,side)
//   I tag ao bo n m | A | B | C           inv(A)%B ; solve(A,B,left) ; C%inv(A) ; solve(A,C,right) ; inv(A)
//   C ao n | A                            cholesky_decomposition lower_factor()
//   U ao n alpha beta | A | v             cholesky_decomposition::update
//   G ao n | A                            pivoting_lu_decomposition factor ; permutation
//   E ao n | A                            symm_eigenvalue_decomposition Q ; D
//   P ao n | A                            kernels::pstrf<lower>  rank ; F ; P
//   K tri ao n | A                        kernels::potrf<tri>  ret ; F
//   Z tag ao n m | A | B                  decomposition classes used directly: X ; Y ; x ; y [; rank]
#include <shark/LinAlg/BLAS/remora.hpp>
#include <csignal>
#include <cstdio>
#include <cstdlib>
#include <cstring>
#include <fstream>
#include <iostream>
#include <sstream>
#include <stdexcept>
#include <string>
#include <type_traits>
#include <vector>
#include <unistd.h>
using namespace remora;

struct Bad {};  // malformed case line -> "?"
struct Skip {}; // Z with a tag that has no public decomposition class -> "Z SKIP"

static volatile char g_letter = '?';
static void on_alarm(int) {
	char buf[16]; buf[0] = g_letter; std::memcpy(buf + 1, " TIMEOUT\n", 9);
	ssize_t r = write(1, buf, 10); (void)r;
	_exit(3);
}

struct Ctx {
	std::vector<std::string> tok; std::size_t pos; std::string out;
	Ctx() : pos(0) {}
	std::string const& word() { if (pos >= tok.size()) throw Bad(); return tok[pos++]; }
	double num() {
		std::string const& s = word(); if (s.empty()) throw Bad();
		char* e = 0;
		std::size_t sl = s.find('/');
		if (sl != std::string::npos) {
			std::string p = s.substr(0, sl), q = s.substr(sl + 1);
			if (p.empty() || q.empty()) throw Bad();
			long long pp = std::strtoll(p.c_str(), &e, 10); if (*e) throw Bad();
			long long qq = std::strtoll(q.c_str(), &e, 10); if (*e) throw Bad();
			return (double)pp / (double)qq;
		}
		double d = std::strtod(s.c_str(), &e); if (*e) throw Bad();
		return d;
	}
	std::size_t size() {
		std::string const& s = word(); if (s.empty()) throw Bad();
		char* e = 0; long long v = std::strtoll(s.c_str(), &e, 10); if (*e || v < 0) throw Bad();
		return (std::size_t)v;
	}
	void done() { if (pos != tok.size()) throw Bad(); }
	template<class M> void readMat(M& m, std::size_t r, std::size_t c) {
		m.resize(r, c);
		for (std::size_t i = 0; i != r; ++i) for (std::size_t j = 0; j != c; ++j) m(i, j) = num();
	}
	void readVec(vector<double>& v, std::size_t n) { v.resize(n); for (std::size_t i = 0; i != n; ++i) v(i) = num(); }
	void sep() { out += " ;"; }
	void put(double d) { char b[64]; std::snprintf(b, sizeof b, " %a", d); out += b; }
	void putInt(long long d) { char b[32]; std::snprintf(b, sizeof b, " %lld", d); out += b; }
	template<class M> void putMat(M const& m) {
		for (std::size_t i = 0; i != m.size1(); ++i) for (std::size_t j = 0; j != m.size2(); ++j) put(m(i, j));
	}
	template<class V> void putVec(V const& v) { for (std::size_t i = 0; i != v.size(); ++i) put(v(i)); }
	template<class V> void putIntVec(V const& v, std::size_t n) { for (std::size_t i = 0; i != n; ++i) putInt((long long)v(i)); }
};

// ---- compile-time dispatch over selector words -------------------------------------------------
struct KTag {}; struct KSide {}; struct KOri {}; struct KTri {};
template<class...> struct L {};
template<template<class...> class Op, class Kinds, class... Ts> struct D;
template<template<class...> class Op, class... Ts> struct D<Op, L<>, Ts...> {
	static void go(Ctx& c, std::string const*) { Op<Ts...>::run(c); }
};
template<template<class...> class Op, class... Ks, class... Ts> struct D<Op, L<KOri, Ks...>, Ts...> {
	static void go(Ctx& c, std::string const* s) {
		if (*s == "r") D<Op, L<Ks...>, Ts..., row_major>::go(c, s + 1);
		else if (*s == "c") D<Op, L<Ks...>, Ts..., column_major>::go(c, s + 1);
		else throw Bad();
	}
};
template<template<class...> class Op, class... Ks, class... Ts> struct D<Op, L<KSide, Ks...>, Ts...> {
	static void go(Ctx& c, std::string const* s) {
		if (*s == "L") D<Op, L<Ks...>, Ts..., left>::go(c, s + 1);
		else if (*s == "R") D<Op, L<Ks...>, Ts..., right>::go(c, s + 1);
		else throw Bad();
	}
};
template<template<class...> class Op, class... Ks, class... Ts> struct D<Op, L<KTri, Ks...>, Ts...> {
	static void go(Ctx& c, std::string const* s) {
		if (*s == "lower") D<Op, L<Ks...>, Ts..., lower>::go(c, s + 1);
		else if (*s == "upper") D<Op, L<Ks...>, Ts..., upper>::go(c, s + 1);
		else throw Bad();
	}
};
template<template<class...> class Op, class... Ks, class... Ts> struct D<Op, L<KTag, Ks...>, Ts...> {
	static void go(Ctx& c, std::string const* s) {
		if (*s == "lower") D<Op, L<Ks...>, Ts..., lower>::go(c, s + 1);
		else if (*s == "unit_lower") D<Op, L<Ks...>, Ts..., unit_lower>::go(c, s + 1);
		else if (*s == "upper") D<Op, L<Ks...>, Ts..., upper>::go(c, s + 1);
		else if (*s == "unit_upper") D<Op, L<Ks...>, Ts..., unit_upper>::go(c, s + 1);
		else if (*s == "spd") D<Op, L<Ks...>, Ts..., symm_pos_def>::go(c, s + 1);
		else if (*s == "semi") D<Op, L<Ks...>, Ts..., symm_semi_pos_def>::go(c, s + 1);
		else if (*s == "indef") D<Op, L<Ks...>, Ts..., indefinite_full_rank>::go(c, s + 1);
		else if (*s == "cg") D<Op, L<Ks...>, Ts..., conjugate_gradient>::go(c, s + 1);
		else throw Bad();
	}
};

// ---- operations --------------------------------------------------------------------------------
// S with matrix right-hand side
template<class Tag, class Side, class AO, class BO> struct OpSm {
	static void run(Ctx& c) {
		std::size_t n = c.size(), m = c.size();
		matrix<double, AO> A; c.readMat(A, n, n);
		matrix<double, BO> B;
		if (std::is_same<Side, left>::value) c.readMat(B, n, m); else c.readMat(B, m, n);
		c.done();
		matrix<double, BO> X = solve(A, B, Tag(), Side());
		c.putMat(X);
	}
};
// S with vector right-hand side
template<class Tag, class Side, class AO> struct OpSv {
	static void run(Ctx& c) {
		std::size_t n = c.size(), m = c.size(); (void)m;
		matrix<double, AO> A; c.readMat(A, n, n);
		vector<double> b; c.readVec(b, n);
		c.done();
		vector<double> x = solve(A, b, Tag(), Side());
		c.putVec(x);
	}
};
template<class Tag, class AO, class BO> struct OpI {
	static void run(Ctx& c) {
		std::size_t n = c.size(), m = c.size();
		matrix<double, AO> A; c.readMat(A, n, n);
		matrix<double, BO> B; c.readMat(B, n, m);
		matrix<double, BO> C; c.readMat(C, m, n);
		c.done();
		{ matrix<double, BO> X1 = inv(A, Tag()) % B; c.putMat(X1); } c.sep();
		{ matrix<double, BO> X2 = solve(A, B, Tag(), left()); c.putMat(X2); } c.sep();
		{ matrix<double, BO> X3 = C % inv(A, Tag()); c.putMat(X3); } c.sep();
		{ matrix<double, BO> X4 = solve(A, C, Tag(), right()); c.putMat(X4); } c.sep();
		{ matrix<double, AO> X5 = inv(A, Tag()); c.putMat(X5); }
	}
};

// X: the same solution through different expression forms (chained products with an unevaluated solve / inv, solves on a square
// VIEW into a larger stored matrix).  tools/c02.py demands that the groups agree and that the defining equation holds.
//   J ao n m eps maxit | A | B              conjugate_gradient(eps,maxit): x=solve(A,col0(B),left) ; y=solve(A,col0(B),right) ; X=solve(A,B,left) ; Y=solve(A,trans(B),right)
//   X tag ao bo n m off | A | B | c | b        groups: y1 ; y2 ; y3 ; y4 ; v1 ; v2 ; w1 ; w2 ; V1 ; V2
template<class Tag, class AO, class BO> struct OpX {
	static void run(Ctx& c) {
		std::size_t n = c.size(), m = c.size(), off = c.size();
		matrix<double, AO> A; c.readMat(A, n, n);
		matrix<double, BO> B; c.readMat(B, n, m);
		vector<double> cc; c.readVec(cc, m);
		vector<double> b; c.readVec(b, n);
		c.done();
		// A x = B c, four ways
		{ vector<double> y1 = prod(solve(A, B, Tag(), left()), cc); c.putVec(y1); } c.sep();                 // rewrite of the chained product
		{ matrix<double, BO> X = solve(A, B, Tag(), left()); vector<double> y2 = prod(X, cc); c.putVec(y2); } c.sep();   // evaluated first
		{ vector<double> y3 = (inv(A, Tag()) % B) % cc; c.putVec(y3); } c.sep();                              // explicit-inverse product form
		{ vector<double> bc = prod(B, cc); vector<double> y4 = solve(A, bc, Tag(), left()); c.putVec(y4); } c.sep();
		// the same matrix as a square view into a larger stored matrix (leading dimension != n)
		std::size_t N = n + off + 3;
		matrix<double, AO> M(N, N, 7.0);
		for (std::size_t i = 0; i != n; ++i) for (std::size_t j = 0; j != n; ++j) M(off + i, off + j) = A(i, j);
		{ vector<double> v1 = solve(subrange(M, off, off + n, off, off + n), b, Tag(), left()); c.putVec(v1); } c.sep();
		{ vector<double> v2 = solve(A, b, Tag(), left()); c.putVec(v2); } c.sep();
		{ vector<double> w1 = solve(subrange(M, off, off + n, off, off + n), b, Tag(), right()); c.putVec(w1); } c.sep();
		{ vector<double> w2 = solve(A, b, Tag(), right()); c.putVec(w2); } c.sep();
		{ matrix<double, BO> V1 = solve(subrange(M, off, off + n, off, off + n), B, Tag(), left()); c.putMat(V1); } c.sep();
		{ matrix<double, BO> V2 = solve(A, B, Tag(), left()); c.putMat(V2); }
	}
};
// accumulating forms: the solve expression is ADDED to / SUBTRACTED from a target that already holds values (plus_assign_to /
// minus paths of the solve and inverse expressions), both sides, matrix and vector right-hand sides
template<class Tag, class AO, class BO> struct OpY {
	static void run(Ctx& c) {
		std::size_t n = c.size(), m = c.size();
		matrix<double, AO> A; c.readMat(A, n, n);
		matrix<double, BO> B; c.readMat(B, n, m);      // left:  A X = B
		matrix<double, BO> Cm; c.readMat(Cm, m, n);    // right: Y A = C
		matrix<double, BO> X0; c.readMat(X0, n, m);
		matrix<double, BO> Y0; c.readMat(Y0, m, n);
		vector<double> b; c.readVec(b, n);
		vector<double> v0; c.readVec(v0, n);
		c.done();
		{ matrix<double, BO> R = solve(A, B, Tag(), left()); c.putMat(R); } c.sep();                                  // 0 reference, left
		{ matrix<double, BO> X = X0; noalias(X) += solve(A, B, Tag(), left()); c.putMat(X); } c.sep();                // 1
		{ matrix<double, BO> X = X0; noalias(X) += inv(A, Tag()) % B; c.putMat(X); } c.sep();                         // 2
		{ matrix<double, BO> X = X0 + solve(A, B, Tag(), left()); c.putMat(X); } c.sep();                             // 3
		{ matrix<double, BO> X = X0; noalias(X) -= solve(A, B, Tag(), left()); c.putMat(X); } c.sep();                // 4
		{ matrix<double, BO> X = X0; X += solve(A, B, Tag(), left()); c.putMat(X); } c.sep();                         // 5
		{ matrix<double, BO> R = solve(A, Cm, Tag(), right()); c.putMat(R); } c.sep();                                // 6 reference, right
		{ matrix<double, BO> Y = Y0; noalias(Y) += solve(A, Cm, Tag(), right()); c.putMat(Y); } c.sep();              // 7
		{ matrix<double, BO> Y = Y0; noalias(Y) += Cm % inv(A, Tag()); c.putMat(Y); } c.sep();                        // 8
		{ matrix<double, BO> Y = Y0 + solve(A, Cm, Tag(), right()); c.putMat(Y); } c.sep();                           // 9
		{ matrix<double, BO> Y = Y0; noalias(Y) -= solve(A, Cm, Tag(), right()); c.putMat(Y); } c.sep();              // 10
		{ matrix<double, BO> Y = Y0; Y += solve(A, Cm, Tag(), right()); c.putMat(Y); } c.sep();                       // 11
		{ vector<double> r = solve(A, b, Tag(), left()); c.putVec(r); } c.sep();                                      // 12 reference, vector left
		{ vector<double> v = v0; noalias(v) += solve(A, b, Tag(), left()); c.putVec(v); } c.sep();                    // 13
		{ vector<double> v = v0; noalias(v) -= inv(A, Tag()) % b; c.putVec(v); } c.sep();                             // 14
		{ vector<double> r = solve(A, b, Tag(), right()); c.putVec(r); } c.sep();                                     // 15 reference, vector right
		{ vector<double> v = v0; noalias(v) += solve(A, b, Tag(), right()); c.putVec(v); } c.sep();                   // 16
		{ vector<double> v = v0 - b % inv(A, Tag()); c.putVec(v); }                                                   // 17
	}
};
template<class AO> struct OpC {
	static void run(Ctx& c) {
		std::size_t n = c.size();
		matrix<double, AO> A; c.readMat(A, n, n); c.done();
		cholesky_decomposition<matrix<double, AO> > d(A);
		c.putMat(d.lower_factor());
	}
};
template<class AO> struct OpU {
	static void run(Ctx& c) {
		std::size_t n = c.size(); double alpha = c.num(), beta = c.num();
		matrix<double, AO> A; c.readMat(A, n, n);
		vector<double> v; c.readVec(v, n); c.done();
		cholesky_decomposition<matrix<double, AO> > d(A);
		d.update(alpha, beta, v);
		c.putMat(d.lower_factor());
	}
};
template<class AO> struct OpG {
	static void run(Ctx& c) {
		std::size_t n = c.size();
		matrix<double, AO> A; c.readMat(A, n, n); c.done();
		pivoting_lu_decomposition<matrix<double, AO> > d(A);
		c.putMat(d.factor()); c.sep(); c.putIntVec(d.permutation(), n);
	}
};
template<class AO> struct OpE {
	static void run(Ctx& c) {
		std::size_t n = c.size();
		matrix<double, AO> A; c.readMat(A, n, n); c.done();
		symm_eigenvalue_decomposition<matrix<double, AO> > d(A);
		c.putMat(d.Q()); c.sep(); c.putVec(d.D());
	}
};
template<class AO> struct OpJ {
	static void run(Ctx& c) {
		std::size_t n = c.size(), m = c.size(); if (m == 0) throw Bad();
		double eps = c.num(); std::size_t maxit = c.size();
		matrix<double, AO> A; c.readMat(A, n, n);
		matrix<double, row_major> B; c.readMat(B, n, m); c.done();
		conjugate_gradient tag(eps, (unsigned)maxit);
		vector<double> b0 = column(B, 0);
		vector<double> x = solve(A, b0, tag, left());
		vector<double> y = solve(A, b0, tag, right());
		matrix<double, row_major> X = solve(A, B, tag, left());
		matrix<double, row_major> Bt = trans(B);
		matrix<double, row_major> Y = solve(A, Bt, tag, right());
		c.putVec(x); c.sep(); c.putVec(y); c.sep(); c.putMat(X); c.sep(); c.putMat(Y);
	}
};
template<class AO> struct OpP {
	static void run(Ctx& c) {
		std::size_t n = c.size();
		matrix<double, AO> A; c.readMat(A, n, n); c.done();
		matrix<double, AO> F = A; permutation_matrix P(n);
		std::size_t r = kernels::pstrf<lower>(F, P);
		c.putInt((long long)r); c.sep(); c.putMat(F); c.sep(); c.putIntVec(P, n);
	}
};
template<class Tri, class AO> struct OpK {
	static void run(Ctx& c) {
		std::size_t n = c.size();
		matrix<double, AO> A; c.readMat(A, n, n); c.done();
		matrix<double, AO> F = A;
		std::size_t ret = kernels::potrf<Tri>(F);
		c.putInt((long long)ret); c.sep(); c.putMat(F);
	}
};

template<class Dec> static void putRank(Ctx&, Dec const&) {}
template<class M> static void putRank(Ctx& c, symm_pos_semi_definite_solver<M> const& d) { c.sep(); c.putInt((long long)d.rank()); }

template<class Dec, class AO> static void runZ(Ctx& c) {
	std::size_t n = c.size(), m = c.size(); if (m == 0) throw Bad();
	matrix<double, AO> A; c.readMat(A, n, n);
	matrix<double, row_major> B; c.readMat(B, n, m); c.done();
	Dec d(A);
	matrix<double, row_major> X = B; d.solve(X, left());
	matrix<double, row_major> Y = trans(B); d.solve(Y, right());
	vector<double> x = column(B, 0); d.solve(x, left());
	vector<double> y = column(B, 0); d.solve(y, right());
	c.putMat(X); c.sep(); c.putMat(Y); c.sep(); c.putVec(x); c.sep(); c.putVec(y);
	putRank(c, d);
}
template<class AO> static void dispatchZ(Ctx& c, std::string const& tag) {
	typedef matrix<double, AO> M;
	if (tag == "spd") runZ<cholesky_decomposition<M>, AO>(c);
	else if (tag == "indef") runZ<pivoting_lu_decomposition<M>, AO>(c);
	else if (tag == "semi") runZ<symm_pos_semi_definite_solver<M>, AO>(c);
	else if (tag == "eig") runZ<symm_eigenvalue_decomposition<M>, AO>(c);
	else if (tag == "lower" || tag == "unit_lower" || tag == "upper" || tag == "unit_upper" || tag == "cg") throw Skip();
	else throw Bad();
}

static void dispatch(char letter, Ctx& c) {
	std::string sel[4];
	switch (letter) {
	case 'S': {
		std::string tag = c.word(), side = c.word(), ao = c.word(), rhs = c.word(), bo = c.word();
		sel[0] = tag; sel[1] = side; sel[2] = ao; sel[3] = bo;
		if (rhs == "m") D<OpSm, L<KTag, KSide, KOri, KOri> >::go(c, sel);
		else if (rhs == "v") D<OpSv, L<KTag, KSide, KOri> >::go(c, sel);
		else throw Bad();
		break;
	}
	case 'I': sel[0] = c.word(); sel[1] = c.word(); sel[2] = c.word(); D<OpI, L<KTag, KOri, KOri> >::go(c, sel); break;
	case 'X': sel[0] = c.word(); sel[1] = c.word(); sel[2] = c.word(); D<OpX, L<KTag, KOri, KOri> >::go(c, sel); break;
	case 'Y': sel[0] = c.word(); sel[1] = c.word(); sel[2] = c.word(); D<OpY, L<KTag, KOri, KOri> >::go(c, sel); break;
	case 'C': sel[0] = c.word(); D<OpC, L<KOri> >::go(c, sel); break;
	case 'U': sel[0] = c.word(); D<OpU, L<KOri> >::go(c, sel); break;
	case 'G': sel[0] = c.word(); D<OpG, L<KOri> >::go(c, sel); break;
	case 'E': sel[0] = c.word(); D<OpE, L<KOri> >::go(c, sel); break;
	case 'P': sel[0] = c.word(); D<OpP, L<KOri> >::go(c, sel); break;
	case 'J': sel[0] = c.word(); D<OpJ, L<KOri> >::go(c, sel); break;
	case 'K': sel[0] = c.word(); sel[1] = c.word(); D<OpK, L<KTri, KOri> >::go(c, sel); break;
	case 'Z': {
		std::string tag = c.word(), ao = c.word();
		if (ao == "r") dispatchZ<row_major>(c, tag); else if (ao == "c") dispatchZ<column_major>(c, tag); else throw Bad();
		break;
	}
	default: throw Bad();
	}
}

int main(int argc, char** argv) {
	if (argc < 2) { std::fprintf(stderr, "usage: %s casefile\n", argv[0]); return 2; }
	std::signal(SIGALRM, on_alarm);
	std::ifstream in(argv[1]); std::string line;
	while (std::getline(in, line)) {
		std::istringstream is(line); std::string cmd;
		if (!(is >> cmd) || cmd.size() != 1) { std::cout << "?" << std::endl; continue; }
		Ctx c; std::string t; while (is >> t) if (t != "|") c.tok.push_back(t);
		char letter = cmd[0]; g_letter = letter;
		std::string res;
		alarm(20);
		try { dispatch(letter, c); res = cmd + " OK" + c.out; }
		catch (Bad&) { res = "?"; }
		catch (Skip&) { res = cmd + " SKIP"; }
		catch (std::exception&) { res = cmd + " EXC"; }
		catch (...) { res = cmd + " EXC"; }
		alarm(0);
		std::cout << res << std::endl;
	}
	return 0;
}
