// C10 harness, trust-region Newton: the real TrustRegionNewton of /repo (src/Algorithms/GradientDescent/TrustRegionNewton.cpp
// compiled from the working tree) driven through a three-line subclass that supplies the override the class lacks at the
// pinned commit (its two-argument init takes the objective by non-const reference and so does not override the pure virtual
// init(ObjectiveFunctionType const&, SearchPointType const&)).  Reads a case file, prints one line per input line:
//   N <kind> <n> [tag] | A (n*n) | b (n) | x0 (n) | params
//       kind  : quad (0.5 x'Ax - b'x, Hessian A; A may be indefinite), rosen (sum p (x[i+1]-x[i]^2)^2 + (1-x[i])^2, p = A[0])
//       params: delta0 [minImprovementRatio]; delta0 = "default": init(f, x0) through the optimizer interface (radius 0.1)
//   S      one step  -> state line + ex (1: no floating-point operation of the whole step raised FE_INEXACT)
//                       + the evaluation log of the step: nev, trial point / value (the eval() call of step), accepted
//   R k    k steps   -> state line + the per-step predicates aggregated over the block
// State line: pt val reval (objective re-evaluated at pt) fin delta grad hess (m_derivatives) regrad rehess (re-evaluated).
// Numbers in: integers, p/q, or anything strtod accepts (hex floats).  Numbers out: %a.
#include <cstdio>
#include <cstdlib>
#include <cstring>
#include <cmath>
#include <cfenv>
#include <cstdint>
#include <string>
#include <vector>
#include <sstream>
#include <fstream>
#include <iostream>
#include <memory>

#include <shark/ObjectiveFunctions/AbstractObjectiveFunction.h>
#include <shark/Algorithms/GradientDescent/TrustRegionNewton.h>

using namespace shark;

namespace {

// the missing override + read access to the protected members
struct TRNewton : public TrustRegionNewton {
	using TrustRegionNewton::init;
	void init(ObjectiveFunctionType const& f, SearchPointType const& s) { TrustRegionNewton::init(f, s, 0.1); }
	double delta() const { return m_delta; }
	RealVector const& gradient() const { return m_derivatives.gradient; }
	RealMatrix const& hessian() const { return m_derivatives.hessian; }
};

struct Objective2 : public SingleObjectiveFunction {
	std::size_t n; bool rosen; std::vector<double> A, b;
	// evaluation log of the current step
	mutable long nev; mutable RealVector trialPoint; mutable double trialValue; mutable long nTrial, nDeriv;
	Objective2(std::size_t n_, bool rosen_, std::vector<double> const& A_, std::vector<double> const& b_)
	: n(n_), rosen(rosen_), A(A_), b(b_), nev(0), trialValue(0), nTrial(0), nDeriv(0) {
		m_features |= HAS_FIRST_DERIVATIVE;
		m_features |= HAS_SECOND_DERIVATIVE;
	}
	std::string name() const { return "C10Objective2"; }
	std::size_t numberOfVariables() const { return n; }
	// same operation order as harness/c10_opt.cpp (struct Objective)
	double value(RealVector const& x, RealVector* g, RealMatrix* H) const {
		double v = 0.0;
		if (g) g->resize(n);
		if (H) { H->resize(n, n); for (std::size_t i = 0; i != n; ++i) for (std::size_t j = 0; j != n; ++j) (*H)(i, j) = 0.0; }
		if (!rosen) {
			double xax = 0.0, bx = 0.0;
			for (std::size_t i = 0; i != n; ++i) {
				double ax = 0.0;
				for (std::size_t j = 0; j != n; ++j) ax += A[i * n + j] * x(j);
				xax += x(i) * ax; bx += b[i] * x(i);
				if (g) (*g)(i) = ax - b[i];
			}
			v = 0.5 * xax - bx;
			if (H) for (std::size_t i = 0; i != n; ++i) for (std::size_t j = 0; j != n; ++j) (*H)(i, j) = A[i * n + j];
		} else {
			double p = A[0];
			if (g) for (std::size_t i = 0; i != n; ++i) (*g)(i) = 0.0;
			if (n == 1) { v = (1 - x(0)) * (1 - x(0)); if (g) (*g)(0) = -2 * (1 - x(0)); if (H) (*H)(0, 0) = 2.0; }
			for (std::size_t i = 0; i + 1 < n; ++i) {
				double r = x(i + 1) - x(i) * x(i), q = 1 - x(i);
				v += p * r * r + q * q;
				if (g) { (*g)(i) += -4 * p * r * x(i) - 2 * q; (*g)(i + 1) += 2 * p * r; }
				if (H) {
					(*H)(i, i) += p * (12 * x(i) * x(i) - 4 * x(i + 1)) + 2;
					(*H)(i, i + 1) += -4 * p * x(i); (*H)(i + 1, i) += -4 * p * x(i);
					(*H)(i + 1, i + 1) += 2 * p;
				}
			}
		}
		return v;
	}
	double eval(RealVector const& x) const { ++m_evaluationCounter; ++nev; ++nTrial; trialPoint = x; trialValue = value(x, 0, 0); return trialValue; }
	double evalDerivative(RealVector const& x, FirstOrderDerivative& d) const { ++m_evaluationCounter; ++nev; ++nDeriv; return value(x, &d, 0); }
	double evalDerivative(RealVector const& x, SecondOrderDerivative& d) const { ++m_evaluationCounter; ++nev; ++nDeriv; return value(x, &d.gradient, &d.hessian); }
	void resetLog() const { nev = 0; nTrial = 0; nDeriv = 0; trialPoint.resize(0); trialValue = 0; }
};

std::string hexd(double v) { char buf[64]; std::snprintf(buf, sizeof buf, "%a", v); return buf; }
std::string hexv(RealVector const& v) {
	std::string s;
	for (std::size_t i = 0; i != v.size(); ++i) { if (i) s += ","; s += hexd(v(i)); }
	return s;
}
std::string hexm(RealMatrix const& m) {
	std::string s;
	for (std::size_t i = 0; i != m.size1(); ++i) for (std::size_t j = 0; j != m.size2(); ++j) { if (i + j) s += ","; s += hexd(m(i, j)); }
	return s;
}
bool finite(RealVector const& v) { for (std::size_t i = 0; i != v.size(); ++i) if (!std::isfinite(v(i))) return false; return true; }
bool sameBits(double a, double b) { return std::memcmp(&a, &b, sizeof(double)) == 0 || (a == 0.0 && b == 0.0); }

double parseNum(std::string const& t) {
	std::size_t k = t.find('/');
	if (k != std::string::npos) return std::strtod(t.substr(0, k).c_str(), 0) / std::strtod(t.substr(k + 1).c_str(), 0);
	return std::strtod(t.c_str(), 0);
}
std::vector<std::vector<std::string> > groups(std::vector<std::string> const& toks, std::size_t from) {
	std::vector<std::vector<std::string> > g(1);
	for (std::size_t i = from; i < toks.size(); ++i) { if (toks[i] == "|") g.push_back(std::vector<std::string>()); else g.back().push_back(toks[i]); }
	return g;
}
std::vector<double> nums(std::vector<std::string> const& g) { std::vector<double> v; for (std::size_t i = 0; i != g.size(); ++i) v.push_back(parseNum(g[i])); return v; }
RealVector rv(std::vector<double> const& v) { RealVector r(v.size()); for (std::size_t i = 0; i != v.size(); ++i) r(i) = v[i]; return r; }

struct Case {
	std::unique_ptr<Objective2> f;
	std::unique_ptr<TRNewton> o;
	bool dead; std::string deadmsg;
	Case() : dead(true) {}
};

std::string stateLine(Case& c) {
	TRNewton& o = *c.o;
	RealVector const& p = o.solution().point; double v = o.solution().value;
	RealVector rg; RealMatrix rh; double re = c.f->value(p, &rg, &rh);
	std::ostringstream s;
	s << "pt=" << hexv(p) << " val=" << hexd(v) << " reval=" << hexd(re) << " fin=" << ((finite(p) && std::isfinite(v)) ? 1 : 0)
	  << " delta=" << hexd(o.delta()) << " ratio=" << hexd(o.minImprovementRatio())
	  << " grad=" << hexv(o.gradient()) << " hess=" << hexm(o.hessian()) << " regrad=" << hexv(rg) << " rehess=" << hexm(rh);
	return s.str();
}

std::string doInit(Case& c, std::vector<std::string> const& toks) {
	std::vector<std::vector<std::string> > g = groups(toks, 1);
	if (g.size() != 5 || g[0].size() < 2 || g[4].empty()) return "BADLINE";      // g[0][2]: optional tag of the generator (stream name)
	std::string kind = g[0][0]; std::size_t n = (std::size_t)std::atoi(g[0][1].c_str());
	if (kind != "quad" && kind != "rosen") return "BADLINE";
	std::vector<double> A = nums(g[1]), b = nums(g[2]);
	if (kind == "quad" && (A.size() != n * n || b.size() != n)) return "BADLINE";
	c.f.reset(new Objective2(n, kind == "rosen", A, b));
	RealVector x0 = rv(nums(g[3]));
	if (x0.size() != n) return "BADLINE";
	c.o.reset(new TRNewton());
	c.dead = false; c.deadmsg = "";
	c.f->resetLog();
	if (g[4][0] == "default") {
		AbstractSingleObjectiveOptimizer<RealVector>& base = *c.o;     // the interface every other optimizer is used through
		base.init(*c.f, x0);
	} else c.o->init(*c.f, x0, parseNum(g[4][0]));
	if (g[4].size() >= 2) c.o->minImprovementRatio() = parseNum(g[4][1]);
	std::ostringstream s; s << " nev=" << c.f->nev;
	return stateLine(c) + s.str();
}

double dist(RealVector const& a, RealVector const& b) { double s = 0; for (std::size_t i = 0; i != a.size(); ++i) s += (a(i) - b(i)) * (a(i) - b(i)); return std::sqrt(s); }

std::string doSteps(Case& c, long k, bool aggregate) {
	double maxinc = -HUGE_VAL, maxout = -HUGE_VAL; long incAt = -1, ncons = 0, consAt = -1, nfin = 0, ndelta = 0, deltaAt = -1, nout = 0, outAt = -1, nder = 0, derAt = -1, nacc = 0;
	bool ex = false;
	for (long s = 0; s != k; ++s) {
		double before = c.o->solution().value, dbefore = c.o->delta();
		RealVector pbefore = c.o->solution().point;
		c.f->resetLog();
		std::feclearexcept(FE_INEXACT); asm volatile("" ::: "memory");
		c.o->step(*c.f);
		asm volatile("" ::: "memory"); ex = !std::fetestexcept(FE_INEXACT);
		if (!aggregate) continue;
		RealVector const& p = c.o->solution().point; double v = c.o->solution().value;
		if (v - before > maxinc || (std::isnan(v - before) && incAt < 0)) { maxinc = v - before; incAt = s; }
		RealVector rg; RealMatrix rh; double re = c.f->value(p, &rg, &rh);
		if (!sameBits(re, v)) { if (!ncons) consAt = s; ++ncons; }
		bool dok = rg.size() == c.o->gradient().size() && rh.size1() == c.o->hessian().size1();
		for (std::size_t i = 0; dok && i != rg.size(); ++i) { if (!sameBits(rg(i), c.o->gradient()(i))) dok = false; for (std::size_t j = 0; dok && j != rg.size(); ++j) if (!sameBits(rh(i, j), c.o->hessian()(i, j))) dok = false; }
		if (!dok) { if (!nder) derAt = s; ++nder; }
		if (!finite(p) || !std::isfinite(v)) ++nfin;
		if (!(c.o->delta() > 0) || !std::isfinite(c.o->delta())) { if (!ndelta) deltaAt = s; ++ndelta; }
		if (dist(p, pbefore) > 0) ++nacc;
		// the evaluated trial point (point + CG step, also of a rejected step) stays inside the trust region of the step: |step| <= radius,
		// up to the rounding of the vector addition point + step (half an ulp of the coordinates) and 1e-9 relative for the CG arithmetic
		if (c.f->nTrial && finite(c.f->trialPoint)) {
			double moved = dist(c.f->trialPoint, pbefore), big = 0;
			for (std::size_t i = 0; i != pbefore.size(); ++i) big = std::max(big, std::max(std::fabs(pbefore(i)), std::fabs(c.f->trialPoint(i))));
			double slack = std::sqrt((double)pbefore.size()) * 2.220446049250313e-16 * big;
			if ((moved - slack) / dbefore > maxout) maxout = (moved - slack) / dbefore;
			if (!(moved <= dbefore * (1 + 1e-9) + slack)) { if (!nout) outAt = s; ++nout; }
		}
	}
	std::string out = stateLine(c);
	std::ostringstream s;
	if (aggregate) {
		s << " maxinc=" << hexd(maxinc) << " incat=" << incAt << " ncons=" << ncons << " consat=" << consAt << " nder=" << nder << " derat=" << derAt
		  << " nfin=" << nfin << " ndelta=" << ndelta << " deltaat=" << deltaAt << " nout=" << nout << " outat=" << outAt << " maxout=" << hexd(maxout) << " nacc=" << nacc;
	} else {
		s << " ex=" << (ex ? 1 : 0) << " nev=" << c.f->nev << " ntrial=" << c.f->nTrial << " nderiv=" << c.f->nDeriv;
		if (c.f->nTrial) s << " tpt=" << hexv(c.f->trialPoint) << " tval=" << hexd(c.f->trialValue);
	}
	return out + s.str();
}

} // namespace

int main(int argc, char** argv) {
	if (argc < 2) { std::fprintf(stderr, "usage: c10_trn <casefile>\n"); return 2; }
	std::ifstream in(argv[1]);
	std::string line;
	Case c;
	while (std::getline(in, line)) {
		std::vector<std::string> toks;
		{ std::istringstream is(line); std::string t; while (is >> t) toks.push_back(t); }
		std::string out;
		if (toks.empty()) { std::puts("?"); continue; }
		try {
			if (toks[0] == "N") out = doInit(c, toks);
			else if (c.dead) out = "EXC " + c.deadmsg;
			else if (toks[0] == "S") out = doSteps(c, 1, false);
			else if (toks[0] == "R" && toks.size() == 2) out = doSteps(c, std::atol(toks[1].c_str()), true);
			else out = "?";
		} catch (std::exception const& e) {
			c.dead = true; c.deadmsg = e.what();
			for (std::size_t i = 0; i != c.deadmsg.size(); ++i) if (c.deadmsg[i] == '\n' || c.deadmsg[i] == ' ') c.deadmsg[i] = '_';
			out = "EXC " + c.deadmsg;
		}
		std::puts(out.c_str());
		std::fflush(stdout);
	}
	return 0;
}
