// C14 correspondence harness, part 3: variation and mating-selection operators next to C14Var.v.
//
// Reals are written as C99 hex floats (exact).  One output line per input line.
//   R <seed> <count>                       -> u=..   the first <count> canonical draws (std::generate_canonical<double,53>) of
//                                             std::mt19937(seed): what every random::coinToss / random::uni call consumes (one each)
//   D <seed> <n> <k>                       -> d=..   k draws of random::discrete(rng, 0, n-1) from std::mt19937(seed)
//   X <n> <prob> <nc> lo.. hi.. p1.. p2.. | u..   SimulatedBinaryCrossover (m_prob, m_nc, m_lower, m_upper set directly) with a
//                                             replaying generator: the k-th distribution call sees the k-th listed draw (0 when exhausted)
//                                          -> c1=.. c2=.. used=<draws consumed>
//   M <n> <prob> <nm> <seed> lo.. hi.. p.. | u..  PolynomialMutator with std::mt19937(seed) (its signature fixes the generator type);
//                                             the listed draws must be the canonical stream of that seed (checked: drawsok)
//                                          -> c=.. used=.. drawsok=0|1
//   T <n> <k> <seed> r0..r(n-1) | d..      TournamentSelection<RankOrdering>(k) with std::mt19937(seed) on individuals with the given
//                                             ranks; listed indices must be the discrete() stream of that seed -> idx=.. drawsok=..
//   L <n> <mu> r0..r(n-1)                  ElitistSelection<Ordering>()(population, mu) -> sel=0101.. out=<positions copied by the
//                                             iterator-range overload, in output order>.  The population overload calls select(),
//                                             which shark::Individual does not have (it has selected()): that overload cannot be
//                                             instantiated with Individual, so it is exercised with a minimal individual type
//                                             providing rank() and select(); the range overload runs on shark::Individual.
#include <shark/Algorithms/DirectSearch/Individual.h>
#include <shark/Algorithms/DirectSearch/Operators/Recombination/SimulatedBinaryCrossover.h>
#include <shark/Algorithms/DirectSearch/Operators/Mutation/PolynomialMutation.h>
#include <shark/Algorithms/DirectSearch/Operators/Selection/TournamentSelection.h>
#include <shark/Algorithms/DirectSearch/Operators/Selection/ElitistSelection.h>
#include <shark/Core/Random.h>
#include <cmath>
#include <cstdint>
#include <cstdio>
#include <cstdlib>
#include <fstream>
#include <iostream>
#include <limits>
#include <random>
#include <sstream>
#include <string>
#include <vector>

using namespace shark;
typedef Individual<RealVector, RealVector> Ind;

static double rd(std::istringstream& is) { std::string t; is >> t; return std::strtod(t.c_str(), 0); }
static std::string hexd(double v) { char b[64]; if (v != v) return "nan"; std::snprintf(b, sizeof b, "%a", v); return b; }
static std::string hexv(RealVector const& v) { std::string s; for (std::size_t i = 0; i < v.size(); ++i) s += (i ? "," : "") + hexd(v(i)); return s; }
static RealVector readv(std::istringstream& is, std::size_t n) { RealVector v(n); for (std::size_t i = 0; i < n; ++i) v(i) = rd(is); return v; }
static std::vector<double> tail(std::istringstream& is) {
	std::vector<double> u; std::string t; bool bar = false;
	while (is >> t) { if (t == "|") { bar = true; continue; } if (bar) u.push_back(std::strtod(t.c_str(), 0)); }
	return u;
}

// every 64-bit output carries one 53-bit dyadic draw u: generate_canonical<double,53> returns exactly u
struct ReplayRng {
	typedef std::uint64_t result_type;
	std::vector<double> const* u; std::size_t pos;
	static constexpr result_type min() { return 0; }
	static constexpr result_type max() { return std::numeric_limits<std::uint64_t>::max(); }
	result_type operator()() {
		double v = pos < u->size() ? (*u)[pos] : 0.0; ++pos;
		return static_cast<std::uint64_t>(std::ldexp(v, 53)) << 11;
	}
};

struct MiniInd { unsigned m_rank; bool m_sel; MiniInd() : m_rank(0), m_sel(false) {} bool& select() { return m_sel; } unsigned rank() const { return m_rank; } };
struct MiniRankOrdering { bool operator()(MiniInd const& a, MiniInd const& b) { return a.rank() < b.rank(); } };

static double canonical(random::rng_type& rng) { return std::generate_canonical<double, 53>(rng); }

int main(int argc, char** argv) {
	std::ifstream in(argv[1]);
	std::string line;
	while (std::getline(in, line)) {
		std::istringstream is(line);
		std::string cmd; if (!(is >> cmd)) { std::cout << "\n"; continue; }
		std::ostringstream o;
		try {
			if (cmd == "R") {
				unsigned seed; std::size_t count; is >> seed >> count;
				random::rng_type rng(seed); o << "u=";
				for (std::size_t i = 0; i < count; ++i) o << (i ? "," : "") << hexd(canonical(rng));
			} else if (cmd == "D") {
				unsigned seed; std::size_t n, k; is >> seed >> n >> k;
				random::rng_type rng(seed); o << "d=";
				for (std::size_t i = 0; i < k; ++i) o << (i ? "," : "") << random::discrete(rng, std::size_t(0), n - 1);
			} else if (cmd == "X") {
				std::size_t n; is >> n; double prob = rd(is), nc = rd(is);
				RealVector lo = readv(is, n), hi = readv(is, n); Ind a, b; a.searchPoint() = readv(is, n); b.searchPoint() = readv(is, n);
				std::vector<double> u = tail(is);
				SimulatedBinaryCrossover<RealVector> sbx; sbx.init(lo, hi); sbx.m_prob = prob; sbx.m_nc = nc;
				ReplayRng rng; rng.u = &u; rng.pos = 0;
				sbx(rng, a, b);
				o << "c1=" << hexv(a.searchPoint()) << " c2=" << hexv(b.searchPoint()) << " used=" << rng.pos;
			} else if (cmd == "M") {
				std::size_t n; is >> n; double prob = rd(is), nm = rd(is); unsigned seed; is >> seed;
				RealVector lo = readv(is, n), hi = readv(is, n); Ind a; a.searchPoint() = readv(is, n);
				std::vector<double> u = tail(is);
				PolynomialMutator pm; pm.init(lo, hi); pm.m_prob = prob; pm.m_nm = nm;
				random::rng_type rng(seed), copy(seed), chk(seed);
				bool ok = true; for (double x : u) if (canonical(chk) != x) ok = false;
				pm(rng, a);
				std::size_t used = 0; while (!(copy == rng) && used <= 2 * n + 2) { canonical(copy); ++used; }
				o << "c=" << hexv(a.searchPoint()) << " used=" << used << " drawsok=" << (ok ? 1 : 0);
			} else if (cmd == "T") {
				std::size_t n, k; unsigned seed; is >> n >> k >> seed;
				std::vector<Ind> pop(n); for (std::size_t i = 0; i < n; ++i) { unsigned r; is >> r; pop[i].rank() = r; }
				std::vector<double> d = tail(is);
				random::rng_type rng(seed), chk(seed);
				bool ok = d.size() == k; for (double x : d) if ((double)random::discrete(chk, std::size_t(0), n - 1) != x) ok = false;
				TournamentSelection<Ind::RankOrdering> sel(k);
				std::vector<Ind>::iterator it = sel(rng, pop.begin(), pop.end());
				o << "idx=" << (it - pop.begin()) << " drawsok=" << (ok ? 1 : 0);
			} else if (cmd == "L") {
				std::size_t n, mu; is >> n >> mu;
				std::vector<MiniInd> pop(n); std::vector<Ind> pop2(n);
				for (std::size_t i = 0; i < n; ++i) { unsigned r; is >> r; pop[i].m_rank = r; pop2[i].rank() = r; pop2[i].searchPoint() = RealVector(1, (double)i); }
				ElitistSelection<MiniRankOrdering> sel; sel(pop, mu);
				o << "sel="; for (std::size_t i = 0; i < n; ++i) o << (pop[i].m_sel ? '1' : '0');
				o << " out=";
				if (mu < n) {
					std::vector<Ind> out(mu);
					ElitistSelection<Ind::RankOrdering> sel2; sel2(pop2.begin(), pop2.end(), out.begin(), out.end());
					for (std::size_t i = 0; i < mu; ++i) o << (i ? "," : "") << (std::size_t)out[i].searchPoint()(0);
				} else o << "-";
			} else o << "BAD";
		}
		catch (shark::Exception const&) { o.str(""); o << "EXC"; }
		catch (std::exception const&) { o.str(""); o << "STDEXC"; }
		std::cout << o.str() << std::endl;
	}
	return 0;
}
