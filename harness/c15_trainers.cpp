// C15 — closed-form trainers.  One self-contained case per input line, one output line per input line.
//   <KIND> <args...> | <batch sizes> | <X: n*d numbers> [| <labels / targets>] [| <weights>]
// numbers are integers or dyadic fractions "p/q" (exactly representable).  Kinds:
//   S n d              Data/Statistics.h  mean, variance (meanvar vector form), covariance (meanvar matrix form)
//   V zm n d           NormalizeComponentsUnitVariance(zeroMean = zm)     diag, off, model output on the training data
//   I n d              NormalizeComponentsUnitInterval                    diag, off, model output on the training data
//   L lam n d o        LinearRegression(lam)        | .. | X | Y (n*o)     matrix (o x d, row major), offset (o)
//   W tv n d / Z tv n d   NormalizeComponentsWhitening / ZCA (target variance tv)   rows, matrix, offset
//   P wh m n d         PCA(whitening = wh), m components (0 = all)         eigenvalues, eigenvectors, mean, encoder, decoder;
//                      on/oD/oU: the answer of the eigen-decomposition ORACLE on the matrix of the branch taken (standard branch:
//                      the public eigenvalues()/eigenvectors(); small-sample branch d > n: the decomposition is a local variable
//                      of PCA::setData, so the Gram-type matrix X0 X0^T / n is formed here with the same statements and handed
//                      to the same blas::symm_eigenvalue_decomposition - deterministic, hence the values setData met)
//   D lam n d K        LDA(lam)                    | .. | X | labels       matrix (K x d), bias (K)
//   DW lam n d K       LDA(lam), weighted          | .. | X | labels | weights
//   F wh m n d K       FisherLDA(wh, m)            | .. | X | labels       rows, matrix, offset
// Output: "OK key=v,v,... key=..." with doubles printed as %a;  "EXC" for shark::Exception, "STDEXC" otherwise.
#include <shark/Data/Dataset.h>
#include <shark/Data/WeightedDataset.h>
#include <shark/Data/Statistics.h>
#include <shark/Algorithms/Trainers/LinearRegression.h>
#include <shark/Algorithms/Trainers/PCA.h>
#include <shark/Algorithms/Trainers/LDA.h>
#include <shark/Algorithms/Trainers/FisherLDA.h>
#include <shark/Algorithms/Trainers/NormalizeComponentsUnitVariance.h>
#include <shark/Algorithms/Trainers/NormalizeComponentsUnitInterval.h>
#include <shark/Algorithms/Trainers/NormalizeComponentsWhitening.h>
#include <shark/Algorithms/Trainers/NormalizeComponentsZCA.h>
#include <cstdio>
#include <fstream>
#include <iostream>
#include <sstream>
using namespace shark;

// reuse mode (argv[2] == "reuse"): every trainer object (and the model it writes into) is first trained on an unrelated earlier
// data set of another size and dimension and then on the data of the case; the result must not depend on that history
static bool g_reuse = false;
static std::vector<RealVector> prevPoints(std::size_t n, std::size_t d) {
	std::vector<RealVector> r; unsigned long st = 12345;
	for (std::size_t i = 0; i != n; ++i) { RealVector x(d); for (std::size_t j = 0; j != d; ++j) { st = (st * 1103515245UL + 12345UL) % 2147483648UL; x(j) = double(st % 17) - 8.0; } r.push_back(x); }
	return r;
}
// well-conditioned earlier data (more points than dimensions, every class populated)
static UnlabeledData<RealVector> prevData(std::size_t d) { return createDataFromRange(prevPoints(3 * (d + 1) + 2, d + 1), 4); }
static LabeledData<RealVector, unsigned int> prevLabeled(std::size_t d, unsigned K) {
	std::vector<RealVector> x = prevPoints(K * (2 * (d + 1) + 3), d + 1); std::vector<unsigned int> y; for (std::size_t i = 0; i != x.size(); ++i) y.push_back((unsigned)(i % K));
	return createLabeledDataFromRange(x, y, 4);
}
static double num(std::string const& t) {
	std::size_t p = t.find('/');
	if (p == std::string::npos) return std::stod(t);
	return std::stod(t.substr(0, p)) / std::stod(t.substr(p + 1));
}
static void pv(std::ostream& o, char const* key, std::vector<double> const& v) {
	o << " " << key << "=";
	char buf[64];
	for (std::size_t i = 0; i != v.size(); ++i) { std::snprintf(buf, sizeof buf, "%a", v[i]); if (i) o << ","; o << buf; }
}
template<class V> static std::vector<double> vec(V const& v) { std::vector<double> r; for (std::size_t i = 0; i != v.size(); ++i) r.push_back(v(i)); return r; }
template<class M> static std::vector<double> mat(M const& m) { std::vector<double> r; for (std::size_t i = 0; i != m.size1(); ++i) for (std::size_t j = 0; j != m.size2(); ++j) r.push_back(m(i, j)); return r; }

struct Case {
	std::string kind; std::vector<std::string> args; std::vector<std::size_t> sizes;
	std::vector<double> X, E1, E2;
};
static Case parse(std::string const& line) {
	Case c; std::istringstream is(line); std::string tok; int sec = 0;
	while (is >> tok) {
		if (tok == "|") { ++sec; continue; }
		if (sec == 0) { if (c.kind.empty()) c.kind = tok; else c.args.push_back(tok); }
		else if (sec == 1) c.sizes.push_back(std::stoul(tok));
		else if (sec == 2) c.X.push_back(num(tok));
		else if (sec == 3) c.E1.push_back(num(tok));
		else c.E2.push_back(num(tok));
	}
	return c;
}
static std::vector<RealVector> rows(std::vector<double> const& x, std::size_t n, std::size_t d) {
	std::vector<RealVector> r;
	for (std::size_t i = 0; i != n; ++i) { RealVector v(d); for (std::size_t j = 0; j != d; ++j) v(j) = x[i * d + j]; r.push_back(v); }
	return r;
}
template<class Model> static std::vector<double> outputs(Model& m, Data<RealVector> const& data) {
	std::vector<double> r; Data<RealVector> out = m(data);
	for (auto const& e : out.elements()) for (std::size_t j = 0; j != e.size(); ++j) r.push_back(e(j));
	return r;
}

static void run(Case const& c, std::ostream& o) {
	std::size_t na = c.args.size();
	std::string const& k = c.kind;
	if (k == "S" || k == "V" || k == "I" || k == "W" || k == "Z" || k == "P") {
		std::size_t n = std::stoul(c.args[na - 2]), d = std::stoul(c.args[na - 1]);
		UnlabeledData<RealVector> data = createDataFromRange(rows(c.X, n, d));
		data.repartition(c.sizes);
		if (k == "S") {
			RealVector m, v, m2; RealMatrix cov;
			meanvar(data, m, v); meanvar(data, m2, cov);
			RealVector m3 = mean(data); RealVector v3 = variance(data); RealMatrix cov3 = covariance(data);
			o << "OK"; pv(o, "mean", vec(m)); pv(o, "var", vec(v)); pv(o, "cov", mat(cov));
			pv(o, "mean2", vec(m2)); pv(o, "mean3", vec(m3)); pv(o, "var3", vec(v3)); pv(o, "cov3", mat(cov3));
		} else if (k == "V") {
			NormalizeComponentsUnitVariance<> t(c.args[0] == "1"); Normalizer<> mod; if (g_reuse) t.train(mod, prevData(d)); t.train(mod, data);
			o << "OK"; pv(o, "diag", vec(mod.diagonal())); pv(o, "off", vec(mod.offset())); pv(o, "out", outputs(mod, data));
		} else if (k == "I") {
			NormalizeComponentsUnitInterval<> t; Normalizer<> mod; if (g_reuse) t.train(mod, prevData(d)); t.train(mod, data);
			o << "OK"; pv(o, "diag", vec(mod.diagonal())); pv(o, "off", vec(mod.offset())); pv(o, "out", outputs(mod, data));
		} else if (k == "W") {
			NormalizeComponentsWhitening t(num(c.args[0])); LinearModel<> mod; if (g_reuse) t.train(mod, prevData(d)); t.train(mod, data);
			o << "OK rows=" << mod.matrix().size1(); pv(o, "mat", mat(mod.matrix())); pv(o, "off", vec(mod.offset())); pv(o, "out", outputs(mod, data));
		} else if (k == "Z") {
			NormalizeComponentsZCA t(num(c.args[0])); LinearModel<> mod; if (g_reuse) t.train(mod, prevData(d)); t.train(mod, data);
			o << "OK rows=" << mod.matrix().size1(); pv(o, "mat", mat(mod.matrix())); pv(o, "off", vec(mod.offset())); pv(o, "out", outputs(mod, data));
			// the answer of the eigen-decomposition oracle: train() decomposes a local covariance matrix; the same statements here
			{ RealVector mean_; RealMatrix covariance_; meanvar(data, mean_, covariance_); blas::symm_eigenvalue_decomposition<RealMatrix> eigen_(covariance_);
			  o << " on=" << d; pv(o, "oD", vec(eigen_.D())); pv(o, "oU", mat(eigen_.Q())); }
		} else {
			bool wh = c.args[0] == "1"; std::size_t m = std::stoul(c.args[1]);
			PCA pca(g_reuse ? prevData(d) : data, wh); if (g_reuse) pca.setData(data); LinearModel<> enc, dec; pca.encoder(enc, m); pca.decoder(dec, m);
			// the train() entry point: the number of components is taken from the model's output shape
			LinearModel<> tr(d, m ? m : std::min(n, d)); PCA pca2(wh); if (g_reuse) { LinearModel<> tmp(d + 1, 2); pca2.train(tmp, prevData(d)); } pca2.train(tr, data);
			o << "OK erows=" << enc.matrix().size1() << " vcols=" << pca.eigenvectors().size2();
			pv(o, "ev", vec(pca.eigenvalues())); pv(o, "evec", mat(pca.eigenvectors())); pv(o, "mean", vec(pca.mean()));
			pv(o, "encA", mat(enc.matrix())); pv(o, "encb", vec(enc.offset())); pv(o, "decA", mat(dec.matrix())); pv(o, "decb", vec(dec.offset()));
			pv(o, "trA", mat(tr.matrix())); pv(o, "trb", vec(tr.offset()));
			if (d > n) {
				UnlabeledData<RealVector> const& inputs = data; std::size_t m_l = n;
				RealVector m_mean = shark::mean(inputs);
				RealMatrix S(m_l, m_l, 0.0);
				std::size_t start1 = 0;
				for (std::size_t b1 = 0; b1 != inputs.numberOfBatches(); ++b1) {
					std::size_t batchSize1 = inputs.batch(b1).size1();
					RealMatrix X1 = inputs.batch(b1) - repeat(m_mean, batchSize1);
					std::size_t start2 = 0;
					for (std::size_t b2 = 0; b2 != b1; ++b2) {
						std::size_t batchSize2 = inputs.batch(b2).size1();
						RealMatrix X2 = inputs.batch(b2) - repeat(m_mean, batchSize2);
						auto X1X2T = subrange(S, start1, start1 + batchSize1, start2, start2 + batchSize2);
						auto X2X1T = subrange(S, start2, start2 + batchSize2, start1, start1 + batchSize1);
						noalias(X1X2T) = prod(X1, trans(X2));
						noalias(X2X1T) = trans(X1X2T);
						start2 += batchSize2;
					}
					auto X1X1T = subrange(S, start1, start1 + batchSize1, start1, start1 + batchSize1);
					noalias(X1X1T) = prod(X1, trans(X1));
					start1 += batchSize1;
				}
				S /= m_l;
				blas::symm_eigenvalue_decomposition<RealMatrix> eigen(S);
				o << " on=" << n; pv(o, "oD", vec(eigen.D())); pv(o, "oU", mat(eigen.Q()));
			} else {
				o << " on=" << d; pv(o, "oD", vec(pca.eigenvalues())); pv(o, "oU", mat(pca.eigenvectors()));
			}
		}
		return;
	}
	if (k == "L") {
		std::size_t n = std::stoul(c.args[1]), d = std::stoul(c.args[2]), od = std::stoul(c.args[3]);
		LabeledData<RealVector, RealVector> data = createLabeledDataFromRange(rows(c.X, n, d), rows(c.E1, n, od));
		data.repartition(c.sizes);
		LinearRegression t(num(c.args[0])); LinearModel<> mod; if (g_reuse) { std::vector<RealVector> px = prevPoints(2 * d + 5, d + 1), py = prevPoints(2 * d + 5, od); LabeledData<RealVector, RealVector> pd = createLabeledDataFromRange(px, py, 3); t.train(mod, pd); } t.train(mod, data);
		o << "OK"; pv(o, "mat", mat(mod.matrix())); pv(o, "off", vec(mod.offset()));
		return;
	}
	if (k == "D" || k == "DW" || k == "F") {
		std::size_t n = std::stoul(c.args[na - 3]), d = std::stoul(c.args[na - 2]);
		std::vector<unsigned int> labs; for (double l : c.E1) labs.push_back((unsigned int)l);
		LabeledData<RealVector, unsigned int> data = createLabeledDataFromRange(rows(c.X, n, d), labs);
		data.repartition(c.sizes);
		if (k == "F") {
			FisherLDA t(c.args[0] == "1", std::stoul(c.args[1])); LinearModel<> mod; if (g_reuse) t.train(mod, prevLabeled(d, 3)); t.train(mod, data);
			o << "OK rows=" << mod.matrix().size1(); pv(o, "mat", mat(mod.matrix())); pv(o, "off", vec(mod.offset()));
			return;
		}
		LDA t(num(c.args[0])); LinearClassifier<> mod;
		if (g_reuse) t.train(mod, prevLabeled(d, 3));
		if (k == "D") t.train(mod, data);
		else {
			std::vector<double> w = c.E2; Data<double> wd = createDataFromRange(w); wd.repartition(c.sizes);
			WeightedLabeledData<RealVector, unsigned int> wdata(data, wd);
			t.train(mod, wdata);
		}
		o << "OK"; pv(o, "mat", mat(mod.decisionFunction().matrix())); pv(o, "bias", vec(mod.decisionFunction().offset()));
		return;
	}
	o << "?";
}

int main(int argc, char** argv) {
	if (argc > 2 && std::string(argv[1]) == "reuse") { g_reuse = true; argv[1] = argv[2]; }
	std::ifstream in(argv[1]); std::string line;
	while (std::getline(in, line)) {
		std::ostringstream o;
		try { run(parse(line), o); std::cout << o.str() << std::endl; }
		catch (shark::Exception const&) { std::cout << "EXC" << std::endl; }
		catch (std::exception const&) { std::cout << "STDEXC" << std::endl; }
	}
	return 0;
}
