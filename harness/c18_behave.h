// C18 serialization round-trip harness: GENERIC comparison of all advertised behaviours of a model / kernel.
//
// Parameters, shapes and eval() of a restored object can all be right while a cache that read() is supposed to
// rebuild from the streamed members is stale (seeded change C18-8: Conv2DModel's back-propagation filters).
// Therefore every model / kernel case of the harness additionally records, for the ORIGINAL and for the object
// restored (a) into a differently structured / differently parameterised object ("other") and (b) into a fresh
// default-constructed object ("default"; for classes that hold user-supplied pointers: the minimal construction
// around default-constructed parts), BEFORE any setter is called on the restored object:
//   eval (batch, stateless and with a state object; single pattern), and -- where the object advertises them
//   (hasFirstParameterDerivative / hasFirstInputDerivative) -- weightedParameterDerivative, weightedInputDerivative and
//   weightedDerivatives on a fixed probe batch and a FIXED coefficient matrix (a function of its shape only).
// Observable names: "B/<target>/<behaviour>[indices]"; tools/c18.py turns a difference into the key
// roundtrip:<Class>:<behaviour>.  Behaviours: flags, eval, eval-state, eval-single, parameter-derivative,
// input-derivative, weighted-derivatives.
#ifndef C18_BEHAVE_H
#define C18_BEHAVE_H

#include "c18_rt.h"

#include <shark/Models/AbstractModel.h>
#include <shark/Models/Kernels/AbstractKernelFunction.h>

namespace c18 {

// fixed coefficient matrix: full-mantissa values in [-1,1)\{0}, a function of the shape only
inline shark::RealMatrix fixedCoefficients(std::size_t m, std::size_t n) {
	Prng r(0xC18C0EFull + 1000003ull * m + n);
	shark::RealMatrix c(m, n);
	for (std::size_t i = 0; i != m; ++i) for (std::size_t j = 0; j != n; ++j) c(i, j) = r.sym();
	return c;
}

struct NoPrep { void operator()() const {} };

// ---------- recording of outputs of the different output types ----------
template<class T, class D> void recOut(Obs& o, std::string const& n, shark::blas::matrix<T, shark::blas::row_major, D> const& v) { o.mat(n, v); }
template<class T, class D> void recOut(Obs& o, std::string const& n, shark::blas::vector<T, D> const& v) { o.vec(n, v); }
inline void recOut(Obs& o, std::string const& n, unsigned int v) { o.u(n, v); }

// derivatives need a real-valued output batch (the coefficient matrix has its shape)
template<class Model, class Batch> struct DerivProbe {
	template<class In> static void run(Obs& o, Model const& m, In const&, Batch const&, shark::State const&) {
		// label outputs: such a model must not advertise derivatives; the flags themselves are compared by the caller
		(void)m;
		o.str("derivatives", "not-applicable(output-type)");
	}
};
template<class Model> struct DerivProbe<Model, shark::RealMatrix> {
	template<class In> static void run(Obs& o, Model const& m, In const& probes, shark::RealMatrix const& out, shark::State const& st) {
		shark::RealMatrix coeff = fixedCoefficients(out.size1(), out.size2());
		if (m.hasFirstParameterDerivative()) {
			typename Model::ParameterVectorType g;
			m.weightedParameterDerivative(probes, out, coeff, st, g);
			o.vec("parameter-derivative", g);
		}
		if (m.hasFirstInputDerivative()) {
			In d;
			m.weightedInputDerivative(probes, out, coeff, st, d);
			o.mat("input-derivative", d);
		}
		if (m.hasFirstParameterDerivative() && m.hasFirstInputDerivative()) {
			typename Model::ParameterVectorType g; In d;
			m.weightedDerivatives(probes, out, coeff, st, g, d);
			o.vec("weighted-derivatives.parameter", g);
			o.mat("weighted-derivatives.input", d);
		}
	}
};

// all advertised behaviours of one model on the probe batch.  `ok`: the caller's predicate "the internal dimensions
// fit the probes" (there are no size checks under NDEBUG); `single`: also evaluate pattern by pattern and probe the
// derivatives -- false only for the degenerate 0-input / 0-output model, where already the ORIGINAL misbehaves
// (LinearModel(): dgemv diagnostic on stdout, weightedParameterDerivative of the empty model segfaults in memset; that is
// not a serialization matter); `prep` is called before every evaluation (e.g. to re-seed an EXTERNAL random generator
// the model draws from).
// (taken through the AbstractModel interface: derived classes hide some of the eval overloads)
template<class I, class O, class P, class Prep>
Obs modelBehaviour(shark::AbstractModel<I, O, P> const& m, shark::RealMatrix const& probes, bool ok, bool single, Prep prep) {
	typedef shark::AbstractModel<I, O, P> Model;
	Obs o;
	o.b("flags.hasFirstParameterDerivative", m.hasFirstParameterDerivative());
	o.b("flags.hasFirstInputDerivative", m.hasFirstInputDerivative());
	o.b("eval.possible", ok);
	if (!ok) return o;
	typename Model::BatchOutputType out;
	prep();
	m.eval(probes, out);
	recOut(o, "eval", out);
	boost::shared_ptr<shark::State> st = m.createState();
	typename Model::BatchOutputType out2;
	prep();
	m.eval(probes, out2, *st);
	recOut(o, "eval-state", out2);
	for (std::size_t i = 0; single && i != probes.size1(); ++i) {
		shark::RealVector x = row(probes, i);
		typename Model::OutputType y;
		prep();
		m.eval(x, y);
		recOut(o, "eval-single[" + std::to_string(i) + "]", y);
	}
	o.b("derivatives.probed", single);
	if (single && (m.hasFirstParameterDerivative() || m.hasFirstInputDerivative()))
		DerivProbe<Model, typename Model::BatchOutputType>::run(o, m, probes, out2, *st);
	return o;
}
template<class I, class O, class P>
Obs modelBehaviour(shark::AbstractModel<I, O, P> const& m, shark::RealMatrix const& probes, bool ok, bool single = true) {
	return modelBehaviour(m, probes, ok, single, NoPrep());
}

// all advertised behaviours of one kernel on the probe batches X (n elements), Y (k elements); coefficients n x k
template<class In>
Obs kernelBehaviour(shark::AbstractKernelFunction<In> const& k, typename shark::Batch<In>::type const& X, typename shark::Batch<In>::type const& Y, bool ok = true) {
	Obs o;
	o.b("flags.hasFirstParameterDerivative", k.hasFirstParameterDerivative());
	o.b("flags.hasFirstInputDerivative", k.hasFirstInputDerivative());
	o.b("eval.possible", ok);
	if (!ok) return o;
	std::size_t n = shark::batchSize(X), kk = shark::batchSize(Y);
	shark::RealMatrix res;
	k.eval(X, Y, res);
	o.mat("eval", res);
	for (std::size_t i = 0; i != n; ++i) for (std::size_t j = 0; j != kk; ++j) {
		In x = shark::getBatchElement(X, i), y = shark::getBatchElement(Y, j);
		o.d(Obs::idx("eval-single", i, j), k.eval(x, y));
	}
	boost::shared_ptr<shark::State> st = k.createState();
	shark::RealMatrix res2;
	k.eval(X, Y, res2, *st);
	o.mat("eval-state", res2);
	shark::RealMatrix coeff = fixedCoefficients(n, kk);
	if (k.hasFirstParameterDerivative()) {
		shark::RealVector g;
		k.weightedParameterDerivative(X, Y, coeff, *st, g);
		o.vec("parameter-derivative", g);
	}
	if (k.hasFirstInputDerivative()) {
		typename shark::Batch<In>::type g;
		k.weightedInputDerivative(X, Y, coeff, *st, g);
		recOut(o, "input-derivative", g);
	}
	return o;
}

// append the behaviour lists of the original and of one restored object under "B/<target>/"
inline void pairBehaviour(Ctx& c, std::string const& target, Obs const& orig, Obs const& restored) {
	for (std::size_t i = 0; i != orig.items.size(); ++i) c.A.str("B/" + target + "/" + orig.items[i].first, orig.items[i].second);
	for (std::size_t i = 0; i != restored.items.size(); ++i) c.B.str("B/" + target + "/" + restored.items[i].first, restored.items[i].second);
}

// a restored object under its target name
template<class T> struct Target {
	std::string name; T const* obj; bool ok;
	Target(std::string const& n, T const& o, bool k) : name(n), obj(&o), ok(k) {}
};

// original `a` (probes fit: okA) against every restored target
template<class M> void compareModelBehaviour(Ctx& c, M const& a, bool okA, std::vector<Target<M> > const& targets, shark::RealMatrix const& probes, bool single = true) {
	Obs ba = modelBehaviour(a, probes, okA, single);
	for (std::size_t t = 0; t != targets.size(); ++t)
		pairBehaviour(c, targets[t].name, ba, modelBehaviour(*targets[t].obj, probes, targets[t].ok, single));
}

} // namespace c18
#endif
