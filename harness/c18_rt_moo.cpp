// C18 round-trip cases: multi-objective optimizers (SMS-EMOA, MO-CMA-ES, steady-state MO-CMA-ES, NSGA-II with
// hypervolume / epsilon / crowding indicator, NSGA-III, MOEA/D, RVEA) and their building blocks (indicators with
// their reference point, indicator-based selection, variation operators, individuals with CMA chromosome).
//
// Protocol for every optimizer class (the same as in c18_rt_opt.cpp):
//   A = optimizer with NON-default configuration (population size, variation strengths, indicator reference point
//       when the variant says so), init on `mu` random feasible points, stepped k times (k from the variant)
//   B = fresh optimizer of the same type with another population size and default configuration, init on other
//       points and stepped twice (all of its internal state differs from A's)
//   write A, read into B
//   observables: the current solution set (points and values), the configuration reachable through getters, and the
//   solution sets after each of three further steps. The external random generators are re-seeded identically
//   right before A continues and right before B continues.
#include "c18_rt.h"

#include <memory>

#include <shark/Core/Random.h>
#include <shark/ObjectiveFunctions/Benchmarks/ZDT1.h>
#include <shark/ObjectiveFunctions/Benchmarks/DTLZ2.h>
#include <shark/Algorithms/DirectSearch/SMS-EMOA.h>
#include <shark/Algorithms/DirectSearch/MOCMA.h>
#include <shark/Algorithms/DirectSearch/SteadyStateMOCMA.h>
#include <shark/Algorithms/DirectSearch/RealCodedNSGAII.h>
#include <shark/Algorithms/DirectSearch/RealCodedNSGAIII.h>
#include <shark/Algorithms/DirectSearch/MOEAD.h>
#include <shark/Algorithms/DirectSearch/RVEA.h>
#include <shark/Algorithms/DirectSearch/Individual.h>
#include <shark/Algorithms/DirectSearch/CMA/CMAIndividual.h>
#include <shark/Algorithms/DirectSearch/Operators/Indicators/HypervolumeIndicator.h>
#include <shark/Algorithms/DirectSearch/Operators/Indicators/NSGA3Indicator.h>
#include <shark/Algorithms/DirectSearch/Operators/Selection/IndicatorBasedSelection.h>
#include <shark/Algorithms/DirectSearch/Operators/Recombination/SimulatedBinaryCrossover.h>
#include <shark/Algorithms/DirectSearch/Operators/Recombination/UniformCrossover.h>
#include <shark/Algorithms/DirectSearch/Operators/Mutation/PolynomialMutation.h>
#include <shark/Algorithms/DirectSearch/Operators/Mutation/BitflipMutator.h>

using namespace shark;
using namespace c18;

namespace {

typedef AbstractMultiObjectiveOptimizer<RealVector>::ObjectiveFunctionType MooFunction;

std::vector<RealVector> randPoints(Prng& r, std::size_t count, std::size_t n) {
	std::vector<RealVector> pts(count, RealVector(n));
	for (std::size_t i = 0; i != count; ++i)
		for (std::size_t j = 0; j != n; ++j) pts[i](j) = r.uni();
	return pts;
}

bool contOnly(std::string const& variant) { return variant.size() > 5 && variant.compare(variant.size() - 5, 5, "_cont") == 0; }
std::string core(std::string const& variant) { return contOnly(variant) ? variant.substr(0, variant.size() - 5) : variant; }
std::string flavourOf(std::string const& variant) { std::string v = core(variant); return v.substr(0, v.size() - 3); }
std::size_t stepsOf(std::string const& variant) { std::string v = core(variant); return (std::size_t)(v[v.size() - 1] - '0'); }
// flavours are '_'-separated words ("noref_individual"): whole-word test
bool has(std::string const& fl, char const* what) { return ("_" + fl + "_").find("_" + std::string(what) + "_") != std::string::npos; }

// Reference point for the 2-objective benchmark ZDT1 (f1 in [0,1], f2 in [0,10]): just outside the attainable box, so
// that the boundary points of a front get SMALL contributions and are removed first -- without a reference point the
// indicator never removes an extreme point, so the selection (and every later iterate) depends on the reference.
RealVector refPoint(Prng& r, std::size_t objectives) {
	RealVector ref(objectives);
	for (std::size_t i = 0; i != objectives; ++i) ref(i) = (i == 0 ? 1.0 : 10.0) + (1.0 + r.uni()) / 1024;
	return ref;
}

// ---------- per-class traits ----------
// objectives: number of objectives of the benchmark (2: ZDT1, 3: DTLZ2)
template<class Opt> struct Tr;

template<> struct Tr<SMSEMOA> {
	typedef SMSEMOA O;
	enum { objectives = 2 };
	static void configure(O& o, Prng& r, std::string const& fl, bool orig) {
		o.mu() = orig ? 8 : 11;
		if (!orig) return;           // (SMSEMOA has no setters for nm / nc / crossover probability)
		if (has(fl, "ref")) o.indicator().setReference(refPoint(r, 2));
	}
	static void extra(Obs& ob, O const& o) {
		ob.u("mu", o.mu()); ob.d("nm", o.nm()); ob.d("nc", o.nc()); ob.d("crossoverProbability", o.crossoverProbability());
	}
};

template<class Indicator> struct MocmaTr {
	typedef IndicatorBasedMOCMA<Indicator> O;
	enum { objectives = 2 };
	static void configure(O& o, Prng& r, std::string const& fl, bool orig) {
		o.mu() = orig ? 6 : 9;
		if (!orig) return;
		o.initialSigma() = 0.25 + r.uni() / 8;
		if (has(fl, "individual")) o.notionOfSuccess() = O::IndividualBased;
	}
	static void extra(Obs& ob, O const& o) {
		ob.u("mu", o.mu()); ob.d("initialSigma", o.initialSigma()); ob.i("notionOfSuccess", (long long)o.notionOfSuccess());
	}
};
template<> struct Tr<MOCMA> : MocmaTr<HypervolumeIndicator> {
	static void configure(O& o, Prng& r, std::string const& fl, bool orig) {
		MocmaTr<HypervolumeIndicator>::configure(o, r, fl, orig);
		if (orig && has(fl, "ref")) o.indicator().setReference(refPoint(r, 2));
	}
};
template<> struct Tr<EpsilonMOCMA> : MocmaTr<AdditiveEpsilonIndicator> {};

template<> struct Tr<SteadyStateMOCMA> {
	typedef SteadyStateMOCMA O;
	enum { objectives = 2 };
	static void configure(O& o, Prng& r, std::string const& fl, bool orig) {
		o.mu() = orig ? 6 : 9;
		if (!orig) return;
		o.initialSigma() = 0.25 + r.uni() / 8;
		if (has(fl, "individual")) o.notionOfSuccess() = O::IndividualBased;
		if (has(fl, "ref")) o.indicator().setReference(refPoint(r, 2));
	}
	static void extra(Obs& ob, O const& o) {
		ob.u("mu", o.mu()); ob.d("initialSigma", o.initialSigma()); ob.i("notionOfSuccess", (long long)o.notionOfSuccess());
	}
};

template<class O_, int Objectives> struct NsgaTr {
	typedef O_ O;
	enum { objectives = Objectives };
	static void configure(O& o, Prng& r, std::string const&, bool orig) {
		o.mu() = orig ? 8 : 12;
		if (!orig) return;
		o.nm() = 12.0 + r.uni(); o.nc() = 14.0 + r.uni(); o.crossoverProbability() = 0.75 + r.uni() / 8;
	}
	static void extra(Obs& ob, O const& o) {
		ob.u("mu", o.mu()); ob.d("nm", o.nm()); ob.d("nc", o.nc()); ob.d("crossoverProbability", o.crossoverProbability());
	}
};
template<> struct Tr<RealCodedNSGAII> : NsgaTr<RealCodedNSGAII, 2> {
	static void configure(O& o, Prng& r, std::string const& fl, bool orig) {
		NsgaTr<RealCodedNSGAII, 2>::configure(o, r, fl, orig);
		if (orig && has(fl, "ref")) o.indicator().setReference(refPoint(r, 2));
	}
};
template<> struct Tr<EpsRealCodedNSGAII> : NsgaTr<EpsRealCodedNSGAII, 2> {};
template<> struct Tr<CrowdingRealCodedNSGAII> : NsgaTr<CrowdingRealCodedNSGAII, 2> {};
template<> struct Tr<RealCodedNSGAIII> : NsgaTr<RealCodedNSGAIII, 3> {};

template<> struct Tr<MOEAD> {
	typedef MOEAD O;
	enum { objectives = 3 };
	static void configure(O& o, Prng& r, std::string const&, bool orig) {
		o.mu() = orig ? 10 : 15;
		o.neighbourhoodSize() = orig ? 4 : 5;
		if (!orig) return;
		o.nm() = 12.0 + r.uni(); o.nc() = 14.0 + r.uni(); o.crossoverProbability() = 0.75 + r.uni() / 8;
	}
	static void extra(Obs& ob, O const& o) {
		ob.u("mu", o.mu()); ob.u("neighbourhoodSize", o.neighbourhoodSize());
		ob.d("nm", o.nm()); ob.d("nc", o.nc()); ob.d("crossoverProbability", o.crossoverProbability());
	}
};

template<> struct Tr<RVEA> {
	typedef RVEA O;
	enum { objectives = 3 };
	static void configure(O& o, Prng& r, std::string const&, bool orig) {
		o.approxMu() = orig ? 10 : 15;
		o.maxIterations() = orig ? 20 : 50;
		if (!orig) return;
		o.nm() = 12.0 + r.uni(); o.nc() = 14.0 + r.uni(); o.crossoverProbability() = 0.75 + r.uni() / 8;
		o.alpha() = 1.5 + r.uni() / 4; o.adaptationFrequency() = 0.25;
	}
	static void extra(Obs& ob, O const& o) {
		ob.u("mu", o.mu()); ob.u("approxMu", o.approxMu()); ob.u("maxIterations", o.maxIterations());
		ob.d("nm", o.nm()); ob.d("nc", o.nc()); ob.d("crossoverProbability", o.crossoverProbability());
		ob.d("alpha", o.alpha()); ob.d("adaptationFrequency", o.adaptationFrequency());
		ob.mat("referenceVectors", o.referenceVectors());
		ob.mat("initialReferenceVectors", o.initialReferenceVectors());
	}
};

template<class O> void obsSolution(Obs& ob, std::string const& name, O const& o) {
	ob.u(name + ".size", o.solution().size());
	for (std::size_t i = 0; i != o.solution().size(); ++i) {
		ob.vec(Obs::idx(name, i) + ".point", o.solution()[i].point);
		ob.vec(Obs::idx(name, i) + ".value", o.solution()[i].value);
	}
}

template<class O> void continueAndObserve(Obs& ob, O& o, MooFunction const& f, bool contOnly) {
	if (!contOnly) {
		obsSolution(ob, "solution", o);
		Tr<O>::extra(ob, o);
	}
	for (std::size_t s = 0; s != 3; ++s) {
		o.step(f);
		obsSolution(ob, "next[" + std::to_string(s) + "]", o);
	}
	Tr<O>::extra(ob, o);
}

// How the object reaches the archive. `archive << optimizer` is the documented way (ISerializable supplies the Boost
// `serialize(Archive&, unsigned)` member, which forwards to the virtual read()/write()).  RVEA and MOEAD declare a
// one-parameter member template `serialize(Archive&)`; it hides ISerializable's member, so `archive << rvea` does not
// compile at all.  The only way to stream them is through a reference to the interface (what generic code holding an
// AbstractOptimizer / ISerializable reference does), and that reaches ISerializable's empty default read()/write().
template<class O> struct Transfer { static void run(Ctx& c, O const& a, O& b) { c.transfer(a, b); } };
template<class O> struct TransferViaInterface {
	static void run(Ctx& c, O const& a, O& b) { c.transfer(static_cast<ISerializable const&>(a), static_cast<ISerializable&>(b)); }
};
template<> struct Transfer<MOEAD> : TransferViaInterface<MOEAD> {};
template<> struct Transfer<RVEA> : TransferViaInterface<RVEA> {};

template<class O> void mooCase(Ctx& c, std::string const& variant) {
	Prng r(c.seed);
	std::string fl = flavourOf(variant);
	std::size_t k = stepsOf(variant);
	std::size_t n = 5;
	benchmarks::ZDT1 f2(n);
	benchmarks::DTLZ2 f3(n);
	f3.setNumberOfObjectives(3);
	MooFunction const& f = ((int)Tr<O>::objectives == 2) ? static_cast<MooFunction const&>(f2) : static_cast<MooFunction const&>(f3);

	random::rng_type rngA, rngB;
	rngA.seed((unsigned)(c.seed * 2 + 11));
	rngB.seed((unsigned)(c.seed * 2 + 12));
	random::globalRng.seed((unsigned)(c.seed + 4242));

	std::unique_ptr<O> a(new O(rngA)), b(new O(rngB));
	Tr<O>::configure(*a, r, fl, true);
	a->init(f, randPoints(r, a->numInitPoints(), n));
	for (std::size_t s = 0; s != k; ++s) a->step(f);

	Tr<O>::configure(*b, r, fl, false);
	b->init(f, randPoints(r, b->numInitPoints(), n));
	for (std::size_t s = 0; s != 2; ++s) b->step(f);

	Transfer<O>::run(c, *a, *b);

	unsigned cont = (unsigned)(c.seed * 7 + 99);
	rngA.seed(cont); rngB.seed(cont); random::globalRng.seed(cont);
	continueAndObserve(c.A, *a, f, contOnly(variant));
	rngA.seed(cont); rngB.seed(cont); random::globalRng.seed(cont);
	continueAndObserve(c.B, *b, f, contOnly(variant));
}

template<class O> void addK(std::vector<Case>& v, std::string const& cls, std::string const& flavour) {
	char const* ks[] = {"_k0", "_k1", "_k3"};
	for (int i = 0; i != 3; ++i) addCase(v, cls, flavour + ks[i], &mooCase<O>);
	addCase(v, cls, flavour + "_k3_cont", &mooCase<O>);
}

// ---------- building blocks ----------
std::vector<RealVector> randFront(Prng& r, std::size_t count, std::size_t objectives) {
	// mutually non-dominated points in 2-D (x ascending, y descending), arbitrary positive points otherwise
	std::vector<RealVector> pts(count, RealVector(objectives));
	double x = 0.0, y = 10.0;
	for (std::size_t i = 0; i != count; ++i) {
		if (objectives == 2) {
			x += 0.25 + r.uni(); y -= 0.25 + r.uni();
			pts[i](0) = x; pts[i](1) = y;
		} else for (std::size_t j = 0; j != objectives; ++j) pts[i](j) = 0.125 + r.uni();
	}
	return pts;
}

void obsHvIndicator(Obs& o, HypervolumeIndicator const& ind, std::vector<RealVector> const& front) {
	o.d("approximationEpsilon", ind.approximationEpsilon());
	o.d("approximationDelta", ind.approximationDelta());
	std::vector<RealVector> none;
	o.u("leastContributor", ind.leastContributor(front, none));
	std::vector<std::size_t> l = ind.leastContributors(front, none, 3);
	for (std::size_t i = 0; i != l.size(); ++i) o.u(Obs::idx("leastContributors", i), l[i]);
}
// variant: ref (reference point set; chosen such that an EXTREME point of the front has the smallest contribution,
// which can never be reported without a reference point) | noref_fresh_ref (the fresh indicator has one, the original not)
// | approx (non-default approximation parameters)
void hvIndicatorCase(Ctx& c, std::string const& variant) {
	Prng r(c.seed);
	std::vector<RealVector> front = randFront(r, 6, 2);
	HypervolumeIndicator a, b;
	RealVector ref(2);
	ref(0) = front.back()(0) + 1.0 / 1024;     // the last point (largest x) contributes a sliver only
	ref(1) = front.front()(1) + 4.0;
	if (variant == "ref") a.setReference(ref);
	if (variant == "noref_fresh_ref") b.setReference(ref);
	if (variant == "approx") { a.approximationEpsilon() = 0.125 + r.uni() / 16; a.approximationDelta() = 0.25 + r.uni() / 16; a.setReference(ref); }
	c.transfer(a, b);
	obsHvIndicator(c.A, a, front);
	obsHvIndicator(c.B, b, front);
}

void obsNsga3Indicator(Obs& o, NSGA3Indicator const& ind, std::vector<RealVector> const& front) {
	std::vector<RealVector> none;
	std::vector<std::size_t> l = ind.leastContributors(front, none, 3);
	o.u("leastContributors.size", l.size());
	for (std::size_t i = 0; i != l.size(); ++i) o.u(Obs::idx("leastContributors", i), l[i]);
}
void nsga3IndicatorCase(Ctx& c, std::string const&) {
	Prng r(c.seed);
	std::vector<RealVector> front = randFront(r, 8, 3);
	NSGA3Indicator a, b;
	a.setReferencePoints(randFront(r, 5, 3));
	b.setReferencePoints(randFront(r, 3, 3));
	c.transfer(a, b);
	obsNsga3Indicator(c.A, a, front);
	obsNsga3Indicator(c.B, b, front);
}

typedef Individual<RealVector, RealVector> PlainIndividual;
std::vector<PlainIndividual> randPopulation(Prng& r, std::size_t count) {
	std::vector<RealVector> front = randFront(r, count, 2);
	std::vector<PlainIndividual> pop(count);
	for (std::size_t i = 0; i != count; ++i) {
		pop[i].searchPoint() = RealVector(2, (double)i);
		pop[i].penalizedFitness() = front[i];
		pop[i].unpenalizedFitness() = front[i];
	}
	return pop;
}
void obsSelection(Obs& o, IndicatorBasedSelection<HypervolumeIndicator>& sel, std::vector<PlainIndividual> pop) {
	sel(pop, 4);
	for (std::size_t i = 0; i != pop.size(); ++i) {
		o.b(Obs::idx("selected", i), pop[i].selected());
		o.u(Obs::idx("rank", i), pop[i].rank());
	}
}
void selectionCase(Ctx& c, std::string const&) {
	Prng r(c.seed);
	std::vector<PlainIndividual> pop = randPopulation(r, 7);
	IndicatorBasedSelection<HypervolumeIndicator> a, b;
	RealVector ref(2);
	ref(0) = pop.back().penalizedFitness()(0) + 1.0 / 1024;
	ref(1) = pop.front().penalizedFitness()(1) + 4.0;
	a.indicator().setReference(ref);
	c.transfer(a, b);
	obsSelection(c.A, a, pop);
	obsSelection(c.B, b, pop);
}

template<class Op> void obsBoxOperatorFields(Obs& o, Op const& op) {
	o.d("prob", op.m_prob);
	o.vec("lower", op.m_lower);
	o.vec("upper", op.m_upper);
}
void sbxCase(Ctx& c, std::string const&) {
	Prng r(c.seed);
	std::size_t n = r.range(2, 5);
	SimulatedBinaryCrossover<RealVector> a, b;
	RealVector lo(n), up(n);
	for (std::size_t i = 0; i != n; ++i) { lo(i) = -1.0 - r.uni(); up(i) = 1.0 + r.uni(); }
	a.init(lo, up); a.m_nc = 7.0 + r.uni();
	b.init(RealVector(n + 1, -3.0), RealVector(n + 1, 3.0));
	c.transfer(a, b);
	for (int which = 0; which != 2; ++which) {
		SimulatedBinaryCrossover<RealVector> const& op = which ? b : a;
		Obs& o = which ? c.B : c.A;
		o.d("nc", op.m_nc);
		obsBoxOperatorFields(o, op);
		bool ok = op.m_lower.size() == n && op.m_upper.size() == n;
		o.b("applyPossible", ok);
		if (!ok) continue;
		Prng q(c.seed + 1);
		random::rng_type rng; rng.seed((unsigned)c.seed + 3);
		PlainIndividual i1, i2;
		i1.searchPoint() = RealVector(n); i2.searchPoint() = RealVector(n);
		for (std::size_t i = 0; i != n; ++i) { i1.searchPoint()(i) = q.sym(); i2.searchPoint()(i) = q.sym(); }
		for (int rep = 0; rep != 4; ++rep) op(rng, i1, i2);
		o.vec("child1", i1.searchPoint()); o.vec("child2", i2.searchPoint());
	}
}
void polyMutCase(Ctx& c, std::string const&) {
	Prng r(c.seed);
	std::size_t n = r.range(2, 5);
	PolynomialMutator a, b;
	RealVector lo(n), up(n);
	for (std::size_t i = 0; i != n; ++i) { lo(i) = -1.0 - r.uni(); up(i) = 1.0 + r.uni(); }
	a.init(lo, up); a.m_nm = 7.0 + r.uni();
	b.init(RealVector(n + 1, -3.0), RealVector(n + 1, 3.0));
	c.transfer(a, b);
	for (int which = 0; which != 2; ++which) {
		PolynomialMutator const& op = which ? b : a;
		Obs& o = which ? c.B : c.A;
		o.d("nm", op.m_nm);
		obsBoxOperatorFields(o, op);
		bool ok = op.m_lower.size() == n && op.m_upper.size() == n;
		o.b("applyPossible", ok);
		if (!ok) continue;
		Prng q(c.seed + 1);
		random::rng_type rng; rng.seed((unsigned)c.seed + 3);
		PlainIndividual i1;
		i1.searchPoint() = RealVector(n);
		for (std::size_t i = 0; i != n; ++i) i1.searchPoint()(i) = q.sym();
		for (int rep = 0; rep != 8; ++rep) op(rng, i1);
		o.vec("mutant", i1.searchPoint());
	}
}

typedef Individual<std::vector<bool>, double> BitIndividual;
void bitOpsCase(Ctx& c, std::string const& variant) {
	Prng r(c.seed);
	std::size_t n = 24;
	std::vector<bool> p1(n), p2(n);
	for (std::size_t i = 0; i != n; ++i) { p1[i] = r.coin(); p2[i] = r.coin(); }
	if (variant == "bitflip") {
		BitflipMutator a, b;
		a.m_mutationStrength = 0.25 + r.uni() / 4;   // fresh: the default
		c.transfer(a, b);
		for (int which = 0; which != 2; ++which) {
			BitflipMutator op = which ? b : a; Obs& o = which ? c.B : c.A;
			o.d("mutationStrength", op.m_mutationStrength);
			random::rng_type rng; rng.seed((unsigned)c.seed + 3);
			BitIndividual ind; ind.searchPoint() = p1;
			op(rng, ind);
			std::string s; for (std::size_t i = 0; i != n; ++i) s += ind.searchPoint()[i] ? '1' : '0';
			o.str("mutant", s);
		}
	} else {
		// (setMixingRatio accepts only ratios in [0.9, 1]; the default argument 0.5 of the constructor throws)
		UniformCrossover a(0.90625 + r.uni() / 16), b(1.0);
		c.transfer(a, b);
		RealVector m(n), d(n);
		for (std::size_t i = 0; i != n; ++i) { m(i) = p1[i] ? 1.0 : 0.0; d(i) = 2.0 + (p2[i] ? 1.0 : 0.0); }
		for (int which = 0; which != 2; ++which) {
			UniformCrossover const& op = which ? b : a; Obs& o = which ? c.B : c.A;
			o.d("mixingRatio", op.mixingRatio());
			random::rng_type rng; rng.seed((unsigned)c.seed + 3);
			RealVector ch = op(rng, m, d);
			o.vec("child", ch);
		}
	}
}

// Individual with CMA chromosome: streamed state incl. the Cholesky-factor distribution; observed through further
// mutation / update steps under the same generator state.
void obsCmaIndividual(Obs& o, CMAIndividual<RealVector>& ind, unsigned seed) {
	o.vec("searchPoint", ind.searchPoint());
	o.vec("penalizedFitness", ind.penalizedFitness());
	o.vec("unpenalizedFitness", ind.unpenalizedFitness());
	o.u("rank", ind.rank());
	o.b("selected", ind.selected());
	o.d("stepSize", ind.chromosome().m_stepSize);
	o.d("successProbability", ind.chromosome().m_successProbability);
	o.d("successThreshold", ind.chromosome().m_successThreshold);
	o.vec("evolutionPath", ind.chromosome().m_evolutionPath);
	o.vec("lastStep", ind.chromosome().m_lastStep);
	o.vec("lastZ", ind.chromosome().m_lastZ);
	o.mat("choleskyFactor", ind.chromosome().m_mutationDistribution.lowerCholeskyFactor());
	random::rng_type rng; rng.seed(seed);
	for (int s = 0; s != 3; ++s) {
		ind.mutate(rng);
		ind.updateAsOffspring();
		o.vec("mutated[" + std::to_string(s) + "]", ind.searchPoint());
		o.d("stepSize[" + std::to_string(s) + "]", ind.chromosome().m_stepSize);
	}
	ind.updateAsParent(CMAChromosome::Unsuccessful);
	o.d("stepSizeAfterFailure", ind.chromosome().m_stepSize);
	o.mat("choleskyFactorAfter", ind.chromosome().m_mutationDistribution.lowerCholeskyFactor());
}
void cmaIndividualCase(Ctx& c, std::string const&) {
	Prng r(c.seed);
	std::size_t n = r.range(2, 4);
	CMAIndividual<RealVector> a(n, 0.3 + r.uni() / 8, 0.5 + r.uni()), b(n + 1);
	random::rng_type rng; rng.seed((unsigned)c.seed + 5);
	a.searchPoint() = RealVector(n, 0.0);
	for (std::size_t i = 0; i != n; ++i) a.searchPoint()(i) = r.sym();
	a.penalizedFitness() = RealVector(2, r.uni()); a.unpenalizedFitness() = RealVector(2, r.uni());
	a.rank() = (unsigned)r.range(1, 5); a.selected() = true;
	for (int s = 0; s != 3; ++s) { a.mutate(rng); a.updateAsOffspring(); }
	b.searchPoint() = RealVector(n + 1, 1.0);
	c.transfer(a, b);
	obsCmaIndividual(c.A, a, (unsigned)c.seed + 9);
	obsCmaIndividual(c.B, b, (unsigned)c.seed + 9);
}

} // namespace

void c18::registerMoo(std::vector<Case>& v) {
	addK<SMSEMOA>(v, "SMSEMOA", "ref");
	addK<SMSEMOA>(v, "SMSEMOA", "noref");
	addK<MOCMA>(v, "MOCMA", "ref");
	addK<MOCMA>(v, "MOCMA", "noref_individual");
	addK<EpsilonMOCMA>(v, "EpsilonMOCMA", "plain");
	addK<SteadyStateMOCMA>(v, "SteadyStateMOCMA", "ref");
	addK<SteadyStateMOCMA>(v, "SteadyStateMOCMA", "noref_individual");
	addK<RealCodedNSGAII>(v, "RealCodedNSGAII", "ref");
	addK<RealCodedNSGAII>(v, "RealCodedNSGAII", "noref");
	addK<EpsRealCodedNSGAII>(v, "EpsRealCodedNSGAII", "plain");
	addK<CrowdingRealCodedNSGAII>(v, "CrowdingRealCodedNSGAII", "plain");
	addK<RealCodedNSGAIII>(v, "RealCodedNSGAIII", "plain");
	addK<MOEAD>(v, "MOEAD", "plain");
	addK<RVEA>(v, "RVEA", "plain");
	addCase(v, "HypervolumeIndicator", "ref", &hvIndicatorCase);
	addCase(v, "HypervolumeIndicator", "noref_fresh_ref", &hvIndicatorCase);
	addCase(v, "HypervolumeIndicator", "approx", &hvIndicatorCase);
	addCase(v, "NSGA3Indicator", "refpoints", &nsga3IndicatorCase);
	addCase(v, "IndicatorBasedSelection", "hypervolume_ref", &selectionCase);
	addCase(v, "SimulatedBinaryCrossover", "bounds", &sbxCase);
	addCase(v, "PolynomialMutator", "bounds", &polyMutCase);
	addCase(v, "BitflipMutator", "bitflip", &bitOpsCase);
	addCase(v, "UniformCrossover", "uniform", &bitOpsCase);
	addCase(v, "CMAIndividual", "adapted", &cmaIndividualCase);
}
