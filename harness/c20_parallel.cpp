// C20 runtime monitor harness: runs every anchored parallel routine once and prints canonical result
// lines; tools/c20.py runs it under OMP_NUM_THREADS in {1,2,3,7,16} (and, for the schedule(runtime)
// build, OMP_SCHEDULE variants) and compares against the single-threaded run.
//   c20_parallel <mode> <seed> [reps]
//   modes: det    integer-valued data (all sums exact in double): results must be bit-identical
//          tol    transcendental routines: 1e-12 relative
//          snn    SimpleNearestNeighbors only (F6 search; many queries, few batches)
//          f7     ErrorFunction over a model containing a DropoutLayer on random::globalRng (re-seeded)
//          share  concurrent shared copies / indexedSubset of one dataset from all threads
// -DC20_SCHEDULE_RUNTIME: the library's `omp parallel for` (implementation-defined default schedule) is
// compiled as `schedule(runtime)` so that OMP_SCHEDULE can explore other admissible schedules.
#include <vector>
#include <algorithm>
#include <cstdio>
#include <cstdlib>
#include <string>
#include <shark/Core/OpenMP.h>
#ifdef C20_SCHEDULE_RUNTIME
#undef SHARK_PARALLEL_FOR
#define SHARK_PARALLEL_FOR _Pragma("omp parallel for schedule(runtime)") for
#endif
#include <shark/Data/Dataset.h>
#include <shark/Data/WeightedDataset.h>
#include <shark/ObjectiveFunctions/ErrorFunction.h>
#include <shark/ObjectiveFunctions/Loss/SquaredLoss.h>
#include <shark/ObjectiveFunctions/KernelTargetAlignment.h>
#include <shark/ObjectiveFunctions/NegativeLogLikelihood.h>
#include <shark/Models/LinearModel.h>
#include <shark/Models/DropoutLayer.h>
#include <shark/Models/ConcatenatedModel.h>
#include <shark/Models/Kernels/LinearKernel.h>
#include <shark/Models/Kernels/GaussianRbfKernel.h>
#include <shark/Models/Kernels/KernelHelpers.h>
#include <shark/LinAlg/KernelMatrix.h>
#include <shark/Algorithms/NearestNeighbors/SimpleNearestNeighbors.h>
#include <shark/Algorithms/Trainers/RFTrainer.h>
#include <shark/Algorithms/DirectSearch/Operators/Hypervolume/HypervolumeContributionMD.h>
using namespace shark;

static unsigned long long rs = 1;
static unsigned rnd(unsigned n){ rs = rs * 6364136223846793005ULL + 1442695040888963407ULL; return (unsigned)((rs >> 33) % n); }

static void pv(const char* name, RealVector const& v){ printf("%s", name); for(std::size_t i = 0; i != v.size(); ++i) printf(" %a", v(i)); printf("\n"); }
static void pm(const char* name, RealMatrix const& m){ printf("%s", name); for(std::size_t i = 0; i != m.size1(); ++i) for(std::size_t j = 0; j != m.size2(); ++j) printf(" %a", m(i,j)); printf("\n"); }

static std::vector<RealVector> points(std::size_t n, std::size_t d, int lo, int hi, double scale = 1.0){
	std::vector<RealVector> v(n, RealVector(d));
	for(auto& x : v) for(std::size_t j = 0; j != d; ++j) x(j) = scale * (lo + (int)rnd(hi - lo + 1));
	return v;
}

struct Twice { typedef RealVector result_type; RealVector operator()(RealVector const& x) const { return 2.0 * x; } };

static void mode_det(std::size_t n, std::size_t bs){
	std::size_t d = 3, o = 2;
	auto in = points(n, d, -4, 4); auto lab = points(n, o, -3, 3);
	LabeledData<RealVector,RealVector> data = createLabeledDataFromRange(in, lab, bs);
	std::vector<double> w(n); for(auto& x : w) x = 1 + rnd(3);
	WeightedLabeledData<RealVector,RealVector> wdata(data, createDataFromRange(w, bs));
	LinearModel<> model(d, o, true);
	RealVector p(model.numberOfParameters()); for(auto& x : p) x = (int)rnd(5) - 2;
	model.setParameterVector(p);
	SquaredLoss<> loss;
	// sums of small integers are exact; the final division by n / sum of weights is one rounding of an exact value
	{ ErrorFunction<> e(data, &model, &loss); ErrorFunction<>::FirstOrderDerivative g;
	  printf("ef.eval %a\n", e.eval(p)); double v = e.evalDerivative(p, g); printf("ef.evalDerivative %a\n", v); pv("ef.gradient", g); }
	{ ErrorFunction<> e(wdata, &model, &loss); ErrorFunction<>::FirstOrderDerivative g;
	  printf("wef.eval %a\n", e.eval(p)); double v = e.evalDerivative(p, g); printf("wef.evalDerivative %a\n", v); pv("wef.gradient", g); }
	{ Data<RealVector> pred = model(data.inputs()); printf("loss.eval %a\n", loss.eval(data.labels(), pred)); }
	{ LinearKernel<> k; RealMatrix K = calculateRegularizedKernelMatrix(k, data.inputs(), 2.0); pm("gram.regularized", K);
	  auto in2 = points(n / 2 + 1, d, -4, 4); Data<RealVector> d2 = createDataFromRange(in2, bs > 1 ? bs - 1 : 1);
	  RealMatrix M = calculateMixedKernelMatrix(k, data.inputs(), d2); pm("gram.mixed", M);
	  KernelMatrix<RealVector,double> km(k, data.inputs()); std::vector<double> row(n);
	  km.row(n / 2, 0, n, row.data()); printf("kernelmatrix.row"); for(double x : row) printf(" %a", x); printf("\n"); }
	{ Data<RealVector> t1 = transform(data.inputs(), Twice()); Data<RealVector> t2 = transform(data.inputs(), model);
	  printf("transform.elementwise"); for(auto const& x : t1.elements()) for(double y : x) printf(" %a", y); printf("\n");
	  printf("transform.batchwise"); for(auto const& x : t2.elements()) for(double y : x) printf(" %a", y); printf("\n");
	  printf("transform.batches %zu %zu\n", t1.numberOfBatches(), t2.numberOfBatches()); }
}

static void mode_snn(std::size_t n, std::size_t bs, std::size_t q, std::size_t k){
	std::size_t d = 3;
	auto in = points(n, d, -20, 20);
	std::vector<unsigned int> lab(n); for(std::size_t i = 0; i != n; ++i) lab[i] = (unsigned)i;   // label = identity of the point
	LabeledData<RealVector,unsigned int> data = createLabeledDataFromRange(in, lab, bs);
	LinearKernel<> kern; SimpleNearestNeighbors<RealVector,unsigned int> nn(data, &kern);
	auto qs = points(q, d, -20, 20); RealMatrix Q(q, d); for(std::size_t i = 0; i != q; ++i) noalias(row(Q, i)) = qs[i];
	auto res = nn.getNeighbors(Q, k);
	// spec monitor in place: key must be the true distance to the point named by the label (labels are ids).
	// Coordinates are small integers, so the squared distance is exact and its sqrt is correctly rounded;
	// (SimpleNearestNeighbors reports distances, like TreeNearestNeighbors, since /repo commit fcb2bb5e).
	std::size_t bad = 0;
	for(std::size_t i = 0; i != res.size(); ++i){
		std::size_t qi = i / k; unsigned id = res[i].value;
		if(id >= n || std::sqrt(distanceSqr(qs[qi], in[id])) != res[i].key) ++bad;
	}
	printf("snn.keys"); for(auto const& r : res) printf(" %a", r.key); printf("\n");
	printf("snn.inconsistent_pairs %zu\n", bad);
}

static void mode_tol(std::size_t n, std::size_t bs){
	std::size_t d = 3;
	auto in = points(n, d, -8, 8, 0.25);
	std::vector<unsigned int> lab(n); for(auto& x : lab) x = rnd(3);
	ClassificationDataset cdata = createLabeledDataFromRange(in, lab, bs);
	{ GaussianRbfKernel<> k(0.3); KernelTargetAlignment<RealVector,unsigned int> kta(cdata, &k);
	  RealVector p = k.parameterVector(), g; printf("kta.eval %a\n", kta.eval(p)); printf("kta.evalDerivative %a\n", kta.evalDerivative(p, g)); pv("kta.gradient", g); }
	{ auto pos = points(n, d, 1, 6, 0.125); UnlabeledData<RealVector> ud = createDataFromRange(pos, bs);
	  LinearModel<> m(d, 1, true); RealVector p(m.numberOfParameters()); for(auto& x : p) x = 0.25 * (1 + rnd(4)); m.setParameterVector(p);
	  NegativeLogLikelihood nll(ud, &m); RealVector g; printf("nll.eval %a\n", nll.eval(p)); printf("nll.evalDerivative %a\n", nll.evalDerivative(p, g)); pv("nll.gradient", g); }
	{ std::size_t m = 9; auto pts = points(m, 5, 1, 9, 0.5); RealVector ref(5, 6.0);
	  HypervolumeContributionMD c;
	  auto a = c.smallest(pts, 3, ref); auto b = c.largest(pts, 3, ref);
	  printf("hvmd.smallest"); for(auto const& x : a) printf(" %a@%zu", x.key, x.value); printf("\n");
	  printf("hvmd.largest"); for(auto const& x : b) printf(" %a@%zu", x.key, x.value); printf("\n");
	  auto a2 = c.smallest(pts, 2); auto b2 = c.largest(pts, 2);
	  printf("hvmd.smallest_noref"); for(auto const& x : a2) printf(" %a@%zu", x.key, x.value); printf("\n");
	  printf("hvmd.largest_noref"); for(auto const& x : b2) printf(" %a@%zu", x.key, x.value); printf("\n"); }
	{ random::globalRng.seed(4711); RFTrainer<unsigned int> tr; tr.setNTrees(12); RFClassifier<unsigned int> rf; tr.train(rf, cdata);
	  // the order in which trees enter the ensemble is schedule dependent; the mean vote is compared
	  Data<RealVector> votes = rf.decisionFunction()(cdata.inputs());
	  printf("rf.votes"); for(auto const& x : votes.elements()) for(double y : x) printf(" %a", y); printf("\n");
	  printf("rf.trees %zu\n", rf.numberOfModels()); }
}

static void mode_f7(std::size_t n, std::size_t bs){
	std::size_t d = 4;
	auto in = points(n, d, -4, 4); auto lab = points(n, d, -3, 3);
	LabeledData<RealVector,RealVector> data = createLabeledDataFromRange(in, lab, bs);
	std::vector<double> w(n); for(auto& x : w) x = 1 + rnd(3);
	WeightedLabeledData<RealVector,RealVector> wdata(data, createDataFromRange(w, bs));
	LinearModel<> lin(d, d, true); DropoutLayer<RealVector> drop(Shape({d}), 0.5);   // default rng = random::globalRng
	auto model = lin >> drop;
	RealVector p(model.numberOfParameters()); for(auto& x : p) x = (int)rnd(5) - 2;
	model.setParameterVector(p);
	SquaredLoss<> loss; ErrorFunction<>::FirstOrderDerivative g;
	{ ErrorFunction<> e(data, &model, &loss);
	  random::globalRng.seed(12345); printf("f7.ef.eval %a\n", e.eval(p));
	  random::globalRng.seed(12345); printf("f7.ef.evalDerivative %a\n", e.evalDerivative(p, g)); }
	{ ErrorFunction<> e(wdata, &model, &loss);
	  random::globalRng.seed(12345); printf("f7.wef.eval %a\n", e.eval(p));
	  random::globalRng.seed(12345); printf("f7.wef.evalDerivative %a\n", e.evalDerivative(p, g)); }
	{ random::globalRng.seed(12345); Data<RealVector> t = transform(data.inputs(), model);
	  double s = 0; std::size_t i = 0; for(auto const& x : t.elements()){ for(double y : x) s += (++i) * y; } printf("f7.transform %a\n", s); }
	{ auto pos = points(n, d, 1, 6); UnlabeledData<RealVector> ud = createDataFromRange(pos, bs);
	  LinearModel<> l1(d, 1, true); RealVector q(l1.numberOfParameters()); for(auto& x : q) x = 1 + rnd(3); l1.setParameterVector(q);
	  DropoutLayer<RealVector> d1(Shape({1}), 0.5); auto m1 = l1 >> d1; RealVector pq = m1.parameterVector(), gg;
	  NegativeLogLikelihood nll(ud, &m1);
	  random::globalRng.seed(12345); printf("f7.nll.eval %a\n", nll.eval(pq));
	  random::globalRng.seed(12345); printf("f7.nll.evalDerivative %a\n", nll.evalDerivative(pq, gg)); }
}

static void mode_share(std::size_t n, std::size_t bs, std::size_t reps){
	auto in = points(n, 2, 0, 0); for(std::size_t i = 0; i != n; ++i){ in[i](0) = (double)i; in[i](1) = (double)(7 * i); }
	Data<RealVector> data = createDataFromRange(in, bs);
	std::size_t B = data.numberOfBatches();
	long bad = 0;
	#pragma omp parallel reduction(+:bad)
	{
		unsigned long long s = 17 + 31 * SHARK_THREAD_NUM;
		for(std::size_t r = 0; r != reps; ++r){
			Data<RealVector> copy = data;                       // shares every batch
			std::vector<std::size_t> idx;
			for(std::size_t b = 0; b != B; ++b){ s = s * 6364136223846793005ULL + 1442695040888963407ULL; if((s >> 40) & 1) idx.push_back(b); }
			Data<RealVector> sub = copy.indexedSubset(idx);     // shares the chosen batches
			Data<RealVector> sub2 = data.indexedSubset(idx);
			if(copy.numberOfElements() != n) ++bad;
			std::size_t e = 0;
			for(auto const& x : copy.elements()){ if(x(0) != (double)e || x(1) != (double)(7 * e)) ++bad; ++e; }
			std::size_t cnt = 0;
			for(std::size_t j = 0; j != idx.size(); ++j){
				auto const& a = sub.batch(j); auto const& b2 = sub2.batch(j); auto const& o = data.batch(idx[j]);
				if(a.size1() != o.size1() || b2.size1() != o.size1()) { ++bad; continue; }
				for(std::size_t i = 0; i != o.size1(); ++i) if(a(i,0) != o(i,0) || b2(i,1) != o(i,1)) ++bad;
				cnt += o.size1();
			}
			if(sub.numberOfElements() != cnt) ++bad;
		}
	}
	// the original must be untouched and solely owned again
	std::size_t e = 0; for(auto const& x : data.elements()){ if(x(0) != (double)e) ++bad; ++e; }
	printf("share.mismatches %ld\n", bad);
	printf("share.elements %zu\n", data.numberOfElements());
}

int main(int argc, char** argv){
	std::string mode = argc > 1 ? argv[1] : "det";
	rs = argc > 2 ? strtoull(argv[2], 0, 10) * 2654435761ULL + 1 : 1;
	std::size_t reps = argc > 3 ? strtoul(argv[3], 0, 10) : 1;
	try{
		for(std::size_t r = 0; r != reps; ++r){
			std::size_t n = 5 + rnd(40), bs = 1 + rnd(7);
			printf("case %zu n=%zu bs=%zu\n", r, n, bs);
			if(mode == "det") mode_det(n, bs);
			else if(mode == "tol") mode_tol(n, bs);
			else if(mode == "snn"){ std::size_t big = 2 + rnd(3); mode_snn(big * (3 + rnd(6)), (3 + rnd(6)) * 2, 5 + rnd(40), 1 + rnd(3)); }
			else if(mode == "f7") mode_f7(24 + rnd(16), 2 + rnd(3));
			else if(mode == "share") mode_share(n, bs, 200);
			fflush(stdout);
		}
	}catch(std::exception const& ex){ printf("EXC %s\n", ex.what()); return 3; }
	return 0;
}
